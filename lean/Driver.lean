import Lean.Data.Json
import PaneModel.Model.Build
import PaneModel.Model.Rename
import PaneModel.Model.Render
import PaneModel.Model.Cache
import PaneModel.Model.Order
import PaneModel.Model.Pane
import PaneModel.Lemmas.RoundTripDefs
import PaneModel.Model.IO
import PaneModel.Model.Broadcast
import PaneModel.Model.C3
import PaneModel.Model.TypingNorm
/-!
# Line-protocol driver: one JSON scenario per input line, one JSON result per output line.
Run with `lake env lean --run Driver.lean` (or as the compiled `driver` executable).
-/
open Lean PaneModel

abbrev P := Except String

def jstr (j : Json) : P String := j.getStr?
def jarr (j : Json) : P (Array Json) := j.getArr?
def jfield (j : Json) (k : String) : P Json := j.getObjVal? k
def jfieldD (j : Json) (k : String) (d : Json) : Json := (j.getObjVal? k).toOption.getD d
def jbool (j : Json) : P Bool := j.getBool?
def jnat (j : Json) : P Nat := do
  match j with
  | .str s => match s.toNat? with | some n => pure n | none => throw s!"bad nat {s}"
  | _ => j.getNat?
def jint (j : Json) : P Int := do
  match j with
  | .str s => match s.toInt? with | some n => pure n | none => throw s!"bad int {s}"
  | _ => j.getInt?

def parseFlt (j : Json) : P Flt := do
  match j with
  | .str "inf" => pure .inf
  | .str "-inf" => pure .ninf
  | .str "nan" => pure .nan
  | .arr a =>
    if a.size == 2 then do
      let m ← jint a[0]!
      let k ← jnat a[1]!
      pure (.fin m k)
    else throw "bad float"
  | _ => throw "bad float"

/-- a union member as the harness sends it: a canonical key, or a JSON array = nested union -/
partial def parseUMem (j : Json) : P (TypingNorm.UMem String) := do
  match j with
  | .str s => pure (.one s)
  | .arr a => return .nested (← a.toList.mapM parseUMem)
  | _ => throw "bad union member"

partial def parseVal (j : Json) : P Val := do
  match j with
  | .null => pure .none
  | .bool b => pure (.bool b)
  | .str s => pure (.str s)
  | .obj _ =>
    if let .ok x := jfield j "i" then return .int (← jint x)
    if let .ok x := jfield j "f" then return .float (← parseFlt x)
    if let .ok x := jfield j "c" then
      let a ← jarr x
      return .complex (← parseFlt a[0]!) (← parseFlt a[1]!)
    if let .ok x := jfield j "b" then return .bytes (← jstr x)
    if let .ok x := jfield j "ba" then return .bytearray (← jstr x)
    if let .ok x := jfield j "l" then return .list (← (← jarr x).toList.mapM parseVal)
    if let .ok x := jfield j "t" then return .tuple (← (← jarr x).toList.mapM parseVal)
    if let .ok x := jfield j "d" then return .dict (← parsePairs x)
    if let .ok x := jfield j "set" then return .set (← (← jarr x).toList.mapM parseVal)
    if let .ok x := jfield j "fset" then return .frozenset (← (← jarr x).toList.mapM parseVal)
    if let .ok x := jfield j "deque" then return .deque (← (← jarr x).toList.mapM parseVal)
    if let .ok x := jfield j "map" then
      let a ← jarr x
      return .mapOf (← jstr a[0]!) (← parsePairs a[1]!)
    if let .ok x := jfield j "op" then
      let a ← jarr x
      return .opaque (← jstr a[0]!) (← jstr a[1]!)
    if let .ok x := jfield j "en" then
      let a ← jarr x
      return .enumMem (← jstr a[0]!) (← jnat a[1]!)
    if let .ok x := jfield j "sub" then
      let a ← jarr x
      return .sub (← jstr a[0]!) (← parseVal a[1]!)
    if let .ok x := jfield j "obj" then
      let a ← jarr x
      let fs ← (← jarr a[1]!).toList.mapM fun p => do
        let q ← jarr p
        pure ((← jstr q[0]!), (← parseVal q[1]!))
      let st ← (← jarr a[2]!).toList.mapM jstr
      return .obj (← jstr a[0]!) fs st
    if let .ok x := jfield j "wrap" then
      let a ← jarr x
      return .wrap (← jstr a[0]!) (← parseVal a[1]!)
    throw s!"bad value {j.compress}"
  | _ => throw s!"bad value {j.compress}"
where
  parsePairs (x : Json) : P (List (Val × Val)) := do
    (← jarr x).toList.mapM fun p => do
      let q ← jarr p
      pure ((← parseVal q[0]!), (← parseVal q[1]!))

def fltJson : Flt → Json
  | .inf => .str "inf"
  | .ninf => .str "-inf"
  | .nan => .str "nan"
  | .fin m k => .arr #[.str (toString m), .str (toString k)]

partial def valJson : Val → Json
  | .none => .null
  | .bool b => .bool b
  | .str s => .str s
  | .int i => Json.mkObj [("i", .str (toString i))]
  | .float f => Json.mkObj [("f", fltJson f)]
  | .complex r i => Json.mkObj [("c", .arr #[fltJson r, fltJson i])]
  | .bytes s => Json.mkObj [("b", .str s)]
  | .bytearray s => Json.mkObj [("ba", .str s)]
  | .list xs => Json.mkObj [("l", .arr (xs.map valJson).toArray)]
  | .tuple xs => Json.mkObj [("t", .arr (xs.map valJson).toArray)]
  | .dict kvs => Json.mkObj [("d", pairs kvs)]
  | .set xs => Json.mkObj [("set", .arr (xs.map valJson).toArray)]
  | .frozenset xs => Json.mkObj [("fset", .arr (xs.map valJson).toArray)]
  | .deque xs => Json.mkObj [("deque", .arr (xs.map valJson).toArray)]
  | .mapOf k kvs => Json.mkObj [("map", .arr #[.str k, pairs kvs])]
  | .opaque t r => Json.mkObj [("op", .arr #[.str t, .str r])]
  | .enumMem e i => Json.mkObj [("en", .arr #[.str e, .num i])]
  | .sub c b => Json.mkObj [("sub", .arr #[.str c, valJson b])]
  | .obj c fs st => Json.mkObj [("obj", .arr #[.str c,
      .arr (fs.map fun (n, v) => Json.arr #[.str n, valJson v]).toArray, .arr (st.map Json.str).toArray])]
  | .wrap t v => Json.mkObj [("wrap", .arr #[.str t, valJson v])]
where
  pairs (kvs : List (Val × Val)) : Json := .arr (kvs.map fun (k, v) => Json.arr #[valJson k, valJson v]).toArray

def optStr : Option String → Json
  | some s => .str s
  | none => .null

partial def errJson : Err → Json
  | .wrongType e a c i => Json.mkObj [("wt", .arr #[.str e, valJson a, optStr c, optStr i])]
  | .wrongLen e lo hi a n => Json.mkObj [("wl", .arr #[.str e, .num lo, .num hi, valJson a, .num n])]
  | .condFailed e a n c => Json.mkObj [("cf", .arr #[.str e, valJson a, .str n, optStr c])]
  | .dupKey k al => Json.mkObj [("dk", .arr #[valJson k, .arr (al.map Json.str).toArray])]
  | .product e ks es a m x => Json.mkObj [("pr", .arr #[.str e,
      .arr ((ks.zip es).map fun (k, t) => Json.arr #[valJson k, errJson t]).toArray,
      valJson a, .arr (m.map valJson).toArray, .arr (x.map valJson).toArray])]
  | .sum cs => Json.mkObj [("sum", .arr (cs.map errJson).toArray)]

def excName : ExcCls → String
  | .keyError => "KeyError" | .typeError => "TypeError" | .valueError => "ValueError"
  | .overflowError => "OverflowError" | .reError => "error" | .attributeError => "AttributeError"
  | .zeroDivision => "ZeroDivisionError" | .assertion => "AssertionError" | .runtimeBug => "RuntimeError"
  | .other => "other"

def parseExcCls (s : String) : ExcCls :=
  match s with
  | "KeyError" => .keyError | "TypeError" => .typeError | "ValueError" => .valueError
  | "OverflowError" => .overflowError | "error" => .reError | "AttributeError" => .attributeError
  | "ZeroDivisionError" => .zeroDivision | "AssertionError" => .assertion | "RuntimeError" => .runtimeBug
  | "InvalidOperation" => .other | _ => .other

def segJson : Seg → Json
  | .lit s => .str s
  | .val v => Json.mkObj [("val", valJson v)]
  | .typ v => Json.mkObj [("typ", valJson v)]
  | .cause i m => Json.mkObj [("cause", .arr #[.str i, .str m])]

/-! ## conditions, types, env -/

def parseOp (s : String) : P CmpOp :=
  match s with
  | "gt" => pure .gt | "ge" => pure .ge | "lt" => pure .lt | "le" => pure .le | "eq" => pure .eq | "ne" => pure .ne
  | _ => throw s!"bad op {s}"

partial def parseCond (j : Json) : P CondExpr := do
  if let .ok x := jfield j "all" then return .all (← (← jarr x).toList.mapM parseCond)
  if let .ok x := jfield j "any" then return .any (← (← jarr x).toList.mapM parseCond)
  if let .ok x := jfield j "not" then return .not (← parseCond x)
  let name ← jstr (← jfield j "name")
  if let .ok x := jfield j "user" then
    let a ← jarr x
    return .leaf (.user (← jstr a[0]!) (← jint a[1]!)) name
  if let .ok x := jfield j "valCmp" then
    let a ← jarr x
    return .leaf (.valCmp (← parseOp (← jstr a[0]!)) (← parseVal a[1]!)) name
  if let .ok x := jfield j "lenCmp" then
    let a ← jarr x
    return .leaf (.lenCmp (← parseOp (← jstr a[0]!)) (← jnat a[1]!)) name
  if let .ok x := jfield j "stock" then return .leaf (.stock (← jstr x)) name
  if let .ok _ := jfield j "finite" then return .leaf .finite name
  throw s!"bad cond {j.compress}"

def parseFmt (j : Json) : P ExpFmt := do
  match j with
  | .str "satisfying" => pure .satisfying
  | .str "withName" => pure .withName
  | _ =>
    if let .ok x := jfield j "adjective" then
      let a ← jarr x
      return .adjective (← jstr a[0]!) (← jstr a[1]!)
    if let .ok x := jfield j "suffix" then return .suffix (← jstr x)
    throw s!"bad fmt {j.compress}"

def parseLayout (j : Json) : P Layout := do
  match j with
  | .str "internal" => pure .internal
  | .str "external" => pure .external
  | .arr a => pure (.adjacent (← jstr a[0]!) (← jstr a[1]!))
  | _ => throw "bad layout"

partial def parseTy (j : Json) : P Ty := do
  match j with
  | .str "any" => pure .any
  | .str "ndarray" => pure .ndarray
  | .str s => pure (.scalar s)
  | _ =>
    if let .ok x := jfield j "seq" then
      let a ← jarr x
      let arg ← match a[1]! with
        | .null => pure none
        | t => some <$> parseTy t
      return .seq (← jstr a[0]!) arg
    -- `{"vol": <ty or null>}`: `pane.types.ValueOrList[T]` / bare `ValueOrList`
    if let .ok x := jfield j "vol" then
      let arg ← match x with
        | .null => pure none
        | t => some <$> parseTy t
      return .valueOrList arg
    if let .ok x := jfield j "tuple" then return .tupleFixed (← (← jarr x).toList.mapM parseTy)
    if let .ok x := jfield j "map" then
      let a ← jarr x
      return .mapping (← jstr a[0]!) (← (← jarr a[1]!).toList.mapM parseTy)
    if let .ok x := jfield j "union" then return .union (← (← jarr x).toList.mapM parseTy)
    if let .ok x := jfield j "lit" then return .literal (← (← jarr x).toList.mapM parseVal)
    if let .ok x := jfield j "enum" then return .enum (← jstr x)
    if let .ok x := jfield j "sub" then
      let a ← jarr x
      return .sub (← jstr a[0]!) (← jstr a[1]!)
    if let .ok x := jfield j "struct" then
      let ps ← (← jarr x).toList.mapM fun p => do
        let q ← jarr p
        pure ((← jstr q[0]!), (← parseTy q[1]!))
      return .structLit (ps.map (·.1)) (ps.map (·.2))
    if let .ok x := jfield j "tuplit" then return .tupleLit (← (← jarr x).toList.mapM parseTy)
    if let .ok x := jfield j "cls" then
      let a ← jarr x
      return .cls (← jstr a[0]!) (← (← jarr a[1]!).toList.mapM parseTy)
    if let .ok x := jfield j "ann" then
      let a ← jarr x
      let anns ← (← jarr a[1]!).toList.mapM fun an => do
        if let .ok c := jfield an "cond" then
          return Ann.cond (← parseCond c) (← parseFmt (jfieldD an "fmt" (.str "satisfying")))
        if let .ok t := jfield an "tagged" then
          let q ← jarr t
          return Ann.tagged (← jstr q[0]!) (← parseLayout q[1]!)
        return Ann.foreign
      return .annotated (← parseTy a[0]!) anns
    if let .ok x := jfield j "typevar" then
      let a ← jarr x
      let bound ← match a[1]! with
        | .null => pure none
        | t => some <$> parseTy t
      return .typeVar (← jstr a[0]!) bound (← (← jarr a[2]!).toList.mapM parseTy)
    if let .ok x := jfield j "pattern" then
      return .pattern (match x with | .str s => some s | _ => none)
    if let .ok x := jfield j "fwd" then return .forwardRef (← jstr x)
    if let .ok x := jfield j "unsupported" then return .unsupported (← jstr x)
    throw s!"bad type {j.compress}"

def parseHandler (j : Json) : P Handler := do
  let es ← (← jarr (← jfield j "entries")).toList.mapM fun p => do
    let q ← jarr p
    pure ((← jstr q[0]!), (← jstr q[1]!))
  pure { entries := es, exactOnly := (← jbool (jfieldD j "exactOnly" (.bool false))) }

def parseHandlers (j : Json) : P Handlers := do
  match j with
  | .null => pure {}
  | _ =>
    let gs ← (← jarr (jfieldD j "globals" (.arr #[]))).toList.mapM parseHandler
    let cl ← (← jarr (jfieldD j "classLocal" (.arr #[]))).toList.mapM parseHandler
    pure { globals := gs, classLocal := cl }

def parseField (j : Json) : P FieldInfo := do
  let d := jfieldD j "default" (.str "missing")
  let dflt ← match d with
    | .str "missing" => pure DefaultKind.missing
    | _ =>
      if let .ok v := jfield d "value" then pure (DefaultKind.value (← parseVal v))
      else if let .ok f := jfield d "factory" then pure (DefaultKind.factory (← jstr f))
      else throw "bad default"
  pure {
    name := ← jstr (← jfield j "name")
    inNames := ← (← jarr (← jfield j "inNames")).toList.mapM jstr
    outName := ← jstr (← jfield j "outName")
    init := ← jbool (jfieldD j "init" (.bool true))
    exclude := ← jbool (jfieldD j "exclude" (.bool false))
    kwOnly := ← jbool (jfieldD j "kwOnly" (.bool false))
    default := dflt
    compare := ← jbool (jfieldD j "compare" (.bool true))
    hash := ← jbool (jfieldD j "hash" (.bool true))
    repr := ← jbool (jfieldD j "repr" (.bool true)) }

def parseInfo (j : Json) : P PaneInfo := do
  pure {
    name := ← jstr (← jfield j "name")
    fields := ← (← jarr (← jfield j "fields")).toList.mapM parseField
    inFormat := ← (← jarr (← jfield j "inFormat")).toList.mapM jstr
    outFormat := ← jstr (← jfield j "outFormat")
    allowExtra := ← jbool (jfieldD j "allowExtra" (.bool false))
    minPos := ← jnat (← jfield j "minPos")
    maxPos := ← jnat (← jfield j "maxPos")
    hook := match jfieldD j "hook" .null with | .str s => some s | _ => none }

def parseClass (j : Json) : P ClassEntry := do
  pure {
    key := ← jstr (← jfield j "key")
    info := ← parseInfo (← jfield j "info")
    fieldTys := ← (← jarr (← jfield j "fieldTys")).toList.mapM parseTy
    fieldConv := ← (← jarr (← jfield j "fieldConv")).toList.mapM fun x =>
      match x with | .str s => pure (some s) | _ => pure none
    classHandlers := ← (← jarr (jfieldD j "classHandlers" (.arr #[]))).toList.mapM parseHandler }

def optStrJ (j : Json) : Option String := match j with | .str s => some s | _ => none
def optListJ (j : Json) : P (Option (List String)) := do
  match j with
  | .arr a => pure (some (← a.toList.mapM jstr))
  | .str s => pure (some [s])
  | _ => pure none
def optBoolJ (j : Json) : Option Bool := match j with | .bool b => some b | _ => none

def parseDefault (d : Json) : P DefaultKind := do
  match d with
  | .null => pure .missing
  | .str "missing" => pure .missing
  | _ =>
    if let .ok v := jfield d "value" then pure (.value (← parseVal v))
    else if let .ok f := jfield d "factory" then pure (.factory (← jstr f))
    else throw "bad default"

def parseBodyItem (j : Json) : P BodyItem := do
  let ty := jfieldD j "ty" .null
  if ty == .str "KW_ONLY" then return .kwOnlyMarker
  let spec := jfieldD j "spec" (Json.mkObj [])
  let g := fun (k : String) => jfieldD spec k .null
  pure (.field {
    name := ← jstr (← jfield j "name")
    ty := ← parseTy ty
    rename := optStrJ (g "rename")
    inNames := ← optListJ (g "in_names")
    aliases := ← optListJ (g "aliases")
    outName := optStrJ (g "out_name")
    init := (optBoolJ (g "init")).getD true
    exclude := (optBoolJ (g "exclude")).getD false
    kwOnly := (optBoolJ (g "kw_only")).getD false
    compare := (optBoolJ (g "compare")).getD true
    hash := (optBoolJ (g "hash")).getD ((optBoolJ (g "compare")).getD true)
    repr := (optBoolJ (g "repr")).getD true
    default := ← parseDefault (jfieldD j "default" .null)
    converter := optStrJ (g "converter")
    viaFieldSpec := (match spec with | .obj kvs => !kvs.isEmpty | _ => false)
      || (match jfieldD j "default" .null with | .obj _ => (jfield (jfieldD j "default" .null) "factory").toOption.isSome | _ => false) })

def parseOptsOverride (o : Json) : P OptsOverride := do
  let g := fun (k : String) => jfieldD o k .null
  let custom ← match g "custom" with
    | .arr a => some <$> a.toList.mapM parseHandler
    | _ => pure none
  pure { outFormat := optStrJ (g "out_format"), inFormat := ← optListJ (g "in_format"),
         eq := optBoolJ (g "eq"), order := optBoolJ (g "order"), frozen := optBoolJ (g "frozen"),
         unsafeHash := optBoolJ (g "unsafe_hash"), kwOnly := optBoolJ (g "kw_only"), allowExtra := optBoolJ (g "allow_extra"),
         rename := optStrJ (g "rename"), inRename := ← optListJ (g "in_rename"), outRename := optStrJ (g "out_rename"),
         custom := custom }

def parseDecl (j : Json) : P ClassDeclM := do
  let base ← match jfieldD j "base" .null with
    | .null => pure none
    | b => do
      let a ← jarr (← jfield b "cls")
      pure (some ((← jstr a[0]!), (← (← jarr a[1]!).toList.mapM parseTy)))
  pure { name := ← jstr (← jfield j "name"), base := base
         tvars := ← (← jarr (jfieldD j "tvars" (.arr #[]))).toList.mapM jstr
         opts := ← parseOptsOverride (jfieldD j "opts" (Json.mkObj []))
         body := ← (← jarr (← jfield j "fields")).toList.mapM parseBodyItem
         hook := optStrJ (jfieldD j "hook" .null) }

/-- a pane class on the MRO of the class being created, as Python linearised it: a declared class, or a
subscripted alias `P[args]` with the variables it binds -/
inductive MroRef
  | decl (n : String)
  | alias (n : String) (bound : List (String × Ty))

def MroRef.cls : MroRef → String
  | .decl n => n
  | .alias n _ => n

/-- `mro`: the pane classes of `reversed(cls.__mro__[1:])` (far end first), when the harness supplies it -/
def parseMro (j : Json) : P (Option (List MroRef)) :=
  match jfieldD j "mro" .null with
  | .null => pure none
  | m => do
    let es ← (← jarr m).toList.mapM fun e => do
      match jfieldD e "alias" .null with
      | .null => pure (MroRef.decl (← jstr (← jfield e "decl")))
      | a => do
        let q ← jarr a
        let bound ← (← jarr q[1]!).toList.mapM fun b => do
          let bb ← jarr b
          pure ((← jstr bb[0]!), (← parseTy bb[1]!))
        pure (MroRef.alias (← jstr q[0]!) bound)
    pure (some es)

/-- process a list of declarations in order; each may name an earlier one as its (subscripted) base -/
def processAll : List (ClassDeclM × Option (List MroRef)) → List (String × ClassM) → Except ClassErr (List (String × ClassM))
  | [], acc => .ok acc
  | (d, mro) :: ds, acc =>
    let pp : Except ClassErr (List String) := match d.base with
      | none => .ok []
      | some (bn, bargs) =>
        match acc.lookup bn with
        | none => .error (.typeError ("unknown base " ++ bn))
        | some p => if bargs.isEmpty then .ok p.params else
          match subscriptBound p bargs with
          | .error e => .error e
          | .ok _ => .ok (dedupS (bargs.flatMap freeVars))
    let r : Except ClassErr ClassM := match mro with
      | some refs =>
        -- several bases (or a chain the harness linearised): the MRO loop
        match pp with
        | .error e => .error e
        | .ok pp =>
          let entries : List MroEntry := refs.map fun r => match r with
            | .decl n => { own := ((acc.lookup n).map (·.own)).getD [], bound := [] }
            | .alias _ b => { own := [], bound := b }
          let near := refs.reverse
          let baseOpts : Opts := match near.head? with
            | some r => ((acc.lookup r.cls).map (·.opts)).getD {}
            | none => {}
          let inhAttrs := near.flatMap fun r => ((acc.lookup r.cls).map (·.attrs)).getD []
          let inhHook := near.findSome? fun r => (acc.lookup r.cls).bind (·.hook)
          processClassMro d baseOpts (mroSpecs entries) inhAttrs inhHook pp
      | none =>
        match d.base with
        | none => processClass d none [] []
        | some (bn, bargs) =>
          match acc.lookup bn with
          | none => .error (.typeError ("unknown base " ++ bn))
          | some p =>
            if bargs.isEmpty then processClass d (some p) [] p.params
            else match subscriptBound p bargs with
              | .error e => .error e
              | .ok bound => processClass d (some p) bound (dedupS (bargs.flatMap freeVars))
    match r with
    | .error e => .error e
    | .ok c => processAll ds (acc ++ [(d.name, c)])

def opName : CmpOp → String
  | .gt => "gt" | .ge => "ge" | .lt => "lt" | .le => "le" | .eq => "eq" | .ne => "ne"

partial def condJson : CondExpr → Json
  | .all cs => Json.mkObj [("all", .arr (cs.map condJson).toArray)]
  | .any cs => Json.mkObj [("any", .arr (cs.map condJson).toArray)]
  | .not c => Json.mkObj [("not", condJson c)]
  | .leaf (.user id arg) n => Json.mkObj [("user", .arr #[.str id, .num arg]), ("name", .str n)]
  | .leaf (.valCmp op b) n => Json.mkObj [("valCmp", .arr #[.str (opName op), valJson b]), ("name", .str n)]
  | .leaf (.lenCmp op b) n => Json.mkObj [("lenCmp", .arr #[.str (opName op), .num b]), ("name", .str n)]
  | .leaf (.stock s) n => Json.mkObj [("stock", .str s), ("name", .str n)]
  | .leaf .finite n => Json.mkObj [("finite", .bool true), ("name", .str n)]

def fmtJson : ExpFmt → Json
  | .satisfying => .str "satisfying"
  | .withName => .str "withName"
  | .adjective a b => Json.mkObj [("adjective", .arr #[.str a, .str b])]
  | .suffix s => Json.mkObj [("suffix", .str s)]

partial def tyJson : Ty → Json
  | .any => .str "any"
  | .ndarray => .str "ndarray"
  | .scalar s => .str s
  | .seq o a => Json.mkObj [("seq", .arr #[.str o, match a with | some t => tyJson t | none => .null])]
  | .tupleFixed ts => Json.mkObj [("tuple", .arr (ts.map tyJson).toArray)]
  | .mapping o as => Json.mkObj [("map", .arr #[.str o, .arr (as.map tyJson).toArray])]
  | .union ts => Json.mkObj [("union", .arr (ts.map tyJson).toArray)]
  | .literal vs => Json.mkObj [("lit", .arr (vs.map valJson).toArray)]
  | .enum n => Json.mkObj [("enum", .str n)]
  | .sub n b => Json.mkObj [("sub", .arr #[.str n, .str b])]
  | .structLit ns ts => Json.mkObj [("struct", .arr ((ns.zip ts).map fun (n, t) => Json.arr #[.str n, tyJson t]).toArray)]
  | .tupleLit ts => Json.mkObj [("tuplit", .arr (ts.map tyJson).toArray)]
  | .cls n as => Json.mkObj [("cls", .arr #[.str n, .arr (as.map tyJson).toArray])]
  | .annotated t anns => Json.mkObj [("ann", .arr #[tyJson t, .arr (anns.map fun a => match a with
      | .cond c f => Json.mkObj [("cond", condJson c), ("fmt", fmtJson f)]
      | .tagged tag l => Json.mkObj [("tagged", .arr #[.str tag, match l with
          | .internal => .str "internal" | .external => .str "external" | .adjacent a b => .arr #[.str a, .str b]])]
      | .foreign => Json.mkObj [("foreign", .bool true)]).toArray])]
  | .typeVar n b cs => Json.mkObj [("typevar", .arr #[.str n, match b with | some t => tyJson t | none => .null, .arr (cs.map tyJson).toArray])]
  | .pattern a => Json.mkObj [("pattern", match a with | some s => .str s | none => .null)]
  | .forwardRef s => Json.mkObj [("fwd", .str s)]
  | .unsupported w => Json.mkObj [("unsupported", .str w)]
  | .valueOrList a => Json.mkObj [("vol", match a with | some t => tyJson t | none => .null)]

def defaultJson : DefaultKind → Json
  | .missing => .str "missing"
  | .value v => Json.mkObj [("value", valJson v)]
  | .factory f => Json.mkObj [("factory", .str f)]

def fieldJson (f : FieldInfo) : Json :=
  Json.mkObj [("name", .str f.name), ("inNames", .arr (f.inNames.map Json.str).toArray), ("outName", .str f.outName),
    ("init", .bool f.init), ("exclude", .bool f.exclude), ("kwOnly", .bool f.kwOnly), ("default", defaultJson f.default),
    ("compare", .bool f.compare), ("hash", .bool f.hash), ("repr", .bool f.repr)]

def classJson (c : ClassM) : Json :=
  Json.mkObj [("name", .str c.name), ("fields", .arr (c.fields.map fieldJson).toArray),
    ("fieldTys", .arr (c.fieldTys.map tyJson).toArray),
    ("fieldConv", .arr (c.fieldConv.map fun x => match x with | some s => Json.str s | none => .null).toArray),
    ("inFormat", .arr (c.opts.inFormat.map Json.str).toArray), ("outFormat", .str c.opts.outFormat),
    ("allowExtra", .bool c.opts.allowExtra), ("minPos", .num c.minPos), ("maxPos", .num c.maxPos),
    ("eq", .bool c.opts.eq), ("order", .bool c.opts.order), ("frozen", .bool c.opts.frozen), ("unsafeHash", .bool c.opts.unsafeHash),
    ("kwOnly", .bool c.opts.kwOnly), ("params", .arr (c.params.map Json.str).toArray),
    ("nHandlers", .num c.opts.classHandlers.length)]

/-- Python `>` on the value kinds the C16 scenarios use (numbers, strings, tuples/lists of them) -/
partial def pyGt (a b : Val) : Bool :=
  match a, b with
  | .str x, .str y => decide (y < x)
  | .list xs, .list ys | .tuple xs, .tuple ys => seqGt xs ys
  | a, b =>
    match a.numParts, b.numParts with
    | some (x, _), some (y, _) => Flt.cmp x y == some .gt
    | _, _ => false
where
  seqGt : List Val → List Val → Bool
    | [], _ => false
    | _ :: _, [] => true
    | x :: xs, y :: ys => if Val.pyEq x y then seqGt xs ys else pyGt x y

def optBoolJson : Option Bool → Json
  | some b => .bool b
  | none => .str "NotImplemented"

structure Tables where
  ext : List (String × Val × Except Exc Val) := []
  strs : List (Val × String) := []
  factories : List (String × Val) := []

structure Scen where
  env : Env
  tables : Tables

def parseEnv (j : Json) : P Scen := do
  let enums ← match jfieldD j "enums" (.arr #[]) with
    | .arr a => a.toList.mapM fun p => do
        let q ← jarr p
        pure ((← jstr q[0]!), (← (← jarr q[1]!).toList.mapM parseVal))
    | _ => pure []
  let classes ← (← jarr (jfieldD j "classes" (.arr #[]))).toList.mapM parseClass
  let attrs ← (← jarr (jfieldD j "attrs" (.arr #[]))).toList.mapM fun p => do
    let q ← jarr p
    pure ((← jstr q[0]!), (← jstr q[1]!), (← parseVal q[2]!))
  let registered ← (← jarr (jfieldD j "registered" (.arr #[]))).toList.mapM parseHandler
  let ext ← (← jarr (jfieldD j "ext" (.arr #[]))).toList.mapM fun p => do
    let q ← jarr p
    let fn ← jstr q[0]!
    let arg ← parseVal q[1]!
    let res : Except Exc Val ← match jfield q[2]! "ok" with
      | .ok v => pure (.ok (← parseVal v))
      | .error _ => do
        let e ← jarr (← jfield q[2]! "err")
        pure (.error { cls := parseExcCls (← jstr e[0]!), msg := ← jstr e[1]! })
    pure (fn, arg, res)
  let strs ← (← jarr (jfieldD j "strs" (.arr #[]))).toList.mapM fun p => do
    let q ← jarr p
    pure ((← parseVal q[0]!), (← jstr q[1]!))
  let factories ← (← jarr (jfieldD j "factories" (.arr #[]))).toList.mapM fun p => do
    let q ← jarr p
    pure ((← jstr q[0]!), (← parseVal q[1]!))
  pure { env := { enums, classes, attrs, registered }, tables := { ext, strs, factories } }

/-! ## concrete externals -/

def tyErr (m : String) : Exc := { cls := .typeError, msg := "TypeError: " ++ m }

/-- named user predicates; mirrored one-for-one in tools/impl.py -/
def namedCond (id : String) (arg : Int) (v0 : Val) : Except Exc Bool :=
  -- `isinstance(v, (int, float))` / `len(v)` see through an instance of a user subclass; `type(v) is int` does not
  let v := match id, v0 with
    | "even", _ => v0
    | _, .sub _ b => b
    | _, _ => v0
  match id with
  | "always" => .ok true
  | "never" => .ok false
  | "raises" => .error { cls := .valueError, msg := "ValueError: boom" }
  | "gt" =>
    match v with
    | .int i => .ok (i > arg)
    | .bool b => .ok ((if b then 1 else 0) > arg)
    | .float f => .ok (Flt.cmp f (.fin arg 0) == some .gt)
    | _ => .error (tyErr "gt: not a number")
  | "even" =>
    match v with
    | .int i => .ok (i % 2 == 0)
    | _ => .error (tyErr "even: not an int")
  | "lenle" =>
    match pyLen v with
    | .ok n => .ok (decide ((n : Int) ≤ arg))
    | .error _ => .error (tyErr "lenle: no len")
  | _ => .error { cls := .other, msg := "unknown predicate " ++ id }

/-- named `__post_init__` hooks; mirrored in tools/impl.py.  `reject_neg:<field>`, `raise_always`,
`fill:<field>` (assigns 0 to a field), `need_set:<k>` (reads the record of set fields `set`, which the
hook sees on every construction path: fails unless exactly `k` fields are set). -/
def namedHook (id : String) (fs : List (String × Val)) (set : List String) : Except Exc (List (String × Val)) :=
  if id == "raise_always" then .error { cls := .typeError, msg := "TypeError: hook failed" }
  else if id.startsWith "need_set:" then
    match (id.drop 9).toString.toNat? with
    | some k => if set.length == k then .ok fs else .error { cls := .valueError, msg := "ValueError: need_set" }
    | none => .error { cls := .valueError, msg := "ValueError: need_set" }
  else if id.startsWith "reject_neg:" then
    let f := (id.drop 11).toString
    match fs.find? (·.1 == f) with
    | some (_, .int i) => if i < 0 then .error { cls := .valueError, msg := "ValueError: negative " ++ f } else .ok fs
    | _ => .ok fs
  else if id.startsWith "touch:" then
    -- in-place normalisation of a container-valued field: `self.f['__touched'] = 1` / `self.f.append(0)`
    let f := (id.drop 6).toString
    .ok (fs.map fun (p : String × Val) =>
      if p.1 != f then p else
        match p.2 with
        | .dict kvs => (p.1, .dict (kvs.filter (fun kv => !(Val.pyEq kv.1 (.str "__touched"))) ++ [(.str "__touched", .int 1)]))
        | .list xs => (p.1, .list (xs ++ [.int 0]))
        | _ => p)
  else if id.startsWith "fill:" then
    let f := (id.drop 5).toString
    .ok (fs.filter (·.1 != f) ++ [(f, .int 0)])
  else if id.startsWith "assign:" then
    -- the same by plain assignment on a class that is not frozen (the harness keeps the set record as it was)
    let f := (id.drop 7).toString
    .ok (fs.filter (·.1 != f) ++ [(f, .int 0)])
  else .ok fs

/-- tagging converters for C18: `tagint:<k>` multiplies ints by k, `tagstr:<s>` appends s to strings -/
def customParts (id : String) : String × String :=
  match id.splitOn ":" with
  | [a, b] => (a, b)
  | _ => (id, "")

def customTryImpl (id : String) (v : Val) : Outcome Val :=
  let (kind, arg) := customParts id
  match kind, v with
  | "tagint", .int i => .ok (.int (i * arg.toInt!))
  | "tagstr", .str s => .ok (.str (s ++ arg))
  | _, _ => .interrupt

def customExpImpl (id : String) (_pl : Bool) : String := "custom " ++ id

def customColImpl (id : String) (v : Val) : Outcome (Option Err) :=
  match customTryImpl id v with
  | .ok _ => .ok none
  | _ => .ok (some (.wrongType (customExpImpl id false) v none none))

def customIntoImpl (id : String) (v : Val) : Except Exc Val :=
  let (kind, arg) := customParts id
  match kind, v with
  | "tagint", .int i => .ok (.int (i * arg.toInt!))
  | "tagstr", .str s => .ok (.str (s ++ arg))
  | _, v => .ok v

def mkExt (t : Tables) : Ext where
  call fn v :=
    match t.ext.find? fun (f, a, _) => f == fn && Val.beq a v with
    | some (_, _, r) => r
    | none => .error { cls := .other, msg := "EXT-MISS " ++ fn }
  cond := namedCond
  hook := namedHook
  factory id := (t.factories.lookup id).getD (.wrap "factory-miss" (.str id))
  pyStr v := match t.strs.find? fun (a, _) => Val.beq a v with
    | some (_, s) => s
    | none => "STR-MISS"
  customTry := customTryImpl
  customCol := customColImpl
  customInto := customIntoImpl
  customExp := customExpImpl

/-! ## ops -/

def buildErrJson : BuildErr → Json
  | .typeError _ => Json.mkObj [("buildError", "TypeError")]
  | .unsupportedAnnotation => Json.mkObj [("buildError", "UnsupportedAnnotation")]
  | .attributeError _ => Json.mkObj [("buildError", "AttributeError")]
  | .other m => Json.mkObj [("buildError", .str ("other:" ++ m))]

def resultJson : Result → Json
  | .value x => Json.mkObj [("value", valJson x)]
  | .convertError t => Json.mkObj [("convertError", errJson t)]
  | .raises e => Json.mkObj [("raises", .str (excName e.cls)), ("msg", .str e.msg)]

def exceptJson : Except Exc Val → Json
  | .ok v => Json.mkObj [("ok", valJson v)]
  | .error e => Json.mkObj [("raises", .str (excName e.cls)), ("msg", .str e.msg)]

def outcomeValJson : Outcome Val → Json
  | .ok v => Json.mkObj [("ok", valJson v)]
  | .interrupt => .str "interrupt"
  | .leak e => Json.mkObj [("leak", .str (excName e.cls))]

def outcomeErrJson : Outcome (Option Err) → Json
  | .ok none => .null
  | .ok (some t) => errJson t
  | .interrupt => .str "interrupt"
  | .leak e => Json.mkObj [("leak", .str (excName e.cls))]

def classConvs (sc : Scen) : List (String × Conv) :=
  sc.env.classes.filterMap fun ce =>
    match makeConverter sc.env {} (.cls ce.info.name []) with
    | .ok c => if ce.key == ce.info.name then some (ce.info.name, c) else none
    | .error _ => none

def dynOf (sc : Scen) (E : Ext) : Val → Except Exc Val :=
  intoDynF E (classConvs sc) sc.env.enums 64

def runOp (sc : Scen) (j : Json) : P Json := do
  let op ← jstr (← jfield j "op")
  let E := mkExt sc.tables
  match op with
  | "from_data" | "try_collect" | "into_data" | "roundtrip" | "render" | "build" | "convert2" | "io" =>
    let ty ← parseTy (← jfield j "ty")
    let H ← parseHandlers (jfieldD j "handlers" .null)
    match makeConverter sc.env H ty with
    | .error e => pure (buildErrJson e)
    | .ok c =>
      if op == "build" then
        return Json.mkObj [("built", .str (expected E c false)), ("plural", .str (expected E c true))]
      let v ← parseVal (← jfield j "val")
      match op with
      | "from_data" => pure (resultJson (convertC E c v))
      | "try_collect" =>
        pure (Json.mkObj [("try", outcomeValJson (tryC E c v)), ("collect", outcomeErrJson (colC E c v))])
      | "into_data" => pure (exceptJson (intoC E (dynOf sc E) c v))
      | "io" =>
        -- write_json / write_yaml then from_json / from_yaml: from_data of the normalised serialised form (C19_write_read)
        match convertC E c v with
        | .value x =>
          match intoC E (dynOf sc E) c x with
          | .ok d =>
            let isPath := (jfieldD j "is_path" (.bool false)) == .bool true
            let own := if isPath then
                [("path_closed", Json.bool (closedAfter (Facts.ioPathBranchOpens == some true) (Facts.ioStreamBranchNullcontext == some true) .path)),
                 ("utf8", Json.bool (Facts.ioEncodingDefault == some "utf-8"))] else []
            pure (Json.mkObj ([("x", valJson x), ("rep", .bool (representable d)), ("x2", resultJson (convertC E c (normalise d))),
                              ("stream_open", .bool (!(closedAfter (Facts.ioPathBranchOpens == some true) (Facts.ioStreamBranchNullcontext == some true) .stream)))] ++ own))
          | .error e => pure (Json.mkObj [("x", valJson x), ("d_raises", .str (excName e.cls))])
        | r => pure (resultJson r)
      | "convert2" =>
        -- convert(x, T) on a typed value x = from_data(v, T): serialise by x's own runtime type, parse as T
        match convertC E c v with
        | .value x =>
          match dynOf sc E x with
          | .ok d => pure (Json.mkObj [("x", valJson x), ("x2", resultJson (convertC E c d)), ("rtsafe", .bool (RTSafe c))])
          | .error e => pure (Json.mkObj [("x", valJson x), ("x2", Json.mkObj [("raises", .str (excName e.cls))]), ("rtsafe", .bool (RTSafe c))])
        | r => pure (resultJson r)
      | "render" =>
        match convertC E c v with
        | .convertError t => pure (Json.mkObj [("text", .arr ((render E t "" false).map segJson).toArray), ("tree", errJson t)])
        | r => pure (resultJson r)
      | _ =>
        -- roundtrip: from_data ; into_data ; from_data ; into_data
        match convertC E c v with
        | .value x =>
          match intoC E (dynOf sc E) c x with
          | .ok d =>
            let r2 := convertC E c d
            let d2 := match r2 with
              | .value x2 => exceptJson (intoC E (dynOf sc E) c x2)
              | _ => .null
            pure (Json.mkObj [("x", valJson x), ("d", valJson d), ("x2", resultJson r2), ("d2", d2), ("rtsafe", .bool (RTSafe c))])
          | .error e => pure (Json.mkObj [("x", valJson x), ("d_raises", .str (excName e.cls))])
        | r => pure (resultJson r)
  | "process" =>
    let decls ← (← jarr (← jfield j "decls")).toList.mapM fun dj => do pure ((← parseDecl dj), (← parseMro dj))
    match processAll decls [] with
    | .error (.typeError _) => pure (Json.mkObj [("classError", "TypeError")])
    | .error (.valueError _) => pure (Json.mkObj [("classError", "ValueError")])
    | .ok cs =>
      match cs.getLast? with
      | some (_, c) =>
        let explicit ← jbool (jfieldD j "explicit_hash" (.bool false))
        let act := (Facts.hashAction.lookup (c.opts.unsafeHash, c.opts.eq, c.opts.frozen, explicit)).getD "?"
        -- a class body that writes `__eq__` but no `__hash__` already carries Python's implicit `__hash__ = None`:
        -- "leave" and "set to None" are then the same observable state
        let explicitEq ← jbool (jfieldD j "explicit_eq" (.bool false))
        let act := if explicitEq && !explicit && (act == "leave" || act == "setNone") then "noneImplicit" else act
        if act == "exception" then pure (Json.mkObj [("classError", "TypeError")])
        else pure (Json.mkObj [("class", classJson c), ("hashAction", .str act)])
      | none => throw "no decls"
  | "construct" | "unchecked" | "dictview" | "copy" | "replace" | "setattr" | "delattr" | "fromdict" | "copyset" =>
    let key ← jstr (← jfield j "cls")
    match sc.env.classes.find? (·.key == key) with
    | none => pure (Json.mkObj [("driverError", .str ("unknown class " ++ key))])
    | some ce =>
      let info := ce.info
      let conv := fun (i : Nat) (v : Val) =>
        match ce.fieldTys[i]? with
        | none => Result.raises { cls := .runtimeBug, msg := "IndexError" }
        | some t =>
          match dynOf sc E v with
          | .error e => .raises e
          | .ok d =>
            match makeConverter sc.env {} t with
            | .error _ => .raises { cls := .typeError, msg := "TypeError: build" }
            | .ok c => convertC E c d
      let args ← (← jarr (jfieldD j "args" (.arr #[]))).toList.mapM parseVal
      let kwargs ← (← jarr (jfieldD j "kwargs" (.arr #[]))).toList.mapM fun p => do
        let q ← jarr p
        pure ((← jstr q[0]!), (← parseVal q[1]!))
      match op with
      | "construct" => pure (resultJson (constructM E info conv true args kwargs))
      | "unchecked" => pure (resultJson (constructM E info conv false args kwargs))
      | "fromdict" =>
        let st ← optListJ (jfieldD j "set" .null)
        pure (resultJson (fromDictUnchecked E info kwargs st))
      | _ =>
        let o ← parseVal (← jfield j "obj")
        match op with
        | "dictview" =>
          pure (exceptJson (dictView info o (← jbool (jfieldD j "set_only" (.bool false))) (optStrJ (jfieldD j "rename" .null))))
        | "copyset" =>
          -- copy / deepcopy / replace() / from_dict_unchecked(set_fields=the original's), then an assignment on ONE of the
          -- two objects: values are independent, so the other one (and the caller's set) is what it was
          let how ← jstr (← jfield j "how")
          let cset : List String := match o with | .obj _ _ st => st | _ => []
          let made : Result := if how == "replace" then replaceM E info conv o [] else copyM E info o
          match made with
          | .value c =>
            let onOrig := (← jstr (← jfield j "mutate")) == "orig"
            let r := setattrM (← jbool (jfieldD j "frozen" (.bool true))) info (if onOrig then o else c) (← jstr (← jfield j "name")) (← parseVal (← jfield j "val"))
            let (o', c', st) := match r with
              | .ok x => if onOrig then (x, c, "ok") else (o, x, "ok")
              | .error e => (o, c, excName e.cls)
            pure (Json.mkObj [("set", .str st), ("orig", valJson o'), ("copy", valJson c'),
                              ("caller_set", .arr ((cset.toArray.qsort (· < ·)).map Json.str))])
          | r => pure (resultJson r)
        | "copy" => pure (resultJson (copyM E info o))
        | "replace" => pure (resultJson (replaceM E info conv o kwargs))
        | "setattr" =>
          pure (exceptJson (setattrM (← jbool (jfieldD j "frozen" (.bool true))) info o (← jstr (← jfield j "name")) (← parseVal (← jfield j "val"))))
        | _ => pure (exceptJson (delattrM o (← jstr (← jfield j "name"))))
  | "cmp" | "repr" =>
    let a ← parseVal (← jfield j "a")
    let find : Val → Option ClassEntry := fun (o : Val) => match o with
      | .obj c _ _ =>
        match sc.env.classes.find? (fun (ce : ClassEntry) => ce.key == c) with
        | some ce => some ce
        | none => sc.env.classes.find? (fun (ce : ClassEntry) => ce.info.name == c)
      | _ => none
    let keyOf := fun (o : Val) => (optStrJ (jfieldD j "akey" .null)).getD (match o with | .obj c _ _ => c | _ => "")
    match find a with
    | none => throw "cmp: unknown class"
    | some ce =>
      let fs : List Order.FieldFlags := ce.info.fields.map fun (f : FieldInfo) => { name := f.name, compare := f.compare, hash := f.hash, repr := f.repr }
      let mkInst : Val → String → Order.Inst Val := fun (o : Val) (key : String) =>
        let nm := match o with | .obj c _ _ => c | _ => ""
        let vals := match o with
          | .obj _ fvs _ => ce.info.fields.map fun (f : FieldInfo) => ((fvs.find? (fun p => p.1 == f.name)).map (·.2)).getD Val.none
          | _ => []
        { origin := (sc.env.classes.findIdx? (fun (c : ClassEntry) => c.info.name == nm)).getD 999
          exact := (sc.env.classes.findIdx? (fun (c : ClassEntry) => c.key == key)).getD 998, vals := vals }
      if op == "repr" then
        let shown := Order.reprInst ce.info.name fs (pyRepr E) (mkInst a (keyOf a))
        -- `partial`: the same instance minus one field is shown first (`getattr` fails: AttributeError, unless the field is
        -- not a repr-field), then the field is assigned: repr is a function of the field values, so it is `shown` again
        match optStrJ (jfieldD j "partial" .null) with
        | some missing =>
          let isRepr := fs.any fun (f : Order.FieldFlags) => f.name == missing && f.repr
          return Json.mkObj [("ok", .str shown), ("after_fail", .arr #[.str (if isRepr then "AttributeError" else "shown"), .str shown])]
        | none => return Json.mkObj [("ok", .str shown)]
      let b ← parseVal (← jfield j "b")
      let ia := mkInst a ((optStrJ (jfieldD j "akey" .null)).getD (match a with | .obj c _ _ => c | _ => ""))
      let ib := mkInst b ((optStrJ (jfieldD j "bkey" .null)).getD (match b with | .obj c _ _ => c | _ => ""))
      let eqOpt ← jbool (jfieldD j "eq_opt" (.bool true))
      let ordOpt ← jbool (jfieldD j "order_opt" (.bool true))
      let ord := fun (r : Option Bool) => if ordOpt then optBoolJson r else Json.str "NotImplemented"
      -- field values that are themselves dataclass instances compare by their (class, fields): the theorems take the
      -- field equality as a parameter
      let eqF : Val → Val → Bool := fun x y => match x, y with
        | .obj .., .obj .. => Val.beq x y
        | _, _ => Val.pyEq x y
      pure (Json.mkObj [("eq", .bool (eqOpt && Order.instEq fs eqF ia ib)),
        ("lt", ord (Order.lt fs eqF pyGt ia ib)), ("le", ord (Order.le fs eqF pyGt ia ib)),
        ("gt", ord (Order.gt' fs eqF pyGt ia ib)), ("ge", ord (Order.ge fs eqF pyGt ia ib))])
  | "history" =>
    let ops ← (← jarr (← jfield j "ops")).toList.mapM fun o => do
      let k ← jstr (← jfield o "k")
      match k with
      | "alloc" => pure (Cache.Op.alloc (← jnat (← jfield o "s")) (← jnat (← jfield o "d")) (← jnat (← jfield o "a")))
      | "drop" => pure (Cache.Op.drop (← jnat (← jfield o "s")))
      | "gc" => pure Cache.Op.gc
      | "call" => pure (Cache.Op.call (← jnat (← jfield o "s")) (← jnat (← jfield o "h")))
      | _ => throw "bad history op"
    let kf : Cache.KeyForm := match Facts.cacheKey with
      | some "idOnly" => .idOnly
      | _ => .idWithStrongRef
    let obs := Cache.run kf Cache.Sys.init ops
    let calls := (ops.zip obs).filterMap fun (o, r) => match o with
      | .call _ _ => some (match r with
          | some (d, h) => Json.arr #[.num d, .num h]
          | none => Json.null)
      | _ => none
    pure (Json.mkObj [("obs", .arr calls.toArray), ("valid", .bool (Cache.ValidHist kf Cache.Sys.init ops)),
                      ("keyForm", .str (match kf with | .idOnly => "idOnly" | .idWithStrongRef => "idWithStrongRef"))])
  | "lru" =>
    let maxsize ← jnat (← jfield j "maxsize")
    let keys ← (← jarr (← jfield j "keys")).toList.mapM jnat
    let f := fun (k : Nat) => k * 7 + 1
    let r := Cache.lruRun f ({ maxsize := maxsize, order := [] } : Cache.Lru Nat Nat) keys
    pure (Json.mkObj [("results", .arr (r.2.map fun (v : Nat) => (Json.num v : Json)).toArray),
                      ("order", .arr ((Cache.lruKeys r.1).map fun (k : Nat) => (Json.num k : Json)).toArray)])
  | "bcast" =>
    -- shapes for the array conditions: numpy's rule, and the fallback as the source now reads (facts)
    let shapes ← (← jarr (← jfield j "shapes")).toList.mapM fun s => do (← jarr s).toList.mapM jnat
    let optList : Option (List Nat) → Json := fun o => match o with
      | some l => .arr (l.map fun (n : Nat) => (Json.num n : Json)).toArray
      | none => .null
    let b := Broadcast.broadcast shapes
    let fb := Broadcast.fallback (Facts.broadcastRule.getD "") (Facts.broadcastReverseBack.getD false) shapes
    let base := [("broadcast", optList b), ("fallback", optList fb), ("is", Json.bool b.isSome), ("fallback_is", Json.bool fb.isSome)]
    let conds := match shapes with
      | [v, s] => [("cond_broadcastable", Json.bool (Broadcast.broadcastableHolds v s)), ("cond_shape", Json.bool (Broadcast.shapeHolds v s))]
      | _ => []
    pure (Json.mkObj (base ++ conds))
  | "reach" =>
    -- `into_data(val[, ty], custom=H)` with containers of undeclared element type: the handlers the container converters
    -- were built with answer for the elements' runtime types (`Ext.elemHook`)
    let H ← parseHandlers (jfieldD j "handlers" .null)
    let E' : Ext := { E with elemHook := fun v => (H.answer v.typeName 0).map fun cid => E.customInto cid v }
    let v ← parseVal (← jfield j "val")
    match jfieldD j "ty" .null with
    | .null => pure (exceptJson (dynElem E' (dynOf sc E') v))
    | tj =>
      match makeConverter sc.env H (← parseTy tj) with
      | .error e => pure (buildErrJson e)
      | .ok c => pure (exceptJson (intoC E' (dynOf sc E') c v))
  | "into_dyn" =>
    let v ← parseVal (← jfield j "val")
    pure (exceptJson (dynOf sc E v))
  | "rename" =>
    let name ← jstr (← jfield j "name")
    let style ← jstr (← jfield j "style")
    let st : P Rename.Style := match style with
      | "snake" => pure .snake | "scream" => pure .scream | "kebab" => pure .kebab
      | "camel" => pure .camel | "pascal" => pure .pascal | _ => throw "bad style"
    match Rename.renameStr (← st) name with
    | some s => pure (Json.mkObj [("ok", .str s)])
    | none => pure (Json.mkObj [("raises", "ValueError")])
  | "split" =>
    let name ← jstr (← jfield j "name")
    match Rename.splitStr name with
    | some ps => pure (Json.mkObj [("ok", .arr (ps.map Json.str).toArray)])
    | none => pure (Json.mkObj [("raises", "ValueError")])
  | "c3" =>
    -- Python's C3 linearisation: the class, its direct bases and the bases' own linearisations (same order)
    let cls ← jstr (← jfield j "cls")
    let bases ← (← jarr (← jfield j "bases")).toList.mapM jstr
    let lins ← (← jarr (← jfield j "lins")).toList.mapM fun l => do (← jarr l).toList.mapM jstr
    match C3.linearize cls bases lins with
    | some l => pure (Json.mkObj [("mro", .arr (l.map Json.str).toArray)])
    | none => pure (Json.mkObj [("mro", .null)])
  | "unionnorm" =>
    -- `typing`'s normalisation of `Union[...]`: a member is a canonical key (string) or a nested union (array)
    let ms ← (← jarr (← jfield j "members")).toList.mapM parseUMem
    pure (Json.mkObj [("norm", .arr ((TypingNorm.normalize id ms).map Json.str).toArray)])
  | "c3h" =>
    -- a whole hierarchy, in creation order: [name, [bases]] …; every class is linearised from the MODEL's own linearisations
    -- of its bases (`object` is given); a class whose merge fails — or one of whose bases failed — has no MRO (`null`)
    let decls ← (← jarr (← jfield j "classes")).toList.mapM fun d => do
      let a ← jarr d
      let nm ← jstr (a[0]!)
      let bs ← (← jarr (a[1]!)).toList.mapM jstr
      pure (nm, if bs.isEmpty then ["object"] else bs)   -- `class A: pass` has the implicit base `object`
    let step := fun (known : List (String × Option (List String))) (d : String × List String) =>
      let lins := d.2.map fun b => (known.lookup b).getD none
      let r : Option (List String) :=
        if lins.any (·.isNone) then none
        else C3.linearize d.1 d.2 (lins.filterMap id)
      known ++ [(d.1, r)]
    let known := decls.foldl step [("object", some ["object"])]
    pure (Json.mkObj [("mros", .arr ((known.drop 1).map fun (p : String × Option (List String)) =>
      match p.2 with
      | some l => Json.arr (l.map Json.str).toArray
      | none => Json.null).toArray)])
  | _ => throw s!"unknown op {op}"

def handleLine (line : String) : String :=
  match Json.parse line with
  | .error e => (Json.mkObj [("driverError", .str ("parse: " ++ e))]).compress
  | .ok j =>
    let id := jfieldD j "id" .null
    match parseEnv (jfieldD j "env" (Json.mkObj [])) with
    | .error e => (Json.mkObj [("id", id), ("driverError", .str ("env: " ++ e))]).compress
    | .ok sc =>
      match runOp sc j with
      | .ok out => (Json.mkObj [("id", id), ("out", out)]).compress
      | .error e => (Json.mkObj [("id", id), ("driverError", .str e)]).compress

partial def loop (h : IO.FS.Stream) (out : IO.FS.Stream) : IO Unit := do
  let line ← h.getLine
  if line.isEmpty then return ()
  let t := line.trimAscii.toString
  if !t.isEmpty then
    out.putStrLn (handleLine t)
  loop h out

def main : IO Unit := do
  let out ← IO.getStdout
  loop (← IO.getStdin) out
  out.flush
