import PaneModel.Model.Try
/-!
# The diagnostic pass: `Converter.collect_errors`, and `Converter.convert`.
-/
namespace PaneModel

/-- What the caller of `convert()` sees. -/
inductive Result
  | value (x : Val)
  | convertError (t : Err)
  | raises (e : Exc)
  deriving Repr, Inhabited

/-- `Converter.convert` (converters.py): fast pass; on `ParseInterrupt` the diagnostic pass; a
`None` tree there is the "bug of the Converter implementation" `RuntimeError`. -/
def convertWith (t : Val → Outcome Val) (c : Val → Outcome (Option Err)) (v : Val) : Result :=
  match t v with
  | .ok x => .value x
  | .leak e => .raises e
  | .interrupt =>
    match c v with
    | .ok (some tree) => .convertError tree
    | .ok none => .raises { cls := .runtimeBug, msg := "RuntimeError: convert() raised but ``collect_errors`` returned ``None``." }
    | .interrupt => .raises { cls := .other, msg := "ParseInterrupt" }
    | .leak e => .raises e

def causeOf (e : Exc) : Option String := some e.msg

/-- children of a product node under construction: parallel key / node lists -/
abbrev Children := List Val × List Err

def Children.push (ch : Children) (k : Val) (e : Err) : Children := (ch.1 ++ [k], ch.2 ++ [e])

/-- index-wise collection for tuples: children keyed by position. -/
def zipCol : List (Val → Outcome (Option Err)) → List Val → Nat → Outcome Children
  | f :: fs, x :: xs, i =>
    match f x with
    | .ok none => zipCol fs xs (i + 1)
    | .ok (some t) =>
      match zipCol fs xs (i + 1) with
      | .ok ch => .ok (Val.int i :: ch.1, t :: ch.2)
      | .interrupt => .interrupt
      | .leak e => .leak e
    | .interrupt => .interrupt
    | .leak e => .leak e
  | _, _, _ => .ok ([], [])

/-- the union loop of the diagnostic pass -/
def sumCol : List (Val → Outcome Val) → List (Val → Outcome (Option Err)) → Val → Outcome (Option (List Err))
  | t :: ts, c :: cs, v =>
    match t v with
    | .ok _ => .ok none
    | .leak e => .leak e
    | .interrupt =>
      match c v with
      | .ok (some tree) =>
        match sumCol ts cs v with
        | .ok (some rest) => .ok (some (tree :: rest))
        | .ok none => .ok none
        | .interrupt => .interrupt
        | .leak e => .leak e
      | .ok none => .leak { cls := .runtimeBug, msg := "None child in SumErrorNode" }
      | .interrupt => .interrupt
      | .leak e => .leak e
  | _, _, _ => .ok (some [])

/-- `for (i, v) in enumerate(val): try: vals.append(conv.convert(v)) except ConvertError as e: nodes[i] = e.tree` -/
def convertEach (t : Val → Outcome Val) (c : Val → Outcome (Option Err)) :
    List Val → Nat → Except Exc (List Val × Children)
  | [], _ => .ok ([], ([], []))
  | x :: xs, i =>
    match convertWith t c x with
    | .value y =>
      match convertEach t c xs (i + 1) with
      | .ok (ys, ch) => .ok (y :: ys, ch)
      | .error e => .error e
    | .convertError tree =>
      match convertEach t c xs (i + 1) with
      | .ok (ys, ch) => .ok (ys, (Val.int i :: ch.1, tree :: ch.2))
      | .error e => .error e
    | .raises e => .error e

/-- the same loop over position-wise converters (dataclass tuple layout) -/
def convertZip : List (Val → Outcome Val) → List (Val → Outcome (Option Err)) →
    List Val → Nat → Except Exc (List Val × Children)
  | t :: ts, c :: cs, x :: xs, i =>
    match convertWith t c x with
    | .value y =>
      match convertZip ts cs xs (i + 1) with
      | .ok (ys, ch) => .ok (y :: ys, ch)
      | .error e => .error e
    | .convertError tree =>
      match convertZip ts cs xs (i + 1) with
      | .ok (ys, ch) => .ok (ys, (Val.int i :: ch.1, tree :: ch.2))
      | .error e => .error e
    | .raises e => .error e
  | _, _, _, _ => .ok ([], ([], []))

def ofExcept {α : Type} : Except Exc α → Outcome α
  | .ok a => .ok a
  | .error e => .leak e

/-- struct-literal loop: children for known keys, extras for unknown ones -/
def structCol (names : List String) (cs : List (Val → Outcome (Option Err))) :
    List (Val × Val) → Outcome (Children × List Val)
  | [] => .ok (([], []), [])
  | (k, v) :: rest =>
    let known := match k with | .str s => names.idxOf? s | _ => none
    match known with
    | none =>
      match structCol names cs rest with
      | .ok (ch, extra) => .ok (ch, k :: extra)
      | .interrupt => .interrupt
      | .leak e => .leak e
    | some i =>
      match applyAt cs i v with
      | .ok none => structCol names cs rest
      | .ok (some t) =>
        match structCol names cs rest with
        | .ok (ch, extra) => .ok ((k :: ch.1, t :: ch.2), extra)
        | .interrupt => .interrupt
        | .leak e => .leak e
      | .interrupt => .interrupt
      | .leak e => .leak e

/-- `DictConverter.collect_errors` loop: children keyed by `str(k)`, at most one node per entry,
the value's node overwriting the key's (as written; see finding N7). -/
def dictCol (E : Ext) (kc vc : Val → Outcome (Option Err)) : List (Val × Val) → Children → Outcome Children
  | [], ch => .ok ch
  | (k, v) :: rest, ch =>
    let key := Val.str (pyStr E k)
    match kc k with
    | .ok kn =>
      let ch1 := match kn with | some t => setStr ch key t | none => ch
      match vc v with
      | .ok vn =>
        let ch2 := match vn with | some t => setStr ch1 key t | none => ch1
        dictCol E kc vc rest ch2
      | .interrupt => .interrupt
      | .leak e => .leak e
    | .interrupt => .interrupt
    | .leak e => .leak e
where
  setStr (ch : Children) (key : Val) (t : Err) : Children :=
    match ch.1.findIdx? (fun k => Val.beq k key) with
    | some i => (ch.1, ch.2.set i t)
    | none => (ch.1 ++ [key], ch.2 ++ [t])

/-- struct layout of a dataclass, diagnostic pass -/
def paneColStructLoop (info : PaneInfo) (ts : List (Val → Outcome Val)) (cs : List (Val → Outcome (Option Err))) :
    List (Val × Val) → List String → Except Exc (List (String × Val) × Children × List Val × List String)
  | [], seen => .ok ([], ([], []), [], seen)
  | (k, v) :: rest, seen =>
    match fieldIndex info.fields k with
    | none =>
      match paneColStructLoop info ts cs rest seen with
      | .ok (vals, ch, extra, seen') => .ok (vals, ch, if info.allowExtra then extra else k :: extra, seen')
      | .error e => .error e
    | some i =>
      match info.fields[i]? with
      | none => .error { cls := .runtimeBug, msg := "IndexError" }
      | some f =>
        if seen.contains f.name then
          match paneColStructLoop info ts cs rest seen with
          | .ok (vals, ch, extra, seen') => .ok (vals, (k :: ch.1, .dupKey k f.inNames :: ch.2), extra, seen')
          | .error e => .error e
        else
          match convertWith (applyAt ts i) (applyAt cs i) v with
          | .value x =>
            match paneColStructLoop info ts cs rest (f.name :: seen) with
            | .ok (vals, ch, extra, seen') => .ok ((f.name, x) :: vals, ch, extra, seen')
            | .error e => .error e
          | .convertError tree =>
            match paneColStructLoop info ts cs rest (f.name :: seen) with
            | .ok (vals, ch, extra, seen') => .ok (vals, (k :: ch.1, tree :: ch.2), extra, seen')
            | .error e => .error e
          | .raises e => .error e

/-- `make_unchecked(**values)`: keyword binding, defaults, hook; the set-record is the supplied names. -/
def makeUncheckedKw (E : Ext) (info : PaneInfo) (vals : List (String × Val)) : Except Exc Val :=
  match fillDefaults E (Facts.initDefaultCalled == some true) info.fields vals with
  | none => .error { cls := .typeError, msg := "TypeError: missing a required argument" }
  | some all =>
    match runHook E info all (vals.map (·.1)) with
    | .ok final => .ok (mkObj info final (vals.map (·.1)))
    | .error e => .error e

def paneColStruct (E : Ext) (info : PaneInfo) (ts : List (Val → Outcome Val))
    (cs : List (Val → Outcome (Option Err))) (v : Val) : Outcome (Option Err) :=
  match paneColStructLoop info ts cs v.mapItems [] with
  | .error e => .leak e
  | .ok (vals, ch, extra, seen) =>
    let missing := (info.fields.filter fun f => f.init && !seen.contains f.name && !f.hasDefault).map
      fun f => Val.str f.name
    if !missing.isEmpty || !ch.1.isEmpty || !extra.isEmpty then
      .ok (some (.product ("struct " ++ info.name) ch.1 ch.2 v missing extra))
    else
      match guardCol (Facts.catches .paneStructHookCollect) (makeUncheckedKw E info vals) with
      | .ok none => .ok none
      | .ok (some e) => .ok (some (.wrongType ("struct " ++ info.name) v (causeOf e) none))
      | .interrupt => .interrupt
      | .leak e => .leak e

def paneColTuple (E : Ext) (info : PaneInfo) (ts : List (Val → Outcome Val))
    (cs : List (Val → Outcome (Option Err))) (v : Val) : Outcome (Option Err) :=
  let xs := v.seqItems
  if !(info.minPos ≤ xs.length && xs.length ≤ info.maxPos) then
    .ok (some (.wrongLen ("tuple " ++ info.name) info.minPos info.maxPos v xs.length))
  else
    let pts := (posFields info).map fun (_, i) => fun x => applyAt ts i x
    let pcs := (posFields info).map fun (_, i) => fun x => applyAt cs i x
    match convertZip pts pcs xs 0 with
    | .error e => .leak e
    | .ok (vals, ch) =>
      if !ch.1.isEmpty then .ok (some (.product ("tuple " ++ info.name) ch.1 ch.2 v [] []))
      else
        match guardCol (Facts.catches .paneTupleHookCollect) (makeUncheckedPos E info vals) with
        | .ok none => .ok none
        | .ok (some e) => .ok (some (.wrongType ("tuple " ++ info.name) v (causeOf e) none))
        | .interrupt => .interrupt
        | .leak e => .leak e

mutual
/-- `_collect_errors` of `NestedSequenceConverter` -/
def nestedCol (exp : String) (c : Val → Outcome (Option Err)) : Val → Outcome (Option Err)
  | .list xs => (nestedColList exp c xs 0).bind fun ch =>
      .ok (if ch.1.isEmpty then none else some (.product exp ch.1 ch.2 (.list xs) [] []))
  | .tuple xs => (nestedColList exp c xs 0).bind fun ch =>
      .ok (if ch.1.isEmpty then none else some (.product exp ch.1 ch.2 (.tuple xs) [] []))
  | .deque xs => (nestedColList exp c xs 0).bind fun ch =>
      .ok (if ch.1.isEmpty then none else some (.product exp ch.1 ch.2 (.deque xs) [] []))
  | v => c v
def nestedColList (exp : String) (c : Val → Outcome (Option Err)) : List Val → Nat → Outcome Children
  | [], _ => .ok ([], [])
  | x :: xs, i =>
    (nestedCol exp c x).bind fun n =>
      (nestedColList exp c xs (i + 1)).bind fun ch =>
        .ok (match n with | some t => (Val.int i :: ch.1, t :: ch.2) | none => ch)
end

/-- `SequenceConverter.collect_errors`, given the element passes `t` / `c` and the converter's own
`expected()` text (shared by `.seq kind c` and by the list member of `.vol c`) -/
def seqColWith (exp : String) (t : Val → Outcome Val) (c : Val → Outcome (Option Err)) (kind : String)
    (v : Val) : Outcome (Option Err) :=
  if !v.isSeq then .ok (some (.wrongType exp v none none))
  else
    match convertEach t c v.seqItems 0 with
    | .error e => .leak e
    | .ok (vals, ch) =>
      if !ch.1.isEmpty then .ok (some (.product exp ch.1 ch.2 v [] []))
      else
        match guardCol (Facts.catches .seqCollect) (seqCtor kind vals) with
        | .ok none => .ok none
        | .ok (some e) => .ok (some (.wrongType exp v (causeOf e) none))
        | .interrupt => .interrupt
        | .leak e => .leak e

mutual
def colC (E : Ext) : Conv → Val → Outcome (Option Err)
  | .any, _ => .ok none
  | .noneC, v => match v with | .none => .ok none | _ => .ok (some (.wrongType (expected E .noneC false) v none none))
  | .scalar ty allowed ser e ep, v =>
    if allowed.any (·.admits v) then
      match guardCol (Facts.catches .scalarCollect) (builtinCtor E ty v) with
      | .ok none => .ok none
      | .ok (some ex) => .ok (some (.wrongType (expected E (.scalar ty allowed ser e ep) false) v (causeOf ex) none))
      | .interrupt => .interrupt
      | .leak ex => .leak ex
    else .ok (some (.wrongType (expected E (.scalar ty allowed ser e ep) false) v none none))
  | .datetime ty, v =>
    match v with
    | .str _ =>
      match guardCol (Facts.catches .datetimeCollect) (E.call ("fromiso:" ++ ty) v) with
      | .ok none => .ok none
      | .ok (some ex) => .ok (some (.wrongType (expected E (.datetime ty) false) v (causeOf ex) none))
      | .interrupt => .interrupt
      | .leak ex => .leak ex
    | _ =>
      if dtAccepts ty v then .ok none
      else .ok (some (.wrongType (expected E (.datetime ty) false) v none none))
  | .literal vals, v =>
    if vals.any (Val.pyEq v) then .ok none
    else .ok (some (.wrongType (expected E (.literal vals) false) v none none))
  | .union cs, v =>
    match sumCol (tryCs E cs) (colCs E cs) v with
    | .ok none => .ok none
    | .ok (some ts) => .ok (some (.sum ts))
    | .interrupt => .interrupt
    | .leak e => .leak e
  | .tagged cs tag tagMap layout, v =>
    let self := Conv.tagged cs tag tagMap layout
    let tagExp := listPhrase (tagMap.map fun p => pyRepr E p.1)
    if !v.isMap then .ok (some (.wrongType (expected E self false) v none none))
    else match extractTag layout tag v with
      | none =>
        match layout with
        | .adjacent t c => .ok (some (.wrongType ("mapping with keys '" ++ t ++ "' and '" ++ c ++ "'") v none none))
        | _ => .ok (some (.wrongType (expected E self false) v none none))
      | some r =>
        match guardCol (Facts.catches .taggedPopCollect) r, r with
        | .ok (some _), _ =>
          match layout with
          | .adjacent t c => .ok (some (.wrongType ("mapping with keys '" ++ t ++ "' and '" ++ c ++ "'") v none none))
          | _ => .ok (some (.wrongType ("mapping with key '" ++ tag ++ "' => " ++ tagExp) v none none))
        | .ok none, .ok (t, body) =>
          match guardCol (Facts.catches .taggedLookupCollect) (pyLookup t tagMap), pyLookup t tagMap with
          | .ok (some _), _ => .ok (some (.wrongType ("tag '" ++ tag ++ "' one of " ++ tagExp) t none none))
          | .ok none, .ok i => applyAt (colCs E cs) i body
          | .ok none, .error e => .leak e
          | .interrupt, _ => .interrupt
          | .leak e, _ => .leak e
        | .ok none, .error e => .leak e
        | .interrupt, _ => .interrupt
        | .leak e, _ => .leak e
  | .struct names cs, v =>
    if !v.isMap then .ok (some (.wrongType (expected E (.struct names cs) false) v none none))
    else
      match structCol names (colCs E cs) v.mapItems with
      | .ok (ch, extra) =>
        let missing := (names.filter fun n => !(v.mapItems.any fun kv => Val.pyEq kv.1 (.str n))).map Val.str
        if !ch.1.isEmpty || !missing.isEmpty || !extra.isEmpty then
          .ok (some (.product (expected E (.struct names cs) false) ch.1 ch.2 v missing extra))
        else .ok none
      | .interrupt => .interrupt
      | .leak e => .leak e
  | .tuple cs, v =>
    if !v.isSeq || v.seqItems.length != cs.length then
      .ok (some (.wrongType (expected E (.tuple cs) false) v none none))
    else
      match zipCol (colCs E cs) v.seqItems 0 with
      | .ok ch =>
        if ch.1.isEmpty then .ok none
        else .ok (some (.product (expected E (.tuple cs) false) ch.1 ch.2 v [] []))
      | .interrupt => .interrupt
      | .leak e => .leak e
  | .dict kind k vc, v =>
    let exp := expected E (.dict kind k vc) false
    if !v.isMap then .ok (some (.wrongType exp v none none))
    else
      match dictCol E (colC E k) (colC E vc) v.mapItems ([], []) with
      | .ok ch =>
        if !ch.1.isEmpty then .ok (some (.product exp ch.1 ch.2 v [] []))
        else
          -- (after the fix for D8) re-run the fast conversions and build the dict under a guard
          let step := fun (kv : Val × Val) =>
            (tryC E k kv.1).bind fun k' => (tryC E vc kv.2).bind fun v' => .ok (k', v')
          match mapMO step v.mapItems with
          | .ok kvs =>
            match guardCol (Facts.catches .dictBuildCollect) (buildDict kvs) with
            | .ok none => .ok none
            | .ok (some e) => .ok (some (.wrongType exp v (causeOf e) none))
            | .interrupt => .interrupt
            | .leak e => .leak e
          | .interrupt => .interrupt
          | .leak e => .leak e
      | .interrupt => .interrupt
      | .leak e => .leak e
  | .seq kind vc, v => seqColWith (expected E (.seq kind vc) false) (tryC E vc) (colC E vc) kind v
  | .cond inner c fmt, v =>
    match tryC E inner v with
    | .interrupt => colC E inner v
    | .leak e => .leak e
    | .ok x =>
      let exp := expected E (.cond inner c fmt) false
      match evalCond E Facts.stockCond c x with
      | .ok true => .ok none
      | .ok false => .ok (some (.condFailed exp v c.name none))
      | .error e =>
        match guardCol (Facts.catches .condCollect) (Except.error e : Except Exc Unit) with
        | .ok (some e) => .ok (some (.condFailed exp v c.name (causeOf e)))
        | .ok none => .ok none
        | .interrupt => .interrupt
        | .leak e => .leak e
  | .enum name members inner, v =>
    match tryC E inner v with
    | .interrupt => colC E inner v
    | .leak e => .leak e
    | .ok x =>
      match guardCol (Facts.catches .enumLookupCollect) (pyLookup x (members.zipIdx)) with
      | .ok none => .ok none
      | .ok (some _) => .ok (some (.wrongType (expected E (.enum name members inner) false) v none none))
      | .interrupt => .interrupt
      | .leak e => .leak e
  | .delegate sub inner, v =>
    match tryC E inner v with
    | .interrupt => colC E inner v
    | .leak e => .leak e
    | .ok x =>
      match guardCol (Facts.catches .delegateCollect) (E.call ("sub:" ++ sub) x) with
      | .ok none => .ok none
      | .ok (some e) => .ok (some (.wrongType (expected E (.delegate sub inner) false) v (causeOf e) none))
      | .interrupt => .interrupt
      | .leak e => .leak e
  | .pattern b inner, v =>
    let v' := match v with | .opaque "Pattern" r => Val.str r | _ => v
    match tryC E inner v' with
    | .interrupt => .ok (some (.wrongType (expected E (.pattern b inner) false) v' none none))
    | .leak e => .leak e
    | .ok s =>
      match guardCol (Facts.catches .patternCollect) (E.call "re.compile" s) with
      | .ok none => .ok none
      | .ok (some e) => .ok (some (.wrongType (expected E (.pattern b inner) false) v' (causeOf e) none))
      | .interrupt => .interrupt
      | .leak e => .leak e
  | .pane info cs, v =>
    if paneSeqGate Facts.paneTupleGateCollect v then
      if !info.inFormat.contains "tuple" then .ok (some (.wrongType ("struct " ++ info.name) v none none))
      else paneColTuple E info (tryCs E cs) (colCs E cs) (if v.isSeq then v else .list (strItems v))
    else if v.isMap then
      if !info.inFormat.contains "struct" then .ok (some (.wrongType ("tuple " ++ info.name) v none none))
      else paneColStruct E info (tryCs E cs) (colCs E cs) v
    else .ok (some (.wrongType info.name v none none))
  | .nested vc, v =>
    let exp := expected E (.nested vc) false
    match nestedCol exp (colC E vc) v with
    | .ok (some t) => .ok (some t)
    | .interrupt => .interrupt
    | .leak e => .leak e
    | .ok none =>
      match nestedTry (tryC E vc) v with
      | .interrupt => .interrupt
      | .leak e => .leak e
      | .ok r =>
        match shapeOf r with
        | none =>
          match guardCol (Facts.catches .nestedShapeCollect)
              (Except.error { cls := .valueError, msg := "shape mismatch" } : Except Exc Unit) with
          | .ok (some e) => .ok (some (.wrongType exp r none (some e.msg)))
          | .ok none => .ok none
          | .interrupt => .interrupt
          | .leak e => .leak e
        | some _ =>
          match guardCol (Facts.catches .nestedCtorCollect) (E.call "numpy.array" r) with
          | .ok none => .ok none
          | .ok (some e) => .ok (some (.wrongType exp r (causeOf e) none))
          | .interrupt => .interrupt
          | .leak e => .leak e
  | .custom id, v => E.customCol id v
  | .vol vc, v =>
    -- the inherited union loop over the two members `conv(T)`, `conv(List[T])` (`SequenceConverter(list, T)`)
    match sumCol [tryC E vc, seqTryWith (tryC E vc) "list"]
        [colC E vc, seqColWith (expected E (.seq "list" vc) false) (tryC E vc) (colC E vc) "list"] v with
    | .ok none => .ok none
    | .ok (some ts) => .ok (some (.sum ts))
    | .interrupt => .interrupt
    | .leak e => .leak e
def colCs (E : Ext) : List Conv → List (Val → Outcome (Option Err))
  | [] => []
  | c :: cs => colC E c :: colCs E cs
end

/-- `make_converter(T).convert(v)` for an already-built converter. -/
def convertC (E : Ext) (c : Conv) (v : Val) : Result := convertWith (tryC E c) (colC E c) v

end PaneModel
