"""Type-directed scenario generators: one PRNG, valid / near-valid / arbitrary / adversarial value
streams, all spellings of each origin, overlap-biased unions, dataclass declarations.
Everything derives from `random.Random(seed)` so any scenario replays from (seed, index)."""
import random, json, math
from scen import Ctx

ENC = Ctx()

STRS = ['', 'a', 'ab', 'abc', 'x_y', '1', '1.5', '-2', '1/2', '3/0', 'nan', '2020-01-02', '2020-01-02T03:04:05', '03:04:05',
        '09/05/2023', 'x{', '(', 'a{4294967296}', 'é', 'A b', 'tag', 'v1', '/tmp/x', 'rel/p', 'True', 'None']
INTS = [0, 1, -1, 2, 3, 5, 7, -4, 10, 255, 2 ** 53, 2 ** 53 + 1, -2 ** 60, 10 ** 30, 10 ** 400, -10 ** 400]   # the last two: beyond the float range
FLOATS = [0.0, 1.0, -1.0, 0.5, 2.5, -3.25, 1e10, 5.0, math.inf, -math.inf]
SCALAR_TYS = ['bool', 'int', 'float', 'complex', 'str', 'bytes', 'bytearray', 'NoneType', 'Decimal', 'Fraction',
              'datetime', 'date', 'time', 'Path:PurePosixPath', 'Path:PathLike']
HASHABLE_LEAF_TYS = ['int', 'str', 'bool', 'float', 'NoneType', 'bytes', 'Fraction', 'date']
SEQ_ORIGINS = ['list', 'Sequence', 'MutableSequence', 'set', 'MutableSet', 'Set', 'frozenset', 'deque', 'tuple']
MAP_ORIGINS = ['dict', 'Mapping', 'MutableMapping', 'OrderedDict', 'defaultdict']
FIELD_NAMES = ['x', 'y', 'my_field', 'other_name', 'tag', 'val', 'zz']


class Gen:
    def __init__(self, seed, max_depth=3, classes=True, noinit=True):
        self.noinit = noinit
        self.r = random.Random(seed)
        self.max_depth = max_depth
        self.decl = {'enums': [], 'subs': [], 'classes': []}
        self.n = 0
        self.allow_classes = classes
        self.class_info = {}   # name -> decl (for valid-value generation)

    # ---- leaves ------------------------------------------------------------------------------------
    def rint(self):
        return self.r.choice(INTS) if self.r.random() < 0.3 else self.r.randint(-6, 12)

    def rfloat(self):
        if self.r.random() < 0.4:
            return self.r.choice(FLOATS)
        return self.r.randint(-40, 40) / (1 << self.r.randint(0, 3))

    def rstr(self):
        if self.r.random() < 0.5:
            return self.r.choice(STRS)
        return ''.join(self.r.choice('abxyz_1 ') for _ in range(self.r.randint(0, 5)))

    def rbytes(self):
        return bytes(self.r.choice(b'ab\x00\xff1') for _ in range(self.r.randint(0, 3)))

    def rscalar(self):
        k = self.r.randrange(9)
        return [None, self.r.random() < 0.5, self.rint(), self.rfloat(), complex(self.r.randint(-2, 2), self.r.randint(-2, 2)),
                self.rstr(), self.rbytes(), bytearray(self.rbytes()), self.rstr()][k]

    def rhashable(self, depth=0):
        if depth < 2 and self.r.random() < 0.15:
            return tuple(self.rhashable(depth + 1) for _ in range(self.r.randint(0, 2)))
        v = self.rscalar()
        return bytes(v) if isinstance(v, bytearray) else v

    def arbitrary(self, depth=0):
        """arbitrary interchange value"""
        p = self.r.random()
        if depth >= self.max_depth or p < 0.45:
            return self.rscalar()
        if p < 0.65:
            return [self.arbitrary(depth + 1) for _ in range(self.r.randint(0, 3))]
        if p < 0.75:
            return tuple(self.arbitrary(depth + 1) for _ in range(self.r.randint(0, 3)))
        d = {}
        for _ in range(self.r.randint(0, 3)):
            k = self.rstr() if self.r.random() < 0.7 else self.rhashable()
            if k != k:
                continue
            d[k] = self.arbitrary(depth + 1)
        return d

    # ---- types -------------------------------------------------------------------------------------
    def fresh(self, prefix):
        self.n += 1
        return f'{prefix}{self.n}'

    def gen_type(self, depth=0, hashable=False, lit_ok=False):
        r = self.r
        if hashable:
            p = r.random()
            if depth < self.max_depth and p < 0.2:
                return {'tuple': [self.gen_type(depth + 1, True) for _ in range(r.randint(0, 2))]}
            if depth < self.max_depth and p < 0.3:
                return {'seq': [r.choice(['tuple', 'Sequence', 'frozenset', 'Set']), self.gen_type(depth + 1, True)]}
            if p < 0.4:
                return self.gen_literal()
            if p < 0.5:
                return self.gen_enum()
            return r.choice(HASHABLE_LEAF_TYS)
        p = r.random()
        if depth >= self.max_depth or p < 0.30:
            q = r.random()
            if q < 0.70:
                return r.choice(SCALAR_TYS)
            if q < 0.78:
                return 'any'
            if q < 0.86:
                return self.gen_literal()
            if q < 0.93:
                return self.gen_enum()
            if q < 0.97:
                return self.gen_sub()
            return {'pattern': r.choice([None, 'str', 'bytes'] if self.noinit else [None, 'str'])}
        if p < 0.45:
            origin = r.choice(SEQ_ORIGINS)
            needs_hash = origin in ('set', 'MutableSet', 'Set', 'frozenset')
            if r.random() < 0.1:
                return {'seq': [origin, None]}
            return {'seq': [origin, self.gen_type(depth + 1, needs_hash)]}
        if p < 0.53:
            return {'tuple': [self.gen_type(depth + 1) for _ in range(r.randint(0, 3))]}
        if p < 0.63:
            if r.random() < 0.1:
                return {'map': ['Counter', [self.gen_type(depth + 1, True)]]}
            if r.random() < 0.1:
                return {'map': [r.choice(MAP_ORIGINS), []]}
            return {'map': [r.choice(MAP_ORIGINS), [self.gen_type(depth + 1, True), self.gen_type(depth + 1)]]}
        if p < 0.78:
            return self.gen_union(depth)
        if p < 0.84 and lit_ok:
            names = r.sample(FIELD_NAMES, r.randint(0, 3))
            return {'struct': [[n, self.gen_type(depth + 1, lit_ok=True)] for n in names]}
        if p < 0.88 and lit_ok:
            return {'tuplit': [self.gen_type(depth + 1, lit_ok=True) for _ in range(r.randint(0, 3))]}
        if p < 0.95:
            return self.gen_annotated(depth)
        if self.allow_classes:
            return self.gen_class(depth)
        return self.gen_union(depth)

    def gen_literal(self):
        r = self.r
        vals = []
        for _ in range(r.randint(1, 3)):
            v = r.choice([r.randint(0, 3), r.choice(['a', 'b', 'tag', 'v1']), True, False, None])
            if not any(v == w and type(v) is type(w) for w in vals):
                vals.append(v)
        # typing de-duplicates Literal args by (value, type)
        return {'lit': [ENC.enc(v) for v in vals]}

    def gen_enum(self):
        r = self.r
        name = self.fresh('E')
        vals = []
        kind = r.random()
        for i in range(r.randint(1, 3)):
            if kind < 0.4:
                v = i + 1
            elif kind < 0.7:
                v = 'm' + str(i)
            elif kind < 0.85:
                v = r.choice([i, 'm' + str(i), None, 1.5 + i])
            else:
                v = r.choice([(i, i + 1), i, 'm' + str(i)])
            if v not in vals:
                vals.append(v)
        ent = [name, [ENC.enc(v) for v in vals]]
        # mix-in enums (`class E(str, Enum)`): their members are ALSO plain str/int instances, which other union members
        # and conditions would see; the model does not represent that, so they are generated outside unions/conditions only
        if getattr(self, '_no_mixin', 0) == 0:
            if all(type(v) is str for v in vals) and r.random() < 0.4:
                ent.append('str')
            elif all(type(v) is int for v in vals) and r.random() < 0.3:
                ent.append('int')
        self.decl['enums'].append(ent)
        return {'enum': name}

    def gen_sub(self):
        name = self.fresh('Sub')
        base = self.r.choice(['int', 'str', 'float', 'bytes'])
        self.decl['subs'].append([name, base, {}])
        return {'sub': [name, base]}

    def gen_union(self, depth):
        self._no_mixin = getattr(self, '_no_mixin', 0) + 1
        try:
            return self._gen_union(depth)
        finally:
            self._no_mixin -= 1

    def _gen_union(self, depth):
        r = self.r
        n = r.randint(2, 4)
        if r.random() < 0.5:
            # overlap-biased: members that accept common values
            pool = [['int', 'float', 'complex'], ['str', 'Decimal', 'Fraction'], ['str', 'date', 'datetime'],
                    ['Decimal', 'date'], ['Fraction', 'datetime', 'float'], ['date', 'datetime'], ['Decimal', 'float', 'Fraction'], ['float', 'int'],
                    ['time', 'datetime', 'date'],
                    ['bool', 'int'], ['NoneType', 'int', 'str'], ['bytes', 'bytearray', 'str'],
                    [{'lit': ['auto']}, 'float', {'lit': [{'i': '0'}]}], [{'lit': [{'i': '1'}]}, 'complex', {'lit': [{'i': '2'}, 'a']}, 'str'],
                    [{'lit': [True]}, 'int', {'lit': [False, None]}], ['float', {'lit': [{'i': '3'}]}, 'int', {'lit': ['x', {'i': '5'}]}]]
            base = list(r.choice(pool))
            if not any(isinstance(m, dict) for m in base):
                r.shuffle(base)
                base = base[:n]
            members = base
            if r.random() < 0.5:
                members.append({'seq': ['list', r.choice(members)]})
        else:
            members = [self.gen_type(depth + 1) for _ in range(n)]
        out = []
        for m in members:   # typing flattens and de-duplicates
            ms = m['union'] if isinstance(m, dict) and 'union' in m else [m]
            for x in ms:
                if x not in out:
                    out.append(x)
        if len(out) == 1:
            return out[0]
        return {'union': out}

    def gen_cond(self, depth=0):
        r = self.r
        p = r.random()
        if depth < 2 and p < 0.2:
            return {r.choice(['all', 'any']): [self.gen_cond(depth + 1) for _ in range(r.randint(1, 3))]}
        if depth < 2 and p < 0.3:
            return {'not': self.gen_cond(depth + 1)}
        if p < 0.6:
            n = r.choice(['Positive', 'Negative', 'NonPositive', 'NonNegative', 'Finite', 'Empty', 'NonEmpty'])
            adj = {'Positive': 'positive', 'Negative': 'negative', 'NonPositive': 'non-positive', 'NonNegative': 'non-negative',
                   'Finite': 'finite', 'Empty': 'empty', 'NonEmpty': 'non-empty'}[n]
            return {'stock': n, 'name': adj}
        uid = r.choice(['always', 'never', 'raises', 'gt', 'even', 'lenle'])
        arg = r.randint(-1, 3)
        return {'user': [uid, arg], 'name': f'{uid}{arg}'}

    def gen_annotated(self, depth):
        self._no_mixin = getattr(self, '_no_mixin', 0) + 1
        try:
            return self._gen_annotated(depth)
        finally:
            self._no_mixin -= 1

    def _gen_annotated(self, depth):
        r = self.r
        inner = self.gen_type(depth + 1) if r.random() < 0.5 else r.choice(['int', 'float', 'str', {'seq': ['list', 'int']}])
        conds = []
        for _ in range(r.randint(1, 2)):
            c = self.gen_cond()
            fmt = 'satisfying'
            if 'stock' in c:
                fmt = {'adjective': [c['name'], 'a']}
            conds.append({'cond': c, 'fmt': fmt})
        if isinstance(inner, dict) and 'ann' in inner:   # typing flattens nested Annotated
            return {'ann': [inner['ann'][0], inner['ann'][1] + conds]}
        return {'ann': [inner, conds]}

    # ---- dataclasses -------------------------------------------------------------------------------
    def gen_class(self, depth, tagged_tag=None):
        r = self.r
        name = self.fresh('C')
        nf = r.randint(0, 4)
        names = r.sample([n for n in FIELD_NAMES if n != 'tag'], nf)
        fields = []
        seen_default = False
        kw = False
        in_format = r.choice([['struct'], ['struct'], ['tuple', 'struct'], ['tuple']])
        if tagged_tag is not None:
            fields.append({'name': 'tag', 'ty': {'lit': [tagged_tag]}, 'default': {'value': tagged_tag}})
            seen_default = True
            in_format = r.choice([['struct'], ['tuple', 'struct']])
        for i, fn in enumerate(names):
            if not kw and r.random() < 0.12:
                fields.append({'name': '_', 'ty': 'KW_ONLY'})
                kw = True
            f = {'name': fn, 'ty': self.gen_type(depth + 1)}
            has_default = seen_default or r.random() < 0.4
            if kw and 'tuple' in in_format:
                has_default = True
            if has_default and not kw:
                seen_default = True
            spec = {}
            q = r.random()
            if q < 0.12:
                spec['aliases'] = [fn + '_alias', 'al' + str(i)]
            elif q < 0.2:
                spec['in_names'] = [fn + 'In', fn]
                if r.random() < 0.5:
                    spec['in_names_as_list'] = True     # `field(in_names=[...])`: the user's own list, not a tuple
            elif q < 0.28:
                spec['rename'] = fn + 'Renamed'
            elif q < 0.34:
                spec['out_name'] = fn + 'Out'
            if r.random() < 0.06:
                spec['exclude'] = True
                if r.random() < 0.6 or seen_default:
                    has_default = True
                    if not kw:
                        seen_default = True
            if r.random() < 0.05:
                spec['kw_only'] = True
                if 'tuple' in in_format:
                    has_default = True
            if self.noinit and r.random() < 0.10:
                spec['init'] = False
                has_default = True
                if not kw:
                    seen_default = True
                if 'tuple' not in in_format and r.random() < 0.7:
                    in_format = ['tuple', 'struct']
            if has_default:
                if r.random() < 0.25:
                    f['default'] = {'factory': 'list'}
                    f['ty'] = {'seq': ['list', 'int']}
                else:
                    f['default'] = {'value': ENC.enc(self.default_for(f['ty']))}
            if spec:
                f['spec'] = spec
            fields.append(f)
        opts = {}
        if in_format != ['struct']:
            opts['in_format'] = in_format
        if r.random() < 0.25:
            opts['out_format'] = r.choice(['tuple', 'struct'])
        if r.random() < 0.2:
            opts['allow_extra'] = True
        if r.random() < 0.25:
            opts[r.choice(['rename', 'in_rename', 'out_rename'])] = r.choice(['snake', 'camel', 'pascal', 'kebab', 'scream'])
        hook = None
        if r.random() < 0.15 and names:
            hook = r.choice(['raise_always', 'reject_neg:' + names[0]])
        d = {'name': name, 'fields': fields, 'opts': opts, 'hook': hook}
        if r.random() < 0.3 and tagged_tag is None:
            # single inheritance: the parent declares a prefix of the fields (and the hook, which the child inherits)
            k = r.randint(0, len(fields))
            while k < len(fields) and fields[k]['ty'] == 'KW_ONLY':
                k += 1
            pname = self.fresh('P')
            parent = {'name': pname, 'fields': fields[:k], 'opts': dict(opts), 'hook': hook}
            if 'KW_ONLY' in [f['ty'] for f in fields[:k]]:
                parent = None
            if parent is not None:
                self.decl['classes'].append(parent)
                self.class_info[pname] = parent
                d = {'name': name, 'fields': fields[k:], 'opts': {}, 'hook': None, 'base': {'cls': [pname, []]}}
                full = {'name': name, 'fields': fields, 'opts': opts, 'hook': hook}
                self.decl['classes'].append(d)
                self.class_info[name] = full
                return {'cls': [name, []]}
        self.decl['classes'].append(d)
        self.class_info[name] = d
        return {'cls': [name, []]}

    def default_for(self, ty):
        v = self.valid(ty, 2)
        return v

    # ---- values ------------------------------------------------------------------------------------
    def valid(self, ty, depth=0):
        """a python interchange value intended to be accepted by `ty` (best effort)"""
        r = self.r
        if ty == 'any':
            return self.arbitrary(depth + 1)
        if isinstance(ty, str):
            return {
                'bool': lambda: r.random() < 0.5, 'int': self.rint, 'NoneType': lambda: None,
                'float': lambda: self.rfloat() if r.random() < 0.7 else r.randint(-5, 5),
                'complex': lambda: r.choice([self.rint(), self.rfloat(), complex(r.randint(-2, 2), r.randint(0, 2))]),
                'str': self.rstr, 'bytes': lambda: r.choice([self.rbytes(), bytearray(self.rbytes())]),
                'bytearray': lambda: r.choice([self.rbytes(), bytearray(self.rbytes())]),
                'Decimal': lambda: r.choice([r.randint(-5, 5), '1.5', '-2', '0.25', self.rfloat(), '10']),
                'Fraction': lambda: r.choice([r.randint(-5, 5), '1/2', '-3/4', '5', '0.25', 2.5]),
                'datetime': lambda: self.rdt(['2020-01-02T03:04:05', '2021-12-31 23:59:59', '2020-01-02'], ('datetime', 'date')),
                'date': lambda: self.rdt(['2020-01-02', '1999-12-31'], ('date', 'datetime')),
                'time': lambda: self.rdt(['03:04:05', '23:59', '03:04:05.123456'], ('time', 'datetime')),
                'ndarray': lambda: [[1, 2], [3, 4]],
            }.get(ty, lambda: r.choice(['/tmp/x', 'rel/p', 'a']))()
        (k, v), = ty.items()
        if k == 'seq':
            origin, arg = v
            n = r.randint(0, 3)
            items = [self.valid(arg, depth + 1) if arg is not None else self.arbitrary(depth + 2) for _ in range(n)]
            if origin in ('set', 'MutableSet', 'Set', 'frozenset') and arg is None:
                items = [self.rhashable() for _ in range(n)]
            elif (arg is None or arg == 'any') and r.random() < 0.3:
                # neighbours of RELATED runtime types (a bool after an int, an int after a float): each element is serialised
                # by its own type, whatever its neighbour was
                items = list(r.choice([[0, True], [3, False, 4], [True, 1, 1.0], [2.5, 2, True], [1, 1.0], [False, 0, 'a', 1]]))
            return items if r.random() < 0.6 else tuple(items)
        if k == 'tuple':
            items = [self.valid(a, depth + 1) for a in v]
            return items if r.random() < 0.5 else tuple(items)
        if k == 'map':
            origin, args = v
            d = {}
            for _ in range(r.randint(0, 3)):
                kk = self.valid(args[0], depth + 1) if args else self.rhashable()
                kk = self.hashable_form(kk)
                if kk is None or kk != kk:
                    continue
                d[kk] = (r.randint(0, 5) if origin == 'Counter' else self.valid(args[1], depth + 1) if len(args) > 1 else self.arbitrary(depth + 2))
            return d
        if k == 'union':
            return self.valid(r.choice(v), depth)
        if k == 'lit':
            return ENC.dec(r.choice(v))
        if k == 'enum':
            vals = next(e[1] for e in self.decl['enums'] if e[0] == v)
            x = ENC.dec(r.choice(vals))
            return list(x) if isinstance(x, tuple) and r.random() < 0.5 else x
        if k == 'sub':
            return self.valid(v[1], depth)
        if k == 'struct':
            return {n: self.valid(a, depth + 1) for n, a in v}
        if k == 'tuplit':
            items = [self.valid(a, depth + 1) for a in v]
            return items if r.random() < 0.5 else tuple(items)
        if k == 'ann':
            inner, anns = v
            if anns and 'tagged' in anns[0]:
                return self.valid_tagged(inner, anns[0]['tagged'], depth)
            return self.valid(inner, depth)
        if k == 'pattern':
            return r.choice([b'ab+', b'x']) if v == 'bytes' else r.choice(['ab+', 'x', '[a-z]*', '(a|b)'])
        if k == 'cls':
            return self.valid_class(v[0], depth)
        if k == 'typevar':
            return self.arbitrary(depth + 1)
        return self.arbitrary(depth + 1)

    def rdt(self, texts, kinds):
        """data for a date/time target: mostly ISO text; sometimes an OBJECT of one of the date/time classes the converter
        accepts for that target (what a YAML loader hands over), or an instance of a user subclass of one"""
        import datetime as _dt
        r = self.r
        if getattr(self, 'no_dt_objects', False) or r.random() < 0.75:
            return r.choice(texts)
        kind = r.choice(kinds)
        base = {'datetime': _dt.datetime, 'date': _dt.date, 'time': _dt.time}[kind]
        iso = {'datetime': ['2020-01-02T03:04:05', '2021-12-31T23:59:59.5'], 'date': ['2020-01-02', '1999-12-31'], 'time': ['03:04:05', '23:59:00']}[kind]
        if r.random() < 0.4 and not getattr(self, 'no_dt_sub', False):
            nm = 'My' + kind.title()
            if nm not in ENC.subs:
                ENC.add_sub(nm, kind)
            if not any(x[0] == nm for x in self.decl['subs']):
                self.decl['subs'].append([nm, kind, {}])
            # (values that no ISO text of the pools and no plain object below denotes: an instance of a subclass is EQUAL to the plain
            # object of the same value and a set keeps only one of them, which the model's `==` on subclass instances does not say)
            iso_sub = {'datetime': ['2001-02-03T04:05:06'], 'date': ['1987-06-05'], 'time': ['07:08:09']}[kind]
            return ENC.subs[nm][0].fromisoformat(r.choice(iso_sub))
        return base.fromisoformat(r.choice(iso))

    def hashable_form(self, x):
        if isinstance(x, list):
            ys = [self.hashable_form(y) for y in x]
            return None if any(y is None for y in ys) and len(ys) else tuple(ys)
        if isinstance(x, tuple):
            ys = [self.hashable_form(y) for y in x]
            return tuple(ys)
        if isinstance(x, (dict, set)):
            return None
        if isinstance(x, bytearray):
            return bytes(x)
        return x

    def valid_class(self, name, depth):
        r = self.r
        d = self.class_info.get(name)
        if d is None:
            return {}
        fs = [f for f in d['fields'] if f['ty'] != 'KW_ONLY']
        in_format = (d.get('opts') or {}).get('in_format', ['struct'])
        if 'tuple' in in_format and (r.random() < 0.4 or 'struct' not in in_format):
            pos = []
            kw = False
            for f in d['fields']:
                if f['ty'] == 'KW_ONLY':
                    kw = True
                    continue
                if kw or (f.get('spec') or {}).get('kw_only') or (f.get('spec') or {}).get('init') is False:
                    continue
                pos.append(f)
            n_req = sum(1 for f in pos if 'default' not in f)
            n = r.randint(n_req, len(pos))
            items = [self.valid(f['ty'], depth + 1) for f in pos[:n]]
            return items if r.random() < 0.5 else tuple(items)
        out = {}
        for f in fs:
            if 'default' in f and r.random() < 0.4:
                continue
            spec = f.get('spec') or {}
            names = [f['name']]
            if 'aliases' in spec:
                names += spec['aliases']
            if 'in_names' in spec:
                names = spec['in_names'] + [f['name']]
            if 'rename' in spec:
                names = [spec['rename'], f['name']]
            out[r.choice(names)] = self.valid(f['ty'], depth + 1)
            if len(names) > 1 and r.random() < 0.12:
                other = r.choice(names)
                if other not in out:
                    out[other] = self.valid(f['ty'], depth + 1) if r.random() < 0.5 else self.rscalar()
                    if r.random() < 0.5:   # put the second spelling first, and make the first occurrence possibly bad
                        out = {other: out.pop(other), **out}
        return out

    def valid_tagged(self, inner, tagged, depth):
        r = self.r
        tag, layout = tagged
        members = inner['union'] if isinstance(inner, dict) and 'union' in inner else [inner]
        m = r.choice(members)
        body = self.valid(m, depth)
        tagval = None
        if isinstance(m, dict) and 'cls' in m:
            d = self.class_info.get(m['cls'][0])
            f = next((f for f in d['fields'] if f['name'] == tag), None)
            if f is not None and 'default' in f:
                tagval = ENC.dec(f['default']['value'])
        if not isinstance(body, dict):
            return body
        body = {k: v for k, v in body.items() if k != tag}
        if layout == 'internal':
            return {tag: tagval, **body}
        if layout == 'external':
            return {tagval: body}
        return {layout[0]: tagval, layout[1]: body}

    def mutate(self, v, depth=0):
        """one local mutation of a (valid) value"""
        r = self.r
        if isinstance(v, (list, tuple)) and v and r.random() < 0.6 and depth < 4:
            i = r.randrange(len(v))
            w = list(v)
            p = r.random()
            if p < 0.6:
                w[i] = self.mutate(w[i], depth + 1)
            elif p < 0.8:
                del w[i]
            else:
                w.insert(i, self.rscalar())
            return type(v)(w)
        if isinstance(v, dict) and v and r.random() < 0.7 and depth < 4:
            ks = list(v.keys())
            k = r.choice(ks)
            w = dict(v)
            p = r.random()
            if p < 0.5:
                w[k] = self.mutate(w[k], depth + 1)
            elif p < 0.7:
                del w[k]
            elif p < 0.85:
                w[self.rstr() or 'extra'] = self.rscalar()
            else:
                nk = self.rhashable()
                if nk == nk:
                    w[nk] = w.pop(k)
            return w
        # leaf (or container replaced wholesale): wrong kind
        p = r.random()
        if p < 0.75:
            return self.rscalar()
        if p < 0.85:
            return [v]
        if p < 0.95:
            return {'k': v}
        if isinstance(v, str):
            return v + 'x'
        return self.arbitrary(depth + 1)


def scenarios_conv(seed, n, op='from_data', max_depth=3, classes=True, history=0.0):
    """n scenarios (type, value) with the valid / near-valid / arbitrary mix 45 / 40 / 15"""
    g = random.Random(seed)
    out = []
    for i in range(n):
        gen = Gen(g.randrange(1 << 62), max_depth=g.choice([1, 2, 2, 3, max_depth]), classes=classes,
                  noinit=op not in ('roundtrip', 'into_data', 'convert2'))
        # a round trip gives back the plain date/time class: instances of user subclasses of date/time are not fixed points
        gen.no_dt_sub = op in ('roundtrip', 'into_data', 'convert2')
        ty = gen.gen_type(0, lit_ok=True)
        p = gen.r.random()
        try:
            if p < 0.45:
                stream, v = 'valid', gen.valid(ty)
            elif p < 0.85:
                stream, v = 'near', gen.mutate(gen.valid(ty))
            else:
                stream, v = 'arbitrary', gen.arbitrary()
            wire = ENC.enc(v)
            json.dumps(wire)
        except Exception:
            stream, wire = 'arbitrary', ENC.enc(gen.arbitrary())
        sc = {'id': f'{seed}:{i}', 'decl': gen.decl, 'op': op, 'ty': ty, 'val': wire, 'spell': gen.r.randrange(2), 'stream': stream}
        out.append(sc)
        if history and stream == 'valid' and (i * 2654435761 + seed) % 100 < history * 100:
            # earlier conversions to the SAME type, of other valid values, in the same interpreter (drawn after the scenario
            # itself, from its own generator: the scenario is what it would be without them)
            pre = []
            for _ in range(gen.r.randint(1, 3)):
                try:
                    # other valid values -- and values the type refuses: a refusal must leave no trace either
                    w = ENC.enc(gen.valid(ty) if gen.r.random() < 0.6 else gen.mutate(gen.valid(ty)))
                    json.dumps(w)
                    pre.append({'ty': ty, 'val': w})
                except Exception:
                    pass
            if pre:
                sc['pre'] = pre
    return out


def scenarios_union_boundary(seed, n, ops=('from_data', 'roundtrip', 'convert2')):
    """C11 / C05 / C06: unions whose LEFT member passes the value's type check but refuses it BY VALUE (its constructor raises),
    so that a later member answers -- in both directions, bare and nested"""
    import math as _m
    g = random.Random(seed)
    cases = [(['float', 'int'], [10 ** 400, -10 ** 400, 2 ** 1024, 7]), (['complex', 'int'], [10 ** 400, 3]), (['float', 'complex', 'int'], [-10 ** 400]),
             (['Fraction', 'float'], [_m.inf, -_m.inf, 2.5]), (['Fraction', 'str'], ['1/0', 'abc', '3/4']), (['Decimal', 'str'], ['abc', '2020-02-29', '1.5']),
             (['Decimal', 'date'], ['2020-02-29', __import__('datetime').date(2020, 2, 29)]), (['date', 'str'], ['tbd', '2020-01-02']),
             (['Decimal', 'datetime', 'str'], [__import__('datetime').datetime(2020, 1, 2, 3, 4, 5)]), (['date', 'datetime'], [__import__('datetime').datetime(2020, 1, 2, 3, 4, 5)]),
             # a later member's value that an EARLIER member accepts as an object (a datetime is a date): the serialiser must write it whole
             (['date', 'datetime'], ['2020-01-02T03:04:05', '2020-01-02', '2021-12-31T23:59:59']), (['time', 'date', 'datetime'], ['2020-01-02T03:04:05']), (['time', 'datetime', 'str'], ['2020-01-02T03:04:05', 'x']),
             (['datetime', 'Fraction', 'str'], ['1/2', 'soon']), (['float', 'Fraction', 'int'], [10 ** 400]),
             # ... and families in which a LATER value is taken only by the member that refused an earlier value of the same Python type
             (['Decimal', 'NoneType'], ['one and a half', '2.5', 'x', '10']), (['Fraction', 'NoneType'], ['1/0', '3/4', 'abc', '7']),
             (['float', 'NoneType'], [10 ** 400, 5, -10 ** 400, 2]), (['int', 'Fraction'], ['1/0', '1/2']), (['date', 'NoneType'], ['tbd', '2020-01-02'])]
    out = []
    for i in range(n):
        r = random.Random(g.randrange(1 << 62))
        members, vals = r.choice(cases)
        v = r.choice(vals)
        ty = {'union': list(members)}
        wire = ENC.enc(v)
        decl = {'enums': [], 'subs': [], 'classes': []}
        shape = r.choice(['bare', 'list', 'dict', 'field', 'field', 'optional'])
        if shape == 'list':
            ty, wire = {'seq': ['list', ty]}, {'l': [wire, wire]}
        elif shape == 'dict':
            ty, wire = {'map': ['dict', ['str', ty]]}, {'d': [['k', wire]]}
        elif shape == 'optional':
            ty = {'union': list(members) + ['NoneType']}
        elif shape == 'field':
            name = f'Ub{seed % 1000}x{i}'
            decl['classes'].append({'name': name, 'fields': [{'name': 'x', 'ty': ty}, {'name': 'n', 'ty': 'int', 'default': {'value': {'i': '0'}}}], 'opts': {}, 'hook': None})
            ty, wire = {'cls': [name, []]}, {'d': [['x', wire]]}
        sc = {'id': f'ub{seed}:{i}', 'decl': decl, 'op': r.choice(ops), 'ty': ty, 'val': wire, 'spell': r.randrange(2), 'stream': 'union-boundary'}
        if shape in ('bare', 'optional') and r.random() < 0.6:
            # the OTHER values of the family first, on the same (memoised) converter: a member that refused one value of a Python
            # type by value must still be asked about the next value of that type
            try:
                sc['pre'] = [{'ty': ty, 'val': ENC.enc(o)} for o in vals if o is not v][:3]
            except Exception:
                pass
        out.append(sc)
    return out


def scenarios_union_history(seed, n, op='roundtrip'):
    """unions whose members overlap, reached through a declared type (a dataclass field, a list element); first values only a
    LATER member takes, then a value an earlier member takes too: which member answers must not depend on the history"""
    g = random.Random(seed)
    out = []
    pairs = [(['int', 'float'], [2.5, 0.1], [3, 0, -4]), (['bool', 'int'], [7, 2], [True, False]), (['int', 'str'], ['a', 'tbd'], [5]),
             (['float', 'Decimal'], ['1.50', '0.3'], [1.0, 2.5]), (['int', 'Fraction'], ['1/3'], [2, 7]), (['date', 'str'], ['to be announced'], ['2024-02-29']),
             (['NoneType', 'int', 'float'], [1.5], [1, None])]
    for i in range(n):
        ge = Gen(g.randrange(1 << 62), max_depth=1, classes=True)
        r = ge.r
        members, later, both = r.choice(pairs)
        u = {'union': members}
        shape = r.choice(['field', 'field', 'listfield', 'list', 'dictval'])
        if shape in ('field', 'listfield'):
            name = ge.fresh('UH')
            fty = u if shape == 'field' else {'seq': ['list', u]}
            d = {'name': name, 'fields': [{'name': 'v', 'ty': fty}], 'opts': {}, 'hook': None}
            ge.decl['classes'].append(d)
            ge.class_info[name] = d
            ty = {'cls': [name, []]}
            mk = (lambda x: {'v': x}) if shape == 'field' else (lambda x: {'v': [x]})
        elif shape == 'list':
            ty, mk = {'seq': ['list', u]}, (lambda x: [x])
        else:
            ty, mk = {'map': ['dict', ['str', u]]}, (lambda x: {'k': x})
        pre = [{'ty': ty, 'val': ENC.enc(mk(r.choice(later)))} for _ in range(r.randint(1, 2))]
        main = mk(r.choice(both))
        if shape in ('listfield', 'list') and r.random() < 0.5:
            # the history inside ONE value: an earlier element of the same list
            inner = [r.choice(later), r.choice(both)]
            main = {'v': inner} if shape == 'listfield' else inner
        out.append({'id': f'uh{seed}:{i}', 'decl': ge.decl, 'op': op, 'ty': ty, 'val': ENC.enc(main), 'spell': 0, 'stream': 'union-history', 'pre': pre})
    return out


# ------------------------------------------------------------------------------------------------
# class hierarchies (C15 / C17) and construction scenarios (C14)
SIMPLE_TYS = ['int', 'str', 'float', 'bool', {'seq': ['list', 'int']}, {'union': ['int', 'NoneType']}, {'map': ['dict', ['str', 'int']]},
              {'tuple': ['int', 'str']}, 'any']
STYLES = ['snake', 'camel', 'pascal', 'kebab', 'scream']


def tv(name):
    return {'typevar': [name, None, []]}


class HierGen(Gen):
    def field_decl(self, name, ty, allow_required, kw_forced_default=False):
        r = self.r
        f = {'name': name, 'ty': ty}
        has_default = (not allow_required) or r.random() < 0.35 or kw_forced_default
        spec = {}
        q = r.random()
        if q < 0.12:
            spec['aliases'] = [name + '_alias', 'al_' + name][: r.randint(1, 2)]
        elif q < 0.20:
            spec['in_names'] = [name + 'In'] + ([name] if r.random() < 0.5 else [])
            if r.random() < 0.5:
                spec['in_names_as_list'] = True     # `field(in_names=[...])`: the user's own list, not a tuple
        elif q < 0.27:
            spec['rename'] = name + 'Renamed'
        elif q < 0.33:
            spec['out_name'] = name + 'Out'
        elif q < 0.35:
            spec['rename'] = name + 'R'
            spec['aliases'] = ['bad']          # more than one of rename/aliases/in_names: refused
        elif q < 0.40:
            spec['rename'] = name + 'Rn'       # allowed together: `rename` gives the input name, `out_name` the output name
            spec['out_name'] = name + 'OUT'
        if r.random() < 0.07:
            spec['exclude'] = True
        if r.random() < 0.06:
            spec['kw_only'] = True
        if r.random() < 0.05:
            spec['init'] = False
            has_default = True
        for flag in ('compare', 'repr'):
            if r.random() < 0.06:
                spec[flag] = False
        if r.random() < 0.04:
            spec['hash'] = r.random() < 0.5
        if has_default:
            if isinstance(ty, dict) and 'typevar' in ty or ty == 'any':
                f['default'] = {'value': ENC.enc(r.choice([0, 'd', None]))}
            elif r.random() < 0.2:
                f['default'] = {'factory': 'list'}
            else:
                f['default'] = {'value': ENC.enc(self.valid(ty, 2))}
        if spec:
            f['spec'] = spec
        return f

    def gen_opts(self, level):
        r = self.r
        o = {}
        if r.random() < 0.35:
            o['in_format'] = r.choice([['struct'], ['tuple', 'struct'], ['tuple'], ['struct', 'tuple']])
        if r.random() < 0.25:
            o['out_format'] = r.choice(['tuple', 'struct'])
        for k in ('eq', 'order', 'frozen', 'allow_extra', 'kw_only', 'unsafe_hash'):
            if r.random() < 0.12:
                o[k] = r.random() < 0.5
        q = r.random()
        if q < 0.15:
            o['rename'] = r.choice(STYLES)
        elif q < 0.25:
            o['in_rename'] = r.choice([r.choice(STYLES), r.sample(STYLES, 2)])
        elif q < 0.32:
            o['out_rename'] = r.choice(STYLES)
        elif q < 0.34:
            o['rename'] = 'camel'
            o['in_rename'] = 'snake'    # refused: ValueError
        if r.random() < 0.12:
            o['custom'] = [{'entries': [['int', 'tagint:%d' % r.choice([2, 3, 5])]], 'exactOnly': r.random() < 0.5}]
        return o

    def gen_hierarchy(self, depth, generic=False):
        r = self.r
        decls = []
        names_pool = ['x', 'y', 'my_field', 'other_name', 'val', 'zz', 'a_b_c', 'q']
        prev = None
        prev_params = []
        side = None
        if generic and r.random() < 0.5:
            # an independent generic dataclass used as a FIELD type (`child: G[T]`, `many: List[G[T]]`): the subscription
            # of the enclosing class must reach its argument
            side = self.fresh('G')
            decls.append({'name': side, 'fields': [{'name': 'item', 'ty': tv('T')}], 'opts': {}, 'hook': None, 'tvars': ['T']})
        mixin = None
        if r.random() < 0.35 and depth >= 2:
            # a second base (mixin): the fields of ALL bases are merged in MRO order
            mixin = self.fresh('M')
            mfields = []
            for fn in r.sample(names_pool, r.randint(1, 2)):
                mfields.append(self.field_decl(fn, r.choice(SIMPLE_TYS), allow_required=False))
            md = {'name': mixin, 'fields': mfields, 'opts': self.gen_opts(0) if r.random() < 0.4 else {}, 'hook': None}
            mixin_at = r.randrange(1, depth)
            mixin_diamond = (not generic) and mixin_at >= 2 and r.random() < 0.4
            if not mixin_diamond:
                decls.append(md)
        for lvl in range(depth):
            name = self.fresh('H')
            d = {'name': name, 'fields': [], 'opts': self.gen_opts(lvl), 'hook': None}
            if r.random() < 0.4:
                d['want_mro'] = True
            if mixin and lvl == mixin_at:
                if mixin_diamond:
                    # the mixin derives from the root of the chain: a diamond
                    md['base'] = {'cls': [decls[-lvl]['name'] if not side else decls[1]['name'], []]}
                    md['want_mro'] = True
                    decls.append(md)
                d['mixins'] = [{'cls': [mixin, []], 'first': (not generic) and r.random() < 0.5}]
            avail_tvars = []
            if generic:
                if prev is None:
                    avail_tvars = r.sample(['T', 'U'], r.randint(1, 2))
                    d['tvars'] = avail_tvars
                else:
                    args = []
                    new_vars = []
                    for p in prev_params:
                        q = r.random()
                        if q < 0.45:
                            args.append(r.choice(['int', 'str', 'float', {'seq': ['list', 'int']}]))
                        elif q < 0.8:
                            v = r.choice(['V', 'W', p])
                            args.append(tv(v))
                            if v not in new_vars:
                                new_vars.append(v)
                        else:
                            v = r.choice(['V', 'W'])
                            args.append({'seq': ['list', tv(v)]})
                            if v not in new_vars:
                                new_vars.append(v)
                    if prev_params:
                        d['base'] = {'cls': [prev, args]}
                    else:
                        d['base'] = {'cls': [prev, []]}
                    avail_tvars = list(new_vars)
                    if new_vars and r.random() < 0.5:
                        extra = [v for v in ['X'] if r.random() < 0.3 and v not in new_vars]
                        tvs = new_vars + extra
                        if r.random() < 0.3:
                            r.shuffle(tvs)
                        d['tvars'] = tvs
                        avail_tvars = tvs
            elif prev is not None:
                d['base'] = {'cls': [prev, []]}
            nf = r.randint(0, 3)
            kw = False
            for fn in r.sample(names_pool, nf):
                if not kw and r.random() < 0.1:
                    d['fields'].append({'name': '_', 'ty': 'KW_ONLY'})
                    kw = True
                if avail_tvars and side and r.random() < 0.45:
                    v = r.choice(avail_tvars)
                    sty = {'cls': [side, [r.choice([tv(v), tv(v), {'seq': ['list', tv(v)]}, 'str'])]]}
                    ty = r.choice([sty, sty, {'seq': ['list', sty]}, {'union': [sty, 'NoneType']}, {'map': ['dict', ['str', sty]]}])
                    d['fields'].append({'name': fn, 'ty': ty})
                    continue
                if avail_tvars and r.random() < 0.6:
                    v = r.choice(avail_tvars)
                    ty = r.choice([tv(v), {'seq': ['list', tv(v)]}, {'union': [tv(v), 'NoneType']}, {'map': ['dict', ['str', tv(v)]]},
                                   {'tuple': [tv(v), 'int']}])
                else:
                    ty = r.choice(SIMPLE_TYS)
                d['fields'].append(self.field_decl(fn, ty, allow_required=r.random() < 0.5))
            decls.append(d)
            prev = name
            prev_params = avail_tvars if generic else []
        return decls


def scenarios_process(seed, n, generic_share=0.4):
    g = random.Random(seed)
    out = []
    for i in range(n):
        hg = HierGen(g.randrange(1 << 62), max_depth=1, classes=False)
        generic = hg.r.random() < generic_share
        decls = hg.gen_hierarchy(hg.r.randint(1, 4), generic=generic)
        out.append({'id': f'p{seed}:{i}', 'decl': hg.decl, 'op': 'process', 'decls': decls, 'stream': 'generic' if generic else 'plain',
                    'spell': hg.r.randrange(2)})
        if generic_share > 0 and i % 12 == 5:
            # the same generic class subscripted twice with unions that differ only in member order (equal for `typing`):
            # each subclass gets the order IT was written with
            r = hg.r
            m = r.sample(['int', 'float', 'str', 'bool', 'NoneType'], r.randint(2, 3))
            m2 = list(m)
            while m2 == m:
                r.shuffle(m2)
            # directly, or inside a PEP 585 builtin generic (`list[int | float]`: these aliases are not cached by typing and
            # compare equal regardless of the order); inside a `typing.List[...]` alias typing's OWN cache merges the two spellings
            pep585 = r.random() < 0.5
            wrapu = (lambda u: r.choice([{'seq': ['list', u]}, {'map': ['dict', ['str', u]]}, {'tuple': [u, 'str']}])) if pep585 else (lambda u: u)
            wrap_pick = r.randrange(3)
            if pep585:
                wrapu = lambda u, k=wrap_pick: [{'seq': ['list', u]}, {'map': ['dict', ['str', u]]}, {'tuple': [u, 'str']}][k]
            gname = hg.fresh('GT')
            tw = [{'name': gname, 'fields': [{'name': 'x', 'ty': tv('T')}], 'opts': {}, 'hook': None, 'tvars': ['T']},
                  {'name': hg.fresh('GA'), 'fields': [], 'opts': {}, 'hook': None, 'base': {'cls': [gname, [wrapu({'union': m})]]}},
                  {'name': hg.fresh('GB'), 'fields': [], 'opts': {}, 'hook': None, 'base': {'cls': [gname, [wrapu({'union': m2})]]}}]
            out.append({'id': f'p{seed}:{i}t', 'decl': hg.decl, 'op': 'process', 'decls': tw, 'stream': 'generic-twin', 'spell': 1 if pep585 else 0})
    return out


class _ObjWire(dict):
    """an already encoded value (a dataclass instance in wire form): ENC.enc passes it through"""


def scenarios_construct(seed, n):
    """class x subset of supplied fields x path (constructor / unchecked / mapping / sequence)"""
    g = random.Random(seed)
    out = []
    for i in range(n):
        hg = HierGen(g.randrange(1 << 62), max_depth=1, classes=False)
        r = hg.r
        name = hg.fresh('K')
        d = {'name': name, 'fields': [], 'opts': {}, 'hook': None}
        if r.random() < 0.4:
            d['opts']['in_format'] = ['tuple', 'struct']
        if r.random() < 0.2:
            d['opts']['frozen'] = False
        if r.random() < 0.25:
            d['opts']['allow_extra'] = True
        kw = False
        seen_default = False
        fnames = r.sample(['x', 'y', 'my_field', 'val', 'zz'], r.randint(1, 4))
        for fn in fnames:
            if not kw and r.random() < 0.1:
                d['fields'].append({'name': '_', 'ty': 'KW_ONLY'})
                kw = True
            ty = r.choice(['int', 'float', 'str', {'seq': ['list', 'int']}, {'union': ['int', 'str']}, {'seq': ['set', 'int']},
                           'Fraction', {'map': ['dict', ['str', 'float']]}, {'tuple': ['int', 'float']}])
            f = {'name': fn, 'ty': ty}
            if seen_default or kw or r.random() < 0.5:
                seen_default = seen_default or not kw
                f['default'] = {'factory': 'list'} if (ty == {'seq': ['list', 'int']} and r.random() < 0.6) else {'value': ENC.enc(hg.valid(ty, 2))}
            if r.random() < 0.15:
                f['spec'] = {'aliases': [fn + '_alias']}
            elif r.random() < 0.1:
                f['spec'] = {'exclude': True}     # written never, but a constructor parameter like any other
            d['fields'].append(f)
        if r.random() < 0.2 and not kw:
            # two fields whose types are unions of the SAME members in opposite orders (equal for `typing`, different converters):
            # each argument is converted by its own field's type -- whichever of the two the process saw first
            pair = r.choice([(['int', 'float'], 3), (['bool', 'int'], 1), ([{'seq': ['list', 'int']}, {'seq': ['tuple', 'int']}], [1, 2])])
            a, b = ('lo', 'hi') if r.random() < 0.5 else ('hi', 'lo')
            for fn, mem in ((a, pair[0]), (b, pair[0][::-1])):
                f = {'name': fn, 'ty': {'union': list(mem)}}
                if seen_default:
                    f['default'] = {'value': ENC.enc(pair[1])}
                d['fields'].append(f)
            fnames = fnames + [a, b]
            twin_val = pair[1]
        else:
            twin_val = None
        inner_cls = None
        if r.random() < 0.3:
            # a field whose type is another dataclass: the constructor converts an instance passed for it like any other argument
            # (serialise by its own type, parse as the field's type), also an instance that was built unchecked
            inner_cls = hg.fresh('KI')
            di = {'name': inner_cls, 'fields': [{'name': 'x', 'ty': 'int'}, {'name': 'w', 'ty': 'str', 'default': {'value': 'w'}}],
                  'opts': {'frozen': r.random() < 0.5}, 'hook': None}
            hg.class_info[inner_cls] = di
            f = {'name': 'inner', 'ty': {'cls': [inner_cls, []]}}
            if seen_default or kw:
                f['default'] = {'value': None}
                f['ty'] = {'union': [{'cls': [inner_cls, []]}, 'NoneType']}
            d['fields'].append(f)
            fnames = fnames + ['inner']
        noinit = None
        if len(fnames) >= 2 and r.random() < 0.25:
            # a field that is not a constructor parameter (init=False), preferably NOT the last one: it keeps its slot in the
            # field list but takes no element of a sequence and no argument
            cands = [f for f in d['fields'][:-1] if f['ty'] != 'KW_ONLY' and 'default' in f and f['name'] != fnames[0]]
            if cands:
                noinit = r.choice(cands)
                noinit.setdefault('spec', {})['init'] = False
                noinit['spec'].pop('aliases', None)
                noinit['spec']['exclude'] = True
        if r.random() < 0.2:
            d['hook'] = r.choice(['raise_always', 'reject_neg:' + fnames[0]])
        elif r.random() < 0.15:
            # a hook that reads the record of explicitly set fields (the same record on every path, while the hook runs)
            d['hook'] = 'need_set:%d' % r.randint(0, 3)
        elif d['opts'].get('frozen') is False and r.random() < 0.6:
            # a validation hook that NORMALISES a field by plain assignment (allowed: the class is not frozen)
            d['hook'] = 'assign:' + r.choice([f['name'] for f in d['fields'] if f['ty'] != 'KW_ONLY'])
        hg.class_info[name] = d
        real = [f for f in d['fields'] if f['ty'] != 'KW_ONLY' and f is not noinit]
        supplied = [f for f in real if r.random() < 0.6]
        path = r.choice(['construct', 'construct', 'unchecked', 'from_data_struct', 'from_data_tuple', 'fromdict'])
        vals = {}
        for f in supplied:
            p = r.random()
            v = hg.valid(f['ty'], 1)
            if p < 0.15:
                v = hg.mutate(v)
            vals[f['name']] = v
        if twin_val is not None:
            for fn in ('lo', 'hi'):
                if fn in vals or r.random() < 0.7:
                    vals[fn] = twin_val
        if inner_cls and 'inner' in vals and path in ('construct', 'unchecked'):
            xv = r.choice([5, 5, 'bad', 2.5, True])
            vals['inner'] = r.choice([{'x': xv}, _ObjWire({'obj': [inner_cls, [['x', ENC.enc(xv)], ['w', 'q']], ['x', 'w']]}),
                                      _ObjWire({'obj': [inner_cls, [['x', ENC.enc(xv)], ['w', 'w']], ['x']]})])
        sc = {'id': f'k{seed}:{i}', 'decl': {'enums': [], 'subs': [], 'classes': ([hg.class_info[inner_cls]] if inner_cls else []) + [d]},
              'cls': name, 'stream': path, 'spell': 0}
        if path == 'fromdict':
            # the public unchecked constructor from a (possibly partial) dict of field values, with or without an explicit record
            # (no validation hook here: on an instance that lacks a field a hook reads the CLASS-level default through getattr,
            # which the model's hook interface -- the instance's own fields -- does not show)
            d['hook'] = None
            try:
                sc.update(op='fromdict', args=[], kwargs=[[k, ENC.enc(v)] for k, v in vals.items()])
                if r.random() < 0.5:
                    sc['set'] = [k for k in vals if r.random() < 0.6]
                json.dumps(sc)
            except Exception:
                continue
        elif path in ('construct', 'unchecked'):
            # positional for a prefix of the positional fields, keywords for the rest
            pos = []
            kwf = False
            for f in d['fields']:
                if f['ty'] == 'KW_ONLY':
                    kwf = True
                    continue
                if not kwf and f is not noinit:
                    pos.append(f['name'])
            npos = 0
            for nm in pos:
                if nm in vals and r.random() < 0.4:
                    npos += 1
                else:
                    break
            try:
                sc.update(op=path, args=[ENC.enc(vals[nm]) for nm in pos[:npos]],
                          kwargs=[[k, ENC.enc(v)] for k, v in vals.items() if k not in pos[:npos]])
                if r.random() < 0.05:
                    sc['kwargs'].append(['nonexistent', {'i': '1'}])
                json.dumps(sc)
            except Exception:
                continue
        elif path == 'from_data_struct':
            try:
                data = dict(vals)
                for f in d['fields']:
                    # a field given under one of its OTHER input names (an alias): the record of set fields holds the field
                    al = (f.get('spec') or {}).get('aliases')
                    if al and f['name'] in data and r.random() < 0.6:
                        data = {(al[0] if k == f['name'] else k): v for k, v in data.items()}
                if d['opts'].get('allow_extra'):
                    # ignored unknown keys, possibly as many as there are fields left out: defaults are still filled in and a
                    # missing required field is still an error
                    for j in range(r.randint(1, 4)):
                        data['unknown%d' % j] = r.choice([1, 'u', None])
                sc.update(op='from_data', ty={'cls': [name, []]}, val=ENC.enc(data))
                json.dumps(sc)
            except Exception:
                continue
        else:
            pos = []
            for f in d['fields']:
                if f['ty'] == 'KW_ONLY':
                    break
                if f is not noinit:
                    pos.append(f)
            items = []
            for f in pos:
                if f['name'] in vals:
                    items.append(vals[f['name']])
                else:
                    break
            try:
                sc.update(op='from_data', ty={'cls': [name, []]}, val=ENC.enc(items))
                json.dumps(sc)
            except Exception:
                continue
        out.append(sc)
    return out


def range_cond(kind, lo, hi):
    """model-form descriptor of val_range / len_range (the live object is built by the library itself)"""
    leaves = []
    if kind == 'val':
        if lo is not None:
            leaves.append({'valCmp': ['ge', ENC.enc(lo)], 'name': f'v >= {lo}'})
        if hi is not None:
            leaves.append({'valCmp': ['le', ENC.enc(hi)], 'name': f'v <= {hi}'})
        return {'cond': {'all': leaves, '_range': [kind, lo, hi]}, 'fmt': 'satisfying'}
    if lo is not None:
        leaves.append({'lenCmp': ['ge', lo], 'name': f"at least {lo} {'elem' if lo == 1 else 'elems'}"})
    if hi is not None:
        leaves.append({'lenCmp': ['le', hi], 'name': f"at most {hi} {'elem' if hi == 1 else 'elems'}"})
    return {'cond': {'all': leaves, '_range': [kind, lo, hi]}, 'fmt': 'withName'}


def scenarios_cond(seed, n):
    """C13: condition expressions x inner types x boundary values"""
    g = random.Random(seed)
    out = []
    for i in range(n):
        ge = Gen(g.randrange(1 << 62), max_depth=2, classes=False)
        r = ge.r
        inner = r.choice(['int', 'float', 'int', 'float', 'str', {'seq': ['list', 'int']}, {'seq': ['tuple', 'any']}, {'map': ['dict', ['str', 'int']]},
                          {'union': ['int', 'str']}, 'any', 'bool', 'complex', {'seq': ['set', 'int']}, {'seq': ['frozenset', 'any']},
                          {'seq': ['set', 'int']}, 'Fraction', 'date', {'map': ['dict', ['int', 'any']]}, 'float'])
        anns = []
        for _ in range(r.randint(1, 3)):
            p = r.random()
            if p < 0.3:
                lo = r.choice([None, -2, 0, 1, 3])
                hi = r.choice([0, 2, 5]) if lo is None else r.choice([None, 0, 2, 5])
                anns.append(range_cond('val', lo, hi))
            elif p < 0.5:
                lo = r.choice([None, 0, 1, 2])
                hi = r.choice([0, 1, 3]) if lo is None else r.choice([None, 0, 1, 3])
                anns.append(range_cond('len', lo, hi))
            else:
                c = ge.gen_cond()
                anns.append({'cond': c, 'fmt': {'adjective': [c['name'], 'a']} if 'stock' in c else 'satisfying'})
        ty = {'ann': [inner, anns]}
        if r.random() < 0.3:
            ty = {'seq': ['list', ty]}
        # boundary values
        leaf = lambda: r.choice([0, 1, -1, 2, 3, 5, 6, -2, -3, 0.0, -0.0, 0.5, 2.0, 5.0, float('inf'), float('-inf'), float('nan'), True, False,
                                 '', 'a', 'abc', [], [1], [1, 2], [1, 2, 3, 4], (), (1,), {}, {'a': 1}, {'a': 1, 'b': 2}, None, 2 ** 60, complex(1, 0),
                                 [1, 1], [1, 1, 2], [2, 2, 2, 2], [0, 0.0, False], '1/2', '2020-01-02', 4, 6, {1: 2, 1.0: 3}])
        v = leaf()
        if isinstance(ty, dict) and 'seq' in ty:
            v = [leaf() for _ in range(r.randint(0, 3))]
        try:
            wire = ENC.enc(v)
        except Exception:
            continue
        out.append({'id': f'c{seed}:{i}', 'decl': ge.decl, 'op': 'from_data', 'ty': ty, 'val': wire, 'spell': r.randrange(2), 'stream': 'cond'})
    return out


def scenarios_tagged(seed, n):
    """C12: variant sets x three layouts x tag shapes x mapping sizes / non-mappings"""
    g = random.Random(seed)
    out = []
    for i in range(n):
        ge = Gen(g.randrange(1 << 62), max_depth=1, classes=True)
        r = ge.r
        tagname = r.choice(['tag', 'kind', 'ty'])
        tagvals = r.sample(['a', 'b', 'c', 1, 2, None], r.randint(2, 3))
        if r.random() < 0.15 and not any(x == 1 for x in tagvals):
            tagvals[0] = True
        members = []
        for tvv in tagvals:
            name = ge.fresh('V')
            fields = []
            seen_default = False
            for fn in r.sample(['x', 'y', 'zz'], r.randint(0, 2)):
                fty = r.choice(['int', 'str', 'float', {'seq': ['list', 'int']}])
                f = {'name': fn, 'ty': fty}
                if seen_default or r.random() < 0.6:
                    f['default'] = {'value': ENC.enc(ge.valid(fty, 2))}
                    seen_default = True
                fields.append(f)
            fields.append({'name': tagname, 'ty': {'lit': [ENC.enc(tvv)]}, 'default': {'value': ENC.enc(tvv)}})
            d = {'name': name, 'fields': fields, 'opts': {}, 'hook': None}
            if r.random() < 0.15:
                d['opts']['allow_extra'] = True
            ge.decl['classes'].append(d)
            ge.class_info[name] = d
            members.append({'cls': [name, []]})
        if r.random() < 0.08 and len(tagvals) >= 2:   # duplicate tag values: refused at build
            ge.decl['classes'][-1]['fields'][-1] = dict(ge.decl['classes'][0]['fields'][-1])
        layout = r.choice(['internal', 'external', ['t', 'c'], 'internal'])
        ty = {'ann': [{'union': members}, [{'tagged': [tagname, layout]}]]}
        m = r.randrange(len(members))
        d = ge.class_info[members[m]['cls'][0]]
        body = {f['name']: ge.valid(f['ty'], 1) for f in d['fields'][:-1] if 'default' not in f or r.random() < 0.5}
        if r.random() < 0.25 and body:
            k = r.choice(list(body))
            body[k] = ge.rscalar()
        tagv = r.choice([tagvals[m]] * 5 + [r.choice(tagvals), 'zzz', None, [1], {'a': 1}, 3.5])
        mode = r.random()
        if layout == 'internal':
            v = dict(body)
            if mode < 0.88:
                v = {tagname: tagv, **body} if r.random() < 0.7 else {**body, tagname: tagv}
        elif layout == 'external':
            try:
                hash(tagv)
            except TypeError:
                tagv = 'zzz'
            v = {tagv: body}
            if mode > 0.85:
                v = r.choice([{}, {tagv: body, 'other': 1}])
        else:
            v = {'t': tagv, 'c': body}
            if mode > 0.75:
                # a key missing, a key too many (beside an otherwise valid pair), the content under another key, nothing
                v = r.choice([{'t': tagv}, {'t': tagv, 'c': body, 'x': 1}, {'t': tagv, 'c': body, 'note': 'n'}, {'t': tagv, 'd': body}, {}])
        if r.random() < 0.06:
            v = r.choice([None, 3, 'abc', [1, 2], [body]])
        # the tagged union as a member of an untagged union / Optional, or as a container element: it must still dispatch
        # on its tag and keep its layout
        wrap = r.random()
        if wrap < 0.12:
            ty = {'union': [ty, 'NoneType']}
        elif wrap < 0.20:
            ty = {'union': [r.choice(['int', 'str']), ty]}
        elif wrap < 0.26:
            ty, v = {'seq': ['list', ty]}, [v]
        elif wrap < 0.30:
            ty, v = {'map': ['dict', ['str', ty]]}, {'k': v}
        elif wrap < 0.38:
            # a later member that takes ANY mapping: it sees the data as it was given (tag included) when the tagged member refuses
            ty = {'union': [ty, {'map': ['dict', ['str', 'any']]}]}
        elif wrap < 0.46:
            # the tagged union as the type of a dataclass FIELD (its layout is what the field's serialiser writes)
            oname = ge.fresh('TF')
            od = {'name': oname, 'fields': [{'name': 'shape', 'ty': ty}, {'name': 'n', 'ty': 'int', 'default': {'value': {'i': '1'}}}], 'opts': {}, 'hook': None}
            ge.decl['classes'].append(od)
            ge.class_info[oname] = od
            ty, v = {'cls': [oname, []]}, {'shape': v}
        try:
            wire = ENC.enc(v)
            json.dumps(wire)
        except Exception:
            continue
        op = r.choice(['from_data', 'from_data', 'try_collect', 'roundtrip'])
        out.append({'id': f't{seed}:{i}', 'decl': ge.decl, 'op': op, 'ty': ty, 'val': wire, 'spell': r.randrange(2), 'stream': 'tagged'})
    return out


def scenarios_valuesem(seed, n):
    """C16: option cube x per-field flags x instance pairs (cmp / repr / setattr / delattr / copy / replace / dictview)"""
    g = random.Random(seed)
    out = []
    i = 0
    while len(out) < n:
        i += 1
        hg = HierGen(g.randrange(1 << 62), max_depth=1, classes=False)
        r = hg.r
        name = hg.fresh('S')
        generic = r.random() < 0.25
        opts = {}
        for k in ('eq', 'order', 'frozen', 'unsafe_hash'):
            if r.random() < 0.25:
                opts[k] = r.random() < 0.5
        d = {'name': name, 'fields': [], 'opts': opts, 'hook': None}
        if generic:
            d['tvars'] = ['T']
        fnames = r.sample(['x', 'y', 'zz', 'val'], r.randint(1, 4))
        ftys = []
        for fn in fnames:
            ty = r.choice(['int', 'str', 'float', {'tuple': ['int', 'str']}, 'bool'])
            if generic and r.random() < 0.4:
                ty = tv('T')
            f = {'name': fn, 'ty': ty, 'default': {'value': ENC.enc(hg.valid(ty if not (isinstance(ty, dict) and 'typevar' in ty) else 'int', 2))}}
            spec = {}
            for flag in ('compare', 'repr'):
                if r.random() < 0.15:
                    spec[flag] = False
            if r.random() < 0.08:
                spec['hash'] = r.random() < 0.5
            if r.random() < 0.08:
                spec['exclude'] = True
            if spec:
                f['spec'] = spec
            d['fields'].append(f)
            ftys.append(ty if not (isinstance(ty, dict) and 'typevar' in ty) else 'int')
        eq_opt = opts.get('eq', True)
        order_opt = opts.get('order', True)
        frozen = opts.get('frozen', True)
        decl = {'enums': [], 'subs': [], 'classes': [d]}
        noinit_name = None
        if not generic and len(d['fields']) >= 2 and r.random() < 0.15:
            # a field that is not a constructor parameter (init=False, with a default) but holds a value of its own on the instances
            # (assigned after construction): copy and deepcopy carry it over like any other field
            f = d['fields'][-1]
            f.setdefault('spec', {})['init'] = False
            noinit_name = f['name']
        elif not generic and len(d['fields']) >= 2 and r.random() < 0.2:
            # the same fields contributed by TWO pane bases to a class that declares none itself (`class S(SA, SB): pass`): equality,
            # order and hash range over the fields of both bases
            cut = r.randint(1, len(d['fields']) - 1)
            # (`_process` walks reversed(mro[1:]): the fields of the LATER base come first)
            da = {'name': name + 'A', 'fields': d['fields'][cut:], 'opts': dict(opts), 'hook': None}
            db = {'name': name + 'B', 'fields': d['fields'][:cut], 'opts': dict(opts), 'hook': None}
            d = {'name': name, 'fields': [], 'opts': {}, 'hook': None, 'base': {'cls': [name + 'A', []]}, 'mixins': [{'cls': [name + 'B', []], 'first': False}]}
            decl = {'enums': [], 'subs': [], 'classes': [da, db, d]}
        # pool of instances colliding on prefixes
        base = [hg.valid(t, 2) for t in ftys]
        for k, t in enumerate(ftys):
            if t == 'float' and (base[k] != base[k] or base[k] in (float('inf'), float('-inf'))):
                base[k] = 1.5
            if t == {'tuple': ['int', 'str']}:
                base[k] = tuple(base[k])
        pool = []
        for _ in range(r.randint(2, 4)):
            vals = list(base)
            for k in range(len(vals)):
                if r.random() < 0.35:
                    v = hg.valid(ftys[k], 2)
                    if isinstance(v, float) and (v != v or v in (float('inf'), float('-inf'))):
                        v = 0.5
                    vals[k] = tuple(v) if isinstance(v, list) else v
            setf = [fn for fn in fnames if r.random() < 0.6 and fn != noinit_name]
            pool.append({'obj': [name, [[fn, ENC.enc(v)] for fn, v in zip(fnames, vals)], setf]})
        keys = [name] * len(pool)
        tys = []
        if generic and r.random() < 0.6:
            tys = [{'cls': [name, ['int']]}]
            keys = [r.choice([name, name + '[int]']) for _ in pool]
            if r.random() < 0.6:
                # ordinary subclasses of the subscripted class (`class A(G[int])`, `class B(G[int])`): other classes, never equal
                # to the base's or to each other's instances, whatever the field values
                subs = [name + 'A', name + 'B']
                for sn in subs:
                    decl['classes'].append({'name': sn, 'fields': [], 'opts': {}, 'hook': None, 'base': {'cls': [name, ['int']]}})
                for k2 in range(len(pool)):
                    if r.random() < 0.6:
                        sn = r.choice(subs)
                        pool[k2] = {'obj': [sn] + pool[k2]['obj'][1:]}
                        keys[k2] = sn
        sc0 = {'decl': decl, 'spell': 0, 'stream': 'valuesem', 'tys': tys}
        a, b = r.randrange(len(pool)), r.randrange(len(pool))
        op = r.choice(['cmp', 'cmp', 'cmp', 'repr', 'setattr', 'delattr', 'copy', 'replace', 'dictview', 'copyset', 'copyset'])
        if noinit_name is not None:
            op = r.choice(['cmp', 'copy', 'copy', 'copyset', 'repr'])     # (replace() with such a field: known finding N13)
        sc = dict(sc0, id=f'v{seed}:{i}', op=op)
        if op == 'repr' and not generic and d['fields'] and r.random() < 0.6:
            # repr is a function of the field values, whatever happened before: the first field loses its default, an instance
            # that LACKS it is shown (AttributeError), the field is then assigned and the instance is shown again
            d['fields'][0].pop('default', None)
            (d['fields'][0].get('spec') or {}).pop('repr', None)
            sc['partial'] = fnames[0]
        if op == 'cmp':
            sc.update(a=pool[a], b=pool[b], akey=keys[a], bkey=keys[b], eq_opt=eq_opt, order_opt=order_opt,
                      pool=[[x, k] for x, k in zip(pool, keys)])
        elif op == 'repr':
            sc.update(a=pool[a], akey=keys[a])
        elif op in ('setattr', 'delattr'):
            sc.update(cls=pool[a]['obj'][0], obj=pool[a], name=r.choice(fnames), val=ENC.enc(hg.valid(ftys[0], 2) if r.random() < 0.5 else 'zz'), frozen=frozen)
        elif op == 'copyset':
            k = r.randrange(len(fnames))
            sc.update(cls=pool[a]['obj'][0], obj=pool[a], how=r.choice(['copy', 'deepcopy', 'replace', 'fromdict'] if noinit_name is None else ['copy', 'deepcopy', 'fromdict']), mutate=r.choice(['orig', 'copy']),
                      name=fnames[k], val=ENC.enc(hg.valid(ftys[k], 2)), frozen=frozen)
        elif op == 'copy':
            sc.update(cls=pool[a]['obj'][0], obj=pool[a], deep=r.random() < 0.5)
        elif op == 'replace':
            k = r.randrange(len(fnames))
            v = hg.valid(ftys[k], 2) if r.random() < 0.7 else hg.rscalar()
            try:
                sc.update(cls=pool[a]['obj'][0], obj=pool[a], kwargs=[[fnames[k], ENC.enc(v)]])
            except Exception:
                continue
        else:
            sc.update(cls=pool[a]['obj'][0], obj=pool[a], set_only=r.random() < 0.5, rename=r.choice([None, None, 'camel', 'scream', 'pascal']))
        out.append(sc)
    return out


def scenarios_dictview_names(seed, n):
    """C20 through the class API: `obj.dict(rename=style)` / `dict(set_only=True, rename=style)` on classes whose field names
    have several words (and, rarely, a name the renaming refuses)"""
    g = random.Random(seed)
    out = []
    names = ['host_name', 'time_out', 'my_field', 'a_b_c', 'x', 'user_id', 'userid', 'max_retry_count', 'ab_cd', 'abcd']
    for i in range(n):
        r = random.Random(g.randrange(1 << 62))
        fn = r.sample(names, r.randint(1, 4))
        if r.random() < 0.08:
            fn.append(r.choice(['trailing_', 'dbl__us']))
        cname = f'Dv{seed % 1000}x{i}'
        d = {'name': cname, 'fields': [{'name': f, 'ty': 'int', 'default': {'value': {'i': str(k)}}} for k, f in enumerate(fn)], 'opts': {}, 'hook': None}
        if r.random() < 0.3:
            d['opts']['frozen'] = False
        setf = [f for f in fn if r.random() < 0.6]
        obj = {'obj': [cname, [[f, {'i': str(r.randint(0, 9))}] for f in fn], setf]}
        out.append({'id': f'dv{seed}:{i}', 'decl': {'enums': [], 'subs': [], 'classes': [d]}, 'spell': 0, 'stream': 'dictview-names', 'tys': [],
                    'op': 'dictview', 'cls': cname, 'obj': obj, 'set_only': r.random() < 0.5,
                    'rename': r.choice(['camel', 'scream', 'pascal', 'kebab', 'snake', None])})
    return out


def scenarios_c3(seed, n):
    """C17 (MRO order): random class hierarchies (up to 8 classes, 0-3 bases each, bases in random order -- many are inconsistent):
    the model's C3 linearisation against Python's own `__mro__` / its refusal to create the class"""
    g = random.Random(seed)
    out = []
    for i in range(n):
        r = random.Random(g.randrange(1 << 62))
        names = [f'K{j}' for j in range(r.randint(2, 8))]
        classes = []
        for j, nm in enumerate(names):
            k = min(j, r.choice([0, 1, 1, 2, 2, 3]))
            bases = r.sample(names[:j], k)
            if r.random() < 0.15 and 'object' not in bases:
                bases = bases + ['object'] if r.random() < 0.7 else ['object'] + bases
            classes.append([nm, bases])
        out.append({'id': f'c3{seed}:{i}', 'op': 'c3h', 'classes': classes, 'stream': 'c3'})
    return out


def scenarios_unionnorm(seed, n):
    """C11 ("regardless of how the union is nested, flattened or wrapped in Optional"): `typing`'s own normalisation of
    Union[...] (nested unions flattened in place, later duplicates dropped, Optional = a trailing None) against the model's"""
    g = random.Random(seed)
    names = ['int', 'str', 'float', 'bool', 'bytes', 'NoneType', 'complex']
    out = []
    for i in range(n):
        r = random.Random(g.randrange(1 << 62))
        def mem(depth):
            if depth < 3 and r.random() < 0.3:
                return [mem(depth + 1) for _ in range(r.randint(1, 3))]
            return r.choice(names)
        members = [mem(0) for _ in range(r.randint(1, 5))]
        out.append({'id': f'un{seed}:{i}', 'op': 'unionnorm', 'members': members, 'optional': r.random() < 0.3, 'stream': 'unionnorm'})
    return out


def scenarios_boost(seed, n, op='from_data'):
    """small families that random generation reaches too rarely (each was the home of a seeded change that a shifted random
    stream once un-caught): (a) every element converts but the collection's CONSTRUCTOR refuses the converted elements (a set of
    lists, unhashable dict keys); (b) several unknown keys of mutually unorderable kinds next to a struct / dataclass;
    (c) a renamed field given under BOTH its renamed key and its Python name, in a class without any alias"""
    g = random.Random(seed)
    out = []
    for i in range(n):
        r = random.Random(g.randrange(1 << 62))
        decl = {'enums': [], 'subs': [], 'classes': []}
        fam = r.choice('abc')
        if fam == 'a':
            ty, v = r.choice([({'seq': ['set', {'seq': ['list', 'int']}]}, [[1, 2], [3]]), ({'seq': ['frozenset', {'map': ['dict', ['str', 'int']]}]}, [{'a': 1}]),
                              ({'map': ['dict', [{'seq': ['list', 'int']}, 'int']]}, {(1, 2): 3}), ({'seq': ['set', {'seq': ['set', 'int']}]}, [[1], [2, 3]]),
                              ({'seq': ['list', {'seq': ['set', {'seq': ['list', 'str']}]}]}, [[['a']], []])])
            wire = ENC.enc(v)
            if r.random() < 0.5:
                name = f'Bo{seed % 1000}x{i}'
                decl['classes'].append({'name': name, 'fields': [{'name': 'items', 'ty': ty}, {'name': 'n', 'ty': 'int', 'default': {'value': {'i': '0'}}}], 'opts': {}, 'hook': None})
                ty, wire = {'cls': [name, []]}, {'d': [['items', wire]]}
        elif fam == 'b':
            extras = r.choice([[3, 'zz'], [None, 'k', 2.5], [(1, 2), 'x'], [True, 'a', 7], ['b', 'a']])
            data = {'x': r.choice([1, 'bad']), 'my_field': 2}
            for k in extras:
                data[k] = r.choice([1, 'u', None])
            if r.random() < 0.5:
                ty = {'struct': [['x', 'int'], ['my_field', 'int']]}
            else:
                name = f'Bo{seed % 1000}x{i}'
                decl['classes'].append({'name': name, 'fields': [{'name': 'x', 'ty': 'int'}, {'name': 'my_field', 'ty': 'int'}], 'opts': {}, 'hook': None})
                ty = {'cls': [name, []]}
            if r.random() < 0.4:
                ty, data = {'seq': ['list', ty]}, [data, {'x': 1, 'my_field': 2}]
            wire = ENC.enc(data)
        else:
            name = f'Bo{seed % 1000}x{i}'
            style = r.choice(['camel', 'pascal', 'kebab', 'scream'])
            renamed = {'camel': 'myField', 'pascal': 'MyField', 'kebab': 'my-field', 'scream': 'MY_FIELD'}[style]
            how = r.choice(['class', 'class_in', 'field'])
            f = {'name': 'my_field', 'ty': 'int'}
            opts = {}
            if how == 'class':
                opts['rename'] = style
            elif how == 'class_in':
                opts['in_rename'] = [style]
            else:
                f['spec'] = {'rename': renamed}
            decl['classes'].append({'name': name, 'fields': [f, {'name': 'x', 'ty': 'int', 'default': {'value': {'i': '0'}}}], 'opts': opts, 'hook': None})
            ty = {'cls': [name, []]}
            data = r.choice([{renamed: 1, 'my_field': 2}, {'my_field': 2, renamed: 1}, {renamed: 1}, {'my_field': 2}, {renamed: 1, 'my_field': 2, 'x': 5}])
            wire = ENC.enc(data)
        out.append({'id': f'bo{seed}:{i}', 'decl': decl, 'op': op, 'ty': ty, 'val': wire, 'spell': r.randrange(2), 'stream': 'boost-' + fam})
    return out


def scenarios_vol(seed, n, op='from_data'):
    """`pane.types.ValueOrList[T]` (one T, or a list of T): bare, as a list element, as a dataclass field, next to another union
    member; data that is a T, a list of T, a list with one bad element, a T that is itself a list, or something else"""
    g = random.Random(seed)
    out = []
    for i in range(n):
        ge = Gen(g.randrange(1 << 62), max_depth=1, classes=False, noinit=(op not in ('roundtrip', 'convert2', 'into_data')))
        ge.no_dt_sub = True
        r = ge.r
        inner = r.choice(['int', 'int', 'str', 'float', 'bool', 'Fraction', 'date', {'union': ['int', 'str']}, {'seq': ['list', 'int']}, {'tuple': ['int', 'str']},
                          {'lit': ['a', {'i': '1'}]}, 'any', None])
        ty = {'vol': inner}
        ity = inner if inner is not None else 'any'
        p = r.random()
        try:
            if p < 0.3:
                v = ge.valid(ity)
            elif p < 0.6:
                v = [ge.valid(ity) for _ in range(r.randint(0, 3))]
            elif p < 0.8:
                v = [ge.valid(ity) for _ in range(r.randint(1, 3))]
                v[r.randrange(len(v))] = ge.mutate(ge.valid(ity))
            else:
                v = ge.arbitrary()
            wire = ENC.enc(v)
            json.dumps(wire)
        except Exception:
            wire = ENC.enc([1, 'x'])
        decl = ge.decl
        shape = r.choice(['bare', 'bare', 'list', 'field', 'union'])
        if shape == 'list':
            ty, wire = {'seq': ['list', ty]}, {'l': [wire, wire]}
        elif shape == 'field':
            name = f'Vo{seed % 1000}x{i}'
            decl['classes'].append({'name': name, 'fields': [{'name': 'items', 'ty': ty}, {'name': 'n', 'ty': 'int', 'default': {'value': {'i': '0'}}}], 'opts': {}, 'hook': None})
            ty, wire = {'cls': [name, []]}, {'d': [['items', wire]]}
        elif shape == 'union':
            ty = {'union': [ty, 'NoneType']} if r.random() < 0.5 else {'union': ['NoneType', ty]}
        out.append({'id': f'vo{seed}:{i}', 'decl': decl, 'op': op, 'ty': ty, 'val': wire, 'spell': 0, 'stream': 'vol'})
    return out


def scenarios_registered(seed, n):
    """C18, last clause: process-wide handlers (`register_converter_handler`) are consulted AFTER the call-level / class-level
    handlers, the type's own converter protocol and the scalar built-ins, and BEFORE the structural built-ins (enums,
    sequences, mappings, subclasses of scalars): one registered function-form handler answering for a few heads, an optional
    call-level handler for the same heads, and a type / value that reaches one of them"""
    g = random.Random(seed)
    out = []
    for i in range(n):
        ge = Gen(g.randrange(1 << 62), max_depth=1, classes=False)
        r = ge.r
        en = ge.gen_enum()                       # declares an enum
        ename = en['enum']
        sb = ge.gen_sub()                        # a user subclass of int / str / float / bytes
        sname, sbase = sb['sub']
        cname = f'Rg{seed % 1000}x{i}'
        ge.decl['classes'].append({'name': cname, 'fields': [{'name': 'x', 'ty': 'int'}], 'opts': {}, 'hook': None})
        # ... and a class that has the first one as the type of a FIELD (a handler keyed on a dataclass type beats the type's own
        # converter protocol wherever the type occurs, also as a bare field type of another dataclass)
        oname = cname + 'O'
        ge.decl['classes'].append({'name': oname, 'fields': [{'name': 'p', 'ty': {'cls': [cname, []]}}, {'name': 'q', 'ty': 'int', 'default': {'value': {'i': '0'}}}], 'opts': {}, 'hook': None})
        # (not the base scalar of the user subclass: its converter hands a handler's product to the subclass constructor, a value the
        # per-scenario table of stdlib results does not list)
        heads = r.sample([h for h in ['int', 'str', ename, sname, 'list', 'dict', cname, 'float'] if h != sbase], r.randint(1, 4))
        reg = [{'entries': [[h, 'tagint:%d' % (3 + k)] for k, h in enumerate(heads)], 'exactOnly': False}]
        if len(heads) >= 2 and r.random() < 0.5:
            # two handlers registered one after the other (made by the same factory: same module and qualified name), for
            # different heads: both stay registered, in registration order
            cut = r.randint(1, len(heads) - 1)
            reg = [{'entries': reg[0]['entries'][:cut], 'exactOnly': False}, {'entries': reg[0]['entries'][cut:], 'exactOnly': False}]
        hs = None
        if r.random() < 0.35:
            hs = {'globals': [{'entries': [[r.choice(heads), 'tagint:11']], 'exactOnly': r.random() < 0.5}]}
        target = r.choice(['int', 'str', en, sb, {'seq': ['list', 'int']}, {'map': ['dict', ['str', 'int']]}, {'cls': [cname, []]}, 'float',
                           {'seq': ['list', en]}, {'union': [sb, 'NoneType']}, {'tuple': ['int', sb]}, {'cls': [oname, []]}, {'cls': [oname, []]},
                           {'seq': ['list', {'cls': [cname, []]}]}])
        v = r.choice([5, 2, 'a', [1, 2], {'k': 1}, {'x': 4}, 2.5, None, [5, 5], {'p': 5}, {'p': {'x': 4}}, {'p': 7, 'q': 2}])
        if cname in json.dumps(target) and r.random() < 0.6:
            # a call-level handler keyed on the dataclass type itself (mapping form or function form)
            hs = {'globals': [{'entries': [[cname, 'tagint:13']], 'exactOnly': r.random() < 0.5}]}
        sc = {'id': f'rg{seed}:{i}', 'decl': ge.decl, 'op': r.choice(['from_data', 'from_data', 'build']), 'ty': target, 'val': ENC.enc(v), 'spell': 0,
              'stream': 'registered', 'registered': reg}
        if hs:
            sc['handlers'] = hs
        out.append(sc)
    return out


def scenarios_hashtable(seed, n=0):
    """the full (unsafe_hash, eq, frozen, explicit __hash__) cube through class creation"""
    out = []
    n = 0
    for u in (False, True):
        for e in (False, True):
            for f in (False, True):
                for x in (False, True):
                    for q in (False, True):
                        # q: the class body writes its own __eq__ (Python then puts an implicit `__hash__ = None` into the class
                        # dict, which is NOT an explicit __hash__)
                        n += 1
                        d = {'name': f'Hc{n}', 'fields': [{'name': 'x', 'ty': 'int', 'default': {'value': {'i': '0'}}}],
                             'opts': {'unsafe_hash': u, 'eq': e, 'frozen': f}, 'hook': None, 'explicit_hash': x, 'explicit_eq': q}
                        out.append({'id': f'h{n}', 'decl': {'enums': [], 'subs': [], 'classes': []}, 'op': 'process', 'decls': [d],
                                    'explicit_hash': x, 'explicit_eq': q, 'stream': 'hashcube', 'spell': 0})
    return out


def scenarios_shapes(seed, n, op='render'):
    """tree-shape boosted scenarios for C07/C08: nested products (struct literals, dataclasses, sequences, tuples) with 1-3
    targeted local defects: a wrong leaf deep down, an unknown key / a missing key / a duplicated (aliased) key at a chosen level"""
    g = random.Random(seed)
    out = []
    for i in range(n):
        ge = Gen(g.randrange(1 << 62), max_depth=3, classes=True, noinit=False)
        r = ge.r

        def shape(depth):
            p = r.random()
            if depth >= 3 or p < 0.25:
                return r.choice(['int', 'str', 'float', {'union': ['int', 'NoneType']}, {'seq': ['list', 'int']}])
            if p < 0.5:
                names = r.sample(FIELD_NAMES, r.randint(1, 3))
                if depth == 0 or True:
                    return ('struct', [[nm, shape(depth + 1)] for nm in names])
            if p < 0.7:
                name = ge.fresh('D')
                fields = []
                seen_default = False
                for k, fn in enumerate(r.sample([x for x in FIELD_NAMES if x != 'tag'], r.randint(1, 3))):
                    f = {'name': fn, 'ty': shape(depth + 1)}
                    q = r.random()
                    if q < 0.35:
                        f['spec'] = {'aliases': [fn + '_alias', 'al%d' % k]}
                    elif q < 0.5:
                        # several accepted names given as the user's own LIST (`field(in_names=[...])`)
                        f['spec'] = {'in_names': [fn + 'In', fn], 'in_names_as_list': True}
                    elif q < 0.58:
                        # a field that is read but never written (`exclude=True`) and has no default: it is required on input
                        f['spec'] = {'exclude': True}
                    fields.append(f)
                    if r.random() < 0.12:
                        fields.append({'name': 'ni%d' % k, 'ty': 'int', 'default': {'value': ENC.enc(0)}, 'spec': {'init': False}})
                        seen_default = True
                d = {'name': name, 'fields': fields, 'opts': {}, 'hook': None}
                if r.random() < 0.3:
                    d['opts']['in_format'] = ['tuple', 'struct']
                if r.random() < 0.2:
                    d['opts']['allow_extra'] = True
                return ('cls', d)
            if p < 0.85:
                return {'seq': [r.choice(['list', 'Sequence']), shape(depth + 1)]}
            return {'tuple': [shape(depth + 1) for _ in range(r.randint(1, 3))]}

        def realise(sh, lit_ok):
            """shape -> type descriptor (struct literals only where typing allows them: top level / inside literals)"""
            if isinstance(sh, tuple) and sh[0] == 'struct':
                if lit_ok:
                    return {'struct': [[nm, realise(x, True)] for nm, x in sh[1]]}
                name = ge.fresh('D')
                d = {'name': name, 'fields': [{'name': nm, 'ty': realise(x, False)} for nm, x in sh[1]], 'opts': {}, 'hook': None}
                ge.decl['classes'].append(d)
                ge.class_info[name] = d
                return {'cls': [name, []]}
            if isinstance(sh, tuple) and sh[0] == 'cls':
                d = sh[1]
                d = dict(d, fields=[dict(f, ty=realise(f['ty'], False)) for f in d['fields']])
                ge.decl['classes'].append(d)
                ge.class_info[d['name']] = d
                return {'cls': [d['name'], []]}
            if isinstance(sh, dict) and 'seq' in sh:
                return {'seq': [sh['seq'][0], realise(sh['seq'][1], False)]}
            if isinstance(sh, dict) and 'tuple' in sh:
                return {'tuple': [realise(x, False) for x in sh['tuple']]}
            return sh

        ty = realise(shape(0), True)
        try:
            v = ge.valid(ty)
        except Exception:
            continue

        def mappings(x, acc, path=()):
            if isinstance(x, dict):
                acc.append(x)
                for k, y in x.items():
                    mappings(y, acc, path + (k,))
            elif isinstance(x, (list, tuple)):
                for y in x:
                    mappings(y, acc, path)
            return acc

        def deep_mutate(x, depth=0):
            if isinstance(x, dict) and x and (depth < 3 and r.random() < 0.8):
                k = r.choice(list(x))
                return {kk: (deep_mutate(vv, depth + 1) if kk == k else vv) for kk, vv in x.items()}
            if isinstance(x, (list, tuple)) and x and (depth < 3 and r.random() < 0.8):
                j = r.randrange(len(x))
                return type(x)(deep_mutate(y, depth + 1) if jj == j else y for jj, y in enumerate(x))
            return r.choice(['bad', None, 3.5, [None], {'zz9': 1}]) if not isinstance(x, str) else 7

        for _ in range(r.randint(1, 3)):
            p = r.random()
            ms = mappings(v, [])
            if p < 0.4 or not ms:
                v = deep_mutate(v)
            elif p < 0.6:
                r.choice(ms)['extra_key'] = 1
            elif p < 0.8:
                m = r.choice(ms)
                if m:
                    del m[r.choice(list(m))]
            else:
                m = r.choice(ms)
                if m:
                    k = r.choice(list(m))
                    if isinstance(k, str):
                        m[k + '_alias'] = m[k]
        try:
            wire = ENC.enc(v)
            json.dumps(wire)
        except Exception:
            continue
        out.append({'id': f's{seed}:{i}', 'decl': ge.decl, 'op': op, 'ty': ty, 'val': wire, 'spell': r.randrange(2), 'stream': 'shapes'})
    return out


def scenarios_tuplelayout(seed, n, op='from_data', out_tuple=0.3):
    """dataclasses with the positional layout enabled: init=False / keyword-only / excluded fields interleaved with
    positional ones; sequence data of every admissible length, one element possibly of the wrong kind"""
    g = random.Random(seed)
    out = []
    for i in range(n):
        ge = Gen(g.randrange(1 << 62), max_depth=1, classes=True)
        r = ge.r
        name = ge.fresh('T')
        fields = []
        seen_default = False
        tys = ['int', 'str', 'float', 'bool', {'seq': ['list', 'int']}, 'NoneType', 'bytes', {'union': ['int', 'NoneType']}, {'union': ['str', 'NoneType']}]
        for k in range(r.randint(1, 5)):
            ty = r.choice(tys)
            f = {'name': 'f%d' % k, 'ty': ty}
            q = r.random()
            if q < 0.25:
                f['spec'] = {'init': False}
                if r.random() < 0.5:
                    f['spec']['exclude'] = True
                f['default'] = {'value': ENC.enc(ge.valid(ty, 2))}
            elif q < 0.35:
                f['spec'] = {'kw_only': True}
                f['default'] = {'value': ENC.enc(ge.valid(ty, 2))}
            elif q < 0.42:
                f['spec'] = {'exclude': True}
                f['default'] = {'value': ENC.enc(ge.valid(ty, 2))}
                seen_default = True
            elif seen_default or r.random() < 0.35:
                f['default'] = {'value': ENC.enc(ge.valid(ty, 2))}
                seen_default = True
            fields.append(f)
        d = {'name': name, 'fields': fields, 'opts': {'in_format': r.choice([['tuple', 'struct'], ['tuple']])}, 'hook': None}
        if r.random() < out_tuple:
            d['opts']['out_format'] = 'tuple'
        ge.decl['classes'].append(d)
        ge.class_info[name] = d
        pos = [f for f in fields if not (f.get('spec') or {}).get('init') is False and not (f.get('spec') or {}).get('kw_only')]
        nreq = sum(1 for f in pos if 'default' not in f)
        ln = r.choice([nreq, len(pos), r.randint(0, len(pos) + 1)])
        items = [ge.valid(f['ty'], 2) for f in pos[:ln]] + [ge.rscalar() for _ in range(max(0, ln - len(pos)))]
        if items and r.random() < 0.15:
            # a record that ENDS in None (for a trailing field that admits None, or not): the caller's list keeps its length
            k = r.randint(1, min(2, len(items)))
            items[-k:] = [None] * k
        if items and r.random() < 0.6:
            j = r.randrange(len(items))
            items[j] = r.choice([None, 'bad', 3.5, [1], 7, b'x', True])
        ty = {'cls': [name, []]}
        val = items if r.random() < 0.5 else tuple(items)
        if r.random() < 0.3:
            ty, val = {'seq': ['list', ty]}, [val]
        try:
            wire = ENC.enc(val)
            json.dumps(wire)
        except Exception:
            continue
        out.append({'id': f'tl{seed}:{i}', 'decl': ge.decl, 'op': op, 'ty': ty, 'val': wire, 'spell': r.randrange(2), 'stream': 'tuplelayout'})
    return out


def scenarios_handlers(seed, n):
    """C18: subsets of the handler sources (field converter, call-level, own class, enclosing class, inherited) x nesting
    shapes x both directions, with tagging converters (tagint:k multiplies ints by k, tagstr:s appends s)"""
    g = random.Random(seed)
    out = []
    for i in range(n):
        ge = Gen(g.randrange(1 << 62), max_depth=1, classes=True)
        r = ge.r

        def handler(kinds, exact=None):
            ents = []
            for k in kinds:
                if k == 'int':
                    ents.append(['int', 'tagint:%d' % r.choice([2, 3, 5, 7])])
                elif k == 'str':
                    ents.append(['str', 'tagstr:%s' % r.choice(['x', 'y'])])
                else:
                    ents.append([k, 'tagint:11'])
            return {'entries': ents, 'exactOnly': (r.random() < 0.5) if exact is None else exact}

        def maybe_custom(p):
            if r.random() < p:
                hs = [handler(r.sample(['int', 'str', 'list'], r.randint(1, 2)))]
                if r.random() < 0.25:
                    # a sequence of handlers must be function-form (pane accepts ONE mapping or a sequence of callables);
                    # the first answers NotImplemented for int: the loop must defer to the next
                    hs = [handler(['str'], exact=False), dict(hs[0], exactOnly=False)]
                return hs
            return None

        inner = ge.fresh('I')
        ifields = [{'name': 'a', 'ty': 'int'}, {'name': 'b', 'ty': {'seq': ['list', 'int']}, 'default': {'factory': 'list'}}]
        if r.random() < 0.5:
            ifields.append({'name': 'c', 'ty': 'int', 'default': {'value': {'i': '1'}}, 'spec': {'converter': 'tagint:13'}})
        if r.random() < 0.4:
            ifields.append({'name': 's', 'ty': 'str', 'default': {'value': 'q'}})
        di = {'name': inner, 'fields': ifields, 'opts': {}, 'hook': None}
        c = maybe_custom(0.5)
        if c:
            di['opts']['custom'] = c
        ge.decl['classes'].append(di)
        ge.class_info[inner] = di
        outer = ge.fresh('O')
        ofields = [{'name': 'inner', 'ty': {'cls': [inner, []]}}, {'name': 'n', 'ty': 'int', 'default': {'value': {'i': '4'}}},
                   {'name': 'u', 'ty': {'union': ['int', 'str']}, 'default': {'value': 'z'}},
                   {'name': 'm', 'ty': {'map': ['dict', ['str', 'int']]}, 'default': {'value': {'d': []}}}]
        do = {'name': outer, 'fields': ofields, 'opts': {}, 'hook': None}
        c = maybe_custom(0.5)
        if c:
            do['opts']['custom'] = c
        ge.decl['classes'].append(do)
        ge.class_info[outer] = do
        target = outer
        if r.random() < 0.35:
            sub = ge.fresh('S')
            ds = {'name': sub, 'fields': [{'name': 'extra', 'ty': 'int', 'default': {'value': {'i': '9'}}}], 'opts': {}, 'hook': None,
                  'base': {'cls': [outer, []]}}
            c = maybe_custom(0.3)
            if c:
                ds['opts']['custom'] = c
            ge.decl['classes'].append(ds)
            ge.class_info[sub] = {'name': sub, 'fields': ofields + ds['fields'], 'opts': ds['opts'], 'hook': None}
            target = sub
        shape = r.choice(['cls', 'list', 'union', 'dictval', 'int', 'listint', 'inner', 'condint', 'listcondint'])
        tcls = {'cls': [target, []]}
        condint = {'ann': ['int', [{'cond': {'stock': 'Positive', 'name': 'positive'}, 'fmt': {'adjective': ['positive', 'a']}}]]}
        ty = {'cls': tcls, 'list': {'seq': ['list', tcls]}, 'union': {'union': [tcls, 'int']}, 'dictval': {'map': ['dict', ['str', tcls]]},
              'int': 'int', 'listint': {'seq': ['list', 'int']}, 'inner': {'cls': [inner, []]},
              # the customised type under a condition: the inner conversion goes through the same handlers
              'condint': condint, 'listcondint': {'seq': ['list', condint]}}[shape]
        call = maybe_custom(0.5 if 'condint' not in shape else 0.9)
        pre = []
        if call and len(call) == 1 and call[0].get('exactOnly') and r.random() < 0.4:
            # the same mapping OBJECT passed to an earlier call with other contents (a registry that is edited between calls)
            other = dict(handler(['int']), exactOnly=True, share='reg')
            call = [dict(call[0], share='reg')]
            try:
                pre = [{'ty': ty, 'val': ENC.enc(ge.valid(ty)), 'handlers': {'globals': [other]}}]
            except Exception:
                pre = []
        if not pre and r.random() < 0.3:
            # the SAME function-form handler object in two roles (a call's custom= and an enclosing class's custom=), and an
            # earlier conversion of the nested class in the other role, in the same interpreter
            shared = dict(handler(['int'], exact=False), share='s1')
            role = r.choice(['outer', 'sub' if target != outer else 'outer'])
            (do if role == 'outer' else ds)['opts']['custom'] = [shared]
            if 'custom' not in di['opts'] and r.random() < 0.7:
                di['opts']['custom'] = [handler(['int'])]
            icls = {'cls': [inner, []]}
            pre_ty = r.choice([icls, {'seq': ['list', icls]}])
            if r.random() < 0.5:
                # first as a call-level handler, then (the scenario proper) through the enclosing class
                try:
                    pre = [{'ty': pre_ty, 'val': ENC.enc(ge.valid(pre_ty)), 'handlers': {'globals': [shared]}}]
                except Exception:
                    pre = []
                call = None if r.random() < 0.7 else call
            else:
                # first through the enclosing class, then (the scenario proper) as a call-level handler on the nested class
                try:
                    pre = [{'ty': tcls, 'val': ENC.enc(ge.valid(tcls)), 'handlers': None}]
                except Exception:
                    pre = []
                ty = pre_ty
                call = [shared]
        try:
            v = ge.valid(ty)
            if r.random() < 0.15:
                v = ge.mutate(v)
            wire = ENC.enc(v)
            json.dumps(wire)
        except Exception:
            continue
        sc = {'id': f'h{seed}:{i}', 'decl': ge.decl, 'op': r.choice(['from_data', 'from_data', 'roundtrip']), 'ty': ty, 'val': wire,
              'spell': 0, 'stream': 'handlers-shared' if pre else 'handlers'}
        if call:
            sc['handlers'] = {'globals': call}
        if pre:
            sc['pre'] = pre
        out.append(sc)
    return out


def scenarios_history(seed, n, threads=0):
    """C10: random histories of alloc / drop / gc / churn / call over a few slots and a pool of short-lived type expressions"""
    g = random.Random(seed)
    out = []
    NT = 20
    for i in range(n):
        r = random.Random(g.randrange(1 << 62))
        hist = []
        live = set()
        for _ in range(r.randint(5, 25)):
            p = r.random()
            if p < 0.3 or not live:
                s = r.randrange(4)
                hist.append(['alloc', s, r.randrange(NT)])
                live.add(s)
            elif p < 0.45:
                s = r.choice(sorted(live))
                hist.append(['drop', s])
                live.discard(s)
            elif p < 0.55:
                hist.append(['gc'])
            elif p < 0.63:
                hist.append(['churn', r.randrange(NT), r.randint(1, 6)])
            elif p < 0.70:
                hist.append(['mutreg', r.choice([3, 5, 7, 11])])
            else:
                hist.append(['call', r.choice(sorted(live)), r.choice([0, 0, 0, 1, 1, 2, 3, 3]), r.randrange(3)])
        # the classic: build, use, drop, (collect), re-create ANOTHER type of the same size, use
        if r.random() < 0.4:
            a, b = r.sample(range(NT), 2)
            hist += [['alloc', 0, a], ['call', 0, 0], ['drop', 0], ['gc'], ['alloc', 1, b], ['call', 1, 0], ['alloc', 0, b], ['call', 0, 0]]
        if r.random() < 0.25:
            # a build that FAILS (no handler for the plain class), then the same type object with the handler that knows it
            u = r.choice([18, 19])
            hist += [['alloc', 2, u], ['call', 2, 0], ['call', 2, 1, r.randrange(2)], ['call', 2, 0], ['call', 2, 1, r.randrange(2)]]
        out.append({'id': f'hi{seed}:{i}', 'op': 'history', 'hist': hist, 'threads': threads if r.random() < 0.3 else 0, 'stream': 'history'})
    return out


def scenarios_lru(seed, n):
    g = random.Random(seed)
    out = []
    for i in range(n):
        r = random.Random(g.randrange(1 << 62))
        m = r.randint(1, 5)
        keys = [r.randrange(m + r.randint(0, 4)) for _ in range(r.randint(0, 30))]
        out.append({'id': f'lru{seed}:{i}', 'op': 'lru', 'maxsize': m, 'keys': keys, 'stream': 'lru'})
    return out


IO_STRS = ['', 'a', 'plain text', 'yes', 'no', 'null', '~', '2020-01-02', '1e3', '- a', 'k: v', 'é ü 日本', 'tab\there', 'line1\nline2', ' lead', 'trail ',
           '"quoted"', "it's", '#hash', '{brace}', '1', '1.5', 'True', '0x10', 'a' * 90,
           # line-break characters other than \n (the YAML emitters and readers treat them specially), runs of spaces next to a
           # narrow `width`, a BOM, a trailing CR
           'first\x85second', 'a\u2028b', 'p\u2029q', 'w1  w2   w3 ' * 4, 'many words in a row that need folding ' * 3, '\ufeffbom', 'cr\r', 'end\r\n']


def scenarios_io(seed, n):
    """C19: sink/source kind x JSON/YAML options x typed values from the representable fragment"""
    g = random.Random(seed)
    out = []
    for i in range(n):
        ge = Gen(g.randrange(1 << 62), max_depth=2, classes=True, noinit=False)
        r = ge.r

        def rty(depth):
            p = r.random()
            if depth >= 2 or p < 0.4:
                if r.random() < 0.12:
                    # a user subclass of str / int: it is written as the plain scalar
                    base = r.choice(['str', 'str', 'int'])
                    nm = 'My' + base.title()
                    if not any(x[0] == nm for x in ge.decl['subs']):
                        ge.decl['subs'].append([nm, base, {}])
                    return {'sub': [nm, base]}
                return r.choice(['int', 'str', 'bool', 'float', 'NoneType', {'union': ['int', 'NoneType']}, {'lit': ['a', {'i': '1'}]}])
            if p < 0.6:
                return {'seq': [r.choice(['list', 'Sequence', 'tuple']), rty(depth + 1)]}
            if p < 0.75:
                return {'map': ['dict', ['str', rty(depth + 1)]]}
            if p < 0.85:
                return {'tuple': [rty(depth + 1) for _ in range(r.randint(1, 3))]}
            name = ge.fresh('J')
            fields = []
            seen_default = False
            for fn in r.sample(['x', 'y', 'my_field', 'val'], r.randint(1, 3)):
                f = {'name': fn, 'ty': rty(depth + 1)}
                fields.append(f)
            d = {'name': name, 'fields': fields, 'opts': {}, 'hook': None}
            if r.random() < 0.3:
                d['opts']['rename'] = r.choice(['camel', 'kebab', 'pascal'])
            ge.decl['classes'].append(d)
            ge.class_info[name] = d
            return {'cls': [name, []]}

        def rval(ty):
            if isinstance(ty, dict) and 'sub' in ty:
                return r.choice(IO_STRS) if ty['sub'][1] == 'str' else r.choice([0, 3, -7])
            if ty == 'str':
                return r.choice(IO_STRS)
            if ty == 'float':
                return r.choice([0.0, 1.5, -2.25, 1e10, 3.0, 1e-5, 123456.789])
            if ty == 'int':
                return r.choice([0, 1, -7, 2 ** 40, 10 ** 20])
            if isinstance(ty, dict) and 'seq' in ty:
                return [rval(ty['seq'][1]) for _ in range(r.randint(0, 3))]
            if isinstance(ty, dict) and 'map' in ty:
                return {r.choice(IO_STRS[1:12]) + str(j): rval(ty['map'][1][1]) for j in range(r.randint(0, 3))}
            if isinstance(ty, dict) and 'tuple' in ty:
                return [rval(t) for t in ty['tuple']]
            if isinstance(ty, dict) and 'cls' in ty:
                d = ge.class_info[ty['cls'][0]]
                return {f['name']: rval(f['ty']) for f in d['fields']}
            return ge.valid(ty, 2)

        ty = rty(0) if r.random() < 0.65 else rty(1)
        sink = r.choice(['strpath', 'path', 'stringio', 'textfile', 'textfile2', 'textfile2', 'yaml_all', 'yaml_all_path'])
        if isinstance(ty, dict) and 'cls' in ty and r.random() < 0.6:
            sink = r.choice(['method', 'method_file', 'method_stream'])
        fmt = r.choice(['json', 'yaml']) if not sink.startswith('yaml_all') else 'yaml'
        if fmt == 'json':
            opts = {'indent': r.choice([None, 0, 2, '\t']), 'sort_keys': r.random() < 0.5}
        else:
            opts = {'indent': r.choice([None, 2, 4]), 'width': r.choice([None, 20, 80]), 'allow_unicode': r.random() < 0.5,
                    'explicit_start': r.random() < 0.5, 'explicit_end': r.random() < 0.5,
                    'default_style': r.choice([None, None, '"', '|', '>']), 'default_flow_style': r.choice([None, True, False]),
                    'sort_keys': r.random() < 0.5}
            if sink.startswith('yaml_all'):
                opts['explicit_start'] = True
        try:
            wire = ENC.enc(rval(ty))
            json.dumps(wire)
        except Exception:
            continue
        out.append({'id': f'io{seed}:{i}', 'decl': ge.decl, 'op': 'io', 'ty': ty, 'val': wire, 'fmt': fmt, 'sink': sink, 'opts': opts,
                    'prelude_fail': r.random() < 0.25, 'ndocs': r.randint(1, 4), 'enc': r.choice(['utf-8', 'latin-1', 'ascii', 'cp1252', 'utf-16']), 'is_path': sink in ('strpath', 'path', 'method_file', 'yaml_all_path'), 'spell': r.randrange(2), 'stream': 'io-' + fmt})
    return out


def scenarios_unsupported(seed, n):
    """C04 (last clause) / C01: a type that cannot be converted, at every position of an otherwise fine type: the failure
    comes when the converter is BUILT (TypeError / UnsupportedAnnotation), whatever the data is"""
    g = random.Random(seed)
    out = []
    for i in range(n):
        ge = Gen(g.randrange(1 << 62), max_depth=1, classes=True)
        r = ge.r
        bad = {'unsupported': r.choice(['Callable', 'object', 'type'])}
        pos = r.choice(['top', 'elem', 'dictval', 'slot', 'union', 'optional', 'field_first', 'field_last', 'nested_field', 'field_in_list'])

        def cls_with(bad_ty, where):
            name = ge.fresh('U')
            fields = [{'name': 'a', 'ty': 'int'}, {'name': 'b', 'ty': 'str', 'default': {'value': 's'}}]
            badf = {'name': 'cb', 'ty': bad_ty}
            if where == 'first':
                fields = [badf] + fields
            else:
                fields = fields[:1] + [dict(badf, default={'value': None})] + fields[1:]
            d = {'name': name, 'fields': fields, 'opts': {'in_format': r.choice([['struct'], ['tuple', 'struct']])}, 'hook': None}
            ge.decl['classes'].append(d)
            ge.class_info[name] = d
            return {'cls': [name, []]}

        if pos == 'top':
            ty = bad
        elif pos == 'elem':
            ty = {'seq': [r.choice(['list', 'tuple', 'set']), bad]}
        elif pos == 'dictval':
            ty = {'map': ['dict', ['str', bad]]}
        elif pos == 'slot':
            ty = {'tuple': ['int', bad]}
        elif pos == 'union':
            ty = {'union': ['int', bad]}
        elif pos == 'optional':
            ty = {'union': [bad, 'NoneType']}
        elif pos == 'field_first':
            ty = cls_with(bad, 'first')
        elif pos == 'field_last':
            ty = cls_with(bad, 'last')
        elif pos == 'nested_field':
            inner = cls_with(bad, 'last')
            outer = ge.fresh('U')
            d = {'name': outer, 'fields': [{'name': 'n', 'ty': 'int', 'default': {'value': {'i': '1'}}}, {'name': 'inner', 'ty': inner, 'default': {'value': None}}],
                 'opts': {}, 'hook': None}
            ge.decl['classes'].append(d)
            ge.class_info[outer] = d
            ty = {'cls': [outer, []]}
        else:
            ty = {'union': [{'seq': ['list', cls_with(bad, 'last')]}, 'NoneType']}
        val = r.choice([None, [], {}, 1, 'x', {'a': 1}, [1], {'a': 1, 'b': 'q'}, {'n': 2}, [[]], [{'a': 1}]])
        op = r.choice(['build', 'from_data', 'from_data'])
        out.append({'id': f'un{seed}:{i}', 'decl': ge.decl, 'op': op, 'ty': ty, 'val': ENC.enc(val), 'spell': r.randrange(2), 'stream': 'unsupported'})
    return out


def scenarios_touch(seed, n, op='from_data'):
    """C09: a dataclass whose validation hook normalises a container-valued field IN PLACE.  The field holds a container the
    conversion built, so the caller's data stays as it was (also when a later check makes the conversion fail)."""
    g = random.Random(seed)
    out = []
    for i in range(n):
        ge = Gen(g.randrange(1 << 62), max_depth=1, classes=True)
        r = ge.r
        fty = r.choice([{'map': ['dict', None]}, {'map': ['dict', ['any', 'any']]}, {'map': ['dict', ['str', 'int']]}, {'map': ['Mapping', ['str', 'any']]},
                        {'map': ['dict', ['str', 'any']]}, {'seq': ['list', None]}, {'seq': ['list', 'int']}, {'seq': ['list', 'any']},
                        {'seq': ['Sequence', 'any']}])
        name = ge.fresh('W')
        fields = [{'name': 'opts', 'ty': fty}, {'name': 'n', 'ty': 'int', 'default': {'value': {'i': '1'}}}]
        if r.random() < 0.5:
            fields.reverse()
            fields[0].pop('default', None)
            fields[1]['default'] = {'factory': 'dict' if 'map' in fty else 'list'}
        d = {'name': name, 'fields': fields, 'opts': {'in_format': r.choice([['struct'], ['tuple', 'struct']])}, 'hook': 'touch:opts'}
        ge.decl['classes'].append(d)
        ge.class_info[name] = d
        if 'map' in fty:
            data = {r.choice(['a', 'b', 'k']): r.choice([1, 2, 3]) for _ in range(r.randint(0, 3))}
        else:
            data = [r.choice([1, 2, 3]) for _ in range(r.randint(0, 3))]
        v = {'opts': data, 'n': r.choice([1, 2, 'bad'])} if r.random() < 0.8 else {'opts': data}
        ty = {'cls': [name, []]}
        if r.random() < 0.3:
            ty, v = {'seq': ['list', ty]}, [v, v] if r.random() < 0.5 else [v]
        elif r.random() < 0.2:
            ty = {'union': [ty, 'NoneType']}
        try:
            wire = ENC.enc(v)
            json.dumps(wire)
        except Exception:
            continue
        out.append({'id': f'to{seed}:{i}', 'decl': ge.decl, 'op': op, 'ty': ty, 'val': wire, 'spell': r.randrange(2), 'stream': 'touch'})
    return out


def scenarios_cond_twins(seed, n):
    """C13: pairs of condition expressions over the SAME operands and the same inner type that differ only in how they are
    parenthesised (their printed names may coincide), in one interpreter, with values on which they differ"""
    g = random.Random(seed)
    out = []
    stock = [('Positive', 'positive'), ('Negative', 'negative'), ('NonNegative', 'non-negative'), ('NonPositive', 'non-positive'), ('Finite', 'finite')]
    for i in range(n // 2):
        r = random.Random(g.randrange(1 << 62))
        def leafc():
            if r.random() < 0.7:
                nm, adj = r.choice(stock)
                return {'stock': nm, 'name': adj}
            uid = r.choice(['gt', 'even'])
            arg = r.randint(-1, 3)
            return {'user': [uid, arg], 'name': f'{uid}{arg}'}
        a, b, c = leafc(), leafc(), leafc()
        shape = r.randrange(3)
        if shape == 0:
            e1, e2 = {'all': [{'any': [a, b]}, c]}, {'any': [a, {'all': [b, c]}]}
        elif shape == 1:
            e1, e2 = {'not': {'all': [a, b]}}, {'all': [{'not': a}, b]}
        else:
            e1, e2 = {'any': [{'all': [a, b]}, c]}, {'all': [a, {'any': [b, c]}]}
        if r.random() < 0.5:
            e1, e2 = e2, e1
        inner = r.choice(['float', 'float', 'int'])
        vals = [float('inf'), float('-inf'), -2.5, 2.5, 0.0, 1, -1, 2, 4, 0, 3, float('nan')]
        for k, e in enumerate((e1, e2)):
            ty = {'ann': [inner, [{'cond': e, 'fmt': 'satisfying'}]]}
            v = r.choice(vals)
            if r.random() < 0.3:
                ty, v = {'seq': ['list', ty]}, [r.choice(vals) for _ in range(3)]
            out.append({'id': f'ct{seed}:{i}:{k}', 'decl': {'enums': [], 'subs': [], 'classes': []}, 'op': 'from_data', 'ty': ty, 'val': ENC.enc(v),
                        'spell': 0, 'stream': 'cond-twins'})
    return out


def scenarios_hashmut(seed, n):
    """C16: instances holding a non-frozen, hashable dataclass in a field (the outer class frozen or not): equality, order and
    hash are functions of the current field values"""
    g = random.Random(seed)
    out = []
    for i in range(n):
        r = random.Random(g.randrange(1 << 62))
        inner = {'name': 'HI', 'fields': [{'name': 'x', 'ty': 'int', 'default': {'value': {'i': '0'}}}], 'opts': {'frozen': False, 'unsafe_hash': True}, 'hook': None}
        oopts = {'frozen': r.random() < 0.7, 'order': False}
        if not oopts['frozen']:
            oopts['unsafe_hash'] = True
        outer = {'name': 'HO', 'fields': [{'name': 'inner', 'ty': {'cls': ['HI', []]}}, {'name': 'n', 'ty': 'int', 'default': {'value': {'i': '7'}}}],
                 'opts': oopts, 'hook': None}
        decl = {'enums': [], 'subs': [], 'classes': [inner, outer]}
        def obj(x, nn):
            return {'obj': ['HO', [['inner', {'obj': ['HI', [['x', {'i': str(x)}]], ['x']]}], ['n', {'i': str(nn)}]], ['inner', 'n']]}
        pool = [obj(r.choice([1, 2]), r.choice([7, 8])) for _ in range(r.randint(2, 3))]
        a, b = r.randrange(len(pool)), r.randrange(len(pool))
        out.append({'id': f'hm{seed}:{i}', 'decl': decl, 'spell': 0, 'stream': 'hashmut', 'tys': [], 'op': 'cmp', 'a': pool[a], 'b': pool[b],
                    'akey': 'HO', 'bkey': 'HO', 'eq_opt': True, 'order_opt': False, 'pool': [[x, 'HO'] for x in pool]})
    return out


def scenarios_reach(seed, n):
    """C18: containers whose element types are not declared (bare dict / list / tuple, Dict[Any, Any], List[Any], …) holding
    scalars for which a call-level handler exists; into direction; observed on the implementation only"""
    g = random.Random(seed)
    out = []
    for i in range(n):
        r = random.Random(g.randrange(1 << 62))
        kinds = r.sample(['int', 'str'], r.randint(1, 2))
        ents = [['int', 'tagint:%d' % r.choice([2, 3, 5])]] if 'int' in kinds else []
        if 'str' in kinds:
            ents.append(['str', 'tagstr:%s' % r.choice(['x', 'y'])])
        h = {'entries': ents, 'exactOnly': r.random() < 0.5}
        def val(depth):
            p = r.random()
            if depth >= 2 or p < 0.4:
                return r.choice([1, 2, 7, 'a', 'bc', 2.5, None, True])
            if p < 0.65:
                return {r.choice([1, 2, 'k', 'm', 3]): val(depth + 1) for _ in range(r.randint(1, 3))}
            if p < 0.9:
                return [val(depth + 1) for _ in range(r.randint(0, 3))]
            return tuple(val(depth + 1) for _ in range(r.randint(1, 2)))
        v = val(0)
        if not isinstance(v, (dict, list, tuple)):
            v = {3: v}
        ty = None
        if isinstance(v, dict) and r.random() < 0.4:
            ty = r.choice([{'map': ['dict', ['any', 'any']]}, {'map': ['dict', None]}, {'map': ['Mapping', ['any', 'any']]}])
        elif isinstance(v, list) and r.random() < 0.4:
            ty = r.choice([{'seq': ['list', 'any']}, {'seq': ['list', None]}, {'seq': ['Sequence', 'any']}])
        try:
            wire = ENC.enc(v)
            json.dumps(wire)
        except Exception:
            continue
        out.append({'id': f're{seed}:{i}', 'decl': {'enums': [], 'subs': [], 'classes': []}, 'op': 'reach', 'ty': ty, 'val': wire,
                    'handlers': {'globals': [h]}, 'spell': 0, 'stream': 'reach'})
    return out


def scenarios_inherited_hook(seed, n, op='try_collect'):
    """C03 / C14: dataclasses whose validation hook is INHERITED (from a base class, through a subscripted generic base, two
    levels up): data that only the hook rejects, in struct and tuple layout, alone and nested"""
    g = random.Random(seed)
    out = []
    for i in range(n):
        ge = Gen(g.randrange(1 << 62), max_depth=1, classes=True)
        r = ge.r
        generic = r.random() < 0.3
        base = ge.fresh('B')
        hook = r.choice(['reject_neg:x', 'reject_neg:x', 'raise_always', 'need_set:1', 'need_set:2'])
        bd = {'name': base, 'fields': [{'name': 'x', 'ty': 'int'}], 'opts': {'in_format': r.choice([['struct'], ['tuple', 'struct']])}, 'hook': hook}
        if generic:
            bd['tvars'] = ['T']
            bd['fields'].append({'name': 'g', 'ty': tv('T'), 'default': {'value': None}})
        chain = [bd]
        prev = base
        for lvl in range(r.randint(1, 2)):
            nm = ge.fresh('S')
            d = {'name': nm, 'fields': [], 'opts': {}, 'hook': None, 'base': {'cls': [prev, (['int'] if generic and lvl == 0 else [])]}}
            if r.random() < 0.5:
                d['fields'].append({'name': 'extra%d' % lvl, 'ty': 'str', 'default': {'value': 'e'}})
            chain.append(d)
            prev = nm
        for d in chain:
            ge.decl['classes'].append(d)
            ge.class_info[d['name']] = d
        xv = r.choice([-1, -5, 0, 3, 'bad'])
        v = {'x': xv}
        ty = {'cls': [prev, []]}
        if 'tuple' in bd['opts']['in_format'] and r.random() < 0.4:
            v = [xv]
        wrap = r.random()
        if wrap < 0.2:
            ty, v = {'seq': ['list', ty]}, [v]
        elif wrap < 0.35:
            ty = {'union': [ty, 'NoneType']}
        elif wrap < 0.45:
            ty, v = {'map': ['dict', ['str', ty]]}, {'k': v}
        out.append({'id': f'ih{seed}:{i}', 'decl': ge.decl, 'op': op, 'ty': ty, 'val': ENC.enc(v), 'spell': r.randrange(2), 'stream': 'inherited-hook'})
    return out


def scenarios_special_unions(seed, n, op='from_data'):
    """C11 / C07: unions with members that (a) accept None although they are not NoneType (an enum with a None-valued member)
    placed LEFT of None, (b) are rejected with a choice of their own which typing does not flatten away (an enum over values of
    several types, an Annotated union under a condition): one child per member, each the member's own tree"""
    g = random.Random(seed)
    out = []
    for i in range(n):
        ge = Gen(g.randrange(1 << 62), max_depth=1, classes=False)
        r = ge.r
        en = ge.fresh('EN')
        members = r.choice([[None, 'a'], [None], [{'i': '0'}, 'a', None], [{'i': '1'}, ENC.enc(1.5)], ['x', {'i': '2'}, True]])
        ge.decl['enums'].append([en, members])
        inner_u = {'ann': [{'union': ['str', 'bytes']}, [{'cond': {'stock': 'NonEmpty', 'name': 'non-empty'}, 'fmt': {'adjective': ['non-empty', 'a']}}]]}
        shape = r.choice(['opt_enum', 'enum_mid', 'nested_choice', 'bool_enum', 'list_opt_enum', 'field'])
        if shape == 'opt_enum':
            ty = {'union': [{'enum': en}, 'NoneType']}
        elif shape == 'enum_mid':
            ty = {'union': ['int', {'enum': en}, 'NoneType', 'str']}
        elif shape == 'nested_choice':
            ty = {'union': [r.choice(['int', 'bool']), inner_u]}
        elif shape == 'bool_enum':
            ty = {'union': ['bool', {'enum': en}]}
        elif shape == 'list_opt_enum':
            ty = {'seq': ['list', {'union': [{'enum': en}, 'NoneType']}]}
        else:
            cn = ge.fresh('SU')
            d = {'name': cn, 'fields': [{'name': 'level', 'ty': {'union': [{'enum': en}, 'NoneType']}, 'default': {'value': None}},
                                       {'name': 'u', 'ty': {'union': ['int', inner_u]}, 'default': {'value': {'i': '0'}}}], 'opts': {}, 'hook': None}
            ge.decl['classes'].append(d)
            ge.class_info[cn] = d
            ty = {'cls': [cn, []]}
        leaf = lambda: r.choice([None, None, 'a', 'x', 0, 1, 2, 0.5, True, '', b'', b'ab', [1], {'k': 1}, 'zz', 3.5])
        v = leaf()
        if shape == 'list_opt_enum':
            v = [leaf() for _ in range(r.randint(0, 3))]
        elif shape == 'field':
            v = {k: leaf() for k in r.sample(['level', 'u'], r.randint(0, 2))}
        try:
            wire = ENC.enc(v)
            json.dumps(wire)
        except Exception:
            continue
        out.append({'id': f'su{seed}:{i}', 'decl': ge.decl, 'op': op, 'ty': ty, 'val': wire, 'spell': r.randrange(2), 'stream': 'special-unions'})
    return out


def scenarios_instances_into(seed, n):
    """C09: `into_data(instance)` of dataclass instances, also ones that LACK an attribute (an `init=False` field with a default
    factory that no hook filled, an instance built unchecked): the call may fail, it may not give the instance new attributes"""
    g = random.Random(seed)
    out = []
    for i in range(n):
        ge = Gen(g.randrange(1 << 62), max_depth=1, classes=True)
        r = ge.r
        cn = ge.fresh('IN')
        fields = [{'name': 'a', 'ty': 'int'}, {'name': 'cache', 'ty': {'seq': ['list', 'int']}, 'default': {'factory': 'list'}, 'spec': {'init': False}},
                  {'name': 'b', 'ty': 'str', 'default': {'value': 's'}}]
        if r.random() < 0.5:
            fields[1]['spec']['exclude'] = True
        d = {'name': cn, 'fields': fields, 'opts': {'frozen': r.random() < 0.5, 'out_format': r.choice(['struct', 'struct', 'tuple'])}, 'hook': None}
        ge.decl['classes'].append(d)
        ge.class_info[cn] = d
        have = [['a', {'i': str(r.choice([1, 2]))}], ['b', 'q']]
        if r.random() < 0.4:
            have.append(['cache', {'l': [{'i': '1'}]}])
        obj = {'obj': [cn, have, [k for k, _ in have]]}
        v = obj if r.random() < 0.6 else r.choice([{'l': [obj]}, {'d': [['k', obj]]}])
        out.append({'id': f'ii{seed}:{i}', 'decl': ge.decl, 'op': 'into_dyn', 'val': v, 'spell': 0, 'stream': 'instances-into'})
    return out


def scenarios_generic_nested(seed, n, op='from_data'):
    """C02 / C17: a generic dataclass whose field reaches its type variable only THROUGH another subscripted generic dataclass
    (`items: List[Inner[T]]`, `Dict[str, Inner[T]]`, `Optional[Inner[T]]`), subscripted with a scalar type; values of the
    right and of every wrong kind at the leaf"""
    g = random.Random(seed)
    out = []
    for i in range(n):
        ge = Gen(g.randrange(1 << 62), max_depth=1, classes=True)
        r = ge.r
        inner, outer = ge.fresh('GI'), ge.fresh('GO')
        di = {'name': inner, 'fields': [{'name': 'v', 'ty': tv('T')}], 'opts': {}, 'hook': None, 'tvars': ['T']}
        it = {'cls': [inner, [tv('T')]]}
        fty = r.choice([{'seq': ['list', it]}, {'map': ['dict', ['str', it]]}, {'union': [it, 'NoneType']}, it, {'tuple': [it, 'int']},
                        {'cls': [inner, [it]]}])
        do = {'name': outer, 'fields': [{'name': 'items', 'ty': fty}], 'opts': {}, 'hook': None, 'tvars': ['T']}
        named_bare = r.random() < 0.25
        resub = (not named_bare) and r.random() < 0.2
        if resub:
            # the field's type is the inner generic subscripted TWICE, the outer class's variable entering at the second
            # subscription: `items: GI2[List[V], W][T, int]` must become `GI2[list[<arg>], int]` when the outer class is subscripted
            gi2 = ge.fresh('GP')
            d2 = {'name': gi2, 'fields': [{'name': 'v', 'ty': tv('A')}, {'name': 'w', 'ty': tv('B'), 'default': {'value': None}}], 'opts': {}, 'hook': None, 'tvars': ['A', 'B']}
            fty = {'resub': [{'cls': [gi2, [{'seq': ['list', tv('V')]}, tv('W')]]}, [tv('T'), 'int']]}
            do = {'name': outer, 'fields': [{'name': 'items', 'ty': fty}], 'opts': {}, 'hook': None, 'tvars': ['T']}
            ge.decl['classes'] += [d2, do]
            ge.class_info[gi2] = d2
            ge.class_info[inner], ge.class_info[outer] = di, do
        elif named_bare:
            # a NAMED, still generic subclass of the subscripted inner class (`class GN(GI[T]): code: int = 0`), used BARE as a field
            # type of the generic outer class: the annotation mentions no type variable, so subscripting the outer class leaves it alone
            gn = ge.fresh('GN')
            dn = {'name': gn, 'fields': [{'name': 'code', 'ty': 'int', 'default': {'value': {'i': '0'}}}], 'opts': {}, 'hook': None,
                  'base': {'cls': [inner, [tv('T')]]}, 'tvars': ['T']}
            bare = {'cls': [gn, []]}
            fty = r.choice([bare, {'seq': ['list', bare]}, {'union': [bare, 'NoneType']}])
            do = {'name': outer, 'fields': [{'name': 'items', 'ty': fty}, {'name': 'n', 'ty': tv('T'), 'default': {'value': None}}], 'opts': {}, 'hook': None, 'tvars': ['T']}
            ge.decl['classes'] += [di, dn, do]
            ge.class_info[gn] = dn
        elif not resub:
            ge.decl['classes'] += [di, do]
        ge.class_info[inner], ge.class_info[outer] = di, do
        arg = r.choice(['int', 'str', 'bool', 'float'])
        via_sub = r.random() < 0.3
        if via_sub:
            sub = ge.fresh('GS')
            ds = {'name': sub, 'fields': [], 'opts': {}, 'hook': None, 'base': {'cls': [outer, [tv('U')]]}, 'tvars': ['U']}
            ge.decl['classes'].append(ds)
            ge.class_info[sub] = ds
            ty = {'cls': [sub, [arg]]}
        else:
            ty = {'cls': [outer, [arg]]}
        leaf = r.choice([1, 's', True, 2.5, None, [1], 7, 'x', 1j])
        lv = {'v': leaf}
        if named_bare:
            lv = {'v': leaf, 'code': 5}
        if resub:
            lv = {'v': [leaf], 'w': 3}
        if 'seq' in fty:
            items = [lv]
        elif 'map' in fty:
            items = {'k': lv}
        elif 'tuple' in fty:
            items = [lv, 3]
        elif resub:
            items = lv
        elif 'cls' in fty and fty is not it and not named_bare:
            items = {'v': lv}
        else:
            items = lv
        try:
            wire = ENC.enc({'items': items})
            json.dumps(wire)
        except Exception:
            continue
        # what the statement says, computed from the kinds alone: the leaf must be admissible for the type the class was subscripted with
        ok = {'int': (int,), 'str': (str,), 'bool': (bool,), 'float': (int, float)}[arg]
        expect = 'accept' if isinstance(leaf, ok) and not (arg == 'bool' and type(leaf) is not bool) else 'reject'
        if named_bare:
            expect = 'accept'      # the bare generic's own variable is unbound (= Any)
        out.append({'id': f'gn{seed}:{i}', 'decl': ge.decl, 'op': op, 'ty': ty, 'val': wire, 'spell': 0, 'stream': 'generic-nested', 'expect': expect})
    return out


def scenarios_bcast(seed, n):
    """C13: shapes (zero-length axes, unit axes, different ranks, up to three shapes) for the array-shape conditions and the
    broadcasting helpers, with and without numpy"""
    g = random.Random(seed)
    out = []
    small = [[a] for a in (0, 1, 2, 3)] + [[a, b] for a in (0, 1, 2) for b in (0, 1, 2, 3)] + [[]]
    k = 0
    for a in small:          # every pair of small shapes, exhaustively
        for b in small:
            k += 1
            out.append({'id': f'bc:{k}', 'op': 'bcast', 'shapes': [a, b], 'stream': 'bcast-pairs'})
    for i in range(n):
        r = random.Random(g.randrange(1 << 62))
        shapes = [[r.choice([0, 1, 1, 2, 3, 5]) for _ in range(r.randint(0, 4))] for _ in range(r.randint(1, 3))]
        if r.random() < 0.3 and len(shapes) >= 2:
            shapes[1] = list(shapes[0])
        out.append({'id': f'bc{seed}:{i}', 'op': 'bcast', 'shapes': shapes, 'stream': 'bcast'})
    return out
