/-!
# PaneModel.Cache — model of `pane.util.KeyCache` as used by `pane.convert.make_converter`

Import-free (Lean core only), computable.

* **Objects and identity.**  A live type object is a heap cell `(address, descriptor)`.
  `id(obj)` is the address.  The allocator is adversarial: `alloc s d a` may pick *any*
  address `a` that is not the address of a currently live object (CPython guarantees only that).
* **Freeing.**  Objects are freed only by `gc` (`drop` merely removes the root).  Because the
  allocator is adversarial and `gc` may be scheduled at any point, this subsumes immediate
  refcount freeing (`drop; gc`).
* **Key forms.**  `idOnly` is the original `_make_converter_key_f` (`(id(ty), handlers)`): a cache key
  does not keep its object alive.  `idWithStrongRef` is the repaired form (`(_IdKey(ty), handlers)`):
  every address occurring in a cache key is pinned — `gc` never frees it.  While an object is alive,
  `_IdKey` equality (`is`) coincides with address equality, so in both modes the key is modelled as
  `(address, handlers)`; the two modes differ only in what `gc` may free.
* **Converters** are represented by what they were built from: `(descriptor, handlers)`.
* **Unbounded `KeyCache.__call__`** is `doCall` (sequential, atomic) and `tstep` (thread
  interleaving, one atomic step per dictionary operation).
* **LRU `KeyCache.__call__`** (`maxsize = n`) is `lruCall`, the locked ring as an ordered list.
  The flag `self.full` is always equal to `len(cache) >= maxsize` (initially `maxsize == 0`, recomputed
  after every append, unchanged by evict+insert), so the model derives it from the length.
  NOTE `maxsize = 0`: the Python code runs the "full" branch on the empty ring, reads back the key it
  just wrote into the root link and executes `del self.cache[key]` for a key that is not in the
  dictionary: **every call raises `KeyError`** (checked against the implementation).  The model does
  not represent that exception; all LRU theorems that need it assume `0 < maxsize`.
-/

namespace PaneModel.Cache

abbrev Addr := Nat        -- id(): address of a live object
abbrev TyDesc := Nat      -- which type expression an object denotes (abstract)
abbrev HId := Nat         -- handlers value (equal handlers ⇒ same HId)
abbrev Slot := Nat        -- a program variable holding a reference to a type object

/-- A converter, represented by what it was built from. -/
abbrev Conv := TyDesc × HId
/-- A cache key: `(id(ty), handlers)`. -/
abbrev Key := Addr × HId

inductive KeyForm
  | idOnly
  | idWithStrongRef
  deriving DecidableEq, Repr

structure Sys where
  heap  : List (Addr × TyDesc)     -- live type objects
  roots : List (Slot × Addr)       -- references held by the program
  cache : List (Key × Conv)        -- make_converter.cache : key ↦ converter
  deriving DecidableEq, Repr

def Sys.init : Sys := ⟨[], [], []⟩

inductive Op
  | alloc (s : Slot) (d : TyDesc) (a : Addr)   -- evaluate a type expression into slot s; `a` = allocator's choice
  | drop (s : Slot)                             -- del
  | gc                                          -- free every unreachable, unpinned heap object
  | call (s : Slot) (h : HId)                   -- make_converter(<object in s>, h)
  deriving DecidableEq, Repr

/-! ## Lookups -/

def slotAddr (sys : Sys) (s : Slot) : Option Addr := sys.roots.lookup s
def heapDesc (sys : Sys) (a : Addr) : Option TyDesc := sys.heap.lookup a

/-- The live object referenced from slot `s`, if any. -/
def slotObj (sys : Sys) (s : Slot) : Option (Addr × TyDesc) :=
  match slotAddr sys s with
  | none => none
  | some a =>
    match heapDesc sys a with
    | none => none
    | some d => some (a, d)

/-- The converter a fresh build (`inner_f`) would give for `make_converter(<slot s>, h)`. -/
def fresh (sys : Sys) (s : Slot) (h : HId) : Option Conv :=
  match slotObj sys s with
  | none => none
  | some o => some (o.2, h)

/-- `d[k] = v` on an association list (replaces an existing binding). -/
def cacheSet (c : List (Key × Conv)) (k : Key) (v : Conv) : List (Key × Conv) :=
  (k, v) :: c.filter (fun e => !(e.1 == k))

/-! ## Sequential semantics -/

/-- Addresses pinned by cache keys. -/
def cachePins (kf : KeyForm) (sys : Sys) : List Addr :=
  match kf with
  | .idOnly => []
  | .idWithStrongRef => sys.cache.map (fun e => e.1.1)

/-- `a` survives a collection: referenced from a root, or in the extra pin list. -/
def reachable (sys : Sys) (pins : List Addr) (a : Addr) : Bool :=
  sys.roots.any (fun r => r.2 == a) || pins.any (fun p => p == a)

def doAlloc (sys : Sys) (s : Slot) (d : TyDesc) (a : Addr) : Sys :=
  { sys with heap := (a, d) :: sys.heap
             roots := (s, a) :: sys.roots.filter (fun r => !(r.1 == s)) }

def doDrop (sys : Sys) (s : Slot) : Sys :=
  { sys with roots := sys.roots.filter (fun r => !(r.1 == s)) }

def doGc (sys : Sys) (pins : List Addr) : Sys :=
  { sys with heap := sys.heap.filter (fun e => reachable sys pins e.1) }

/-- Unbounded `KeyCache.__call__`, executed atomically: lookup-or-build. -/
def doCall (sys : Sys) (s : Slot) (h : HId) : Sys × Option Conv :=
  match slotObj sys s with
  | none => (sys, none)
  | some o =>
    -- key = self.key_f(ty, handlers) = (o.1, h);  result = self.cache.get(key, _missing)
    match sys.cache.lookup (o.1, h) with
    | some c => (sys, some c)                         -- hit: return result
    | none =>
      -- result = self.inner_f(ty, handlers) = (o.2, h);  self.cache[key] = result
      ({ sys with cache := cacheSet sys.cache (o.1, h) (o.2, h) }, some (o.2, h))

/-- One operation; `tpins` = addresses additionally pinned by running threads (`[]` sequentially). -/
def envStep (kf : KeyForm) (sys : Sys) (tpins : List Addr) : Op → Sys × Option Conv
  | .alloc s d a => (doAlloc sys s d a, none)
  | .drop s      => (doDrop sys s, none)
  | .gc          => (doGc sys (cachePins kf sys ++ tpins), none)
  | .call s h    => doCall sys s h

def step (kf : KeyForm) (sys : Sys) (op : Op) : Sys × Option Conv := envStep kf sys [] op

/-- `alloc`: the address is not that of a live object.  `call`: the slot holds a live object.
(`kf` is not inspected; which objects are live depends on it through `step`.) -/
def Valid (_kf : KeyForm) (sys : Sys) : Op → Bool
  | .alloc _ _ a => !(sys.heap.any (fun e => e.1 == a))
  | .drop _      => true
  | .gc          => true
  | .call s _    => (slotObj sys s).isSome

def ValidHist (kf : KeyForm) (sys : Sys) : List Op → Bool
  | [] => true
  | op :: ops => Valid kf sys op && ValidHist kf (step kf sys op).1 ops

def run (kf : KeyForm) (sys : Sys) : List Op → List (Option Conv)
  | [] => []
  | op :: ops => (step kf sys op).2 :: run kf (step kf sys op).1 ops

def exec (kf : KeyForm) (sys : Sys) : List Op → Sys
  | [] => sys
  | op :: ops => exec kf (step kf sys op).1 ops

/-! ## Cache-less reference semantics

Tracks only heap and roots: `gc` frees everything not reachable from a root, a `call` builds a
fresh converter and leaves the state untouched.  The `cache` field is never read or written. -/

def stepFresh (sys : Sys) : Op → Sys × Option Conv
  | .alloc s d a => (doAlloc sys s d a, none)
  | .drop s      => (doDrop sys s, none)
  | .gc          => (doGc sys [], none)
  | .call s h    => (sys, fresh sys s h)

def runFresh (sys : Sys) : List Op → List (Option Conv)
  | [] => []
  | op :: ops => (stepFresh sys op).2 :: runFresh (stepFresh sys op).1 ops

/-! ## Threads: small-step interleaving model of the unbounded mode

Each model thread runs `while True: make_converter(<slot>, h)` for its own fixed `(slot, h)`; the
schedule decides how often and how far.  (A Python thread issuing different calls one after another
is represented by several model threads: a thread keeps no state between calls.)  `pc` names the
*next* atomic action. -/

inductive PC
  | idle    -- next: evaluate the argument `<slot>` and take a reference to the object
  | key     -- next: key = self.key_f(ty, h)
  | get     -- next: result = self.cache.get(key, _missing)
  | build   -- next: result = self.inner_f(ty, h)          (only after a miss)
  | store   -- next: self.cache[key] = result
  | ret     -- next: return result  (releases the reference; the observation)
  deriving DecidableEq, Repr

structure Thread where
  pc   : PC := .idle
  slot : Slot                         -- pending call: make_converter(<slot>, h)
  h    : HId
  arg  : Addr × TyDesc := (0, 0)      -- the argument object; a reference is held while pc ≠ idle
  key  : Key := (0, 0)
  res  : Conv := (0, 0)
  deriving DecidableEq, Repr

/-- Observation of a completed call. -/
structure TObs where
  tid : Nat
  arg : Addr × TyDesc     -- the argument object
  h   : HId
  res : Conv              -- the converter that was returned
  deriving DecidableEq, Repr

/-- Addresses kept alive by running threads (their argument objects). -/
def threadPins (ths : List Thread) : List Addr :=
  (ths.filter (fun t => !(t.pc == .idle))).map (fun t => t.arg.1)

/-- One atomic step of one thread against the shared state. -/
def threadStep (sys : Sys) (i : Nat) (t : Thread) : Sys × Thread × Option TObs :=
  match t.pc with
  | .idle =>
    match slotObj sys t.slot with
    | none => (sys, t, none)                       -- NameError: nothing to call with; stutter
    | some o => (sys, { t with pc := .key, arg := o }, none)
  | .key => (sys, { t with pc := .get, key := (t.arg.1, t.h) }, none)
  | .get =>
    match sys.cache.lookup t.key with
    | some c => (sys, { t with pc := .ret, res := c }, none)
    | none => (sys, { t with pc := .build }, none)
  | .build => (sys, { t with pc := .store, res := (t.arg.2, t.h) }, none)
  | .store => ({ sys with cache := cacheSet sys.cache t.key t.res }, { t with pc := .ret }, none)
  | .ret => (sys, { t with pc := .idle }, some ⟨i, t.arg, t.h, t.res⟩)

/-- Advance thread `i` by one atomic step (`kf` is irrelevant here: only `gc` depends on it).
An out-of-range index stutters. -/
def tstep (_kf : KeyForm) (cfg : Sys × List Thread) (i : Nat) : Sys × List Thread × Option TObs :=
  match cfg.2[i]? with
  | none => (cfg.1, cfg.2, none)
  | some t =>
    let r := threadStep cfg.1 i t
    (r.1, cfg.2.set i r.2.1, r.2.2)

/-- Schedule events: a thread step or an environment operation. -/
inductive Ev
  | thread (i : Nat)
  | env (op : Op)
  deriving DecidableEq, Repr

/-- Environment operation in the threaded world.  Disabled operations (an `alloc` at a live
address) stutter; `call`s are made by threads only, so `env (.call ..)` stutters too.  `gc`
additionally respects the references held by running threads. -/
def tenv (kf : KeyForm) (cfg : Sys × List Thread) (op : Op) : Sys × List Thread :=
  match op with
  | .call _ _ => cfg
  | op => if Valid kf cfg.1 op then ((envStep kf cfg.1 (threadPins cfg.2) op).1, cfg.2) else cfg

def tev (kf : KeyForm) (cfg : Sys × List Thread) : Ev → (Sys × List Thread) × Option TObs
  | .thread i => let r := tstep kf cfg i; ((r.1, r.2.1), r.2.2)
  | .env op => (tenv kf cfg op, none)

/-- Run a schedule; collect the observations of completed calls in order. -/
def trun (kf : KeyForm) (cfg : Sys × List Thread) : List Ev → List TObs
  | [] => []
  | ev :: evs =>
    match (tev kf cfg ev).2 with
    | none => trun kf (tev kf cfg ev).1 evs
    | some o => o :: trun kf (tev kf cfg ev).1 evs

def texec (kf : KeyForm) (cfg : Sys × List Thread) : List Ev → Sys × List Thread
  | [] => cfg
  | ev :: evs => texec kf (tev kf cfg ev).1 evs

/-! ## LRU mode -/

structure Lru (K V : Type) where
  maxsize : Nat
  order   : List (K × V)      -- oldest first
  deriving Repr

def Lru.empty {K V : Type} (n : Nat) : Lru K V := ⟨n, []⟩

def lruKeys {K V : Type} (l : Lru K V) : List K := l.order.map (fun e => e.1)

/-- LRU `KeyCache.__call__`: hit ⇒ move the link to the end of the ring; miss ⇒ build, then
append (evicting the oldest entry when `self.full`). -/
def lruCall {K V : Type} [DecidableEq K] (f : K → V) (l : Lru K V) (k : K) : Lru K V × V :=
  match l.order.lookup k with
  | some v => ({ l with order := l.order.filter (fun e => !(e.1 == k)) ++ [(k, v)] }, v)
  | none =>                                                        -- result = inner_f(k)
    if l.maxsize ≤ l.order.length then                             -- self.full
      ({ l with order := l.order.drop 1 ++ [(k, f k)] }, f k)      -- evict oldest, insert at the end
    else
      ({ l with order := l.order ++ [(k, f k)] }, f k)

def lruRun {K V : Type} [DecidableEq K] (f : K → V) (l : Lru K V) : List K → Lru K V × List V
  | [] => (l, [])
  | k :: ks =>
    let r := lruCall f l k
    let rs := lruRun f r.1 ks
    (rs.1, r.2 :: rs.2)

/-! ## Sanity examples -/

section Examples

/-- The classic id-reuse history. -/
def reuseHist (a' : Addr) : List Op :=
  [.alloc 0 1 100, .call 0 7, .drop 0, .gc, .alloc 1 2 a', .call 1 7]

-- idOnly: valid, and the last observation is the STALE converter (1, 7)
#eval ValidHist .idOnly Sys.init (reuseHist 100)          -- true
#eval run .idOnly Sys.init (reuseHist 100)                -- [none, some (1, 7), none, none, none, some (1, 7)]
#eval runFresh Sys.init (reuseHist 100)                   -- [..., some (2, 7)]
-- idWithStrongRef: address 100 is still pinned by the cache key, so the alloc @100 is invalid ...
#eval ValidHist .idWithStrongRef Sys.init (reuseHist 100) -- false
-- ... and with any valid address the observation is (2, 7)
#eval ValidHist .idWithStrongRef Sys.init (reuseHist 101) -- true
#eval run .idWithStrongRef Sys.init (reuseHist 101)       -- [none, some (1, 7), none, none, none, some (2, 7)]
#eval (exec .idWithStrongRef Sys.init (reuseHist 101))    -- 100 still in the heap, two cache entries
#eval (exec .idOnly Sys.init (reuseHist 100))             -- one (stale) cache entry

-- a cache hit
#eval run .idWithStrongRef Sys.init [.alloc 0 1 100, .call 0 7, .call 0 7, .call 0 8]

-- threads: two threads race on the same key, both miss, both build, both store
def cfg0 : Sys × List Thread :=
  ((step .idOnly Sys.init (.alloc 0 5 100)).1, [{ slot := 0, h := 7 }, { slot := 0, h := 7 }])
def raceSched : List Ev :=
  [.thread 0, .thread 1, .thread 0, .thread 1, .thread 0, .thread 1,   -- load, key, get (both miss)
   .thread 0, .thread 1, .thread 0, .env (.drop 0), .env .gc, .thread 1, .thread 0, .thread 1,
   .thread 0, .thread 0, .thread 0, .thread 0]                          -- thread 0: slot now empty: stutters
#eval trun .idWithStrongRef cfg0 raceSched
#eval (texec .idWithStrongRef cfg0 raceSched).1
-- id reuse under threads with idOnly: thread 0 caches (100,7); the object dies; a different type is
-- allocated at 100; thread 1 gets the stale converter
def staleSched : List Ev :=
  [.thread 0, .thread 0, .thread 0, .thread 0, .thread 0, .thread 0, .env (.drop 0), .env .gc,
   .env (.alloc 0 6 100), .thread 1, .thread 1, .thread 1, .thread 1]
#eval trun .idOnly cfg0 staleSched              -- second observation: arg = (100, 6) but res = (5, 7)
#eval trun .idWithStrongRef cfg0 staleSched     -- alloc @100 disabled; slot 0 empty; thread 1 never starts

-- LRU (same trace as the Python differential probe: maxsize 2, keys 1 2 1 3 4 3)
#eval (lruRun (fun k => 2 * k) (Lru.empty 2) [1, 2, 1, 3, 4, 3]).2                 -- [2, 4, 2, 6, 8, 6]
#eval lruKeys (lruRun (fun k => 2 * k) (Lru.empty (V := Nat) 2) [1, 2, 1, 3, 4, 3]).1  -- [4, 3]
#eval [[1], [1, 2], [1, 2, 1], [1, 2, 1, 3], [1, 2, 1, 3, 4]].map
        (fun ks => lruKeys (lruRun (fun k => 2 * k) (Lru.empty (V := Nat) 2) ks).1)
        -- [[1], [1, 2], [2, 1], [1, 3], [3, 4]]

end Examples

end PaneModel.Cache
