import typing as t, io, tempfile, os, pathlib, datetime
import pane
from pane import from_json, from_yaml, from_yaml_all, write_json, write_yaml
def tryit(label, f):
    try:
        r = f(); print(f"{label}: OK -> {r!r}")
    except BaseException as e:
        print(f"{label}: RAISES {type(e).__name__}: {str(e)[:200]!r}")
class P(pane.PaneBase):
    s: str = 'x'
    d: t.Dict[int, float] = pane.field(default_factory=dict)
    when: t.Optional[datetime.date] = None
    b: bool = True
p = P(s='héllo\nwörld "q"  ', d={1: 2.5}, when=datetime.date(2020,1,2))
tryit("json str rt", lambda: P.from_jsons(p.write_json()) == p)
tryit("yaml str rt", lambda: P.from_yamls(p.write_yaml()) == p)
tryit("yaml no unicode", lambda: P.from_yamls(p.write_yaml(allow_unicode=False)) == p)
tryit("yaml flow", lambda: P.from_yamls(p.write_yaml(default_flow_style=True, explicit_end=True, sort_keys=True, indent=4, width=20)) == p)
for style in ['"', '|', '>']:
    tryit(f"yaml default_style {style}", lambda: P.from_yamls(p.write_yaml(default_style=style)) == p)
d = tempfile.mkdtemp(dir='/tmp/scratch')
fn = os.path.join(d, 'a.json')
tryit("json path write", lambda: write_json(p, fn, ty=P, indent=2, sort_keys=True))
tryit("json path read", lambda: from_json(pathlib.Path(fn), P) == p)
buf = io.StringIO(); write_yaml(p, buf, ty=P); print("closed?", buf.closed)
buf.seek(0); tryit("yaml stream read", lambda: from_yaml(buf, P) == p); print("closed?", buf.closed)
with open(fn) as f:
    from_json(f, P); print("real file closed?", f.closed)
with open(os.path.join(d,'b.yaml'), 'w') as f:
    write_yaml(p, f, ty=P); print("real file w closed?", f.closed)
tryit("yaml_all", lambda: from_yaml_all(io.StringIO("---\ns: a\n---\ns: b\n"), P))
tryit("yaml date bare", lambda: from_yaml(io.StringIO("when: 2020-01-02\n"), P))
tryit("json tuple/set", lambda: from_json(io.StringIO(pane_json := __import__('json').dumps(pane.into_data({1,2}, t.Set[int]))), t.Set[int]))
tryit("json bytes", lambda: write_json(b'a', io.StringIO()))
tryit("yaml bytes", lambda: from_yaml(io.StringIO((lambda b: (write_yaml(b'ab', b), b.getvalue())[1])(io.StringIO())), bytes))
tryit("yaml complex", lambda: write_yaml(1+2j, io.StringIO()))
tryit("json nan", lambda: from_json(io.StringIO((lambda b: (write_json(float('nan'), b), b.getvalue())[1])(io.StringIO())), float))
tryit("BytesIO read", lambda: from_json(io.BytesIO(b'{"s": "a"}'), P))
