import PaneModel.Model.Val
import PaneModel.Model.Basic
import PaneModel.Model.Conv
import PaneModel.Model.Expect
import PaneModel.Generated.Facts
import PaneModel.Model.Try
import PaneModel.Model.Collect
