import PaneModel.Lemmas.OrderProofs
import PaneModel.Generated.Facts
/-!
# C16 — Dataclass value semantics: equality, order, hash, frozen, copy

Full statement (properties.jsonl): equality compares the class (ignoring generic parameters) and
the compare-fields pairwise; ordering is the lexicographic order of the compare-fields, consistent
with equality (for same-class instances with totally ordered fields exactly one of <, ==, > holds);
hashing follows the standard-library dataclass rule table for (eq, frozen, unsafe_hash, explicit
__hash__) and equal instances hash equal.  Frozen instances reject attribute assignment and
deletion; copy, deepcopy and replace yield equal instances with the same set-field record, replace
re-validating what it changes; repr lists the repr-fields in order.

The unbounded theorems about `__eq__`, `_pane_ord`, the four comparison methods, `__hash__` and
`__repr__` (for ANY field value type with its own `==`, `>` and `hash`) are in
`Lemmas/OrderProofs.lean` (`C16_eq_def`, `C16_eq_refl/symm/trans`, `C16_ord_same_class_only`,
`C16_lt_lex`, `C16_le_gt_ge_derived`, `C16_trichotomy`, `C16_trichotomy_swap`,
`C16_order_eq_consistent`, `C16_eq_hash`, `C16_repr`).  This file ties the hash rule table and the
accepted class options to the CURRENT source.  The mutable-state part (frozen / copy / replace) is
`Props/C16State.lean`.
-/
namespace PaneModel.Order

def actOfString : String → Option HashAct
  | "leave" => some .leave
  | "setNone" => some .setNone
  | "makeHash" => some .makeHash
  | "exception" => some .exception
  | _ => none

def tableOfFacts (rows : List ((Bool × Bool × Bool × Bool) × String)) : Option (List (HashKey × HashAct)) :=
  rows.mapM fun (k, s) => (actOfString s).map fun a => (k, a)

/-- pane's extracted `_hash_action` is the table the model uses … -/
theorem C16_facts_pane_table : tableOfFacts Facts.hashAction = some paneHashTable := by decide
/-- … and CPython's own table, read from the live `dataclasses` module, is the one transcribed in the model -/
theorem C16_facts_stdlib_table : tableOfFacts Facts.stdlibHashAction = some stdlibHashTable := by decide
/-- hence the extracted pane table equals the standard library's rule table, row by row (all 16) -/
theorem C16_hash_table_source : Facts.hashAction = Facts.stdlibHashAction := by decide

/-- every documented class option is accepted by `__init_subclass__` (D17: `unsafe_hash` was missing) -/
theorem C16_options_accepted :
    ∀ k ∈ ["name", "out_format", "in_format", "eq", "order", "frozen", "unsafe_hash", "kw_only", "rename",
           "in_rename", "out_rename", "allow_extra", "custom"],
      (Facts.initSubclassKw.getD []).contains k = true := by decide

#print axioms C16_facts_pane_table
#print axioms C16_facts_stdlib_table
#print axioms C16_hash_table_source
#print axioms C16_options_accepted
#print axioms C16_hash_table
#print axioms C16_eq_def
#print axioms C16_eq_refl
#print axioms C16_eq_symm
#print axioms C16_eq_trans
#print axioms C16_ord_same_class_only
#print axioms C16_lt_lex
#print axioms C16_le_gt_ge_derived
#print axioms C16_trichotomy
#print axioms C16_trichotomy_swap
#print axioms C16_order_eq_consistent
#print axioms C16_eq_hash
#print axioms C16_repr

end PaneModel.Order
