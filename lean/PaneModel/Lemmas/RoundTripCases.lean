import PaneModel.Lemmas.RoundTripData
import PaneModel.Lemmas.AgreeCases
/-!
# Round trip, one lemma per converter class

`RTGood E dyn N c`: every typed value `x` of `c` (depth `< N`, satisfying the per-value condition)
serialises to constructible interchange data that parses back to exactly `x`.
-/
namespace PaneModel

variable {E : Ext} {dyn : Val → Except Exc Val} {N : Nat}

/-- the round-trip contract of one converter -/
def RTGood (E : Ext) (dyn : Val → Except Exc Val) (N : Nat) (c : Conv) : Prop :=
  ∀ x, x.depth < N → HasType E c x → RTOk E dyn c x →
    ∃ d, intoC E dyn c x = .ok d ∧ d.isData = true ∧ tryC E c d = .ok x

/-- … and of a converter whose typed values are their own serialisation -/
def IdGood (E : Ext) (dyn : Val → Except Exc Val) (N : Nat) (c : Conv) : Prop :=
  ∀ x, x.depth < N → HasType E c x →
    intoC E dyn c x = .ok x ∧ x.isData = true ∧ tryC E c x = .ok x

theorem IdGood.rtGood {c} (h : IdGood E dyn N c) : RTGood E dyn N c :=
  fun x hx ht _ => ⟨x, (h x hx ht).1, (h x hx ht).2.1, (h x hx ht).2.2⟩

/-! ## Leaves that defer to the untyped serialiser -/

theorem id_any (hD : DynId dyn N) : IdGood E dyn N .any := by
  rintro x hx ⟨v, hv, ht⟩
  simp only [tryC] at ht; cases ht
  exact ⟨by simp only [intoC]; exact hD _ hv hx, hv, by simp only [tryC]⟩

theorem id_noneC (hD : DynId dyn N) : IdGood E dyn N .noneC := by
  rintro x hx ⟨v, hv, ht⟩
  simp only [tryC] at ht
  split at ht
  · cases ht
    exact ⟨by simp only [intoC]; exact hD _ hv hx, hv, by simp only [tryC]⟩
  · cases ht

theorem id_literal {vals} (hD : DynId dyn N) : IdGood E dyn N (.literal vals) := by
  rintro x hx ⟨v, hv, ht⟩
  simp only [tryC] at ht
  split at ht
  · rename_i hany
    cases ht
    exact ⟨by simp only [intoC]; exact hD _ hv hx, hv, by simp only [tryC, hany, if_true]⟩
  · cases ht

/-! ## Built-in scalar rows -/

local macro "rt_fin" : tactic =>
  `(tactic| exact ⟨by simp [Val.isData], by simp [ACls.admits], by unfold builtinCtor; simp⟩)

theorem builtin_core (hS : NumRT E) {ty allowed ser} (hrow : builtinRow ty allowed ser = true) {v x : Val}
    (hv : v.isData = true) (hadm : allowed.any (·.admits v) = true) (hc : builtinCtor E ty v = .ok x) :
    x.isData = true ∧ allowed.any (·.admits x) = true ∧ builtinCtor E ty x = .ok x ∧
      scalarSer E ty ser x = .ok x := by
  simp only [builtinRow, Bool.and_eq_true, Bool.or_eq_true, bne_iff_ne, ne_eq, beq_iff_eq] at hrow
  obtain ⟨hser, hrow⟩ := hrow
  have key : x.isData = true ∧ allowed.any (·.admits x) = true ∧ builtinCtor E ty x = .ok x := by
    rcases hrow with (((((⟨rfl, rfl⟩ | ⟨rfl, rfl⟩) | ⟨rfl, rfl⟩) | ⟨rfl, rfl⟩) | ⟨rfl, rfl⟩) | ⟨rfl, rfl⟩) | ⟨rfl, rfl⟩
    all_goals
      cases v <;> simp [ACls.admits, ACls.admits.admitsBase, Val.isData] at hv hadm
    all_goals (unfold builtinCtor at hc; simp at hc)
    all_goals first
      | (subst hc; rt_fin)
      | (split at hc
         · cases hc; rt_fin
         · first
           | (obtain ⟨f, rfl⟩ := hS.float_kind _ _ hc; rt_fin)
           | (obtain ⟨re, im, rfl⟩ := hS.complex_kind _ _ hc; rt_fin))
  refine ⟨key.1, key.2.1, key.2.2, ?_⟩
  cases ser with
  | ident => rfl
  | viaCtor => exact key.2.2
  | str => exact absurd rfl hser

theorem id_builtin (hS : NumRT E) {ty allowed ser e ep} (hrow : builtinRow ty allowed ser = true) :
    IdGood E dyn N (.scalar ty allowed ser e ep) := by
  rintro x _ ⟨v, hv, ht⟩
  simp only [tryC] at ht
  split at ht
  · rename_i hadm
    have hc := guardTry_ok_inv ht
    obtain ⟨h1, h2, h3, h4⟩ := builtin_core hS hrow hv hadm hc
    exact ⟨by simp only [intoC]; exact h4, h1, by simp only [tryC, h2, if_true, h3]; rfl⟩
  · cases ht

/-! ## String-serialised scalars, datetimes -/

theorem strTy_not_builtin {ty} (h : strTy ty = true) : ∀ n ∈ builtinNames, ty ≠ n := by
  intro n hn he; subst he
  simp only [builtinNames, List.mem_cons, List.not_mem_nil, or_false] at hn
  rcases hn with rfl | rfl | rfl | rfl | rfl | rfl | rfl <;> revert h <;> decide +kernel

theorem builtinCtor_strTy {ty} (h : strTy ty = true) {v : Val} (hv : v.isData = true) :
    builtinCtor E ty v = E.call ty v := by
  have hne := strTy_not_builtin h
  unfold builtinCtor
  cases v <;> simp [Val.isData] at hv <;> simp only [] <;> split <;>
    first
    | rfl
    | (exfalso
       first
       | exact hne "bool" (by decide) rfl | exact hne "int" (by decide) rfl
       | exact hne "float" (by decide) rfl | exact hne "complex" (by decide) rfl
       | exact hne "str" (by decide) rfl | exact hne "bytes" (by decide) rfl
       | exact hne "bytearray" (by decide) rfl)

theorem rt_strRow (hS : ScalarRT E) {ty allowed ser e ep} (hrow : strRow ty allowed ser = true) :
    RTGood E dyn N (.scalar ty allowed ser e ep) := by
  simp only [strRow, Bool.and_eq_true, beq_iff_eq] at hrow
  obtain ⟨⟨rfl, hty⟩, hstr⟩ := hrow
  rintro x _ ⟨v, hv, ht⟩ _
  simp only [tryC] at ht
  split at ht
  · have hc := guardTry_ok_inv ht
    rw [builtinCtor_strTy hty hv] at hc
    obtain ⟨r, rfl⟩ := hS.call_opaque _ _ _ hty hc
    refine ⟨.str r, by simp only [intoC, scalarSer], rfl, ?_⟩
    have hadm : allowed.any (·.admits (.str r)) = true :=
      List.any_eq_true.2 ⟨.str, by simpa using hstr, rfl⟩
    simp only [tryC, hadm, if_true]
    rw [builtinCtor_strTy hty rfl, hS.call_str _ _ _ hty hc]; rfl
  · cases ht

theorem rt_datetime (hS : ScalarRT E) {ty} : RTGood E dyn N (.datetime ty) := by
  rintro x _ ⟨v, hv, ht⟩ _
  simp only [tryC] at ht
  cases v with
  | str s =>
    simp only [] at ht
    have hc := guardTry_ok_inv ht
    obtain ⟨r, rfl⟩ := hS.iso_opaque _ _ _ hc
    refine ⟨.str r, by simp only [intoC], rfl, ?_⟩
    simp only [tryC]
    rw [hS.iso_str _ _ _ hc]; rfl
  | _ => first | (simp [Val.isData] at hv; done) | (simp [dtTryTyped, Val.dtKind] at ht; done)

/-- a date/time value (an instance of a user subclass included) is serialised by `isoformat()` -/
theorem intoC_datetime_iso {ty : String} {v : Val} {r : String} (h : v.dtIso = some r) :
    intoC E dyn (.datetime ty) v = .ok (.str r) := by
  cases v with
  | «opaque» t r' =>
    simp only [Val.dtIso] at h
    split at h
    · cases h; simp only [intoC]
    · cases h
  | sub c b => simp only [intoC, h]
  | _ => simp [Val.dtIso] at h

/-! ## Conditions -/

theorem cond_inv {c : CondExpr} {y x : Val}
    (h : (match guardTry (Facts.catches .condTry) (evalCond E Facts.stockCond c y) with
      | .ok true => Outcome.ok y
      | .ok false => .interrupt
      | .interrupt => .interrupt
      | .leak e => .leak e) = .ok x) :
    y = x ∧ guardTry (Facts.catches .condTry) (evalCond E Facts.stockCond c y) = .ok true := by
  split at h
  · rename_i hg; cases h; exact ⟨rfl, hg⟩
  all_goals cases h

theorem rt_cond {inner c fmt} (h : RTGood E dyn N inner) : RTGood E dyn N (.cond inner c fmt) := by
  rintro x hx ⟨v, hv, ht⟩ hok
  simp only [tryC] at ht
  obtain ⟨y, hy, ht2⟩ := bind_ok_inv ht
  obtain ⟨rfl, hg⟩ := cond_inv ht2
  simp only [RTOk] at hok
  obtain ⟨d, h1, h2, h3⟩ := h y hx ⟨v, hv, hy⟩ hok
  exact ⟨d, by simp only [intoC]; exact h1, h2, by simp only [tryC, h3, Outcome.bind_ok, hg]⟩

theorem id_cond {inner c fmt} (h : IdGood E dyn N inner) : IdGood E dyn N (.cond inner c fmt) := by
  rintro x hx ⟨v, hv, ht⟩
  simp only [tryC] at ht
  obtain ⟨y, hy, ht2⟩ := bind_ok_inv ht
  obtain ⟨rfl, hg⟩ := cond_inv ht2
  obtain ⟨h1, h2, h3⟩ := h y hx ⟨v, hv, hy⟩
  exact ⟨by simp only [intoC]; exact h1, h2, by simp only [tryC, h3, Outcome.bind_ok, hg]⟩

end PaneModel
