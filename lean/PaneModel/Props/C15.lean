import PaneModel.Lemmas.PaneProofs
import PaneModel.Props.C07
/-!
# C15 — dataclass data layouts and field-name resolution

From a mapping, a key is bound to a field exactly when it is one of that field's input names (Python
name, aliases, explicit input names or renamed forms, as configured); two keys naming the same field,
unknown keys (ignored instead if extras are allowed) and missing required fields are each rejected.
From a real sequence, and only if the tuple layout is enabled, values bind positionally to the
non-keyword-only fields and the length must lie between the required and the total positional count; a
layout that is not enabled is rejected.  Output uses the configured layout and each field's output name
and omits excluded fields.

Reading guide (helpers are in `PaneModel/Lemmas/PaneProofs.lean`, namespace `PaneModel.PaneProofs`):

* `matchesF f s`  — `s` is the Python name or an input name of the *init* field `f`;
  `keysOf f = f.name :: f.inNames`;
* `NamesUnambiguous fields` (decidable) — no string names two different init fields;
* `namesField info k n` (from C07) — data key `k` is bound by `field_map` to the field called `n`;
* `structSpec info fs items` — for every entry whose key is bound to a field, that field's Python name
  with the converted value, in data order;
* `NoLeak fs` — the field converters let no exception out (true for the converters of every well-formed
  tree, `C15_noLeak`, by C03);
* `posNames info` — Python names of the init, non-keyword-only fields in field order; `isPos`,
  `isReqPos` — positional / required positional field;
* `setRecord o` — the record of explicitly set fields of an instance;
* `liveFields info ss` — the non-excluded fields with their serialisers;
* `fieldAttr v f` — what `getattr(v, f.name)` reads: the instance attribute, else the class attribute
  that a plain default VALUE leaves behind (an error for a field without default or with a
  `default_factory`); `Serialised v live ds` — `ds[i]` is the serialised `fieldAttr` of the `i`-th live
  field; `SerialisedInst` — the same reading instance attributes only; `HasAttrs v live` — the instance
  has the attribute of every live field (then the two coincide, `serialised_iff_inst`).

Side conditions (never silently assumed): the fast-pass verdict theorems take `NoLeak` for the field
converters; the statements relating "required field missing" and set-records to field *names* need
pairwise distinct Python field names (`nodupNames`, part of `Conv.wf`; always true in Python).
`fieldIndex` implements `field_map`: when a string names two init fields the LAST one wins
(`C15_key_binds`); `NamesUnambiguous` rules that out.
-/
namespace PaneModel

open PaneProofs

variable {E : Ext}

/-! ## Facts read from the source -/

theorem C15_facts :
    Facts.makeFieldOutOrder = some ["out_name", "rename", "class"] ∧
    Facts.makeFieldBranchesIntact = true ∧
    Facts.makeFieldAliasesIncludeRenamed = some true := by decide

theorem C15_gate_fact : Facts.paneTupleGateTry = some "data_is_sequence" := by decide
theorem C15_hook_facts :
    Facts.catches .paneStructHookTry = some .all ∧ Facts.catches .paneTupleHookTry = some .all := by decide

/-! ## Input and output names (`FieldSpec.make_field`) -/

/-- **C15 (input names, decision table).**  For a field spec that `make_field` accepts:

* output name: the explicit `out_name`, else `rename`, else the class `out_rename` style applied to the
  Python name, else the Python name;
* input names: `rename = r` (alone) gives `[r]`; `aliases = al` gives the Python name, the renamed
  forms (one per class `in_rename` style) and the aliases, de-duplicated in that order; `in_names = ns`
  gives `ns`; none of the three gives the renamed forms, or `[name]` without a class `in_rename`;
* at most one of `rename` / `aliases` / `in_names` was given. -/
theorem C15_input_names (hF : Facts.makeFieldAliasesIncludeRenamed = some true)
    (s : SpecM) (inR : Option (List String)) (outR : Option String) (f : FieldInfo)
    (h : makeField s inR outR (Facts.makeFieldAliasesIncludeRenamed == some true) = .ok f) :
    f.name = s.name ∧
    -- output name
    (∀ o, s.outName = some o → f.outName = o) ∧
    (s.outName = none → ∀ r, s.rename = some r → f.outName = r) ∧
    (s.outName = none → s.rename = none → ∀ st, outR = some st → renameField s.name st = some f.outName) ∧
    (s.outName = none → s.rename = none → outR = none → f.outName = s.name) ∧
    -- input names
    (∀ r, s.rename = some r → s.aliases = none ∧ s.inNames = none ∧ f.inNames = [r]) ∧
    (∀ al, s.aliases = some al → s.rename = none ∧ s.inNames = none ∧
      ∃ rn, renamedForms s.name inR = .ok rn ∧ f.inNames = dedupS (s.name :: rn ++ al)) ∧
    (∀ ns, s.inNames = some ns → s.rename = none ∧ s.aliases = none ∧ f.inNames = ns) ∧
    (s.rename = none → s.aliases = none → s.inNames = none →
      (inR = none → f.inNames = [s.name]) ∧ (inR.isSome = true → renamedForms s.name inR = .ok f.inNames)) := by
  have hb : (Facts.makeFieldAliasesIncludeRenamed == some true) = true := by rw [hF]; rfl
  rw [hb] at h
  obtain ⟨hn, ho, hi, hname⟩ := makeField_ok h
  refine ⟨hname, ?_, ?_, ?_, ?_, ?_, ?_, ?_, ?_⟩
  · intro o hs
    simp only [outNameOf, hs, Except.ok.injEq] at ho
    exact ho.symm
  · intro hs r hr
    simp only [outNameOf, hs, hr, Except.ok.injEq] at ho
    exact ho.symm
  · intro hs hr st hst
    simp only [outNameOf, hs, hr, hst] at ho
    cases hrf : renameField s.name st with
    | none => rw [hrf] at ho; cases ho
    | some n => rw [hrf] at ho; cases ho; rfl
  · intro hs hr hst
    simp only [outNameOf, hs, hr, hst, Except.ok.injEq] at ho
    exact ho.symm
  · intro r hr
    cases ha : s.aliases <;> cases hin : s.inNames <;>
      simp [nset, hr, ha, hin] at hn
    simp only [inNamesOf, hr, Except.ok.injEq] at hi
    exact ⟨rfl, rfl, hi.symm⟩
  · intro al ha
    cases hr : s.rename <;> cases hin : s.inNames <;>
      simp [nset, hr, ha, hin] at hn
    simp only [inNamesOf, hr, ha, if_true] at hi
    cases hrn : renamedForms s.name inR with
    | error e => rw [hrn] at hi; cases hi
    | ok rn =>
      rw [hrn] at hi
      simp only [Except.map, Except.ok.injEq] at hi
      exact ⟨rfl, rfl, rn, rfl, hi.symm⟩
  · intro ns hin
    cases hr : s.rename <;> cases ha : s.aliases <;>
      simp [nset, hr, ha, hin] at hn
    simp only [inNamesOf, hr, ha, hin, Except.ok.injEq] at hi
    exact ⟨rfl, rfl, hi.symm⟩
  · intro hr ha hin
    simp only [inNamesOf, hr, ha, hin] at hi
    constructor
    · rintro rfl
      simp only [Except.ok.injEq] at hi
      exact hi.symm
    · intro hsome
      cases inR with
      | none => cases hsome
      | some sts => exact hi

/-- the renamed forms: one per class `in_rename` style, in order; an unsplittable name is an error -/
theorem C15_renamed_forms (name : String) :
    renamedForms name none = .ok [] ∧
    renamedForms name (some []) = .ok [] ∧
    ∀ st sts, renamedForms name (some (st :: sts)) =
      match renameField name st with
      | none => .error (.valueError ("Unable to interpret field '" ++ name ++ "' for automatic rename"))
      | some n => (renamedForms name (some sts)).map (n :: ·) := by
  refine ⟨rfl, rfl, ?_⟩
  intro st sts
  simp only [renamedForms, List.mapM_cons]
  cases renameField name st with
  | none => rfl
  | some n =>
    simp only [bind, Except.bind, pure, Except.pure, Except.map]

/-- **C15 (input names, conflict).**  More than one of `rename` / `aliases` / `in_names` is refused
with `TypeError` — unless resolving the output name already failed (`ValueError`: no `out_name`, no
`rename`, and the class `out_rename` style cannot split the Python name), which is checked first. -/
theorem C15_input_names_conflict (s : SpecM) (inR : Option (List String)) (outR : Option String) (b : Bool)
    (h : nset s > 1) :
    (∃ m, makeField s inR outR b = .error (.typeError m)) ∨
    (s.outName = none ∧ s.rename = none ∧ ∃ st, outR = some st ∧ renameField s.name st = none ∧
      ∃ m, makeField s inR outR b = .error (.valueError m)) := by
  rw [makeField_eq]
  cases ho : outNameOf s outR with
  | ok o => left; simp only [h, if_true]; exact ⟨_, rfl⟩
  | error e =>
    right
    unfold outNameOf at ho
    split at ho
    · cases ho
    · cases ho
    · rename_i st h1 h2
      cases hrf : renameField s.name st with
      | none => rw [hrf] at ho; cases ho; exact ⟨h1, h2, st, rfl, hrf, _, rfl⟩
      | some n => rw [hrf] at ho; cases ho
    · cases ho

/-- without the "aliases include renamed forms" behaviour (`aliasesIncludeRenamed = false`), `aliases`
would give only the Python name and the aliases: the extracted fact matters -/
theorem C15_input_names_without_renamed (s : SpecM) (inR : Option (List String)) (outR : Option String)
    (f : FieldInfo) (al : List String) (ha : s.aliases = some al)
    (h : makeField s inR outR false = .ok f) : f.inNames = s.name :: al.filter (· != s.name) := by
  obtain ⟨hn, -, hi, -⟩ := makeField_ok h
  cases hr : s.rename <;> cases hin : s.inNames <;>
    simp [nset, hr, ha, hin] at hn
  simp only [inNamesOf, hr, ha, Bool.false_eq_true, if_false, Except.ok.injEq] at hi
  exact hi.symm

/-- `make_field` succeeds whenever names resolve and at most one of the three options is given -/
theorem C15_input_names_total (s : SpecM) (inR : Option (List String)) (outR : Option String) (b : Bool)
    {o : String} {ins : List String} (hn : nset s ≤ 1) (ho : outNameOf s outR = .ok o)
    (hi : inNamesOf s inR b = .ok ins) :
    ∃ f, makeField s inR outR b = .ok f ∧ f.name = s.name ∧ f.outName = o ∧ f.inNames = ins := by
  rw [makeField_eq, ho]
  simp only [show ¬ nset s > 1 by omega, if_false, hi, Except.map]
  exact ⟨_, rfl, rfl, rfl, rfl⟩

/-! ## Which key binds to which field (`field_map`) -/

/-- **C15 (key binding).**  A data key is bound to field `i` exactly when it is a string `s` that is the
Python name or an input name of the init field `i` and of no later init field (the last match wins);
when no string names two init fields (`NamesUnambiguous`, decidable) this is simply "`s` is the Python
name or one of the input names of init field `i`".  Keys that are not strings bind to nothing. -/
theorem C15_key_binds (fields : List FieldInfo) :
    (∀ k i, fieldIndex fields k = some i ↔
      ∃ s, k = .str s ∧ ∃ h : i < fields.length, matchesF fields[i] s = true ∧
        ∀ j (hj : j < fields.length), i < j → matchesF fields[j] s = false) ∧
    (NamesUnambiguous fields → ∀ s i, fieldIndex fields (.str s) = some i ↔
      ∃ h : i < fields.length, fields[i].init = true ∧ (s = fields[i].name ∨ s ∈ fields[i].inNames)) ∧
    (∀ k, (∀ s, k ≠ .str s) → fieldIndex fields k = none) := by
  refine ⟨fun k i => fieldIndex_eq_some, ?_, fun k => fieldIndex_nonstr⟩
  intro hu s i
  rw [fieldIndex_unambiguous hu]
  simp only [keysOf, List.mem_cons]

/-- `matchesF`, spelled out -/
theorem C15_matches (f : FieldInfo) (s : String) :
    matchesF f s = true ↔ f.init = true ∧ (s = f.name ∨ s ∈ f.inNames) := by
  rw [matchesF_iff]; simp only [keysOf, List.mem_cons]

/-! ## Verdict of the mapping layout -/

/-- the field converters of a well-formed dataclass converter never let an exception out (C03) -/
theorem C15_noLeak (hG : GuardsCover = true) (hE : ExtOk E) (cs : List Conv) (hwf : wfList cs = true) :
    NoLeak (tryCs E cs) := noLeak_of_good (C03.goods hG hE cs hwf)

/-- **C15 (mapping layout, the loop).**  Under leak-freedom of the field converters the keyword loop
raises `ParseInterrupt` exactly when some entry `(k, x)` of the data
* has an unknown key while extras are not allowed, or
* names a field that an earlier entry already named, or
* names a field whose converter rejects `x`;
otherwise it returns exactly the (field name, converted value) pairs of the entries whose key names a
field, in data order (`structSpec`).  It never lets another exception out. -/
theorem C15_struct_verdict (info : PaneInfo) (fs : List (Val → Outcome Val))
    (hlen : fs.length = info.fields.length) (hnl : NoLeak fs) (items : List (Val × Val)) :
    (structLoop info fs items [] = .interrupt ↔
      ∃ pre k x post, items = pre ++ (k, x) :: post ∧
        ((fieldIndex info.fields k = none ∧ info.allowExtra = false) ∨
         (∃ i f, fieldIndex info.fields k = some i ∧ info.fields[i]? = some f ∧
           (pre.any (fun p => namesField info p.1 f.name) = true ∨ applyAt fs i x = .interrupt)))) ∧
    (structLoop info fs items [] ≠ .interrupt →
      structLoop info fs items [] = .ok (structSpec info fs items)) ∧
    (∀ e, structLoop info fs items [] ≠ .leak e) := by
  rcases structLoop_verdict info fs hlen hnl items with ⟨h1, a, kv, b, h2, h3⟩ | ⟨h1, h2, -⟩
  · refine ⟨⟨fun _ => ⟨a, kv.1, kv.2, b, h2, h3⟩, fun _ => h1⟩, fun h => absurd h1 h, ?_⟩
    intro e he; rw [h1] at he; cases he
  · refine ⟨⟨fun h => (by rw [h1] at h; cases h), ?_⟩, fun _ => h1, ?_⟩
    · rintro ⟨pre, k, x, post, hs, ho⟩
      exact absurd ho (h2 pre (k, x) post hs)
    · intro e he; rw [h1] at he; cases he

/-- **C15 (mapping layout, the whole pass).**  `paneTryStruct` raises `ParseInterrupt` exactly when the
loop does (see `C15_struct_verdict`), or some required init field (init, no default) is named by no key,
or `__post_init__` raises (the guard around it catches every exception class). -/
theorem C15_struct_verdict_pane (hT : Facts.catches .paneStructHookTry = some .all)
    (info : PaneInfo) (fs : List (Val → Outcome Val))
    (hlen : fs.length = info.fields.length) (hnl : NoLeak fs)
    (hnd : nodupNames (info.fields.map (·.name)) = true) (v : Val) :
    paneTryStruct E info fs v = .interrupt ↔
      (∃ pre kv post, v.mapItems = pre ++ kv :: post ∧ Offends info fs pre kv) ∨
      (∃ f ∈ info.fields, f.init = true ∧ f.hasDefault = false ∧
        v.mapItems.any (fun p => namesField info p.1 f.name) = false) ∨
      (∃ all e, fillDefaults E (Facts.structDefaultCalled == some true) info.fields
          (structSpec info fs v.mapItems) = some all ∧
        runHook E info all ((structSpec info fs v.mapItems).map (·.1)) = .error e) :=
  paneTryStruct_interrupt_iff E info fs hlen hnl hnd hT v

/-- `Offends`, spelled out (it is the disjunction used in `C15_struct_verdict`) -/
theorem C15_offends (info : PaneInfo) (fs : List (Val → Outcome Val)) (pre : List (Val × Val)) (k x : Val) :
    Offends info fs pre (k, x) ↔
      ((fieldIndex info.fields k = none ∧ info.allowExtra = false) ∨
       (∃ i f, fieldIndex info.fields k = some i ∧ info.fields[i]? = some f ∧
         (pre.any (fun p => namesField info p.1 f.name) = true ∨ applyAt fs i x = .interrupt))) := Iff.rfl

/-- … and it returns an instance exactly when nothing offends, every required field is named and the
hook passes; the instance then holds the converted values and defaults as the hook left them, and its
set-record is the fields named by the data. -/
theorem C15_struct_verdict_ok (info : PaneInfo) (fs : List (Val → Outcome Val))
    (hlen : fs.length = info.fields.length) (hnl : NoLeak fs) (v o : Val) :
    paneTryStruct E info fs v = .ok o ↔
      (∀ pre kv post, v.mapItems = pre ++ kv :: post → ¬ Offends info fs pre kv) ∧
      ∃ all final, fillDefaults E (Facts.structDefaultCalled == some true) info.fields
          (structSpec info fs v.mapItems) = some all ∧
        runHook E info all ((structSpec info fs v.mapItems).map (·.1)) = .ok final ∧
        o = mkObj info final ((structSpec info fs v.mapItems).map (·.1)) :=
  paneTryStruct_ok_iff E info fs hlen hnl v o

/-- "a required field is missing", in terms of `fillDefaults` -/
theorem C15_missing_iff (called : Bool) (fields : List FieldInfo) (vals : List (String × Val))
    (hnd : nodupNames (fields.map (·.name)) = true) :
    fillDefaults E called fields vals = none ↔
      ∃ f ∈ fields, f.init = true ∧ f.hasDefault = false ∧ assocHas f.name vals = false :=
  fillDefaults_eq_none E called fields vals hnd

/-! ## What the error tree says (restating C07) -/

/-- **C15 (mapping layout, diagnostics).**  In the product node the diagnostic pass builds for a mapping:
`extra` = the unknown keys in data order (none if extras are allowed); `missing` = the required init
fields no key named; and every second or later key of a field has a `DuplicateKeyError` child listing
the field's input names. -/
theorem C15_struct_diag (hG : GuardsCover = true) (hE : ExtOk E) (info : PaneInfo) (cs : List Conv)
    (hwf : (Conv.pane info cs).wf = true) (v : Val) (hmap : v.isMap = true)
    {exp keys errs act missing extra}
    (h : colC E (.pane info cs) v = .ok (some (.product exp keys errs act missing extra))) :
    extra = (if info.allowExtra then []
      else (v.mapItems.filter fun kv => (fieldIndex info.fields kv.1).isNone).map (·.1)) ∧
    missing = (info.fields.filter fun f =>
      f.init && !(v.mapItems.any fun p => namesField info p.1 f.name) && !f.hasDefault).map
        (fun f => Val.str f.name) ∧
    (∀ (pre post : List (Val × Val)) (k x : Val) (i : Nat) (f : FieldInfo),
      v.mapItems = pre ++ (k, x) :: post → fieldIndex info.fields k = some i → info.fields[i]? = some f →
      pre.any (fun p => namesField info p.1 f.name) = true →
      ∃ j : Nat, keys[j]? = some k ∧ errs[j]? = some (.dupKey k f.inNames)) := by
  obtain ⟨-, -, -, -, h5, h6⟩ := C07_pane_struct hG hE info cs hwf v hmap h
  refine ⟨h5, h6, ?_⟩
  intro pre post k x i f hs hfi hf hdup
  exact C07_pane_struct_dup_key hG hE hwf hmap h hs hfi hf hdup

/-! ## Which layout is tried -/

/-- **C15 (layout gate).**  A real sequence goes to the positional layout, and only if `"tuple"` is an
enabled input format; a mapping (that is not a sequence) goes to the keyword layout, and only if
`"struct"` is enabled; a disabled layout and every other value are rejected. -/
theorem C15_layout_gate (hG : Facts.paneTupleGateTry = some "data_is_sequence")
    (info : PaneInfo) (cs : List Conv) (v : Val) :
    tryC E (.pane info cs) v =
      if v.isSeq then
        (if info.inFormat.contains "tuple" then paneTryTuple E info (tryCs E cs) v else .interrupt)
      else if v.isMap then
        (if info.inFormat.contains "struct" then paneTryStruct E info (tryCs E cs) v else .interrupt)
      else .interrupt := by
  simp only [tryC, hG, paneSeqGate]
  cases hs : v.isSeq <;> cases hm : v.isMap <;>
    cases ht : info.inFormat.contains "tuple" <;> cases hst : info.inFormat.contains "struct" <;> simp

theorem C15_layout_gate' (info : PaneInfo) (cs : List Conv) (v : Val) :
    tryC E (.pane info cs) v =
      if v.isSeq then
        (if info.inFormat.contains "tuple" then paneTryTuple E info (tryCs E cs) v else .interrupt)
      else if v.isMap then
        (if info.inFormat.contains "struct" then paneTryStruct E info (tryCs E cs) v else .interrupt)
      else .interrupt := C15_layout_gate C15_gate_fact info cs v

/-- a sequence with the tuple layout disabled, a mapping with the struct layout disabled, and anything
that is neither are rejected; in particular `str`, `bytes` and `bytearray` are never read as sequences -/
theorem C15_layout_rejects (hG : Facts.paneTupleGateTry = some "data_is_sequence")
    (info : PaneInfo) (cs : List Conv) (v : Val) :
    (v.isSeq = true → info.inFormat.contains "tuple" = false → tryC E (.pane info cs) v = .interrupt) ∧
    (v.isSeq = false → v.isMap = true → info.inFormat.contains "struct" = false →
      tryC E (.pane info cs) v = .interrupt) ∧
    (v.isSeq = false → v.isMap = false → tryC E (.pane info cs) v = .interrupt) ∧
    (∀ s, tryC E (.pane info cs) (.str s) = .interrupt ∧ tryC E (.pane info cs) (.bytes s) = .interrupt ∧
      tryC E (.pane info cs) (.bytearray s) = .interrupt) := by
  refine ⟨?_, ?_, ?_, ?_⟩
  · intro h1 h2; rw [C15_layout_gate hG]; simp only [h1, h2, if_true, Bool.false_eq_true, if_false]
  · intro h1 h2 h3; rw [C15_layout_gate hG]; simp only [h1, h2, h3, if_true, Bool.false_eq_true, if_false]
  · intro h1 h2; rw [C15_layout_gate hG]; simp only [h1, h2, Bool.false_eq_true, if_false]
  · intro s
    refine ⟨?_, ?_, ?_⟩ <;> rw [C15_layout_gate hG] <;> simp [Val.isSeq, Val.isMap]

/-- the gate the source used before (`isinstance(val, Sequence)`) would have routed a `str` to the
positional layout: the extracted fact matters -/
theorem C15_layout_gate_old_form :
    paneSeqGate (some "bare_sequence") (.str "ab") = true ∧
    paneSeqGate (some "data_is_sequence") (.str "ab") = false := ⟨rfl, rfl⟩

/-! ## Positional layout -/

/-- **C15 (positional layout).**  With `n` = the length of the sequence:
* outside `minPos ≤ n ≤ maxPos` the data is rejected;
* it is accepted exactly when, in bounds, the `i`-th positional (init, not keyword-only) field's
  converter accepts `xs[i]` for every `i`, and `make_unchecked` on the converted values (defaults for
  the remaining fields, then `__post_init__`) succeeds;
* on success the set-record is exactly the first `n` positional field names (distinct field names);
* under leak-freedom it is rejected exactly when out of bounds, or some position is rejected by its
  field's converter, or `make_unchecked` / the hook raises. -/
theorem C15_positional (info : PaneInfo) (fs : List (Val → Outcome Val)) (v : Val) :
    (¬ (info.minPos ≤ v.seqItems.length ∧ v.seqItems.length ≤ info.maxPos) →
      paneTryTuple E info fs v = .interrupt) ∧
    (∀ o, paneTryTuple E info fs v = .ok o ↔
      (info.minPos ≤ v.seqItems.length ∧ v.seqItems.length ≤ info.maxPos) ∧
      ∃ vals : List Val, vals.length = min (posFields info).length v.seqItems.length ∧
        (∀ (i : Nat) (h1 : i < (posFields info).length) (h2 : i < v.seqItems.length) (h3 : i < vals.length),
          applyAt fs (posFields info)[i].2 v.seqItems[i] = .ok vals[i]) ∧
        makeUncheckedPos E info vals = .ok o) ∧
    (nodupNames (info.fields.map (·.name)) = true → ∀ o, paneTryTuple E info fs v = .ok o →
      setRecord o = (posNames info).take v.seqItems.length) ∧
    (fs.length = info.fields.length → NoLeak fs → Facts.catches .paneTupleHookTry = some .all →
      (paneTryTuple E info fs v = .interrupt ↔
        ¬ (info.minPos ≤ v.seqItems.length ∧ v.seqItems.length ≤ info.maxPos) ∨
        (∃ (i : Nat) (h1 : i < (posFields info).length) (h2 : i < v.seqItems.length),
          applyAt fs (posFields info)[i].2 v.seqItems[i] = .interrupt) ∨
        (∃ vals e, zipMO (posConvs info fs) v.seqItems = .ok vals ∧
          makeUncheckedPos E info vals = .error e))) :=
  ⟨paneTryTuple_out_of_bounds E info fs v, paneTryTuple_ok_iff E info fs v,
   fun hnd o h => paneTryTuple_setRecord E info fs v o hnd h,
   fun hlen hnl hT => paneTryTuple_interrupt_iff E info fs v hlen hnl hT⟩

/-- the positional fields are the init, non-keyword-only fields, in field order, each with its index -/
theorem C15_posFields (info : PaneInfo) :
    (posFields info).map (·.1) = info.fields.filter (fun f => f.init && !f.kwOnly) ∧
    (∀ p ∈ posFields info, info.fields[p.2]? = some p.1) ∧
    posNames info = (info.fields.filter fun f => f.init && !f.kwOnly).map (·.name) := by
  refine ⟨posFields_map_fst info, ?_, rfl⟩
  intro p hp
  have := (List.mem_filter.1 hp).1
  exact List.mem_zipIdx_iff_getElem?.1 this

/-- `make_unchecked(*vals)`: succeeds exactly when every remaining init field has a default and the hook
passes; the set-record is the first `vals.length` positional names -/
theorem C15_make_unchecked_pos (info : PaneInfo) (vals : List Val) (o : Val) :
    makeUncheckedPos E info vals = .ok o ↔
      ∃ all final,
        fillDefaults E true info.fields (((posFields info).zip vals).map fun ((f, _), x) => (f.name, x)) = some all ∧
        runHook E info all ((posNames info).take vals.length) = .ok final ∧
        o = mkObj info final ((posNames info).take vals.length) :=
  makeUncheckedPos_ok_iff E info vals o

/-! ## Positional bounds fixed at class creation -/

/-- **C15 (bounds).**  When class creation succeeds, `maxPos` is the number of positional fields and
`minPos` the number of required ones.  Creation fails with `TypeError` if a required positional field
follows an optional one, or if a required keyword-only field exists while the tuple layout is enabled. -/
theorem C15_bounds (inFormat : List String) (fields : List FieldInfo) :
    (∀ mn mx, posBounds inFormat fields 0 0 false = .ok (mn, mx) →
      mx = (fields.filter fun f => f.init && !f.kwOnly).length ∧
      mn = (fields.filter fun f => f.init && !f.kwOnly && !f.hasDefault).length) ∧
    (∀ pre post f g, fields = pre ++ f :: post → g ∈ pre →
      (g.init && !g.kwOnly) = true → g.hasDefault = true →
      (f.init && !f.kwOnly && !f.hasDefault) = true →
      ∃ m, posBounds inFormat fields 0 0 false = .error (.typeError m)) ∧
    (inFormat.contains "tuple" = true → ∀ f ∈ fields, f.init = true → f.kwOnly = true →
      f.hasDefault = false → ∃ m, posBounds inFormat fields 0 0 false = .error (.typeError m)) ∧
    (∀ e, posBounds inFormat fields 0 0 false = .error e → ∃ m, e = .typeError m) := by
  refine ⟨?_, ?_, ?_, ?_⟩
  · intro mn mx h
    obtain ⟨h1, h2⟩ := posBounds_ok inFormat fields 0 0 false (mn, mx) h (fun _ => rfl)
    simp only [Nat.zero_add] at h1 h2
    exact ⟨h1, h2⟩
  · rintro pre post f g rfl hg hgp hgd hf
    exact posBounds_required_after_optional inFormat pre post f g hg hgp hgd hf
  · intro ht f hf hi hk hd
    exact posBounds_required_kwOnly_tuple inFormat fields f ht hf hi hk hd
  · intro e h
    exact posBounds_error_type inFormat fields 0 0 false e h

/-- a successful `posBounds`: no required positional field after an optional one, no required
keyword-only field under the tuple layout -/
theorem C15_bounds_ok_order (inFormat : List String) (fields : List FieldInfo) (r : Nat × Nat)
    (h : posBounds inFormat fields 0 0 false = .ok r) :
    (∀ pre f post, fields = pre ++ f :: post → (f.init && !f.kwOnly && !f.hasDefault) = true →
      ∀ g ∈ pre, (g.init && !g.kwOnly) = true → g.hasDefault = false) ∧
    (inFormat.contains "tuple" = true → ∀ f ∈ fields, f.init = true → f.kwOnly = true → f.hasDefault = true) := by
  obtain ⟨h1, h2⟩ := posBounds_ok_order inFormat fields 0 0 false r h
  exact ⟨fun pre f post hs hf => (h1 pre f post hs hf).2, h2⟩

/-- the bounds of a processed class are those counts of its own (re-ordered) fields -/
theorem C15_bounds_class (d : ClassDeclM) (p : Option ClassM) (bound : List (String × Ty)) (pp : List String)
    (c : ClassM) (h : processClass d p bound pp = .ok c) :
    c.info.maxPos = (posFields c.info).length ∧
    c.info.minPos = (c.fields.filter fun f => f.init && !f.kwOnly && !f.hasDefault).length := by
  have hpb : posBounds c.opts.inFormat c.fields 0 0 false = .ok (c.minPos, c.maxPos) := by
    unfold processClass at h
    simp only [] at h
    split at h
    · cases h
    · split at h
      · cases h
      · split at h
        · cases h
        · rename_i hpb
          simp only [Except.ok.injEq] at h
          subst h
          exact hpb
  obtain ⟨h1, h2⟩ := (C15_bounds c.opts.inFormat c.fields).1 _ _ hpb
  refine ⟨?_, h2⟩
  show c.maxPos = (posFields c.info).length
  rw [h1, ← List.length_map (f := (·.1)) (as := posFields c.info), posFields_map_fst]
  rfl

/-! ## Output -/

/-- **C15 (output).**  Serialising an instance succeeds exactly when every non-excluded field's
attribute exists — on the instance, or else as the field's plain default value (`fieldAttr`) — and its
serialiser succeeds (`Serialised`), and the output format is known; then
* `out_format = "tuple"`: the tuple of the serialised values of the non-excluded fields, in field order;
* `out_format = "struct"`: the dict of `(output name, serialised value)` of the non-excluded fields, in
  field order (a later field with the same output name overrides the value, as `dict(pairs)` does). -/
theorem C15_output (info : PaneInfo) (ss : List (Val → Except Exc Val)) (c : String)
    (fs : List (String × Val)) (set : List String) (r : Val) :
    paneInto info ss (.obj c fs set) = .ok r ↔
      ∃ ds : List Val, Serialised (.obj c fs set) (liveFields info ss) ds ∧
        ((info.outFormat = "tuple" ∧ r = .tuple ds) ∨
         (info.outFormat = "struct" ∧
           r = .dict (Val.dictOfPairs
             (List.zipWith (fun p d => (Val.str p.1.outName, d)) (liveFields info ss) ds)))) := by
  rw [paneInto_obj]
  cases hm : exMapM (intoOne (.obj c fs set)) (liveFields info ss) with
  | error e =>
    simp only [false_iff, reduceCtorEq]
    rintro ⟨ds, hser, _⟩
    have : exMapM (intoOne (.obj c fs set)) (liveFields info ss) =
        .ok (List.zipWith (fun p d => (p.1.outName, d)) (liveFields info ss) ds) := by
      rw [exMapM_intoOne]
      have hmap : (List.zipWith (fun p d => (p.1.outName, d)) (liveFields info ss) ds).map (·.2) = ds := by
        apply List.ext_getElem
        · simp [hser.1]
        · intro i h1 h2; simp
      rw [hmap]
      exact ⟨hser, rfl⟩
    rw [hm] at this; cases this
  | ok kvs =>
    obtain ⟨hser, hz⟩ := exMapM_intoOne.1 hm
    have hkv : (kvs.map fun (k, d) => (Val.str k, d)) =
        List.zipWith (fun p d => (Val.str p.1.outName, d)) (liveFields info ss) (kvs.map (·.2)) := by
      conv => lhs; rw [hz]
      apply List.ext_getElem
      · simp
      · intro i h1 h2; simp
    have huniq : ∀ ds, Serialised (.obj c fs set) (liveFields info ss) ds → ds = kvs.map (·.2) := by
      intro ds hds
      apply List.ext_getElem
      · rw [hds.1, hser.1]
      · intro i h1 h2
        obtain ⟨x, hx1, hx2⟩ := hds.2 i (by rw [← hds.1]; exact h1) h1
        obtain ⟨x', hx1', hx2'⟩ := hser.2 i (by rw [← hds.1]; exact h1) h2
        rw [hx1] at hx1'; cases hx1'
        rw [hx2] at hx2'; exact Except.ok.inj hx2'
    simp only
    by_cases ht : info.outFormat = "tuple"
    · simp only [ht, BEq.rfl, if_true, Except.ok.injEq]
      constructor
      · rintro rfl; exact ⟨_, hser, .inl ⟨trivial, rfl⟩⟩
      · rintro ⟨ds, hds, (⟨-, rfl⟩ | ⟨h, -⟩)⟩
        · rw [huniq ds hds]
        · exact absurd h (by decide)
    · have ht' : (info.outFormat == "tuple") = false := by simpa using ht
      simp only [ht', Bool.false_eq_true, if_false]
      by_cases hs : info.outFormat = "struct"
      · simp only [hs, BEq.rfl, if_true, Except.ok.injEq]
        constructor
        · rintro rfl; exact ⟨_, hser, .inr ⟨trivial, by rw [hkv]⟩⟩
        · rintro ⟨ds, hds, (⟨h, -⟩ | ⟨-, rfl⟩)⟩
          · exact absurd h (by decide)
          · rw [huniq ds hds, hkv]
      · have hs' : (info.outFormat == "struct") = false := by simpa using hs
        simp only [hs', Bool.false_eq_true, if_false, false_iff, reduceCtorEq]
        rintro ⟨ds, -, (⟨h, -⟩ | ⟨h, -⟩)⟩
        · exact ht h
        · exact hs h

/-- **C15 (output, instances with all attributes).**  For an instance that has the attribute of every
non-excluded field (every instance the constructor built), `C15_output` with the instance attributes
themselves: no default is ever consulted. -/
theorem C15_output_inst (info : PaneInfo) (ss : List (Val → Except Exc Val)) (c : String)
    (fs : List (String × Val)) (set : List String) (r : Val)
    (ha : HasAttrs (.obj c fs set) (liveFields info ss)) :
    paneInto info ss (.obj c fs set) = .ok r ↔
      ∃ ds : List Val, SerialisedInst (.obj c fs set) (liveFields info ss) ds ∧
        ((info.outFormat = "tuple" ∧ r = .tuple ds) ∨
         (info.outFormat = "struct" ∧
           r = .dict (Val.dictOfPairs
             (List.zipWith (fun p d => (Val.str p.1.outName, d)) (liveFields info ss) ds)))) := by
  rw [C15_output]
  constructor
  · rintro ⟨ds, hds, h⟩; exact ⟨ds, (serialised_iff_inst ha).1 hds, h⟩
  · rintro ⟨ds, hds, h⟩; exact ⟨ds, hds.serialised, h⟩

/-- **C15 (output, attribute read).**  The value serialised for a field is the instance attribute when
the instance has it; when it does not, it is the field's plain default value, and there is no value (the
`AttributeError` escapes) for a field without default or with a `default_factory`. -/
theorem C15_output_attr (v : Val) (f : FieldInfo) :
    (∀ x, getAttr f.name v = .ok x → fieldAttr v f = .ok x) ∧
    (∀ e d, getAttr f.name v = .error e → f.default = .value d → fieldAttr v f = .ok d) ∧
    (∀ e, getAttr f.name v = .error e → (∀ d, f.default ≠ .value d) → fieldAttr v f = .error e) :=
  ⟨fun _ h => fieldAttr_of_getAttr h, fun _ _ h hd => fieldAttr_of_default h hd,
   fun _ h hd => fieldAttr_error h hd⟩

/-- when serialisation succeeds, the value read for every non-excluded field came from the instance or
is that field's plain default value; so a non-excluded field that the instance lacks and that has no
plain default value makes serialisation fail -/
theorem C15_output_missing_attr (info : PaneInfo) (ss : List (Val → Except Exc Val)) (c : String)
    (fs : List (String × Val)) (set : List String) (r : Val)
    (h : paneInto info ss (.obj c fs set) = .ok r) :
    ∀ p ∈ liveFields info ss, ∃ x, fieldAttr (.obj c fs set) p.1 = .ok x ∧
      (getAttr p.1.name (.obj c fs set) = .ok x ∨ p.1.default = .value x) := by
  intro p hp
  obtain ⟨ds, hser, -⟩ := (C15_output info ss c fs set r).1 h
  obtain ⟨i, hi, rfl⟩ := List.getElem_of_mem hp
  obtain ⟨x, hx, -⟩ := hser.2 i hi (by rw [hser.1]; exact hi)
  refine ⟨x, hx, ?_⟩
  rcases fieldAttr_ok_iff.1 hx with h | ⟨-, h⟩
  · exact .inl h
  · exact .inr h

/-- an unknown `out_format` is a `ValueError` (once every field serialised) -/
theorem C15_output_unknown_format (info : PaneInfo) (ss : List (Val → Except Exc Val)) (c : String)
    (fs : List (String × Val)) (set : List String) (kvs : List (String × Val))
    (hm : exMapM (intoOne (.obj c fs set)) (liveFields info ss) = .ok kvs)
    (h1 : info.outFormat ≠ "tuple") (h2 : info.outFormat ≠ "struct") :
    paneInto info ss (.obj c fs set) = .error { cls := .valueError, msg := "ValueError: Unknown 'out_format'" } := by
  rw [paneInto_obj, hm]
  have ht' : (info.outFormat == "tuple") = false := by simpa using h1
  have hs' : (info.outFormat == "struct") = false := by simpa using h2
  simp only [ht', hs', Bool.false_eq_true, if_false]

/-- excluded fields never appear: every key of the produced dict is the output name of a non-excluded
field, and the tuple has one component per non-excluded field -/
theorem C15_output_excluded (info : PaneInfo) (ss : List (Val → Except Exc Val)) (c : String)
    (fs : List (String × Val)) (set : List String) (r : Val)
    (h : paneInto info ss (.obj c fs set) = .ok r) :
    (∀ kvs, r = .dict kvs → ∀ p ∈ kvs, ∃ f ∈ info.fields, f.exclude = false ∧ p.1 = .str f.outName) ∧
    (∀ xs, r = .tuple xs → xs.length = (liveFields info ss).length) ∧
    (∀ p ∈ liveFields info ss, p.1 ∈ info.fields ∧ p.1.exclude = false) := by
  have hlive : ∀ p ∈ liveFields info ss, p.1 ∈ info.fields ∧ p.1.exclude = false := by
    intro p hp
    obtain ⟨h1, h2⟩ := List.mem_filter.1 hp
    obtain ⟨f, s⟩ := p
    exact ⟨(List.of_mem_zip h1).1, by simpa using h2⟩
  obtain ⟨ds, hser, hr⟩ := (C15_output info ss c fs set r).1 h
  refine ⟨?_, ?_, hlive⟩
  · intro kvs hk p hp
    rcases hr with ⟨-, rfl⟩ | ⟨-, rfl⟩
    · cases hk
    · cases hk
      obtain ⟨q, hq, hqp⟩ := dictOfPairs_keys hp
      obtain ⟨i, hi, rfl⟩ := List.getElem_of_mem hq
      simp only [List.getElem_zipWith] at hqp
      have hi' : i < (liveFields info ss).length := by simp at hi; omega
      obtain ⟨h1, h2⟩ := hlive _ (List.getElem_mem hi')
      exact ⟨_, h1, h2, hqp.symm⟩
  · intro xs hx
    rcases hr with ⟨-, rfl⟩ | ⟨-, rfl⟩
    · cases hx; exact hser.1
    · cases hx

/-! ## Non-vacuity -/

/-- `class Q: a: int = field(aliases=["A"]); b: int = 0; e: int = field(default=7, exclude=True);
_: KW_ONLY; k: int = 1` with both layouts -/
def c15Q : PaneInfo where
  name := "Q"
  fields := [{ name := "a", inNames := ["a", "A"], outName := "aa" },
             { name := "b", inNames := ["b"], outName := "b", default := .value (.int 0) },
             { name := "e", inNames := ["e"], outName := "e", default := .value (.int 7), exclude := true },
             { name := "k", inNames := ["k"], outName := "k", default := .value (.int 1), kwOnly := true }]
  inFormat := ["struct", "tuple"]
  outFormat := "struct"
  minPos := 1
  maxPos := 3

def c15Conv : Conv := .pane c15Q [exInt, exInt, exInt, exInt]

example : c15Conv.wf = true := by decide
example : NamesUnambiguous c15Q.fields := by decide
/-- an ambiguous class: "x" names both fields, the later one wins -/
example : ¬ NamesUnambiguous [{ name := "x", inNames := ["x"], outName := "x" },
    { name := "y", inNames := ["y", "x"], outName := "y" }] := by decide
example : fieldIndex [{ name := "x", inNames := ["x"], outName := "x" },
    { name := "y", inNames := ["y", "x"], outName := "y" }] (.str "x") = some 1 := by decide

-- input names
example : makeField { name := "my_field", ty := .any, aliases := some ["mf"] } (some ["camel", "kebab"]) (some "pascal")
    (Facts.makeFieldAliasesIncludeRenamed == some true) =
    .ok { name := "my_field", inNames := ["my_field", "myField", "my-field", "mf"], outName := "MyField" } := by
  rfl
example : makeField { name := "my_field", ty := .any, rename := some "f" } (some ["camel"]) (some "pascal") true =
    .ok { name := "my_field", inNames := ["f"], outName := "f" } := by rfl
example : makeField { name := "my_field", ty := .any, rename := some "f", outName := some "o" } none none true =
    .ok { name := "my_field", inNames := ["f"], outName := "o" } := by rfl
example : makeField { name := "my_field", ty := .any, inNames := some ["p", "q"] } (some ["camel"]) none true =
    .ok { name := "my_field", inNames := ["p", "q"], outName := "my_field" } := by rfl
example : makeField { name := "my_field", ty := .any } (some ["camel", "scream"]) none true =
    .ok { name := "my_field", inNames := ["myField", "MY_FIELD"], outName := "my_field" } := by rfl
example : makeField { name := "my_field", ty := .any } none none true =
    .ok { name := "my_field", inNames := ["my_field"], outName := "my_field" } := by rfl
example : ∃ m, makeField { name := "f", ty := .any, rename := some "r", aliases := some ["a"] } none none true =
    .error (.typeError m) := ⟨_, rfl⟩
example : ∃ m, makeField { name := "__f", ty := .any, inNames := some ["r"], aliases := some ["a"] } none (some "camel") true =
    .error (.valueError m) := ⟨_, rfl⟩
example : makeField { name := "my_field", ty := .any, aliases := some ["mf"] } (some ["camel"]) none false =
    .ok { name := "my_field", inNames := ["my_field", "mf"], outName := "my_field" } := by rfl

-- key binding and the mapping layout
example : fieldIndex c15Q.fields (.str "A") = some 0 := by decide
example : fieldIndex c15Q.fields (.str "zz") = none := by decide
example : fieldIndex c15Q.fields (.int 0) = none := by decide

example : tryC extRaising c15Conv (.dict [(.str "A", .int 1), (.str "k", .int 5)]) =
    .ok (.obj "Q" [("a", .int 1), ("b", .int 0), ("e", .int 7), ("k", .int 5)] ["a", "k"]) := by
  with_unfolding_all rfl
/-- two keys for one field / unknown key / missing required field / rejected value -/
example : tryC extRaising c15Conv (.dict [(.str "A", .int 1), (.str "a", .int 2)]) = .interrupt := by
  with_unfolding_all rfl
example : tryC extRaising c15Conv (.dict [(.str "a", .int 1), (.str "zz", .int 2)]) = .interrupt := by
  with_unfolding_all rfl
example : tryC extRaising c15Conv (.dict [(.str "b", .int 1)]) = .interrupt := by
  with_unfolding_all rfl
example : tryC extRaising c15Conv (.dict [(.str "a", .str "no")]) = .interrupt := by
  with_unfolding_all rfl
/-- extras allowed: the unknown key is ignored -/
example : tryC extRaising (.pane { c15Q with allowExtra := true } [exInt, exInt, exInt, exInt])
    (.dict [(.str "a", .int 1), (.str "zz", .int 2)]) =
    .ok (.obj "Q" [("a", .int 1), ("b", .int 0), ("e", .int 7), ("k", .int 1)] ["a"]) := by
  with_unfolding_all rfl
example : structSpec c15Q (tryCs extRaising [exInt, exInt, exInt, exInt]) [(.str "A", .int 1), (.str "k", .int 5)] =
    [("a", .int 1), ("k", .int 5)] := by with_unfolding_all rfl
example : Offends c15Q (tryCs extRaising [exInt, exInt, exInt, exInt]) [(.str "A", .int 1)] (.str "a", .int 2) :=
  .inr ⟨0, _, by decide, rfl, .inl (by decide)⟩
example := C15_struct_verdict c15Q (tryCs extRaising [exInt, exInt, exInt, exInt]) rfl
  (C15_noLeak C03_guards extRaising_ok _ (by decide))
example := C15_struct_verdict_pane (E := extRaising) C15_hook_facts.1 c15Q (tryCs extRaising [exInt, exInt, exInt, exInt]) rfl
  (C15_noLeak C03_guards extRaising_ok _ (by decide)) (by decide)
example := C15_struct_diag C03_guards extRaising_ok exP [exInt, exInt] (by decide) _ rfl exPane_tree

-- the gate
example : tryC extRaising c15Conv (.str "ab") = .interrupt :=
  ((C15_layout_rejects C15_gate_fact c15Q [exInt, exInt, exInt, exInt] (.str "ab")).2.2.2 "ab").1
example := C15_input_names (C15_facts.2.2)
example : tryC extRaising (.pane { c15Q with inFormat := ["struct"] } [exInt, exInt, exInt, exInt])
    (.list [.int 1]) = .interrupt := by with_unfolding_all rfl
example : tryC extRaising (.pane { c15Q with inFormat := ["tuple"] } [exInt, exInt, exInt, exInt])
    (.dict [(.str "a", .int 1)]) = .interrupt := by with_unfolding_all rfl

-- positional layout
example : posNames c15Q = ["a", "b", "e"] := by decide
example : tryC extRaising c15Conv (.list [.int 1, .int 2]) =
    .ok (.obj "Q" [("a", .int 1), ("b", .int 2), ("e", .int 7), ("k", .int 1)] ["a", "b"]) := by
  with_unfolding_all rfl
example : tryC extRaising c15Conv (.list []) = .interrupt := by with_unfolding_all rfl
example : tryC extRaising c15Conv (.list [.int 1, .int 2, .int 3, .int 4]) = .interrupt := by
  with_unfolding_all rfl
example : tryC extRaising c15Conv (.list [.int 1, .str "no"]) = .interrupt := by with_unfolding_all rfl
example : setRecord (.obj "Q" [("a", .int 1), ("b", .int 2), ("e", .int 7), ("k", .int 1)] ["a", "b"]) =
    (posNames c15Q).take 2 := by decide
example := (C15_positional (E := extRaising) c15Q (tryCs extRaising [exInt, exInt, exInt, exInt]) (.list [.int 1, .int 2])).2.2.1
  (by decide)

-- bounds
example : posBounds ["struct", "tuple"] c15Q.fields 0 0 false = .ok (1, 3) := by rfl
example : ∃ m, posBounds ["struct"] [{ name := "a", inNames := [], outName := "a", default := .value .none },
    { name := "b", inNames := [], outName := "b" }] 0 0 false = .error (.typeError m) := ⟨_, rfl⟩
example : ∃ m, posBounds ["tuple"] [{ name := "a", inNames := [], outName := "a", kwOnly := true }] 0 0 false =
    .error (.typeError m) := ⟨_, rfl⟩
example : posBounds ["struct"] [{ name := "a", inNames := [], outName := "a", kwOnly := true }] 0 0 false =
    .ok (0, 0) := by rfl

-- output
def c15Obj : Val := .obj "Q" [("a", .int 1), ("b", .int 2), ("e", .int 7), ("k", .int 5)] ["a", "b"]
def c15Ser : List (Val → Except Exc Val) := intoCs extRaising (fun v => .ok v) [exInt, exInt, exInt, exInt]

example : paneInto c15Q c15Ser c15Obj = .ok (.dict [(.str "aa", .int 1), (.str "b", .int 2), (.str "k", .int 5)]) := by
  with_unfolding_all rfl
example : paneInto { c15Q with outFormat := "tuple" } c15Ser c15Obj = .ok (.tuple [.int 1, .int 2, .int 5]) := by
  with_unfolding_all rfl
example : paneInto { c15Q with outFormat := "yaml" } c15Ser c15Obj =
    .error { cls := .valueError, msg := "ValueError: Unknown 'out_format'" } := by
  with_unfolding_all rfl
example : (liveFields c15Q c15Ser).map (·.1.name) = ["a", "b", "k"] := by decide
example : HasAttrs c15Obj (liveFields c15Q c15Ser) := by
  intro p hp
  have : p.1.name ∈ ["a", "b", "k"] := by
    have := List.mem_map_of_mem (f := fun q : FieldInfo × (Val → Except Exc Val) => q.1.name) hp
    simpa [show (liveFields c15Q c15Ser).map (·.1.name) = ["a", "b", "k"] by decide] using this
  simp only [List.mem_cons, List.mem_nil_iff, or_false] at this
  rcases this with h | h | h <;> rw [h] <;> exact ⟨_, rfl⟩
/-- an instance lacking `b` and `k` (plain defaults `0`, `1`): the class attributes are read -/
def c15ObjPartial : Val := .obj "Q" [("a", .int 1)] ["a"]
example : paneInto c15Q c15Ser c15ObjPartial =
    .ok (.dict [(.str "aa", .int 1), (.str "b", .int 0), (.str "k", .int 1)]) := by
  with_unfolding_all rfl
/-- an instance lacking `a` (no default): the `AttributeError` escapes -/
example : paneInto c15Q c15Ser (.obj "Q" [("b", .int 2)] ["b"]) =
    .error { cls := .attributeError, msg := "AttributeError: a" } := by
  with_unfolding_all rfl
example : fieldAttr c15ObjPartial { name := "b", inNames := ["b"], outName := "b", default := .value (.int 0) } =
    .ok (.int 0) := by with_unfolding_all rfl
example : fieldAttr c15ObjPartial { name := "b", inNames := ["b"], outName := "b", default := .factory "list" } =
    .error { cls := .attributeError, msg := "AttributeError: b" } := by with_unfolding_all rfl

/-! ## Axioms -/

#print axioms C15_facts
#print axioms C15_gate_fact
#print axioms C15_hook_facts
#print axioms C15_input_names
#print axioms C15_renamed_forms
#print axioms C15_input_names_conflict
#print axioms C15_input_names_without_renamed
#print axioms C15_input_names_total
#print axioms C15_key_binds
#print axioms C15_matches
#print axioms C15_noLeak
#print axioms C15_struct_verdict
#print axioms C15_struct_verdict_pane
#print axioms C15_offends
#print axioms C15_struct_verdict_ok
#print axioms C15_missing_iff
#print axioms C15_struct_diag
#print axioms C15_layout_gate
#print axioms C15_layout_gate'
#print axioms C15_layout_rejects
#print axioms C15_layout_gate_old_form
#print axioms C15_positional
#print axioms C15_posFields
#print axioms C15_make_unchecked_pos
#print axioms C15_bounds
#print axioms C15_bounds_ok_order
#print axioms C15_bounds_class
#print axioms C15_output
#print axioms C15_output_inst
#print axioms C15_output_attr
#print axioms C15_output_missing_attr
#print axioms C15_output_unknown_format
#print axioms C15_output_excluded

end PaneModel
