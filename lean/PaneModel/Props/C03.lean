import PaneModel.Lemmas.AgreeCases
/-!
# C03 — the fast path and the diagnostic path always agree
# C04 (core) — only `ConvertError` escapes `convert()` of an already-built converter

For every well-formed converter tree `c` and every input `v`:

* `try_convert` returns a value      ⇔  `collect_errors` returns `None`;
* `try_convert` raises `ParseInterrupt`  ⇔  `collect_errors` returns an error tree;
* neither pass lets any other exception out.

The statement holds for **every** behaviour of user conditions (`E.cond`), `__post_init__` hooks
(`E.hook`), scalar / subclass constructors and `re.compile` (`E.call`): they may raise any exception
class whatsoever.  That is exactly what `GuardsCover` buys: the guards around them are
`except Exception`.  Only four groups of externals carry an assumption (`ExtOk`).
-/
namespace PaneModel

/-! ## What the proof needs from the extracted facts -/

/-- guard sites around user / third-party code: must be `except Exception` -/
def exceptionSites : List Site :=
  [.scalarTry, .scalarCollect, .dictBuildTry, .dictBuildCollect, .seqTry, .seqCollect,
   .condTry, .condCollect, .delegateTry, .delegateCollect, .patternTry, .patternCollect,
   .paneStructHookTry, .paneStructHookCollect, .paneTupleHookTry, .paneTupleHookCollect]

/-- guard sites around a `dict` lookup / `pop`: must catch `KeyError` -/
def keyErrorSites : List Site :=
  [.taggedPopTry, .taggedPopCollect, .taggedLookupTry, .taggedLookupCollect,
   .enumLookupTry, .enumLookupCollect]

/-- guard sites around a lookup with a possibly unhashable key: must catch `TypeError` -/
def typeErrorSites : List Site :=
  [.taggedLookupTry, .taggedLookupCollect, .enumLookupTry, .enumLookupCollect]

/-- guard sites around `fromisoformat` / the shape check: must catch `ValueError` -/
def valueErrorSites : List Site :=
  [.datetimeTry, .datetimeCollect, .nestedShapeTry, .nestedShapeCollect]

/-- Decidable predicate on the extracted facts: every guard the proof relies on is wide enough, both
passes call `default_factory` (so they build the same instance before `__post_init__` runs), and both
passes route values to the positional layout by the same test. -/
def GuardsCover : Bool :=
  exceptionSites.all (fun s => coversAll (Facts.catches s)) &&
  keyErrorSites.all (fun s => covers (Facts.catches s) .keyError) &&
  typeErrorSites.all (fun s => covers (Facts.catches s) .typeError) &&
  valueErrorSites.all (fun s => covers (Facts.catches s) .valueError) &&
  Facts.structDefaultCalled == some true &&
  Facts.initDefaultCalled == some true &&
  Facts.paneTupleGateTry == Facts.paneTupleGateCollect

theorem C03_guards : GuardsCover = true := by decide

/-! ## What the proof assumes about externals -/

/-- Assumptions on externals.  Everything else in `Ext` (`cond`, `hook`, `factory`, `pyStr`, every
other `call`) is unconstrained. -/
structure ExtOk (E : Ext) : Prop where
  /-- `datetime.fromisoformat` / `date.fromisoformat` / `time.fromisoformat` on a `str` raise
  `ValueError` and nothing else. -/
  fromiso_valueError : ∀ ty v e, E.call ("fromiso:" ++ ty) v = .error e → e.cls = .valueError
  /-- `numpy.array` does not raise on a rectangular nested list (one that passed `_check_shape`). -/
  numpy_total : ∀ r s, shapeOf r = some s → ∃ a, E.call "numpy.array" r = .ok a
  /-- user-written converters reached through `custom` satisfy the two-pass contract themselves. -/
  custom_good : ∀ id, GoodF (E.customTry id) (E.customCol id)
  /-- `datetime.date()`, `datetime.time()` and `datetime.combine(date, time())` — the three method calls
  of the cross cells of `DatetimeConverter`, which the fast pass does not guard and the diagnostic pass
  does not make — do not raise on an instance of the class they belong to. -/
  dt_total : DtTotal E

/-! ## The induction -/

section Induction

private theorem gParts (hG : GuardsCover = true) :
    (∀ s ∈ exceptionSites, coversAll (Facts.catches s) = true) ∧
    (∀ s ∈ keyErrorSites, covers (Facts.catches s) .keyError = true) ∧
    (∀ s ∈ typeErrorSites, covers (Facts.catches s) .typeError = true) ∧
    (∀ s ∈ valueErrorSites, covers (Facts.catches s) .valueError = true) ∧
    ((Facts.structDefaultCalled == some true) = (Facts.initDefaultCalled == some true)) ∧
    Facts.paneTupleGateTry = Facts.paneTupleGateCollect := by
  simp only [GuardsCover, Bool.and_eq_true, List.all_eq_true] at hG
  obtain ⟨⟨⟨⟨⟨⟨hAll, hKey⟩, hType⟩, hVal⟩, hSD⟩, hID⟩, hGate⟩ := hG
  exact ⟨hAll, hKey, hType, hVal, by rw [hSD, hID], by simpa using hGate⟩

private theorem gAll (hG : GuardsCover = true) {s : Site} (hs : s ∈ exceptionSites) :
    coversAll (Facts.catches s) = true := (gParts hG).1 s hs
private theorem gKey (hG : GuardsCover = true) {s : Site} (hs : s ∈ keyErrorSites) :
    covers (Facts.catches s) .keyError = true := (gParts hG).2.1 s hs
private theorem gType (hG : GuardsCover = true) {s : Site} (hs : s ∈ typeErrorSites) :
    covers (Facts.catches s) .typeError = true := (gParts hG).2.2.1 s hs
private theorem gVal (hG : GuardsCover = true) {s : Site} (hs : s ∈ valueErrorSites) :
    covers (Facts.catches s) .valueError = true := (gParts hG).2.2.2.1 s hs

variable {E : Ext}

mutual
/-- every well-formed converter satisfies the two-pass contract -/
theorem C03.good (hG : GuardsCover = true) (hE : ExtOk E) :
    (c : Conv) → c.wf = true → GoodF (tryC E c) (colC E c)
  | .any, _ => good_any
  | .noneC, _ => good_noneC
  | .scalar .., _ => good_scalar (gAll hG (by decide)) (gAll hG (by decide))
  | .datetime _, _ => good_datetime (gVal hG (by decide)) (gVal hG (by decide)) hE.fromiso_valueError hE.dt_total
  | .literal _, _ => good_literal
  | .custom _, _ => good_custom hE.custom_good
  | .union cs, h => good_union (C03.goods hG hE cs (by simpa only [Conv.wf] using h))
  | .tuple cs, h => good_tuple (C03.goods hG hE cs (by simpa only [Conv.wf] using h))
  | .tagged cs _ tagMap _, h => by
    simp only [Conv.wf, Bool.and_eq_true] at h
    exact good_tagged (C03.goods hG hE cs h.1) h.2 (gKey hG (by decide)) (gKey hG (by decide))
      (gKey hG (by decide)) (gType hG (by decide)) (gKey hG (by decide)) (gType hG (by decide))
  | .struct names cs, h => by
    simp only [Conv.wf, Bool.and_eq_true, beq_iff_eq] at h
    exact good_struct (C03.goods hG hE cs h.1) h.2
  | .dict _ k vc, h => by
    simp only [Conv.wf, Bool.and_eq_true] at h
    exact good_dict (C03.good hG hE k h.1) (C03.good hG hE vc h.2) (gAll hG (by decide)) (gAll hG (by decide))
  | .seq _ vc, h =>
    good_seq (C03.good hG hE vc (by simpa only [Conv.wf] using h)) (gAll hG (by decide)) (gAll hG (by decide))
  | .vol vc, h =>
    good_vol (C03.good hG hE vc (by simpa only [Conv.wf] using h)) (gAll hG (by decide)) (gAll hG (by decide))
  | .cond inner _ _, h =>
    good_cond (C03.good hG hE inner (by simpa only [Conv.wf] using h)) (gAll hG (by decide)) (gAll hG (by decide))
  | .enum _ _ inner, h =>
    good_enum (C03.good hG hE inner (by simpa only [Conv.wf] using h))
      (gKey hG (by decide)) (gType hG (by decide)) (gKey hG (by decide)) (gType hG (by decide))
  | .delegate _ inner, h =>
    good_delegate (C03.good hG hE inner (by simpa only [Conv.wf] using h)) (gAll hG (by decide)) (gAll hG (by decide))
  | .pattern _ inner, h =>
    good_pattern (C03.good hG hE inner (by simpa only [Conv.wf] using h)) (gAll hG (by decide)) (gAll hG (by decide))
  | .nested vc, h =>
    good_nested (C03.good hG hE vc (by simpa only [Conv.wf] using h))
      (gVal hG (by decide)) (gVal hG (by decide)) hE.numpy_total
  | .pane info cs, h => by
    simp only [Conv.wf, Bool.and_eq_true, beq_iff_eq] at h
    exact good_pane (C03.goods hG hE cs h.1.1) h.1.2 h.2 (gParts hG).2.2.2.2.2 (gParts hG).2.2.2.2.1
      (gAll hG (by decide)) (gAll hG (by decide)) (gAll hG (by decide)) (gAll hG (by decide))
theorem C03.goods (hG : GuardsCover = true) (hE : ExtOk E) :
    (cs : List Conv) → wfList cs = true → GoodFs (tryCs E cs) (colCs E cs)
  | [], _ => by simp only [tryCs, colCs]; exact .nil
  | c :: cs, h => by
    simp only [wfList, Bool.and_eq_true] at h
    simp only [tryCs, colCs]
    exact .cons (C03.good hG hE c h.1) (C03.goods hG hE cs h.2)
end

end Induction

/-! ## The property theorems -/

variable {E : Ext}

/-- **C03.** For every well-formed converter and every input, the two passes agree: either the fast
pass returns a value and the diagnostic pass finds nothing, or the fast pass raises `ParseInterrupt`
and the diagnostic pass produces an error tree.  In particular neither pass leaks an exception. -/
theorem C03_agree (hG : GuardsCover = true) (hE : ExtOk E) (c : Conv) (hwf : c.wf = true) (v : Val) :
    (∃ x, tryC E c v = .ok x ∧ colC E c v = .ok none) ∨
    (tryC E c v = .interrupt ∧ ∃ t, colC E c v = .ok (some t)) :=
  C03.good hG hE c hwf v

/-- the fast pass fails exactly when the diagnostic pass has something to report -/
theorem C03_failed_iff_tree (hG : GuardsCover = true) (hE : ExtOk E) (c : Conv) (hwf : c.wf = true) (v : Val) :
    tryC E c v = .interrupt ↔ ∃ t, colC E c v = .ok (some t) := by
  rcases C03_agree hG hE c hwf v with ⟨x, h1, h2⟩ | ⟨h1, t, h2⟩
  · rw [h1, h2]
    exact ⟨fun h => (nomatch h), fun ⟨_, h⟩ => (nomatch h)⟩
  · exact ⟨fun _ => ⟨t, h2⟩, fun _ => h1⟩

/-- an accepted value never has an error tree -/
theorem C03_accepted_no_tree (hG : GuardsCover = true) (hE : ExtOk E) (c : Conv) (hwf : c.wf = true)
    (v x : Val) (h : tryC E c v = .ok x) : colC E c v = .ok none := by
  rcases C03_agree hG hE c hwf v with ⟨_, _, h2⟩ | ⟨h1, _, _⟩
  · exact h2
  · rw [h1] at h; nomatch h

/-- **C04 (core).** `convert()` of an already-built converter either returns a value or raises
`ConvertError`; no other exception escapes, whatever user code does. -/
theorem C04_no_leak (hG : GuardsCover = true) (hE : ExtOk E) (c : Conv) (hwf : c.wf = true) (v : Val) :
    (∃ r, convertC E c v = .value r) ∨ (∃ t, convertC E c v = .convertError t) := by
  rcases convertWith_good (C03.good hG hE c hwf) v with ⟨x, _, h⟩ | ⟨_, t, h⟩
  · exact .inl ⟨x, h⟩
  · exact .inr ⟨t, h⟩

/-- the "bug of the Converter implementation" `RuntimeError` of `Converter.convert` is unreachable -/
theorem C03_no_runtime_bug (hG : GuardsCover = true) (hE : ExtOk E) (c : Conv) (hwf : c.wf = true)
    (v : Val) (msg : String) : convertC E c v ≠ .raises { cls := .runtimeBug, msg := msg } := by
  rcases C04_no_leak hG hE c hwf v with ⟨r, h⟩ | ⟨t, h⟩ <;> rw [h] <;> exact fun h' => nomatch h'

/-- `convert()` returns a value exactly when the fast pass does, and then it is that value -/
theorem C03_convert_value_iff (hG : GuardsCover = true) (hE : ExtOk E) (c : Conv) (hwf : c.wf = true)
    (v x : Val) : convertC E c v = .value x ↔ tryC E c v = .ok x := by
  rcases convertWith_good (C03.good hG hE c hwf) v with ⟨y, h1, h2⟩ | ⟨h1, t, h2⟩
  · unfold convertC; rw [h1, h2]
    exact ⟨fun h => by cases h; rfl, fun h => by cases h; rfl⟩
  · unfold convertC; rw [h1, h2]
    exact ⟨fun h => (nomatch h), fun h => (nomatch h)⟩

/-! ## Non-vacuity -/

/-- An `Ext` in which every user callback and every external except `numpy.array` and the three
date/time methods of `DtTotal` raises. -/
def extRaising : Ext where
  call := fun name v =>
    if name == "numpy.array" then .ok (.wrap "ndarray" v)
    else if name == "dt:date" then .ok (.opaque "date" "1970-01-01")
    else if name == "dt:time" then .ok (.opaque "time" "00:00:00")
    else if name == "dt:combine" then .ok (.opaque "datetime" "1970-01-01T00:00:00")
    else .error { cls := .valueError, msg := "ValueError" }
  cond := fun _ _ _ => .error { cls := .zeroDivision, msg := "ZeroDivisionError" }
  hook := fun _ _ _ => .error { cls := .attributeError, msg := "AttributeError" }
  factory := fun _ => .none
  pyStr := fun _ => "?"
  customTry := fun _ _ => .interrupt
  customCol := fun _ v => .ok (some (.wrongType "custom" v none none))
  customInto := fun _ v => .ok v
  customExp := fun _ _ => "custom"

/-- the assumptions on externals are satisfiable -/
theorem extRaising_ok : ExtOk extRaising where
  fromiso_valueError := by
    intro ty v e h
    simp only [extRaising] at h
    repeat' split at h
    all_goals first | (cases h; done) | (cases h; rfl)
  numpy_total := fun r _ _ => ⟨.wrap "ndarray" r, by simp [extRaising]⟩
  custom_good := fun _ v => .inr ⟨rfl, _, rfl⟩
  dt_total := ⟨fun _ _ => ⟨_, rfl⟩, fun _ _ => ⟨_, rfl⟩, fun _ _ => ⟨_, rfl⟩⟩

def exInt : Conv := .scalar "int" [.int] .ident "an int" "ints"

def exPoint : PaneInfo where
  name := "Point"
  fields := [{ name := "x", inNames := ["x"], outName := "x" },
             { name := "y", inNames := ["y"], outName := "y", default := .value (.int 0) }]
  inFormat := ["struct", "tuple"]
  outFormat := "struct"
  minPos := 1
  maxPos := 2

/-- `list[int] | Point` where `@dataclass class Point: x: int; y: int = 0` -/
def exConv : Conv := .union [.seq "list" exInt, .pane exPoint [exInt, exInt]]

example : exConv.wf = true := by decide

/-- accepted by the first variant -/
example : tryC extRaising exConv (.list [.int 1, .int 2]) = .ok (.list [.int 1, .int 2]) := by rfl
example : colC extRaising exConv (.list [.int 1, .int 2]) = .ok none := by rfl

/-- accepted by the second variant, the default of `y` filled in -/
example : tryC extRaising exConv (.dict [(.str "x", .int 3)]) =
    .ok (.obj "Point" [("x", .int 3), ("y", .int 0)] ["x"]) := by rfl

/-- rejected by both variants: the fast pass interrupts, the diagnostic pass has a sum node -/
example : tryC extRaising exConv (.dict [(.str "x", .str "no")]) = .interrupt := by rfl
example : ∃ t, colC extRaising exConv (.dict [(.str "x", .str "no")]) = .ok (some t) :=
  (C03_failed_iff_tree C03_guards extRaising_ok exConv (by decide) _).1 (by rfl)

/-- Why `Conv.wf` asks for pairwise distinct field names.  In the *model* (never in Python, where
`dataclasses.fields` is keyed by name) two fields called `a`, the first with a default and the second
without, make the passes disagree on `{}`: `fillDefaults` is satisfied by the first, the `missing`
list of the diagnostic pass still reports the second. -/
def exDupInfo : PaneInfo where
  name := "Dup"
  fields := [{ name := "a", inNames := ["a"], outName := "a", default := .value (.int 0) },
             { name := "a", inNames := ["a"], outName := "a" }]
  inFormat := ["struct"]
  outFormat := "struct"
  minPos := 1
  maxPos := 2

example : (Conv.pane exDupInfo [exInt, exInt]).wf = false := by decide
example : (tryC extRaising (.pane exDupInfo [exInt, exInt]) (.dict [])).isOk = true := by rfl
example : ∃ t, colC extRaising (.pane exDupInfo [exInt, exInt]) (.dict []) = .ok (some t) := ⟨_, rfl⟩

/-! ### `DatetimeConverter`: the typed cells

`id` cells (an instance of a user subclass is returned unchanged), the three cross cells (method calls
through `Ext`), the refused cells. -/

example : tryC extRaising (.datetime "date") (.opaque "date" "2024-01-02") = .ok (.opaque "date" "2024-01-02") := by rfl
example : tryC extRaising (.datetime "datetime") (.sub "MyDT" (.opaque "datetime" "2024-01-02T03:04:05")) =
    .ok (.sub "MyDT" (.opaque "datetime" "2024-01-02T03:04:05")) := by rfl
example : tryC extRaising (.datetime "date") (.opaque "datetime" "2024-01-02T03:04:05") =
    .ok (.opaque "date" "1970-01-01") := by rfl
example : tryC extRaising (.datetime "time") (.sub "MyDT" (.opaque "datetime" "2024-01-02T03:04:05")) =
    .ok (.opaque "time" "00:00:00") := by rfl
example : tryC extRaising (.datetime "datetime") (.opaque "date" "2024-01-02") =
    .ok (.opaque "datetime" "1970-01-01T00:00:00") := by rfl
example : colC extRaising (.datetime "datetime") (.opaque "date" "2024-01-02") = .ok none := by rfl
example : tryC extRaising (.datetime "date") (.opaque "time" "03:04:05") = .interrupt := by rfl
example : tryC extRaising (.datetime "time") (.opaque "date" "2024-01-02") = .interrupt := by rfl
example : tryC extRaising (.datetime "datetime") (.opaque "time" "03:04:05") = .interrupt := by rfl
example : tryC extRaising (.datetime "date") (.opaque "Decimal" "1") = .interrupt := by rfl
example : ∃ t, colC extRaising (.datetime "time") (.opaque "date" "2024-01-02") = .ok (some t) :=
  (C03_failed_iff_tree C03_guards extRaising_ok (.datetime "time") (by decide) _).1 (by rfl)

/-- Why `ExtOk.dt_total` is there.  The fast pass calls `val.date()` unguarded, the diagnostic pass does
not call it at all: with an `Ext` in which that method raises, the fast pass leaks the exception while
the diagnostic pass reports nothing — the two-pass contract fails without the hypothesis. -/
def extDtRaises : Ext :=
  { extRaising with call := fun _ _ => .error { cls := .other, msg := "OverflowError: date value out of range" } }

example : tryC extDtRaises (.datetime "date") (.opaque "datetime" "2024-01-02T03:04:05") =
    .leak { cls := .other, msg := "OverflowError: date value out of range" } := by rfl
example : colC extDtRaises (.datetime "date") (.opaque "datetime" "2024-01-02T03:04:05") = .ok none := by rfl
example : ¬ DtTotal extDtRaises := fun h => by
  obtain ⟨x, hx⟩ := h.date_of_datetime (.opaque "datetime" "") rfl
  cases hx

/-! ## Axioms -/

#print axioms C03_guards
#print axioms C03_agree
#print axioms C03_failed_iff_tree
#print axioms C03_accepted_no_tree
#print axioms C03_no_runtime_bug
#print axioms C03_convert_value_iff
#print axioms C04_no_leak
#print axioms extRaising_ok

end PaneModel
