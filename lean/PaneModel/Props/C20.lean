import PaneModel.Lemmas.RenameProofs
import PaneModel.Generated.Facts
/-!
# C20 — Field renaming yields canonical, reversible names

Full statement (properties.jsonl): for field names in Python's snake_case convention (lowercase
alphabetic words of at least two letters joined by single underscores) every rename style yields its
canonical spelling (snake a_b, scream A_B, kebab a-b, camel aB, pascal AB with capitalised words),
distinct names stay distinct, re-applying a style to its own output changes nothing, and converting
any styled form back to snake recovers the original.  Names that cannot be split into words
(leading, trailing or doubled separators) are refused with ValueError rather than mangled.

The unbounded theorems (`C20_split_snake`, `C20_canonical`, `C20_split_styled`, `C20_reversible`,
`C20_idempotent`, `C20_pairs`, `C20_injective`, `C20_refusal`, `C20_two_letters_needed`) are proved
in `Lemmas/RenameProofs.lean` about the model `Model/Rename.lean` over abstract letters.  This file
ties that model to the CURRENT source: the extracted `_CONVERT_FNS` table, separator / case regexes
and whole-part tests must be the ones the model implements.  PARTIAL: ASCII letters only (cased
non-ASCII characters are `Ch.other` in the model).
-/
namespace PaneModel.Rename

/-- the joiner described by an extracted `_CONVERT_FNS` row: (separator, op on first part, op on the rest) -/
def caseOp : String → Option (List Ch → List Ch)
  | "lower" => some lowerAll
  | "upper" => some upperAll
  | "title" => some title
  | _ => none

def sepOf : String → Option (List Ch)
  | "_" => some [Ch.us]
  | "-" => some [Ch.dash]
  | "" => some []
  | _ => none

def joinerOfRow (row : String × String × String) (ps : List (List Ch)) : Option (List Ch) :=
  match sepOf row.1, caseOp row.2.1, caseOp row.2.2 with
  | some sep, some f, some g =>
    match ps with
    | [] => some []
    | p :: rest => some (List.intercalate sep (f p :: rest.map g))
  | _, _, _ => none

def styleName : Style → String
  | .snake => "snake" | .scream => "scream" | .kebab => "kebab" | .camel => "camel" | .pascal => "pascal"

/-- The extracted table, cell by cell (a changed lambda in `_CONVERT_FNS` changes this). -/
theorem C20_facts_table : Facts.joiners =
    [("snake", "_", "lower", "lower"), ("scream", "_", "upper", "upper"), ("kebab", "-", "lower", "lower"),
     ("camel", "", "lower", "title"), ("pascal", "", "title", "title")] := by decide

theorem intercalate_nil_eq_flatten (xs : List (List Ch)) : List.intercalate [] xs = xs.flatten := by
  induction xs with
  | nil => rfl
  | cons x xs ih =>
    cases xs with
    | nil => simp [List.intercalate]
    | cons y ys => simp [List.intercalate] at ih ⊢; simpa [List.intersperse] using ih

/-- The model's `joiner` IS the function the extracted table describes, for every style and every
list of parts (unbounded). -/
theorem C20_model_is_source (s : Style) (ps : List (List Ch)) :
    (Facts.joiners.lookup (styleName s)).bind (fun row => joinerOfRow row ps) = some (joiner s ps) := by
  rw [C20_facts_table]
  cases s <;> cases ps <;>
    simp [styleName, List.lookup, joinerOfRow, sepOf, caseOp, joiner, camelJoin, intercalate_nil_eq_flatten]

/-- separator class, capital-letter split, whole-part tests and the refusal test, as in the source -/
theorem C20_facts_split :
    Facts.splitSepRegex = some "[_-]" ∧ Facts.splitCaseRegex = some "([A-Z])" ∧
    Facts.wholePartTests = some ["field.islower()", "field.istitle()", "field.isupper()"] ∧
    Facts.splitRefusesEmpty = some true := by decide

#print axioms C20_facts_table
#print axioms C20_model_is_source
#print axioms C20_facts_split
#print axioms C20_split_snake
#print axioms C20_canonical
#print axioms C20_split_styled
#print axioms C20_reversible
#print axioms C20_idempotent
#print axioms C20_pairs
#print axioms C20_injective
#print axioms C20_refusal
#print axioms C20_two_letters_needed

end PaneModel.Rename
