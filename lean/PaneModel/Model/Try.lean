import PaneModel.Model.Expect
import PaneModel.Generated.Facts
/-!
# The fast pass: `Converter.try_convert`, transliterated per converter class.
`tryC E c : Val → Outcome Val` is a structural recursion on the converter tree; list-shaped
sub-converters are compiled to lists of closures (`tryCs`) and combined with the combinators of
`Basic.lean`.
-/
namespace PaneModel

open Val in
/-- `self.ty(val)` of a `ScalarConverter` for the built-in scalar types; other types are externals. -/
def builtinCtor (E : Ext) (ty : String) (v : Val) : Except Exc Val :=
  let v := match v with | .sub _ b => b | v => v   -- `int(MyInt(3))` is `3`
  match ty, v with
  | "bool", .bool b => .ok (.bool b)
  | "int", .bool b => .ok (.int (if b then 1 else 0))
  | "int", .int i => .ok (.int i)
  | "float", .bool b => .ok (.float (.fin (if b then 1 else 0) 0))
  | "float", .int i => if i.natAbs < 9007199254740992 then .ok (.float (.fin i 0)) else E.call "float" v
  | "float", .float f => .ok (.float f)
  | "complex", .bool b => .ok (.complex (.fin (if b then 1 else 0) 0) (.fin 0 0))
  | "complex", .int i => if i.natAbs < 9007199254740992 then .ok (.complex (.fin i 0) (.fin 0 0)) else E.call "complex" v
  | "complex", .float f => .ok (.complex f (.fin 0 0))
  | "complex", .complex r i => .ok (.complex r i)
  | "str", .str s => .ok (.str s)
  | "bytes", .bytes s => .ok (.bytes s)
  | "bytes", .bytearray s => .ok (.bytes s)
  | "bytearray", .bytes s => .ok (.bytearray s)
  | "bytearray", .bytearray s => .ok (.bytearray s)
  | _, _ => E.call ty v

/-- `d[k]` on a Python dict keyed by hashable values: `TypeError` for an unhashable key,
`KeyError` for an absent one. -/
def pyLookup (k : Val) (d : List (Val × α)) : Except Exc α :=
  if !k.hashable then .error { cls := .typeError, msg := "TypeError: unhashable type: '" ++ k.typeName ++ "'" }
  else match Val.lookupPy k d with
    | some a => .ok a
    | none => .error { cls := .keyError, msg := "KeyError" }

/-- `dict(pairs)`: fails with `TypeError` on the first unhashable key. -/
def buildDict (kvs : List (Val × Val)) : Except Exc (List (Val × Val)) :=
  match kvs.find? (fun p => !p.1.hashable) with
  | some p => .error { cls := .typeError, msg := "TypeError: unhashable type: '" ++ p.1.typeName ++ "'" }
  | none => .ok (Val.dictOfPairs kvs)

/-- The constructor a `SequenceConverter` calls on the converted items. -/
def seqCtor (kind : String) (xs : List Val) : Except Exc Val :=
  match kind with
  | "list" => .ok (.list xs)
  | "tuple" => .ok (.tuple xs)
  | "deque" => .ok (.deque xs)
  | "set" | "frozenset" =>
    match xs.find? (fun x => !x.hashable) with
    | some x => .error { cls := .typeError, msg := "TypeError: unhashable type: '" ++ x.typeName ++ "'" }
    | none => .ok (if kind == "set" then .set (Val.dedupPy xs) else .frozenset (Val.dedupPy xs))
  | _ => .error { cls := .other, msg := "unknown sequence constructor " ++ kind }

/-- The constructor a `DictConverter` calls on the built dict. -/
def dictCtor (kind : String) (d : List (Val × Val)) : Val :=
  if kind == "dict" then .dict d else .mapOf kind d

/-- Remove the first entry whose key equals `k` (`dict.pop` on a copy). -/
def dictErase (k : Val) : List (Val × Val) → List (Val × Val)
  | [] => []
  | (k', v) :: rest => if Val.pyEq k k' then rest else (k', v) :: dictErase k rest

/-- Tag extraction of a tagged union: `(tag, body)` or the `KeyError`/shape failure. `none` =
wrong number of items (externally / adjacently tagged). -/
def extractTag (layout : Layout) (tag : String) (v : Val) : Option (Except Exc (Val × Val)) :=
  let items := v.mapItems
  match layout with
  | .internal =>
    match Val.lookupPy (.str tag) items with
    | some t => some (.ok (t, .dict (dictErase (.str tag) items)))
    | none => some (.error { cls := .keyError, msg := "KeyError: '" ++ tag ++ "'" })
  | .external =>
    match items with
    | [(t, body)] => some (.ok (t, body))
    | _ => none
  | .adjacent tk ck =>
    if items.length != 2 then none
    else match Val.lookupPy (.str tk) items, Val.lookupPy (.str ck) items with
      | some t, some body => some (.ok (t, body))
      | _, _ => some (.error { cls := .keyError, msg := "KeyError" })

def applyAt (fs : List (Val → Outcome β)) (i : Nat) (v : Val) : Outcome β :=
  match fs[i]? with
  | some f => f v
  | none => .leak { cls := .runtimeBug, msg := "IndexError" }

/-! ## Conditions -/

def CmpOp.sym : CmpOp → String
  | .gt => ">" | .ge => ">=" | .lt => "<" | .le => "<=" | .eq => "==" | .ne => "!="

/-- Python ordering comparison `a <op> b` between two real numbers (bool/int/float); anything else
raises `TypeError` with CPython's message. -/
def numCmp (op : CmpOp) (a b : Val) : Except Exc (Option Ordering) :=
  let err : Exc := { cls := .typeError, msg := "TypeError: '" ++ op.sym ++ "' not supported between instances of '"
    ++ a.tpName ++ "' and '" ++ b.tpName ++ "'" }
  match a.numParts, b.numParts, a, b with
  | _, _, .complex _ _, _ => .error err
  | _, _, _, .complex _ _ => .error err
  | _, _, .sub _ (.complex _ _), _ => .error err
  | some (x, _), some (y, _), _, _ => .ok (Flt.cmp x y)
  | _, _, _, _ => .error err

def CmpOp.holds : CmpOp → Option Ordering → Bool
  | .gt, some .gt => true
  | .ge, some .gt => true
  | .ge, some .eq => true
  | .lt, some .lt => true
  | .le, some .lt => true
  | .le, some .eq => true
  | .eq, some .eq => true
  | .ne, some .eq => false
  | .ne, _ => true
  | _, _ => false

/-- `len(v)`; scalars without a length raise `TypeError`. -/
def pyLen : Val → Except Exc Nat
  | .str s | .bytes s | .bytearray s => .ok s.length
  | .sub _ (.str s) | .sub _ (.bytes s) | .sub _ (.bytearray s) => .ok s.length
  | .list xs | .tuple xs | .set xs | .frozenset xs | .deque xs => .ok xs.length
  | .dict kvs | .mapOf _ kvs => .ok kvs.length
  | v => .error { cls := .typeError, msg := "TypeError: object of type '" ++ v.tpName ++ "' has no len()" }

/-- `v <op> bound`: exact for bool/int/float; `Decimal`/`Fraction` operands defer to the real
arithmetic through `Ext` (their comparison is the stdlib's, not pane's). -/
def valCmp (E : Ext) (op : CmpOp) (v b : Val) : Except Exc Bool :=
  match v with
  | .opaque "Decimal" _ | .opaque "Fraction" _ =>
    match E.call ("cmp:" ++ op.sym ++ ":" ++ pyRepr E b) v with
    | .ok (.bool r) => .ok r
    | .ok _ => .error { cls := .other, msg := "bad cmp table" }
    | .error e => .error e
  | _ => (numCmp op v b).map op.holds

/-- `math.isfinite(v)` -/
def isFiniteV (E : Ext) (v : Val) : Except Exc Bool :=
  match v with
  | .bool _ | .int _ => .ok true
  | .float f => .ok f.isFinite
  | .sub _ (.bool _) | .sub _ (.int _) => .ok true
  | .sub _ (.float f) => .ok f.isFinite
  | .opaque "Decimal" _ | .opaque "Fraction" _ =>
    match E.call "isfinite" v with
    | .ok (.bool r) => .ok r
    | .ok _ => .error { cls := .other, msg := "bad isfinite table" }
    | .error e => .error e
  | v => .error { cls := .typeError, msg := "TypeError: must be real number, not " ++ v.tpName }

def evalSem (E : Ext) (stock : String → Option CondSem) : CondSem → Val → Except Exc Bool
  | .user id arg, v => E.cond id arg v
  | .valCmp op b, v => valCmp E op v b
  | .lenCmp op b, v => (pyLen v).map fun n => op.holds (some (compare n b))
  | .finite, v => isFiniteV E v
  | .stock n, v =>
    match stock n with
    | some (.user id arg) => E.cond id arg v
    | some (.valCmp op b) => valCmp E op v b
    | some (.lenCmp op b) => (pyLen v).map fun n => op.holds (some (compare n b))
    | some .finite => isFiniteV E v
    | _ => .error { cls := .other, msg := "unknown stock condition " ++ n }

mutual
/-- Three-valued evaluation with Python's short-circuit order (`all(c.f(v) for c in cs)`). -/
def evalCond (E : Ext) (stock : String → Option CondSem) : CondExpr → Val → Except Exc Bool
  | .leaf sem _, v => evalSem E stock sem v
  | .all cs, v => evalAll E stock cs v
  | .any cs, v => evalAny E stock cs v
  | .not c, v => (evalCond E stock c v).map (!·)
def evalAll (E : Ext) (stock : String → Option CondSem) : List CondExpr → Val → Except Exc Bool
  | [], _ => .ok true
  | c :: cs, v =>
    match evalCond E stock c v with
    | .ok true => evalAll E stock cs v
    | .ok false => .ok false
    | .error e => .error e
def evalAny (E : Ext) (stock : String → Option CondSem) : List CondExpr → Val → Except Exc Bool
  | [], _ => .ok false
  | c :: cs, v =>
    match evalCond E stock c v with
    | .ok true => .ok true
    | .ok false => evalAny E stock cs v
    | .error e => .error e
end

/-! ## Dataclass helpers (on closures, outside the recursion) -/

/-- `field_map[k]`: index of the LAST init field having `k` as Python name or input name. -/
def fieldIndex (fields : List FieldInfo) (k : Val) : Option Nat :=
  match k with
  | .str s =>
    let idxs := (fields.zipIdx).filterMap fun (f, i) =>
      if f.init && (f.name == s || f.inNames.contains s) then some i else none
    idxs.getLast?
  | _ => none

def assocHas (name : String) (vals : List (String × Val)) : Bool := vals.any (·.1 == name)

/-- The default of an unsupplied field: its value, a product of its factory, or — if the source does
not call the factory (`called = false`) — the factory object itself. -/
def fieldDefault (E : Ext) (called : Bool) (f : FieldInfo) : Option Val :=
  match f.default with
  | .missing => none
  | .value v => some v
  | .factory id => some (if called then E.factory id else .wrap "factory" (.str id))

/-- Fill unsupplied init fields; `none` = a required field is missing. -/
def fillDefaults (E : Ext) (called : Bool) : List FieldInfo → List (String × Val) → Option (List (String × Val))
  | [], vals => some vals
  | f :: fs, vals =>
    if !f.init || assocHas f.name vals then fillDefaults E called fs vals
    else match fieldDefault E called f with
      | some d => fillDefaults E called fs (vals ++ [(f.name, d)])
      | none => none

/-- The set-record in canonical (field) order: the names of the fields that occur in `set`. -/
def canonSet (info : PaneInfo) (set : List String) : List String :=
  (info.fields.filter fun f => set.contains f.name).map (·.name)

/-- Canonical instance: attribute values in field order, set-record in field order. -/
def mkObj (info : PaneInfo) (vals : List (String × Val)) (set : List String) : Val :=
  .obj info.name
    (info.fields.filterMap fun f => (vals.find? (·.1 == f.name)).map fun p => (f.name, p.2))
    (canonSet info set)

/-- Run `__post_init__` (if any) on freshly stored attributes; the hook also sees the record of set
fields, already exact (the same `set` the caller hands to `mkObj` afterwards). -/
def runHook (E : Ext) (info : PaneInfo) (vals : List (String × Val)) (set : List String) :
    Except Exc (List (String × Val)) :=
  match info.hook with
  | none => .ok vals
  | some h => E.hook h vals (canonSet info set)

def structLoop (info : PaneInfo) (fs : List (Val → Outcome Val)) :
    List (Val × Val) → List (String × Val) → Outcome (List (String × Val))
  | [], acc => .ok acc
  | (k, v) :: rest, acc =>
    match fieldIndex info.fields k with
    | none => if info.allowExtra then structLoop info fs rest acc else .interrupt
    | some i =>
      match info.fields[i]? with
      | none => .leak { cls := .runtimeBug, msg := "IndexError" }
      | some f =>
        if assocHas f.name acc then .interrupt
        else match applyAt fs i v with
          | .ok x => structLoop info fs rest (acc ++ [(f.name, x)])
          | .interrupt => .interrupt
          | .leak e => .leak e

def paneTryStruct (E : Ext) (info : PaneInfo) (fs : List (Val → Outcome Val)) (v : Val) : Outcome Val :=
  match structLoop info fs v.mapItems [] with
  | .ok vals =>
    let set := vals.map (·.1)
    match fillDefaults E (Facts.structDefaultCalled == some true) info.fields vals with
    | none => .interrupt
    | some all =>
      match guardTry (Facts.catches .paneStructHookTry) (runHook E info all set) with
      | .ok final => .ok (mkObj info final set)
      | .interrupt => .interrupt
      | .leak e => .leak e
  | .interrupt => .interrupt
  | .leak e => .leak e

/-- the positional (non-keyword-only) init fields, with their index in `fields`. -/
def posFields (info : PaneInfo) : List (FieldInfo × Nat) :=
  info.fields.zipIdx.filter fun (f, _) => f.init && !f.kwOnly

/-- `make_unchecked(*vals)`: bind positionally, defaults for the rest, set-record = supplied. -/
def makeUncheckedPos (E : Ext) (info : PaneInfo) (vals : List Val) : Except Exc Val :=
  let supplied := ((posFields info).zip vals).map fun ((f, _), x) => (f.name, x)
  match fillDefaults E true info.fields supplied with
  | none => .error { cls := .typeError, msg := "TypeError: missing a required argument" }
  | some all =>
    match runHook E info all (supplied.map (·.1)) with
    | .ok final => .ok (mkObj info final (supplied.map (·.1)))
    | .error e => .error e

def paneTryTuple (E : Ext) (info : PaneInfo) (fs : List (Val → Outcome Val)) (v : Val) : Outcome Val :=
  let xs := v.seqItems
  if !(info.minPos ≤ xs.length && xs.length ≤ info.maxPos) then .interrupt
  else
    let pfs := (posFields info).map fun (_, i) => fun x => applyAt fs i x
    match zipMO pfs xs with
    | .ok vals => guardTry (Facts.catches .paneTupleHookTry) (makeUncheckedPos E info vals)
    | .interrupt => .interrupt
    | .leak e => .leak e

/-- Which values are routed to the positional layout (the `if` test of `PaneConverter.try_convert`):
`dataIsSequence` excludes str/bytes/bytearray, `bareSequence` (the old `isinstance(val, (list, tuple,
Sequence))`) does not. -/
def paneSeqGate (gate : Option String) (v : Val) : Bool :=
  match gate with
  | some "data_is_sequence" => v.isSeq
  | some "bare_sequence" =>
    v.isSeq || (match v with | .str _ | .bytes _ | .bytearray _ => true | _ => false)
  | _ => false

/-- characters of a str / bytes value as a sequence (what a bare `Sequence` test would iterate) -/
def strItems : Val → List Val
  | .str s => s.toList.map fun c => .str (String.singleton c)
  | .bytes s | .bytearray s => s.toList.map fun c => .int c.toNat
  | v => v.seqItems

/-! ## Nested sequences (n-d arrays) -/

mutual
def nestedTry (f : Val → Outcome Val) : Val → Outcome Val
  | .list xs => (nestedTryList f xs).bind fun ys => .ok (.list ys)
  | .tuple xs => (nestedTryList f xs).bind fun ys => .ok (.list ys)
  | .deque xs => (nestedTryList f xs).bind fun ys => .ok (.list ys)
  | v => f v
def nestedTryList (f : Val → Outcome Val) : List Val → Outcome (List Val)
  | [] => .ok []
  | x :: xs => (nestedTry f x).bind fun y => (nestedTryList f xs).bind fun ys => .ok (y :: ys)
end

mutual
/-- `_check_shape`: `none` = ragged (`ValueError`). -/
def shapeOf : Val → Option (List Nat)
  | .list xs => shapeOfList xs
  | .tuple xs => shapeOfList xs
  | .deque xs => shapeOfList xs
  | _ => some []
def shapeOfList : List Val → Option (List Nat)
  | [] => some [0]
  | [x] => (shapeOf x).map fun s => 1 :: s
  | x :: y :: rest =>
    match shapeOf x, shapeOfList (y :: rest) with
    | some s, some (n :: s') => if s == s' then some ((n + 1) :: s) else none
    | _, _ => none
end

/-! ## Date / time conversions (`DatetimeConverter`) -/

/-- one cell of the conversion table of `DatetimeConverter.try_convert` for typed input -/
inductive DtCell
  | same                    -- the value itself (`id` cells)
  | call (name : String)    -- a method call: `val.date()`, `val.time()`, `datetime.combine(val, time())`
  | refuse                  -- `ParseInterrupt`
  deriving DecidableEq, Repr, Inhabited

/-- the table: target class `ty`, class `k` of the value (`Val.dtKind`: a `datetime` is tested first)

```
                 input:   date        datetime    time
  output:  date           id          .date()     error
       datetime           combine     id          error
           time           error       .time()     id
``` -/
def dtCell (ty k : String) : DtCell :=
  if k == "datetime" then
    if ty == "datetime" then .same
    else if ty == "date" then .call "dt:date"
    else if ty == "time" then .call "dt:time"
    else .refuse
  else if k == "time" then (if ty == "time" then .same else .refuse)
  else if k == "date" then
    if ty == "date" then .same
    else if ty == "datetime" then .call "dt:combine"
    else .refuse
  else .refuse

/-- `DatetimeConverter.try_convert` on a value that is not a `str`: the `isinstance` chain.  The three
method calls are externals; the source does not guard them, so an exception of theirs leaks. -/
def dtTryTyped (E : Ext) (ty : String) (v : Val) : Outcome Val :=
  match v.dtKind with
  | some k =>
    match dtCell ty k with
    | .same => .ok v
    | .call name =>
      match E.call name v with
      | .ok x => .ok x
      | .error e => .leak e
    | .refuse => .interrupt
  | none => .interrupt

/-- `DatetimeConverter.collect_errors` on a value that is not a `str`: the same `isinstance` chain, but
the diagnostic pass calls nothing -/
def dtAccepts (ty : String) (v : Val) : Bool :=
  match v.dtKind with
  | some k => dtCell ty k != .refuse
  | none => false

/-- the three method calls of the cross cells succeed on values of the class they are methods of
(`datetime.date()`, `datetime.time()` on a `datetime`; `datetime.combine(d, time())` on a `date`) -/
structure DtTotal (E : Ext) : Prop where
  date_of_datetime : ∀ v, v.dtKind = some "datetime" → ∃ x, E.call "dt:date" v = .ok x
  time_of_datetime : ∀ v, v.dtKind = some "datetime" → ∃ x, E.call "dt:time" v = .ok x
  combine_of_date : ∀ v, v.dtKind = some "date" → ∃ x, E.call "dt:combine" v = .ok x

/-! ## The pass -/

/-- `SequenceConverter.try_convert`, given the element pass `f` (shared by `.seq kind c` and by the list
member of `.vol c`) -/
def seqTryWith (f : Val → Outcome Val) (kind : String) (v : Val) : Outcome Val :=
  if !v.isSeq then .interrupt
  else swallow (Facts.catches .seqTry)
    ((mapMO f v.seqItems).bind fun xs =>
      match seqCtor kind xs with
      | .ok r => .ok r
      | .error e => .leak e)

mutual
def tryC (E : Ext) : Conv → Val → Outcome Val
  | .any, v => .ok v
  | .noneC, v => match v with | .none => .ok v | _ => .interrupt
  | .scalar ty allowed _ _ _, v =>
    if allowed.any (·.admits v) then guardTry (Facts.catches .scalarTry) (builtinCtor E ty v)
    else .interrupt
  | .datetime ty, v =>
    match v with
    | .str _ => guardTry (Facts.catches .datetimeTry) (E.call ("fromiso:" ++ ty) v)
    | _ => dtTryTyped E ty v
  | .literal vals, v => if vals.any (Val.pyEq v) then .ok v else .interrupt
  | .union cs, v => firstOk (tryCs E cs) v
  | .tagged cs _tag tagMap layout, v =>
    if !v.isMap then .interrupt
    else match extractTag layout _tag v with
      | none => .interrupt
      | some r =>
        match guardTry (Facts.catches .taggedPopTry) r with
        | .ok (t, body) =>
          match guardTry (Facts.catches .taggedLookupTry) (pyLookup t tagMap) with
          | .ok i => applyAt (tryCs E cs) i body
          | .interrupt => .interrupt
          | .leak e => .leak e
        | .interrupt => .interrupt
        | .leak e => .leak e
  | .struct names cs, v =>
    if !v.isMap then .interrupt
    else
      let fs := tryCs E cs
      let step := fun (kv : Val × Val) =>
        match names.idxOf? (match kv.1 with | .str s => s | _ => "") with
        | some i => if (match kv.1 with | .str _ => true | _ => false) then
            (applyAt fs i kv.2).bind fun x => .ok (kv.1, x) else .interrupt
        | none => .interrupt
      match mapMO step v.mapItems with
      | .ok kvs =>
        if names.all fun n => v.mapItems.any fun kv => Val.pyEq kv.1 (.str n) then .ok (.dict kvs)
        else .interrupt
      | .interrupt => .interrupt
      | .leak e => .leak e
  | .tuple cs, v =>
    if !v.isSeq then .interrupt
    else if v.seqItems.length != cs.length then .interrupt
    else (zipMO (tryCs E cs) v.seqItems).bind fun xs => .ok (.tuple xs)
  | .dict kind k vc, v =>
    if !v.isMap then .interrupt
    else
      let step := fun (kv : Val × Val) =>
        (tryC E k kv.1).bind fun k' => (tryC E vc kv.2).bind fun v' => .ok (k', v')
      match mapMO step v.mapItems with
      | .ok kvs => (guardTry (Facts.catches .dictBuildTry) (buildDict kvs)).bind fun d => .ok (dictCtor kind d)
      | .interrupt => .interrupt
      | .leak e => .leak e
  | .seq kind vc, v => seqTryWith (tryC E vc) kind v
  | .cond inner c _, v =>
    (tryC E inner v).bind fun x =>
      match guardTry (Facts.catches .condTry) (evalCond E Facts.stockCond c x) with
      | .ok true => .ok x
      | .ok false => .interrupt
      | .interrupt => .interrupt
      | .leak e => .leak e
  | .enum name members inner, v =>
    (tryC E inner v).bind fun x =>
      (guardTry (Facts.catches .enumLookupTry) (pyLookup x (members.zipIdx))).bind fun i =>
        .ok (.enumMem name i)
  | .delegate sub inner, v =>
    (tryC E inner v).bind fun x => guardTry (Facts.catches .delegateTry) (E.call ("sub:" ++ sub) x)
  | .pattern _ inner, v =>
    let v' := match v with | .opaque "Pattern" r => Val.str r | _ => v
    (tryC E inner v').bind fun s => guardTry (Facts.catches .patternTry) (E.call "re.compile" s)
  | .pane info cs, v =>
    if paneSeqGate Facts.paneTupleGateTry v then
      if !info.inFormat.contains "tuple" then .interrupt
      else paneTryTuple E info (tryCs E cs) (if v.isSeq then v else .list (strItems v))
    else if v.isMap then
      if !info.inFormat.contains "struct" then .interrupt
      else paneTryStruct E info (tryCs E cs) v
    else .interrupt
  | .nested vc, v =>
    (nestedTry (tryC E vc) v).bind fun r =>
      match shapeOf r with
      | none => guardTry (Facts.catches .nestedShapeTry) (.error { cls := .valueError, msg := "shape mismatch" })
      | some _ =>
        match E.call "numpy.array" r with
        | .ok a => .ok a
        | .error e => .leak e
  | .custom id, v => E.customTry id v
  | .vol vc, v =>
    -- the inherited union loop over `(conv(T), conv(List[T]))`; the constructor never raises
    match tryC E vc v with
    | .ok x => .ok (.wrap "ValueOrList:val" x)
    | .leak e => .leak e
    | .interrupt =>
      match seqTryWith (tryC E vc) "list" v with
      | .ok x => .ok (.wrap "ValueOrList:list" x)
      | .interrupt => .interrupt
      | .leak e => .leak e
def tryCs (E : Ext) : List Conv → List (Val → Outcome Val)
  | [] => []
  | c :: cs => tryC E c :: tryCs E cs
end

end PaneModel
