import PaneModel.Props.C11
import PaneModel.Lemmas.TypingNormProofs
/-!
# C11 — `typing`'s normalisation of `Union[...]` is transparent for conversion

`typing` stores `Union[A, Union[B, C], A, None]` as `Union[A, B, C, NoneType]` (nested unions flattened, later
duplicates dropped, first occurrence kept).  Until now the model was GIVEN the normalised member list; the normalisation
itself (`Model/TypingNorm.lean`: `flatten`, `dedupBy`, `normalize`) was in the trusted base.  The theorems below remove
it from there: whatever the union loop (`firstOk`) answers on the normalised list is what the loop over the written,
nested, duplicate-carrying list (`firstOkU`) answers — for every value, including leaks.

The only hypothesis is the one `typing` itself relies on: members that `typing` identifies (equal keys) behave alike.
-/
namespace PaneModel

open TypingNorm

variable {α β γ : Type} {E : Ext}

/-! ## 1. De-duplication -/

/-- dropping a LATER duplicate never changes which member answers first: the earlier copy already gave the same answer
(`.interrupt` falls through to the rest both times, `.ok` / `.leak` stops at the earlier copy) -/
theorem C11_dedup_transparent (key : α → String) (f : α → γ → Outcome β)
    (hkey : ∀ a b, key a = key b → f a = f b) (ms : List α) (v : γ) :
    firstOk ((dedupBy key ms).map f) v = firstOk (ms.map f) v :=
  firstOk_dedupBy key f v ms (fun a _ b _ h => by rw [hkey a b h])

/-- the same under the weakest hypothesis the proof needs: members OF THIS LIST with equal keys give the same answer
FOR THIS VALUE -/
theorem C11_dedup_transparent_local (key : α → String) (f : α → γ → Outcome β) (ms : List α) (v : γ)
    (hkey : ∀ a ∈ ms, ∀ b ∈ ms, key a = key b → f a v = f b v) :
    firstOk ((dedupBy key ms).map f) v = firstOk (ms.map f) v :=
  firstOk_dedupBy key f v ms hkey

/-- the hypothesis cannot be dropped: two members that `typing` identifies but that answer differently make the
de-duplicated union answer differently -/
theorem C11_dedup_needs_hypothesis :
    ∃ (key : Bool → String) (f : Bool → Unit → Outcome Nat) (ms : List Bool) (v : Unit),
      firstOk ((dedupBy key ms).map f) v ≠ firstOk (ms.map f) v :=
  ⟨fun _ => "k", fun b _ => if b then .ok 1 else .interrupt, [false, true], (), by
    show Outcome.interrupt ≠ Outcome.ok 1
    exact fun h => nomatch h⟩

/-! ## 2. Flattening -/

/-- the nested loop is the flat loop over the members' answers, a nested union answering with its own loop -/
theorem C11_firstOkU_is_firstOk (f : α → γ → Outcome β) (ms : List (UMem α)) (v : γ) :
    firstOkU f ms v = firstOk (ms.map (answerU f)) v :=
  firstOkU_eq_firstOk f ms v

/-- splicing the members of nested unions in place (depth-first, left to right) does not change the answer -/
theorem C11_flatten_transparent (f : α → γ → Outcome β) (ms : List (UMem α)) (v : γ) :
    firstOk ((flatten ms).map f) v = firstOkU f ms v :=
  firstOk_flatten' f v ms

/-! ## 3. Both -/

/-- **`typing`'s normalisation is transparent**: the loop over `Union[...]` as `typing` stores it answers what the loop
over the union as written answers -/
theorem C11_typing_transparent (key : α → String) (f : α → γ → Outcome β)
    (hkey : ∀ a b, key a = key b → f a = f b) (ms : List (UMem α)) (v : γ) :
    firstOk ((normalize key ms).map f) v = firstOkU f ms v := by
  rw [normalize, C11_dedup_transparent key f hkey, C11_flatten_transparent]

theorem C11_typing_transparent_local (key : α → String) (f : α → γ → Outcome β) (ms : List (UMem α)) (v : γ)
    (hkey : ∀ a ∈ flatten ms, ∀ b ∈ flatten ms, key a = key b → f a v = f b v) :
    firstOk ((normalize key ms).map f) v = firstOkU f ms v := by
  rw [normalize, C11_dedup_transparent_local key f _ v hkey, C11_flatten_transparent]

/-! ## 4. Normal forms -/

/-- normalising a normalised union changes nothing -/
theorem C11_normalize_idempotent (key : α → String) (ms : List (UMem α)) :
    normalize key ((normalize key ms).map .one) = normalize key ms := by
  rw [normalize, flatten_map_one, normalize, dedupBy_idem]

/-- no two members of a normalised union are the same for `typing` -/
theorem C11_normalize_nodup (key : α → String) (ms : List (UMem α)) :
    ((normalize key ms).map key).Nodup :=
  dedupBy_nodup key _

/-- a flat union without duplicates is stored as written -/
theorem C11_normalize_fixed (key : α → String) (l : List α) (h : (l.map key).Nodup) :
    normalize key (l.map .one) = l := by
  rw [normalize, flatten_map_one, dedupBy_of_nodup key l h]

/-! ## 5. Order and completeness -/

/-- the order of first occurrences is kept (member order is semantics for pane: the left-most accepting member wins) -/
theorem C11_normalize_order (key : α → String) (ms : List (UMem α)) :
    (normalize key ms).Sublist (flatten ms) :=
  dedupBy_sublist key _

/-- no member is lost: every written member is the same (for `typing`) as a stored one -/
theorem C11_normalize_complete (key : α → String) (ms : List (UMem α)) (a : α) (h : a ∈ flatten ms) :
    ∃ b ∈ normalize key ms, key b = key a :=
  dedupBy_complete key _ a h

/-- the stored member is the FIRST written member with its key -/
theorem C11_normalize_first (key : α → String) (ms : List (UMem α)) (b : α) (h : b ∈ normalize key ms) :
    (flatten ms).find? (fun a => key a == key b) = some b :=
  dedupBy_first key _ b h

/-- `dedupBy` is `dict.fromkeys`: the left-to-right scan that skips a member whose key was met already -/
theorem C11_dedup_is_scan (key : α → String) (l : List α) : dedupBy key l = dedupSeen key [] l :=
  dedupBy_eq_seen key l

/-! ## 6. The real converters -/

theorem C11_tryCs_eq_map (cs : List Conv) : tryCs E cs = cs.map (tryC E) := by
  induction cs with
  | nil => rfl
  | cons c cs ih => rw [tryCs, ih]; rfl

/-- a union converter built from the de-duplicated member list converts like the one built from the full list, when
members with equal keys convert alike (for the value at hand) -/
theorem C11_union_dedup (key : Conv → String) (cs : List Conv) (v : Val)
    (hkey : ∀ a ∈ cs, ∀ b ∈ cs, key a = key b → tryC E a v = tryC E b v) :
    tryC E (.union (dedupBy key cs)) v = tryC E (.union cs) v := by
  rw [C11_first, C11_first, C11_tryCs_eq_map, C11_tryCs_eq_map]
  exact C11_dedup_transparent_local key (tryC E) cs v hkey

/-- in particular when the key identifies the converter -/
theorem C11_union_dedup_inj (key : Conv → String) (cs : List Conv) (v : Val)
    (hkey : ∀ a ∈ cs, ∀ b ∈ cs, key a = key b → a = b) :
    tryC E (.union (dedupBy key cs)) v = tryC E (.union cs) v :=
  C11_union_dedup key cs v (fun a ha b hb h => by rw [hkey a ha b hb h])

mutual
/-- a converter tree that still nests answers with the nested loop -/
theorem C11_toConv_answer (v : Val) : ∀ m : UMem Conv, tryC E m.toConv v = answerU (tryC E) m v
  | .one c => by rw [UMem.toConv, answerU]
  | .nested ms => by
    rw [UMem.toConv, answerU, C11_first]
    exact C11_toConvs_answer v ms
theorem C11_toConvs_answer (v : Val) : ∀ ms : List (UMem Conv),
    firstOk (tryCs E (toConvs ms)) v = firstOkU (tryC E) ms v
  | [] => by rw [toConvs, firstOkU]; rfl
  | m :: ms => by
    rw [toConvs, tryCs, firstOk, firstOkU_cons, C11_toConv_answer v m, C11_toConvs_answer v ms]
    cases answerU (tryC E) m v <;> rfl
end

/-- **the whole normalisation on converter trees**: the union converter over the normalised members converts like the
converter tree of the union as written (nested `.union` converters, duplicates and all) -/
theorem C11_union_typing (key : Conv → String) (ms : List (UMem Conv)) (v : Val)
    (hkey : ∀ a ∈ flatten ms, ∀ b ∈ flatten ms, key a = key b → tryC E a v = tryC E b v) :
    tryC E (.union (normalize key ms)) v = tryC E (.union (toConvs ms)) v := by
  rw [C11_first, C11_first, C11_tryCs_eq_map, C11_toConvs_answer]
  exact C11_typing_transparent_local key (tryC E) ms v hkey

/-- `Union[A] is A`: returning a single remaining member as itself instead of a one-member union is invisible too -/
theorem C11_single_member (c : Conv) (v : Val) : tryC E (.union [c]) v = tryC E c v := by
  rw [C11_first, tryCs, tryCs]
  exact firstOk_singleton _ v

/-! ## 7. Non-vacuity -/

example : normalize id [UMem.one "int", .nested [.one "str", .one "int"], .one "NoneType", .one "str"] =
    ["int", "str", "NoneType"] := by decide

example : normalize id [UMem.one "int", .nested [.one "str", .one "int", .nested [.one "bytes"]], .one "NoneType",
    .one "str"] = ["int", "str", "bytes", "NoneType"] := by decide

example : flatten [UMem.one "int", .nested [.one "str", .one "int"], .one "NoneType", .one "str"] =
    ["int", "str", "int", "NoneType", "str"] := by decide

-- theorem 3 at an instance where the duplicate matters for the search: "int" rejects, the nested "str" accepts, the
-- later copies are never reached
example :
    let f : String → Nat → Outcome Nat := fun k n => if k = "str" then .ok (n + 1) else .interrupt
    let ms := [UMem.one "int", .nested [.one "str", .one "int"], .one "NoneType", .one "str"]
    firstOk ((normalize id ms).map f) 41 = firstOkU f ms 41 ∧ firstOkU f ms 41 = .ok 42 :=
  ⟨C11_typing_transparent id _ (fun a b (h : a = b) => by rw [h]) _ _, rfl⟩

-- theorem 6 on real converters: `Union[None, Union[None]]`
example (v : Val) : tryC E (.union (normalize (fun _ => "NoneType") [UMem.one Conv.noneC, .nested [.one .noneC]])) v =
    tryC E (.union [.noneC, .union [.noneC]]) v := by
  have := C11_union_typing (E := E) (fun _ => "NoneType") [UMem.one Conv.noneC, .nested [.one .noneC]] v (by
    intro a ha b hb _
    have hm : ∀ x ∈ flatten [UMem.one Conv.noneC, .nested [.one .noneC]], x = Conv.noneC := by
      intro x hx
      simp only [flatten, flattenMem, List.append_nil, List.cons_append, List.nil_append, List.mem_cons,
        List.not_mem_nil, or_false, or_self] at hx
      exact hx
    rw [hm a ha, hm b hb])
  simpa only [toConvs, UMem.toConv] using this

#print axioms C11_dedup_transparent
#print axioms C11_dedup_transparent_local
#print axioms C11_dedup_needs_hypothesis
#print axioms C11_firstOkU_is_firstOk
#print axioms C11_flatten_transparent
#print axioms C11_typing_transparent
#print axioms C11_typing_transparent_local
#print axioms C11_normalize_idempotent
#print axioms C11_normalize_nodup
#print axioms C11_normalize_fixed
#print axioms C11_normalize_order
#print axioms C11_normalize_complete
#print axioms C11_normalize_first
#print axioms C11_dedup_is_scan
#print axioms C11_tryCs_eq_map
#print axioms C11_union_dedup
#print axioms C11_union_dedup_inj
#print axioms C11_toConv_answer
#print axioms C11_toConvs_answer
#print axioms C11_union_typing
#print axioms C11_single_member

end PaneModel
