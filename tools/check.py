#!/usr/bin/env python3
"""./check Cxx [--tier quick|thorough] [--seed N] [--replay path]

Pipeline of one run (DESIGN.md §2): extract facts from /repo's working tree -> lake build of the
property's theorems (kernel re-checks them against the regenerated facts) -> axiom / source audit ->
correspondence (real pane vs the Lean model on generated scenarios) + the property observed directly
on the implementation -> witnesses of repaired defects and known findings -> decision -> evidence.

exit 0: property held on everything explored.  exit 1: VIOLATION line printed.  exit 2: tool failure/timeout.
"""
import argparse, collections, hashlib, json, os, re, subprocess, sys, time, traceback

VERIF = os.path.dirname(os.path.dirname(os.path.abspath(__file__)))
LEAN = os.path.join(VERIF, 'lean')
REPO = os.environ.get('PANE_REPO', '/repo')
ALLOWED_AXIOMS = {'propext', 'Classical.choice', 'Quot.sound'}
PY = '/venv/bin/python'
ENV = dict(os.environ, PYTHONPATH=f'{REPO}:{VERIF}/tools', PYTHONDONTWRITEBYTECODE='1', PYTHONHASHSEED='0')


def sh(cmd, timeout=3600, cwd=None, env=None):
    r = subprocess.run(cmd, shell=isinstance(cmd, str), capture_output=True, text=True, timeout=timeout, cwd=cwd, env=env)
    return r.returncode, r.stdout, r.stderr


# -------------------------------------------------------------------------------------------------
def extract():
    rc, out, err = sh(['python3', os.path.join(VERIF, 'tools', 'extract.py')], cwd=VERIF)
    line = [l for l in out.split('\n') if l.startswith('{')]
    if rc != 0 or not line:
        return {'ok': False, 'error': (err or out)[-2000:]}
    d = json.loads(line[-1])
    d['ok'] = True
    return d


def lake_build(targets):
    t0 = time.time()
    rc, out, err = sh(['lake', 'build'] + targets, cwd=LEAN, timeout=3000)
    text = out + err
    axioms = {}
    for m in re.finditer(r"info: (\S+?):(\d+):\d+: '(.+?)' (depends on axioms: \[([^\]]*)\]|does not depend on any axioms)", text):
        axioms[m.group(3)] = [a.strip() for a in (m.group(5) or '').split(',') if a.strip()]
    errors = []
    for m in re.finditer(r"error: (PaneModel/\S+?\.lean):(\d+):(\d+): (.*)", text):
        errors.append({'file': m.group(1), 'line': int(m.group(2)), 'msg': m.group(4)[:300]})
    for k in list(axioms):          # also index by the unqualified name (as written after `#print axioms`)
        axioms.setdefault(k.split('.')[-1], axioms[k])
    failed_modules = re.findall(r"^- (PaneModel\.\S+)$", text, re.M)
    return {'ok': rc == 0, 'axioms': axioms, 'errors': errors, 'failed_modules': failed_modules,
            'wall_s': round(time.time() - t0, 1), 'tail': text[-3000:] if rc != 0 else ''}


def enclosing_decl(path, line):
    """name of the theorem/def enclosing a source line"""
    try:
        src = open(os.path.join(LEAN, path)).read().splitlines()
    except OSError:
        return None
    for i in range(min(line, len(src)) - 1, -1, -1):
        m = re.match(r'\s*(?:private\s+)?(?:theorem|lemma|def|example|instance)\s+([^\s:(\[{]+)?', src[i])
        if m:
            return m.group(1) or f'example@{path}:{i+1}'
    return None


FORBIDDEN = re.compile(r'\b(sorry|admit|native_decide|bv_decide|implemented_by)\b|^\s*axiom\s|unsafe\s|maxHeartbeats\s+0')


def strip_comments(src):
    src = re.sub(r'/-.*?-/', lambda m: '\n' * m.group(0).count('\n'), src, flags=re.S)
    return re.sub(r'--.*', '', src)


def audit_sources():
    hits = []
    for root, _, files in os.walk(os.path.join(LEAN, 'PaneModel')):
        for f in files:
            if f.endswith('.lean'):
                p = os.path.join(root, f)
                body = strip_comments(open(p).read())
                for i, ln in enumerate(body.splitlines(), 1):
                    if FORBIDDEN.search(ln):
                        hits.append(f'{os.path.relpath(p, LEAN)}:{i}: {ln.strip()[:120]}')
    return hits


def prop_theorems(pid):
    """names of the property theorems: everything `#print axioms`-ed in Props/<pid>*.lean"""
    names = []
    d = os.path.join(LEAN, 'PaneModel', 'Props')
    for f in sorted(os.listdir(d)):
        if f.startswith(pid) and f.endswith('.lean'):
            for m in re.finditer(r'^#print axioms (\S+)', open(os.path.join(d, f)).read(), re.M):
                names.append(m.group(1).split('.')[-1])
    return names


def prop_targets(pid):
    d = os.path.join(LEAN, 'PaneModel', 'Props')
    return ['PaneModel.Props.' + f[:-5] for f in sorted(os.listdir(d)) if f.startswith(pid) and f.endswith('.lean')]


# -------------------------------------------------------------------------------------------------
def run_py(script_args, timeout=3000):
    """run a tools/ script under the venv with the real pane importable; returns parsed JSON of the last line"""
    rc, out, err = sh([PY] + script_args, cwd=VERIF, env=ENV, timeout=timeout)
    lines = [l for l in out.split('\n') if l.startswith('{')]
    if not lines:
        return {'ok': False, 'error': f'rc={rc} ' + (err or out)[-3000:]}
    try:
        d = json.loads(lines[-1])
    except json.JSONDecodeError as e:
        return {'ok': False, 'error': f'bad json from {script_args}: {e}'}
    d.setdefault('ok', True)
    return d


def witnesses(pid):
    kf = json.load(open(os.path.join(VERIF, 'known_findings.json')))['findings']
    mine = [f for f in kf if f['property'] == pid]
    out = {'fixed_regressed': [], 'known': [], 'known_gone': [], 'ran': 0}
    ids = sorted({f['id'] for f in mine})
    if not ids:
        return out
    rc, so, se = sh([PY, os.path.join(VERIF, 'tools', 'witnesses.py')] + ids, cwd=VERIF, env=ENV, timeout=600)
    res = {}
    for l in so.splitlines():
        if l.startswith('{'):
            d = json.loads(l)
            res[d['id']] = d
    for f in mine:
        r = res.get(f['id'])
        if r is None:
            out['fixed_regressed'].append({'id': f['id'], 'detail': 'witness did not run: ' + se[-300:]})
            continue
        out['ran'] += 1
        if f['status'] == 'fixed':
            if not r['holds']:
                out['fixed_regressed'].append({'id': f['id'], 'detail': r['detail'], 'description': f['description']})
        else:
            (out['known_gone'] if r['holds'] else out['known']).append({'id': f['id'], 'detail': r['detail'], 'description': f['description']})
    return out


# -------------------------------------------------------------------------------------------------
def git_info():
    rc, head, _ = sh(['git', '-C', REPO, 'rev-parse', 'HEAD'])
    rc, stat, _ = sh(['git', '-C', REPO, 'diff', '--stat'])
    return {'head': head.strip(), 'diff_stat': stat.strip()[-1500:]}


def write_replay(pid, seed, payload):
    d = os.path.join(VERIF, 'replays')
    os.makedirs(d, exist_ok=True)
    n = 0
    while os.path.exists(os.path.join(d, f'{pid}-{seed}-{n}.json')):
        n += 1
    path = os.path.join(d, f'{pid}-{seed}-{n}.json')
    payload = dict(payload, property=pid, repo=git_info(), replay_cmd=f'./check {pid} --replay replays/{pid}-{seed}-{n}.json')
    with open(path, 'w') as f:
        json.dump(payload, f, indent=1, ensure_ascii=False)
    return os.path.relpath(path, VERIF)


def write_evidence(pid, ev):
    path = os.path.join(VERIF, 'evidence', f'{pid}.json')
    os.makedirs(os.path.dirname(path), exist_ok=True)
    with open(path, 'w') as f:
        json.dump(ev, f, indent=1, ensure_ascii=False)


def main():
    ap = argparse.ArgumentParser()
    ap.add_argument('pid')
    ap.add_argument('--tier', default=os.environ.get('VERIF_TIER', 'quick'), choices=['quick', 'thorough'])
    ap.add_argument('--seed', type=int, default=int(os.environ.get('VERIF_SEED', '0')))
    ap.add_argument('--replay')
    a = ap.parse_args()
    t0 = time.time()
    pid = a.pid
    try:
        rc = run(pid, a.tier, a.seed, a.replay, t0)
    except subprocess.TimeoutExpired as e:
        print(f'TIMEOUT: {e}', file=sys.stderr)
        rc = 2
    except Exception:  # noqa
        traceback.print_exc()
        rc = 2
    sys.exit(rc)


def run(pid, tier, seed, replay, t0):
    import props  # per-property plug-ins (runs in system python; heavy lifting is delegated to corr_run.py in the venv)
    cfg = props.PROPS.get(pid)
    if cfg is None:
        print(f'unknown or unclaimed property {pid}', file=sys.stderr)
        return 2
    violations = []   # dicts: kind, detail, replay payload
    notes = []

    if replay:
        # the model is instantiated with the facts of the CURRENT source: regenerate them (and what the driver imports) first
        ex = extract()
        if not ex['ok']:
            print('extract failed:', ex.get('error'), file=sys.stderr)
            return 2
        lake_build(['PaneModel.Model.Build', 'PaneModel.Model.Render', 'PaneModel.Model.Rename', 'PaneModel.Model.Cache',
                    'PaneModel.Model.Order', 'PaneModel.Model.Pane', 'PaneModel.Model.IO', 'PaneModel.Lemmas.RoundTripDefs'])
        r = run_py([os.path.join(VERIF, 'tools', 'corr_run.py'), '--pid', pid, '--replay', os.path.join(VERIF, replay)])
        print(json.dumps(r, indent=1)[:4000])
        if not r.get('ok', False):
            return 2
        if r.get('still_fails'):
            print(f'VIOLATION property={pid} replay={replay}')
            return 1
        print('replay no longer fails')
        return 0

    # 1. translator
    ex = extract()
    if not ex['ok']:
        print('extract failed:', ex.get('error'), file=sys.stderr)
        return 2
    # 2. build: the property's theorems + what the driver needs
    targets = prop_targets(pid)
    b = lake_build(targets + ['PaneModel.Model.Build', 'PaneModel.Model.Render', 'PaneModel.Model.Rename',
                              'PaneModel.Model.Cache', 'PaneModel.Model.Order', 'PaneModel.Model.Pane',
                              'PaneModel.Model.IO', 'PaneModel.Lemmas.RoundTripDefs'])
    theorems = prop_theorems(pid)
    broken_theorems = []
    driver_ok = True
    if not b['ok']:
        for e in b['errors']:
            name = enclosing_decl(e['file'], e['line'])
            broken_theorems.append({'theorem': name, 'file': e['file'], 'line': e['line'], 'msg': e['msg']})
        if any(m.startswith('PaneModel.Model') or m.startswith('PaneModel.Generated') for m in b['failed_modules']):
            driver_ok = False
        if not broken_theorems:
            broken_theorems.append({'theorem': None, 'file': None, 'line': None, 'msg': b['tail'][-600:]})
    # 2b. thorough tier: independent re-check of the compiled property modules (and the lemma modules they import)
    recheck = None
    if tier == 'thorough' and b['ok']:
        mods = list(targets)
        for tmod in targets:
            src = open(os.path.join(LEAN, *tmod.split('.')) + '.lean').read()
            mods += re.findall(r'^import (PaneModel\.(?:Lemmas|Spec|Model)\.\S+)', src, re.M)
        mods = sorted(set(mods))
        rc_, so_, se_ = sh(['lake', 'env', 'leanchecker'] + mods, cwd=LEAN, timeout=1800)
        recheck = {'cmd': 'cd lean && lake env leanchecker ' + ' '.join(mods), 'rc': rc_, 'tail': (so_ + se_)[-400:]}
        if rc_ != 0:
            broken_theorems.append({'theorem': None, 'file': None, 'line': None, 'msg': 'leanchecker rejected the compiled modules: ' + recheck['tail']})
            b['ok'] = False
    # 3. audit
    bad_axioms = {n: ax for n, ax in b['axioms'].items() if n in theorems and not set(ax) <= ALLOWED_AXIOMS}
    missing_axiom_lines = [n for n in theorems if n not in b['axioms']] if b['ok'] else []
    forbidden = audit_sources()
    tie_broken = ex.get('tie_broken') or []
    discharged = [n for n in theorems if n in b['axioms'] and n not in bad_axioms] if b['ok'] else \
                 [n for n in theorems if n in b['axioms'] and n not in bad_axioms and not any(bt['theorem'] == n.split('.')[-1] for bt in broken_theorems)]
    proof_broken = (not b['ok']) or bad_axioms or missing_axiom_lines or forbidden or tie_broken

    # 4. correspondence + direct observation of the property on the implementation
    corr = {'ok': True, 'skipped': 'model does not build'}
    if driver_ok:
        args = [os.path.join(VERIF, 'tools', 'corr_run.py'), '--pid', pid, '--tier', tier, '--seed', str(seed)]
        if proof_broken:
            args.append('--search')
        corr = run_py(args, timeout=3300)
        if not corr.get('ok', False):
            print('correspondence harness failed:', corr.get('error'), file=sys.stderr)
            return 2
    # 5. witnesses
    w = witnesses(pid)

    # 6. decide
    failing_inputs = list(corr.get('failing_inputs', []))       # property observed failing on the implementation (unlisted)
    for fr in w['fixed_regressed']:
        failing_inputs.insert(0, {'kind': 'fixed-defect-regressed', 'witness': fr['id'], 'detail': fr['detail'], 'description': fr.get('description')})
    disagreements = corr.get('disagreements', [])
    for k in w['known']:
        print(f"KNOWN-FINDING: property={pid} {k['id']} {k['description']} [{k['detail'][:160]}]")
    for k in corr.get('known_findings', []):
        print(f"KNOWN-FINDING: property={pid} {k}")
    for k in w['known_gone']:
        notes.append(f"finding-no-longer-reproduces: {k['id']}")

    rc = 0
    replay_path = None
    if failing_inputs:
        replay_path = write_replay(pid, seed, {'failing_input': failing_inputs[0], 'more': failing_inputs[1:5],
                                               'broken_theorems': broken_theorems, 'facts_hash': ex.get('facts_hash')})
        print(f'VIOLATION property={pid} replay={replay_path}')
        rc = 1
    elif proof_broken or disagreements:
        what = {'broken_theorems': broken_theorems, 'bad_axioms': bad_axioms, 'missing_axiom_lines': missing_axiom_lines,
                'forbidden_constructs': forbidden[:20], 'translator_tie_broken': tie_broken,
                'correspondence_disagreements': disagreements[:5], 'searched': corr.get('searched'),
                'facts_hash': ex.get('facts_hash'),
                'note': 'no concrete failing input was found; the property is no longer shown to hold'}
        replay_path = write_replay(pid, seed, what)
        print(f'VIOLATION property={pid} replay={replay_path} no-failing-input-found')
        rc = 1

    # 7. evidence
    cov = dict(corr.get('coverage', {}))
    cov.update({
        'obligations': len(theorems),
        'discharged': len(discharged),
        'checker_cmd': 'cd lean && lake build ' + ' '.join(targets) + '  (Lean 4.33.0 kernel; #print axioms audited)',
        'trusted_base': cfg.get('trusted_base', props.TRUSTED_BASE),
        'theorems': {n: b['axioms'].get(n) for n in theorems},
        'broken_theorems': broken_theorems,
        'facts_hash': ex.get('facts_hash'),
        'translator_tie_broken': tie_broken,
        'forbidden_constructs': forbidden,
        'witnesses_run': w['ran'],
        'known_findings_replayed': [k['id'] for k in w['known']] + corr.get('known_findings', []),
        'notes': notes + corr.get('notes', []),
        'build_wall_s': b['wall_s'],
        'leanchecker': recheck,
    })
    cov.setdefault('evaluations', 0)
    cov.setdefault('distinct_nontrivial', 0)
    cov.setdefault('rule', cfg.get('rule', ''))
    cov.setdefault('samples', [{'theorem': n} for n in theorems[:3]])
    ev = {'property_id': pid, 'tier': tier, 'seed': seed, 'level': 'proof', 'coverage': cov,
          'assumptions': cfg.get('assumptions', []), 'wall_s': round(time.time() - t0, 1),
          'violations': 1 if rc == 1 else 0}
    write_evidence(pid, ev)
    print(f'{pid} {tier} seed={seed}: theorems {len(discharged)}/{len(theorems)} discharged, '
          f"scenarios {cov.get('evaluations')}, disagreements {len(disagreements)}, failing inputs {len(failing_inputs)}, "
          f'{ev["wall_s"]}s -> exit {rc}')
    return rc


if __name__ == '__main__':
    sys.path.insert(0, os.path.join(VERIF, 'tools'))
    main()
