import PaneModel.Lemmas.PaneProofsC17
/-!
# C17 — completeness of type-variable substitution

"Subscripting substitutes the arguments for the type variables in EVERY field type": after `substTy σ`, no
variable bound by `σ` is left anywhere `substTy` descends (provided the images of `σ` do not themselves mention
a variable bound by `σ`).

Core Lean only.  Every name is prefixed `c17c_`.
-/
namespace PaneModel.PaneProofs

mutual
/-- the type variable named `n` occurs in `t` (in a position `substTy` descends into) -/
def c17c_occurs (n : String) : Ty → Bool
  | .typeVar m _ _ => m == n
  | .seq _ (some a) => c17c_occurs n a
  | .valueOrList (some a) => c17c_occurs n a
  | .tupleFixed ts => c17c_occurss n ts
  | .mapping _ as => c17c_occurss n as
  | .union ts => c17c_occurss n ts
  | .annotated t _ => c17c_occurs n t
  | .tupleLit ts => c17c_occurss n ts
  | .cls _ ts => c17c_occurss n ts
  -- a struct type literal `{'a': T}`: the values are inspected (they are substituted since the D-fix of `replace_typevars`)
  | .structLit _ ts => c17c_occurss n ts
  | _ => false
def c17c_occurss (n : String) : List Ty → Bool
  | [] => false
  | t :: ts => c17c_occurs n t || c17c_occurss n ts
end

/-- images of σ mention none of the variables σ binds (true for `Cls[int, str]`, and for a re-parameterisation
`Cls[U]` whenever `U` is not one of the class's own parameters) -/
def c17c_closed (σ : List (String × Ty)) : Prop :=
  ∀ k u, σ.lookup k = some u → ∀ m, (σ.lookup m).isSome = true → c17c_occurs m u = false

/-! ## the list version, element-wise -/

theorem c17c_occurss_false_iff (n : String) : ∀ ts : List Ty,
    c17c_occurss n ts = false ↔ ∀ t ∈ ts, c17c_occurs n t = false
  | [] => by simp only [c17c_occurss, List.not_mem_nil, false_imp_iff, implies_true]
  | t :: ts => by
    simp only [c17c_occurss, Bool.or_eq_false_iff, c17c_occurss_false_iff n ts, List.mem_cons, forall_eq_or_imp]

/-! ## the three steps of the union case -/

/-- one-level flattening introduces no variable -/
theorem c17c_flat_occurs (n : String) (ts : List Ty) (h : c17c_occurss n ts = false) :
    c17c_occurss n (c17_flat ts) = false := by
  rw [c17c_occurss_false_iff] at h ⊢
  intro u hu
  unfold c17_flat at hu
  rw [List.mem_flatMap] at hu
  obtain ⟨t, ht, hut⟩ := hu
  have hn := h t ht
  split at hut
  · simp only [c17c_occurs] at hn
    exact (c17c_occurss_false_iff n _).1 hn u hut
  · rw [List.mem_singleton] at hut
    rw [hut]; exact hn

/-- `dedupTy` only removes members -/
theorem c17c_dedup_mem (u : Ty) : ∀ ts : List Ty, u ∈ dedupTy ts → u ∈ ts
  | [], h => by simp only [dedupTy] at h; exact h
  | t :: ts, h => by
    simp only [dedupTy, List.mem_cons] at h
    rcases h with h | h
    · exact h ▸ List.mem_cons_self ..
    · exact List.mem_cons_of_mem _ (c17c_dedup_mem u ts (List.mem_filter.1 h).1)

/-- de-duplication introduces no variable -/
theorem c17c_dedup_occurs (n : String) (ts : List Ty) (h : c17c_occurss n ts = false) :
    c17c_occurss n (dedupTy ts) = false := by
  rw [c17c_occurss_false_iff] at h ⊢
  intro u hu
  exact h u (c17c_dedup_mem u ts hu)

/-- collapsing a single-member union introduces no variable -/
theorem c17c_collapse_occurs (n : String) : ∀ ts : List Ty, c17c_occurss n ts = false →
    c17c_occurs n (c17_collapse ts) = false
  | [], _ => by simp only [c17_collapse, c17c_occurs, c17c_occurss]
  | [t], h => by
    simp only [c17c_occurss, Bool.or_false] at h
    simp only [c17_collapse, h]
  | t :: t' :: ts, h => by
    simp only [c17_collapse, c17c_occurs, h]

/-! ## the main theorem -/

mutual
/-- COMPLETENESS: after the substitution no variable bound by `σ` is left, anywhere `substTy` descends -/
theorem c17c_subst_complete (σ : List (String × Ty)) (hσ : c17c_closed σ) : ∀ (t : Ty),
    ∀ m, (σ.lookup m).isSome = true → c17c_occurs m (substTy σ t) = false
  | .typeVar n b cs, m, hm => by
    rw [c17_subst_typeVar]
    cases hn : σ.lookup n with
    | some u => exact hσ n u hn m hm
    | none =>
      simp only [Option.getD_none, c17c_occurs, beq_eq_false_iff_ne, ne_eq]
      intro hnm
      rw [hnm] at hn
      rw [hn] at hm
      cases hm
  | .seq o (some a), m, hm => by
    rw [c17_subst_seq]; simp only [c17c_occurs]; exact c17c_subst_complete σ hσ a m hm
  | .seq o none, _, _ => by simp only [substTy, c17c_occurs]
  | .valueOrList (some a), m, hm => by
    rw [c17_subst_vol]; simp only [c17c_occurs]; exact c17c_subst_complete σ hσ a m hm
  | .valueOrList none, _, _ => by simp only [substTy, c17c_occurs]
  | .tupleFixed ts, m, hm => by
    rw [c17_subst_tupleFixed]; simp only [c17c_occurs]; exact c17c_substs_complete σ hσ ts m hm
  | .mapping o ts, m, hm => by
    rw [c17_subst_mapping]; simp only [c17c_occurs]; exact c17c_substs_complete σ hσ ts m hm
  | .union ts, m, hm => by
    rw [c17_subst_union]
    exact c17c_collapse_occurs m _ (c17c_dedup_occurs m _ (c17c_flat_occurs m _ (c17c_substs_complete σ hσ ts m hm)))
  | .annotated t anns, m, hm => by
    rw [c17_subst_annotated]; simp only [c17c_occurs]; exact c17c_subst_complete σ hσ t m hm
  | .tupleLit ts, m, hm => by
    rw [c17_subst_tupleLit]; simp only [c17c_occurs]; exact c17c_substs_complete σ hσ ts m hm
  | .cls nm ts, m, hm => by
    rw [c17_subst_cls]; simp only [c17c_occurs]; exact c17c_substs_complete σ hσ ts m hm
  | .any, _, _ => by simp only [substTy, c17c_occurs]
  | .scalar _, _, _ => by simp only [substTy, c17c_occurs]
  | .literal _, _, _ => by simp only [substTy, c17c_occurs]
  | .enum _, _, _ => by simp only [substTy, c17c_occurs]
  | .sub _ _, _, _ => by simp only [substTy, c17c_occurs]
  | .structLit ns ts, m, hm => by
    rw [c17_subst_structLit]; simp only [c17c_occurs]; exact c17c_substs_complete σ hσ ts m hm
  | .pattern _, _, _ => by simp only [substTy, c17c_occurs]
  | .ndarray, _, _ => by simp only [substTy, c17c_occurs]
  | .forwardRef _, _, _ => by simp only [substTy, c17c_occurs]
  | .unsupported _, _, _ => by simp only [substTy, c17c_occurs]
theorem c17c_substs_complete (σ : List (String × Ty)) (hσ : c17c_closed σ) : ∀ (ts : List Ty),
    ∀ m, (σ.lookup m).isSome = true → c17c_occurss m (substTys σ ts) = false
  | [], _, _ => by simp only [substTys, c17c_occurss]
  | t :: ts, m, hm => by
    simp only [substTys, c17c_occurss, c17c_subst_complete σ hσ t m hm, c17c_substs_complete σ hσ ts m hm,
      Bool.or_self]
end

/-- every field type of a list of field types, element-wise -/
theorem c17c_subst_complete_map (σ : List (String × Ty)) (hσ : c17c_closed σ) (ts : List Ty) :
    ∀ t ∈ ts.map (substTy σ), ∀ m, (σ.lookup m).isSome = true → c17c_occurs m t = false := by
  intro t ht m hm
  obtain ⟨t0, _, rfl⟩ := List.mem_map.1 ht
  exact c17c_subst_complete σ hσ t0 m hm

/-! ## non-vacuity -/

/-- an UNBOUND variable is left alone, and is therefore still there after the substitution -/
theorem c17c_subst_unbound_stays (σ : List (String × Ty)) (n : String) (b : Option Ty) (cs : List Ty)
    (hn : σ.lookup n = none) :
    substTy σ (.typeVar n b cs) = .typeVar n b cs ∧ c17c_occurs n (substTy σ (.typeVar n b cs)) = true := by
  have h : substTy σ (.typeVar n b cs) = .typeVar n b cs := by
    rw [c17_subst_typeVar, hn]; rfl
  refine ⟨h, ?_⟩
  rw [h]; simp only [c17c_occurs, beq_self_eq_true]

/-- a substitution whose images contain no variable at all is closed -/
theorem c17c_closed_of_no_occurs (σ : List (String × Ty))
    (h : ∀ k u, σ.lookup k = some u → ∀ m, c17c_occurs m u = false) : c17c_closed σ :=
  fun k u hk m _ => h k u hk m

/-- (a) `[int]` for `[T]` is closed -/
example : c17c_closed [("T", .scalar "int")] := by
  intro k u hk m _
  simp only [List.lookup] at hk
  split at hk
  · cases hk; simp only [c17c_occurs]
  · cases hk

/-- (b) the bound variable `T` is gone after the substitution … -/
example : c17c_occurs "T" (substTy [("T", .scalar "int")] (.cls "Other" [.typeVar "T" none []])) = false := by
  simp [substTy, substTys, List.lookup, c17c_occurs, c17c_occurss]

/-- … and was there before -/
example : c17c_occurs "T" (.cls "Other" [.typeVar "T" none []]) = true := by
  simp [c17c_occurs, c17c_occurss]

/-- the substituted type, explicitly -/
example : substTy [("T", .scalar "int")] (.cls "Other" [.typeVar "T" none []]) = .cls "Other" [.scalar "int"] := by
  simp [substTy, substTys, List.lookup]

/-- (c) struct type literals are INSIDE the covered fragment: `T` occurs in `{'a': T, 'b': List[T]}` … -/
example : c17c_occurs "T" (.structLit ["a", "b"] [.typeVar "T" none [], .seq "list" (some (.typeVar "T" none []))]) = true := by
  simp [c17c_occurs, c17c_occurss]

/-- … and is gone after the substitution (an instance of the theorem, and by computation) -/
example : c17c_occurs "T" (substTy [("T", .scalar "int")]
    (.structLit ["a", "b"] [.typeVar "T" none [], .seq "list" (some (.typeVar "T" none []))])) = false := by
  simp [substTy, substTys, List.lookup, c17c_occurs, c17c_occurss]

example : substTy [("T", .scalar "int")]
    (.structLit ["a", "b"] [.typeVar "T" none [], .seq "list" (some (.typeVar "T" none []))]) =
    .structLit ["a", "b"] [.scalar "int", .seq "list" (some (.scalar "int"))] := by
  simp [substTy, substTys, List.lookup]

#print axioms c17c_subst_complete
#print axioms c17c_substs_complete
#print axioms c17c_subst_complete_map
#print axioms c17c_subst_unbound_stays
#print axioms c17c_closed_of_no_occurs
#print axioms c17c_occurss_false_iff
#print axioms c17c_flat_occurs
#print axioms c17c_dedup_occurs
#print axioms c17c_collapse_occurs

end PaneModel.PaneProofs
