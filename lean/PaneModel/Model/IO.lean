import PaneModel.Model.IntoData
/-!
# JSON / YAML glue (`pane/io.py`): `write_* = into_data ; dump`, `from_* = parse ; from_data`.
The codecs themselves (`json`, PyYAML, text I/O, the OS) are externals: a `Codec` is a parameter.
-/
namespace PaneModel

structure Codec where
  dump : Val → Except Exc String
  parse : String → Except Exc Val
  parseAll : String → Except Exc (List Val)

mutual
/-- what a JSON / YAML round trip does to representable data: tuples come back as lists -/
def normalise : Val → Val
  | .tuple xs => .list (normaliseList xs)
  | .list xs => .list (normaliseList xs)
  | .dict kvs => .dict (normalisePairs kvs)
  | v => v
def normaliseList : List Val → List Val
  | [] => []
  | x :: xs => normalise x :: normaliseList xs
def normalisePairs : List (Val × Val) → List (Val × Val)
  | [] => []
  | (k, v) :: r => (k, normalise v) :: normalisePairs r
end

mutual
/-- the codec-independent part of "representable": built from scalars, lists/tuples and str-keyed
mappings (what both JSON and safe YAML carry without change of kind) -/
def representable : Val → Bool
  | .none | .bool _ | .int _ | .str _ => true
  | .float f => f.isFinite
  | .list xs | .tuple xs => representableList xs
  | .dict kvs => representablePairs kvs
  | _ => false
def representableList : List Val → Bool
  | [] => true
  | x :: xs => representable x && representableList xs
def representablePairs : List (Val × Val) → Bool
  | [] => true
  | (k, v) :: r => (match k with | .str _ => true | _ => false) && representable v && representablePairs r
end

mutual
def noTuples : Val → Bool
  | .tuple _ => false
  | .list xs => noTuplesList xs
  | .dict kvs => noTuplesPairs kvs
  | _ => true
def noTuplesList : List Val → Bool
  | [] => true
  | x :: xs => noTuples x && noTuplesList xs
def noTuplesPairs : List (Val × Val) → Bool
  | [] => true
  | (_, v) :: r => noTuples v && noTuplesPairs r
end

/-- `write_json(obj, f, ty=T)` / `write_yaml`: serialise, then dump -/
def writeDoc (E : Ext) (k : Codec) (dyn : Val → Except Exc Val) (c : Conv) (x : Val) : Except Exc String :=
  match intoC E dyn c x with
  | .ok d => k.dump d
  | .error e => .error e

/-- `from_json(f, T)` / `from_yaml`: parse, then convert -/
def readDoc (E : Ext) (k : Codec) (c : Conv) (s : String) : Result :=
  match k.parse s with
  | .ok d => convertC E c d
  | .error e => .raises e

/-- `from_yaml_all(f, T)` = `from_data(list(load_all(f)), List[T])` -/
def readAllDocs (E : Ext) (k : Codec) (c : Conv) (s : String) : Result :=
  match k.parseAll s with
  | .ok ds => convertC E (.seq "list" c) (.list ds)
  | .error e => .raises e

/-- who closes the stream: `open_file` opens (and closes) paths, and wraps caller-supplied streams in
a `nullcontext` -/
inductive Source | path | stream
  deriving DecidableEq, Repr

def closedAfter (pathBranchOpens streamBranchNullcontext : Bool) : Source → Bool
  | .path => pathBranchOpens          -- `with open(...)` closes what it opened
  | .stream => !streamBranchNullcontext  -- a nullcontext leaves the caller's stream open

end PaneModel
