import PaneModel.Lemmas.PaneProofsC17
import PaneModel.Lemmas.PaneProofsC17Complete
/-!
# C17 — Inheritance and generics resolve fields, order and types correctly

The effective fields of a pane dataclass are those of its bases in MRO order, a redeclared field
overriding in place, then its own, with keyword-only fields moved behind the positional ones;
constructor signature, tuple layout and repr follow that order (they all walk `ClassM.info.fields`,
which is `ClassM.fields`).  Subscripting a generic dataclass substitutes the arguments for the type
variables in every field type through any depth of generic inheritance and re-parameterisation,
conversion enforces the substituted types (`ClassM.fieldTys`, from which the field converters are
built, is listed in field order and carries the substituted types), and class options are inherited
unless overridden.

**Scope.** The model covers SINGLE-inheritance chains only (`processClass` takes one optional parent):
the MRO is the chain itself.  Multiple inheritance / diamond MROs are outside the model.

Facts read from the Python source (`Facts.paramMerge`, `Facts.classHandlersInherit`,
`Facts.replaceSkipsNone`) are hypotheses of the theorems that need them, each with a `decide`d
corollary (`C17_facts`, primed theorems).

Two limits of the model that shape the statements about `substTy` (`replace_typevars`):

* unions are re-flattened and de-duplicated on every substitution, even the empty one, so
  `substTy [] t = t` holds for types in typing-normal form (`c17_normalTy`) only — counterexamples below;
* the de-duplication test is `toString (repr ·)`, and the derived `Repr Ty` instance is `opaque` to the
  kernel (a `partial` definition, `Ty` being a nested inductive): two DIFFERENT type expressions cannot be
  proved distinct, so the composition law is proved on the union-free fragment
  (`C17_subst_compose_partial`), with a counterexample for a non-normal substituted union.
-/
namespace PaneModel

open PaneProofs

/-! ## The facts -/

theorem C17_facts : Facts.paramMerge = some "dedupKeepDeclared" ∧ Facts.classHandlersInherit = some true ∧
    Facts.replaceSkipsNone = some true := by decide

/-! ## `specs.update(new)`: MRO order, override in place -/

/-- **C17 (merged specs).** `specsUpdate old new` (`old` = the specs of the bases, `new` = the own ones):
the names are those of `old`, in order, followed by the new names that are not in `old`, in order;
every name carries its LAST declaration (`new` wins, in place; a name only in `old` keeps the old spec);
no name is duplicated when neither `old` nor `new` has a duplicate. -/
theorem C17_specs_update (old new : List SpecM) :
    (specsUpdate old new).map (·.name) =
      old.map (·.name) ++ (new.map (·.name)).filter (fun n => !(old.map (·.name)).contains n) ∧
    (∀ n, n ∈ new.map (·.name) → (specsUpdate old new).find? (·.name == n) = new.find? (·.name == n)) ∧
    (∀ n, n ∉ new.map (·.name) → (specsUpdate old new).find? (·.name == n) = old.find? (·.name == n)) ∧
    ((old.map (·.name)).Nodup → (new.map (·.name)).Nodup → ((specsUpdate old new).map (·.name)).Nodup) :=
  ⟨c17_specsUpdate_names old new, c17_specsUpdate_find_new old new, c17_specsUpdate_find_old old new,
    c17_specsUpdate_nodup old new⟩

/-- "in place": position `i` of the bases' specs holds the own spec of the same name if there is one,
else the inherited spec -/
theorem C17_specs_update_in_place (old new : List SpecM) (i : Nat) (h : i < old.length) :
    (specsUpdate old new)[i]? =
      some (match new.find? (·.name == old[i].name) with | some n => n | none => old[i]) := by
  rw [c17_specsUpdate_eq, List.getElem?_append_left (by simpa using h), List.getElem?_map,
    List.getElem?_eq_getElem h]
  rfl

/-! ## Field order -/

/-- **C17 (field order).** In a processed class the fields are made, one by one, of the merged specs
`c.specs` taken in the order `c17_order (·.kwOnly) c.specs` = (the specs that are not keyword-only, in
spec order) ++ (the keyword-only specs, in spec order) — a stable partition.  `c.fieldTys` and
`c.fieldConv` are permuted the same way: entry `i` is the `ty` / `converter` of the very spec that
produced field `i`. -/
theorem C17_fields_order (d : ClassDeclM) (parent : Option ClassM) (bound : List (String × Ty))
    (pp : List String) (c : ClassM) (h : processClass d parent bound pp = .ok c) :
    c.fields.map (·.name) =
      (c.specs.filter (fun s => !s.kwOnly)).map (·.name) ++ (c.specs.filter (·.kwOnly)).map (·.name) ∧
    c.fieldTys = (c.specs.filter (fun s => !s.kwOnly) ++ c.specs.filter (·.kwOnly)).map (·.ty) ∧
    c.fieldConv = (c.specs.filter (fun s => !s.kwOnly) ++ c.specs.filter (·.kwOnly)).map (·.converter) ∧
    c.fields.length = c.specs.length ∧ c.fieldTys.length = c.fields.length ∧
    c.fieldConv.length = c.fields.length ∧
    (∀ (i : Nat) (h1 : i < (c17_order (·.kwOnly) c.specs).length) (h2 : i < c.fields.length),
      makeField (c17_order (·.kwOnly) c.specs)[i] c.opts.inRename c.opts.outRename
        (Facts.makeFieldAliasesIncludeRenamed == some true) = .ok c.fields[i]) ∧
    c.fields.map (·.kwOnly) =
      (c.specs.filter (fun s => !s.kwOnly)).map (fun _ => false) ++ (c.specs.filter (·.kwOnly)).map (fun _ => true) ∧
    c.fields.map (·.init) = (c17_order (·.kwOnly) c.specs).map (·.init) ∧
    c.fields.map (·.hasDefault) = (c17_order (·.kwOnly) c.specs).map c17_specHasDefault ∧
    c.fields.map (·.exclude) = (c17_order (·.kwOnly) c.specs).map (·.exclude) := by
  obtain ⟨hall, ht, hc⟩ := c17_fields_order d parent bound pp c h
  have hlen := c17_All2_length hall
  have hordlen : (c17_order (·.kwOnly) c.specs).length = c.specs.length := c17_order_length _ _
  have hnames := c17_All2_map (fun s : SpecM => s.name) (fun f : FieldInfo => f.name)
    (fun s f hsf => (c17_mk_ok c.opts s f hsf).1) hall
  have hkw := c17_All2_map (fun s : SpecM => s.kwOnly) (fun f : FieldInfo => f.kwOnly)
    (fun s f hsf => (c17_mk_ok c.opts s f hsf).2.1) hall
  refine ⟨?_, ht, hc, by rw [hlen, hordlen], by rw [ht]; simp [hlen, c17_order],
    by rw [hc]; simp [hlen, c17_order], fun i h1 h2 => c17_All2_get hall i h1 h2, ?_,
    c17_All2_map (fun s : SpecM => s.init) (fun f : FieldInfo => f.init)
      (fun s f hsf => (c17_mk_ok c.opts s f hsf).2.2.1) hall,
    c17_All2_map c17_specHasDefault (fun f : FieldInfo => f.hasDefault)
      (fun s f hsf => (c17_mk_ok c.opts s f hsf).2.2.2.2.2) hall,
    c17_All2_map (fun s : SpecM => s.exclude) (fun f : FieldInfo => f.exclude)
      (fun s f hsf => (c17_mk_ok c.opts s f hsf).2.2.2.2.1) hall⟩
  · rw [hnames, c17_order, List.map_append]
  · rw [hkw, c17_order, List.map_append]
    congr 1
    · apply List.map_congr_left
      intro s hs
      simpa using (List.mem_filter.1 hs).2
    · apply List.map_congr_left
      intro s hs
      simpa using (List.mem_filter.1 hs).2

/-- the constructor signature, the tuple layout and the repr read the fields of `ClassM.info` -/
theorem C17_info_fields (c : ClassM) : c.info.fields = c.fields ∧ c.info.minPos = c.minPos ∧
    c.info.maxPos = c.maxPos := ⟨rfl, rfl, rfl⟩

/-! ## `KW_ONLY` and `kw_only=` -/

/-- **C17 (the `_: KW_ONLY` marker).** With the fields `fs` before the first marker: the own specs are
those of `fs` under the class-level flag `kw`, followed by those of the rest, ALL of which are
keyword-only; when the class-level flag is off the fields before the marker keep their own flag.  Names
(and order) are untouched. -/
theorem C17_kw_marker (kw : Bool) (inh : String → Option Val) (fs : List SpecM) (post : List BodyItem) :
    bodySpecs kw inh (fs.map .field ++ .kwOnlyMarker :: post) =
      bodySpecs kw inh (fs.map .field) ++ bodySpecs true inh post ∧
    (∀ s ∈ bodySpecs true inh post, s.kwOnly = true) ∧
    (bodySpecs false inh (fs.map .field)).map (·.kwOnly) = fs.map (·.kwOnly) ∧
    (bodySpecs kw inh (fs.map .field ++ .kwOnlyMarker :: post)).map (·.name) =
      fs.map (·.name) ++ (c17_bodyFields post).map (·.name) := by
  have h0 : ∀ k, bodySpecs k inh (fs.map .field) = fs.map (c17_ownSpec k inh) := by
    intro k
    have := c17_bodySpecs_fields k inh fs []
    simpa [c17_bodySpecs_nil] using this
  refine ⟨?_, ?_, ?_, ?_⟩
  · rw [c17_bodySpecs_fields, c17_bodySpecs_marker, h0]
  · intro s hs
    rw [c17_bodySpecs_true, List.mem_map] at hs
    obtain ⟨s0, _, rfl⟩ := hs
    simp [c17_ownSpec]
  · rw [h0, List.map_map]
    apply List.map_congr_left
    intro s _
    simp [c17_ownSpec]
  · rw [c17_bodySpecs_names]
    have : ∀ l : List SpecM, c17_bodyFields (l.map .field ++ .kwOnlyMarker :: post) = l ++ c17_bodyFields post := by
      intro l
      induction l with
      | nil => rfl
      | cons a l ih => simp only [List.map_cons, List.cons_append, c17_bodyFields, ih]
    rw [this, List.map_append]

/-- **C17 (class-level `kw_only=True`).** Every own field is keyword-only, whatever the body. -/
theorem C17_kw_class_option (inh : String → Option Val) (body : List BodyItem) :
    (∀ s ∈ bodySpecs true inh body, s.kwOnly = true) ∧
    (bodySpecs true inh body).map (·.name) = (c17_bodyFields body).map (·.name) := by
  refine ⟨?_, c17_bodySpecs_names inh body true⟩
  intro s hs
  rw [c17_bodySpecs_true, List.mem_map] at hs
  obtain ⟨s0, _, rfl⟩ := hs
  simp [c17_ownSpec]

/-! ## Inherited defaults -/

/-- **C17 (inherited default).** Every own spec comes from a body field `s` (same name and type).  A bare
re-annotation (`viaFieldSpec = false`, no default) of a field for which a base class left a class
attribute behind takes that attribute as its default; declared through `field(...)` it does not; and an
own default always wins. -/
theorem C17_inherited_default (kw : Bool) (inh : String → Option Val) (body : List BodyItem) (s' : SpecM)
    (hs : s' ∈ bodySpecs kw inh body) :
    ∃ s, .field s ∈ body ∧ s'.name = s.name ∧ s'.ty = s.ty ∧
      (s.default = .missing → s.viaFieldSpec = false → ∀ v, inh s.name = some v → s'.default = .value v) ∧
      (s.default = .missing → s.viaFieldSpec = false → inh s.name = none → s'.default = .missing) ∧
      (s.viaFieldSpec = true → s'.default = s.default) ∧
      (s.default ≠ .missing → s'.default = s.default) := by
  obtain ⟨s, k, hmem, rfl⟩ := c17_bodySpecs_mem inh body kw s' hs
  refine ⟨s, hmem, rfl, rfl, ?_, ?_, ?_, ?_⟩
  · intro hd hv v hi
    show c17_ownDefault inh s = _
    rw [c17_ownDefault_bare inh s hd hv, hi]
  · intro hd hv hi
    show c17_ownDefault inh s = _
    rw [c17_ownDefault_bare inh s hd hv, hi]
  · intro hv; exact c17_ownDefault_via inh s hv
  · intro hd; exact c17_ownDefault_own inh s hd

/-- the same for the first field of a body, as an equation -/
theorem C17_inherited_default_head (kw : Bool) (inh : String → Option Val) (s : SpecM) (rest : List BodyItem) :
    bodySpecs kw inh (.field s :: rest) =
      { s with kwOnly := s.kwOnly || kw, default := c17_ownDefault inh s } :: bodySpecs kw inh rest ∧
    (s.default = .missing → s.viaFieldSpec = false → ∀ v, inh s.name = some v →
      c17_ownDefault inh s = .value v) ∧
    (s.viaFieldSpec = true → c17_ownDefault inh s = s.default) ∧
    (s.default ≠ .missing → c17_ownDefault inh s = s.default) :=
  ⟨rfl, fun hd hv v hi => by rw [c17_ownDefault_bare inh s hd hv, hi], c17_ownDefault_via inh s,
    c17_ownDefault_own inh s⟩

/-! ## Type-variable substitution -/

/-- **C17 (substitution, unfolding).** `substTy σ` replaces exactly the type variables `σ` binds
(an unbound variable stays) and descends through `seq`, `tupleFixed`, `mapping`, `union`, `annotated`,
`tupleLit`, the arguments of a subscripted dataclass `cls name args` (D26) and the values of a struct type
literal (`C17_subst_structLit`); a union is re-flattened (one level), de-duplicated, and collapses to its member when only
one is left. -/
theorem C17_subst (σ : List (String × Ty)) :
    (∀ n b cs t, σ.lookup n = some t → substTy σ (.typeVar n b cs) = t) ∧
    (∀ n b cs, σ.lookup n = none → substTy σ (.typeVar n b cs) = .typeVar n b cs) ∧
    (∀ o a, substTy σ (.seq o (some a)) = .seq o (some (substTy σ a))) ∧
    (∀ ts, substTy σ (.tupleFixed ts) = .tupleFixed (ts.map (substTy σ))) ∧
    (∀ o as, substTy σ (.mapping o as) = .mapping o (as.map (substTy σ))) ∧
    (∀ ts, substTy σ (.union ts) = c17_collapse (dedupTy (c17_flat (ts.map (substTy σ))))) ∧
    (∀ t anns, substTy σ (.annotated t anns) = .annotated (substTy σ t) anns) ∧
    (∀ ts, substTy σ (.tupleLit ts) = .tupleLit (ts.map (substTy σ))) ∧
    (∀ n as, substTy σ (.cls n as) = .cls n (as.map (substTy σ))) := by
  refine ⟨?_, ?_, c17_subst_seq σ, ?_, ?_, ?_, c17_subst_annotated σ, ?_, ?_⟩
  · intro n b cs t h; rw [c17_subst_typeVar, h]; rfl
  · intro n b cs h; rw [c17_subst_typeVar, h]; rfl
  · intro ts; rw [c17_subst_tupleFixed, c17_substTys_eq_map]
  · intro o as; rw [c17_subst_mapping, c17_substTys_eq_map]
  · intro ts; rw [c17_subst_union, c17_substTys_eq_map]
  · intro ts; rw [c17_subst_tupleLit, c17_substTys_eq_map]
  · intro n as; rw [c17_subst_cls, c17_substTys_eq_map]

/-- **C17 (substitution, struct type literals).** A field type that is a struct type literal
`{'a': T, 'b': List[T]}` has its VALUES substituted; the keys (strings) are untouched.  (Before the repair
of `replace_typevars` a dict was returned unchanged, so `T` survived `Cls[int]` inside a struct literal.) -/
theorem C17_subst_structLit (σ : List (String × Ty)) (names : List String) (ts : List Ty) :
    substTy σ (.structLit names ts) = .structLit names (ts.map (substTy σ)) := by
  rw [c17_subst_structLit, c17_substTys_eq_map]

-- `{'a': T}` under `T ↦ int` is `{'a': int}`; the key is kept, a variable that is not bound stays
example : substTy [("T", .scalar "int")] (.structLit ["a"] [.typeVar "T" none []]) =
    .structLit ["a"] [.scalar "int"] := by
  rw [C17_subst_structLit]; simp [substTy, List.lookup]
example : substTy [("T", .scalar "int")]
    (.structLit ["a", "b"] [.typeVar "T" none [], .seq "list" (some (.typeVar "U" none []))]) =
    .structLit ["a", "b"] [.scalar "int", .seq "list" (some (.typeVar "U" none []))] := by
  rw [C17_subst_structLit]; simp [substTy, List.lookup]

/-- every other type constructor is left alone: none of them carries type arguments (`structLit`, which
does, is `C17_subst_structLit`) -/
theorem C17_subst_other (σ : List (String × Ty)) :
    substTy σ .any = .any ∧ (∀ n, substTy σ (.scalar n) = .scalar n) ∧
    (∀ o, substTy σ (.seq o none) = .seq o none) ∧ (∀ vs, substTy σ (.literal vs) = .literal vs) ∧
    (∀ n, substTy σ (.enum n) = .enum n) ∧ (∀ n b, substTy σ (.sub n b) = .sub n b) ∧
    (∀ a, substTy σ (.pattern a) = .pattern a) ∧
    substTy σ .ndarray = .ndarray ∧ (∀ s, substTy σ (.forwardRef s) = .forwardRef s) ∧
    (∀ w, substTy σ (.unsupported w) = .unsupported w) := by
  refine ⟨?_, ?_, ?_, ?_, ?_, ?_, ?_, ?_, ?_, ?_⟩ <;> intros <;> simp only [substTy]

/-- **C17 (substitution, identity).** On a type in typing-normal form (`c17_normalTy`: every union has
at least two members, none of them a union, pairwise distinct for the test `dedupTy` uses) none of
whose variables is bound by `σ`, `substTy σ` is the identity.  In particular: the empty substitution, and
any substitution on a type without type variables. -/
theorem C17_subst_id (σ : List (String × Ty)) (t : Ty) (hn : c17_normalTy t = true) :
    (c17_fresh σ t = true → substTy σ t = t) ∧ (c17_noVars t = true → substTy σ t = t) ∧ substTy [] t = t :=
  ⟨c17_subst_fresh σ t hn, fun h => c17_subst_fresh σ t hn (c17_fresh_of_noVars σ t h),
    c17_subst_fresh [] t hn (c17_fresh_nil t)⟩

/-- union-free types are in normal form: no side condition at all on that fragment -/
theorem C17_subst_id_unionFree (σ : List (String × Ty)) (t : Ty) (hu : c17_unionFree t = true) :
    (c17_noVars t = true → substTy σ t = t) ∧ substTy [] t = t :=
  ⟨(C17_subst_id σ t (c17_normal_of_unionFree t hu)).2.1, (C17_subst_id σ t (c17_normal_of_unionFree t hu)).2.2⟩

/-- **Counterexamples to the unrestricted claim `substTy [] t = t`**: a one-member union collapses, a
nested union is flattened, a duplicate member is dropped (the model re-normalises unions even under
the empty substitution; `typing` never hands such unions over). -/
theorem C17_subst_nil_counterexamples :
    substTy [] (.union [.scalar "int"]) = .scalar "int" ∧
    substTy [] (.union [.union [.scalar "int"]]) = .scalar "int" ∧
    substTy [] (.union [.scalar "int", .scalar "int"]) = .scalar "int" ∧
    substTy [] (.union [.scalar "int"]) ≠ .union [.scalar "int"] := by
  refine ⟨?_, ?_, ?_, ?_⟩
  · simp [substTys, substTy, dedupTy]
  · simp [substTys, substTy, dedupTy]
  · simp [substTys, substTy, dedupTy]
  · intro h
    have : substTy [] (.union [.scalar "int"]) = .scalar "int" := by
      simp [substTys, substTy, dedupTy]
    rw [this] at h
    cases h

/-
**C17_subst_compose** (full statement, NOT proved for unions):
  `∀ σ₁ σ₂ t, substTy σ₂ (substTy σ₁ t) = substTy (σ₁.map (fun (n, u) => (n, substTy σ₂ u)) ++ σ₂) t`.
It is FALSE in the model when a substituted type is a union that is not in normal form
(`C17_subst_compose_counterexample`), and on normal unions it needs "`toString (repr ·)` is injective on
`Ty`", which the kernel cannot see (`instReprTy.repr` is `opaque`).
-/

/-- **C17 (substitution, composition — union-free fragment).** Substituting `σ₁` and then `σ₂` is
substituting once with the composed substitution (the images of `σ₁` substituted by `σ₂`, then `σ₂` for
the variables `σ₁` does not bind): this is what makes `Leaf(Mid[int])`, `Mid(Base[list[U]])` resolve
`Base`'s `T` to `list[int]` at any depth.  `t` must be union-free; `σ₁`, `σ₂` are arbitrary. -/
theorem C17_subst_compose_partial (σ₁ σ₂ : List (String × Ty)) (t : Ty) (hu : c17_unionFree t = true) :
    substTy σ₂ (substTy σ₁ t) = substTy (σ₁.map (fun (n, u) => (n, substTy σ₂ u)) ++ σ₂) t :=
  c17_subst_comp σ₁ σ₂ t hu

/-- the composition law fails for a union when the second substitution brings in a union that is not
in normal form: sequentially the nested union is inserted as it is, simultaneously it is flattened -/
theorem C17_subst_compose_counterexample :
    let t : Ty := .union [.typeVar "T" none []]
    let σ₁ : List (String × Ty) := [("T", .typeVar "U" none [])]
    let σ₂ : List (String × Ty) := [("U", .union [.union [.scalar "int"]])]
    substTy σ₂ (substTy σ₁ t) = .union [.union [.scalar "int"]] ∧
    substTy (σ₁.map (fun (n, u) => (n, substTy σ₂ u)) ++ σ₂) t = .union [.scalar "int"] ∧
    substTy σ₂ (substTy σ₁ t) ≠ substTy (σ₁.map (fun (n, u) => (n, substTy σ₂ u)) ++ σ₂) t := by
  intro t σ₁ σ₂
  have h1 : substTy σ₂ (substTy σ₁ t) = .union [.union [.scalar "int"]] := by
    simp [t, σ₁, σ₂, c17_subst_union, c17_subst_typeVar, substTys, c17_flat, dedupTy, c17_collapse, List.lookup]
  have h2 : substTy (σ₁.map (fun (n, u) => (n, substTy σ₂ u)) ++ σ₂) t = .union [.scalar "int"] := by
    simp [t, σ₁, σ₂, c17_subst_union, c17_subst_typeVar, substTys, c17_flat, dedupTy, c17_collapse, List.lookup]
  refine ⟨h1, h2, ?_⟩
  rw [h1, h2]
  intro h
  injection h with h
  injection h with h _
  cases h

/-! ## The parent's subscription is applied to the inherited fields, once -/

/-- **C17 (bindings of a subscripted base).** The merged specs of `class D(P[args])` are the specs of
`P` with `substTy bound` applied to their types, updated with the own specs; the own specs' types are
those written in the body — `bound` does not touch them.  Pointwise: a name the body does not declare
has the parent's spec with the substituted type; a name the body declares has the own spec. -/
theorem C17_parent_subst_applied (d : ClassDeclM) (p : ClassM) (bound : List (String × Ty))
    (pp : List String) (c : ClassM) (h : processClass d (some p) bound pp = .ok c) :
    c.specs = specsUpdate (p.specs.map fun s => { s with ty := substTy bound s.ty })
      (bodySpecs c.opts.kwOnly (fun n => p.attrs.lookup n) d.body) ∧
    (bodySpecs c.opts.kwOnly (fun n => p.attrs.lookup n) d.body).map (·.ty) = (c17_bodyFields d.body).map (·.ty) ∧
    (bodySpecs c.opts.kwOnly (fun n => p.attrs.lookup n) d.body).map (·.name) = (c17_bodyFields d.body).map (·.name) ∧
    (∀ n, n ∉ (c17_bodyFields d.body).map (·.name) →
      c.specs.find? (·.name == n) =
        (p.specs.find? (·.name == n)).map fun s => { s with ty := substTy bound s.ty }) ∧
    (∀ n, n ∈ (c17_bodyFields d.body).map (·.name) →
      c.specs.find? (·.name == n) =
        (bodySpecs c.opts.kwOnly (fun n => p.attrs.lookup n) d.body).find? (·.name == n)) := by
  obtain ⟨_, hs, _⟩ := c17_processClass_ok d (some p) bound pp c h
  have hs' : c.specs = specsUpdate (p.specs.map fun s => { s with ty := substTy bound s.ty })
      (bodySpecs c.opts.kwOnly (fun n => p.attrs.lookup n) d.body) := hs
  have hnames := c17_bodySpecs_names (fun n => p.attrs.lookup n) d.body c.opts.kwOnly
  refine ⟨hs', c17_bodySpecs_tys _ d.body _, hnames, ?_, ?_⟩
  · intro n hn
    rw [hs', c17_specsUpdate_find_old _ _ n (by rw [hnames]; exact hn), List.find?_map]
    rfl
  · intro n hn
    rw [hs', c17_specsUpdate_find_new _ _ n (by rw [hnames]; exact hn)]

/-- **C17 (substitution is complete: "in EVERY field type").** When the images of `σ` mention none of
the variables `σ` binds (`Cls[int, str]`; a re-parameterisation `Cls[U]` with `U` not one of the class's
own parameters), no variable bound by `σ` occurs anywhere in `substTy σ t` — under sequences, tuples,
mappings, unions, annotations, the arguments of a subscripted dataclass `Other[T]` used as a field
type AND the values of a struct type literal `{'a': T}` (`c17c_occurs` inspects them: struct literals are
inside the covered fragment).  (This is the statement that fails for the source as it was before the repair D26, where
`Other[T]` was left alone: see the `example` below the theorem for the witness that now goes through.) -/
theorem C17_subst_complete (σ : List (String × Ty)) (hσ : c17c_closed σ) (t : Ty) :
    ∀ m, (σ.lookup m).isSome = true → c17c_occurs m (substTy σ t) = false :=
  c17c_subst_complete σ hσ t

/-- … hence for the processed class `D(P[args])`: a field inherited from `P` (not redeclared) mentions no
variable the subscription binds. -/
theorem C17_subst_complete_class (d : ClassDeclM) (p : ClassM) (bound : List (String × Ty))
    (pp : List String) (c : ClassM) (h : processClass d (some p) bound pp = .ok c) (hσ : c17c_closed bound)
    (n : String) (hn : n ∉ (c17_bodyFields d.body).map (·.name)) (s : SpecM)
    (hs : c.specs.find? (·.name == n) = some s) :
    ∀ m, (bound.lookup m).isSome = true → c17c_occurs m s.ty = false := by
  have h4 := (C17_parent_subst_applied d p bound pp c h).2.2.2.1 n hn
  rw [hs] at h4
  cases hp : p.specs.find? (·.name == n) with
  | none => rw [hp] at h4; cases h4
  | some s0 =>
    rw [hp] at h4
    simp only [Option.map_some, Option.some.injEq] at h4
    subst h4
    exact c17c_subst_complete bound hσ s0.ty

-- non-vacuity: `T ↦ int` is closed, and `Other[T]` (a field type) loses its `T`
example : c17c_closed [("T", .scalar "int")] ∧
    c17c_occurs "T" (.cls "Other" [.typeVar "T" none []]) = true ∧
    c17c_occurs "T" (substTy [("T", .scalar "int")] (.cls "Other" [.typeVar "T" none []])) = false := by
  refine ⟨?_, by simp [c17c_occurs, c17c_occurss], C17_subst_complete _ ?_ _ "T" (by simp [List.lookup])⟩ <;>
  · intro k u hk m hm
    simp only [List.lookup] at hk
    split at hk
    · cases hk; simp [c17c_occurs]
    · cases hk

-- non-vacuity for struct type literals: `{'a': T, 'b': list[T]}` mentions `T`, and loses it
example : c17c_occurs "T" (.structLit ["a", "b"] [.typeVar "T" none [], .seq "list" (some (.typeVar "T" none []))]) = true ∧
    c17c_occurs "T" (substTy [("T", .scalar "int")]
      (.structLit ["a", "b"] [.typeVar "T" none [], .seq "list" (some (.typeVar "T" none []))])) = false := by
  refine ⟨by simp [c17c_occurs, c17c_occurss], C17_subst_complete _ ?_ _ "T" (by simp [List.lookup])⟩
  intro k u hk m hm
  simp only [List.lookup] at hk
  split at hk
  · cases hk; simp [c17c_occurs]
  · cases hk

/-- a root class (no parent): the merged specs are the own specs -/
theorem C17_root_specs (d : ClassDeclM) (bound : List (String × Ty)) (pp : List String) (c : ClassM)
    (h : processClass d none bound pp = .ok c) :
    c.specs = bodySpecs c.opts.kwOnly (fun _ => none) d.body := by
  obtain ⟨_, hs, _⟩ := c17_processClass_ok d none bound pp c h
  rw [hs]
  unfold c17_merged c17_inherited
  rw [c17_specsUpdate_eq]
  simp only [List.map_nil, List.nil_append, List.any_nil, Bool.not_false]
  exact List.filter_eq_self.2 (fun _ _ => rfl)

/-- **C17 (any depth).** Two levels of generic inheritance, `Mid(Base[…])` with bindings `σ₁` and
`Leaf(Mid[…])` with bindings `σ₂`: a field of `Base` that neither `Mid` nor `Leaf` redeclares has, in
`Leaf`, the type of `Base`'s spec under the COMPOSED substitution (for a union-free declared type; with
unions it is `substTy σ₂ (substTy σ₁ ·)`). -/
theorem C17_subst_depth (dM dL : ClassDeclM) (base mid leaf : ClassM) (σ₁ σ₂ : List (String × Ty))
    (pp₁ pp₂ : List String) (hM : processClass dM (some base) σ₁ pp₁ = .ok mid)
    (hL : processClass dL (some mid) σ₂ pp₂ = .ok leaf) (n : String) (s : SpecM)
    (hnM : n ∉ (c17_bodyFields dM.body).map (·.name)) (hnL : n ∉ (c17_bodyFields dL.body).map (·.name))
    (hs : base.specs.find? (·.name == n) = some s) :
    leaf.specs.find? (·.name == n) = some { s with ty := substTy σ₂ (substTy σ₁ s.ty) } ∧
    (c17_unionFree s.ty = true →
      leaf.specs.find? (·.name == n) =
        some { s with ty := substTy (σ₁.map (fun (n, u) => (n, substTy σ₂ u)) ++ σ₂) s.ty }) := by
  have h1 := (C17_parent_subst_applied dM base σ₁ pp₁ mid hM).2.2.2.1 n hnM
  have h2 := (C17_parent_subst_applied dL mid σ₂ pp₂ leaf hL).2.2.2.1 n hnL
  rw [hs] at h1
  rw [h1] at h2
  refine ⟨by rw [h2]; rfl, fun hu => ?_⟩
  rw [h2, ← C17_subst_compose_partial σ₁ σ₂ s.ty hu]
  rfl

/-! ## Subscripting -/

/-- **C17 (`Cls[args]`).** Succeeds exactly for a generic class and the right number of arguments, and
binds the parameters pointwise; otherwise `TypeError`. -/
theorem C17_subscript (c : ClassM) (args : List Ty) (σ : List (String × Ty)) :
    (subscriptBound c args = .ok σ ↔
      c.params ≠ [] ∧ args.length = c.params.length ∧ σ = c.params.zip args) ∧
    ((c.params = [] ∨ args.length ≠ c.params.length) → ∃ msg, subscriptBound c args = .error (.typeError msg)) := by
  unfold subscriptBound
  constructor
  · constructor
    · intro h
      split at h
      · cases h
      · split at h
        · cases h
        · rename_i h1 h2
          cases h
          exact ⟨by simpa using h1, by simpa using h2, rfl⟩
    · rintro ⟨h1, h2, rfl⟩
      have : c.params.isEmpty = false := by cases hp : c.params with
        | nil => exact absurd hp h1
        | cons _ _ => rfl
      simp [this, h2]
  · intro h
    split
    · exact ⟨_, rfl⟩
    · split
      · exact ⟨_, rfl⟩
      · rename_i h1 h2
        rcases h with h | h
        · simp [h] at h1
        · simp [h] at h2

/-! ## `__parameters__` -/

/-- **C17 (type parameters of a subclass).** With the merge the source uses (`dedupKeepDeclared`): the
declared `Generic[...]` parameters if they re-declare all the inherited ones, else the inherited ones
followed by the declared ones that are new; never a duplicate. -/
theorem C17_parameters (hF : Facts.paramMerge = some "dedupKeepDeclared") (old declared : List String) :
    ((∀ x ∈ old, x ∈ declared) → mergeParams Facts.paramMerge old declared = declared) ∧
    (¬ (∀ x ∈ old, x ∈ declared) →
      mergeParams Facts.paramMerge old declared = old ++ declared.filter (fun x => !old.contains x)) ∧
    (old.Nodup → declared.Nodup → (mergeParams Facts.paramMerge old declared).Nodup) := by
  rw [hF]
  refine ⟨?_, ?_, c17_mergeParams_nodup old declared⟩
  · intro h
    rw [c17_mergeParams_dedup, if_pos]
    rw [List.all_eq_true]
    intro x hx
    simpa using h x hx
  · intro h
    rw [c17_mergeParams_dedup, if_neg]
    intro hall
    apply h
    intro x hx
    simpa using List.all_eq_true.1 hall x hx

theorem C17_parameters' (old declared : List String) :
    ((∀ x ∈ old, x ∈ declared) → mergeParams Facts.paramMerge old declared = declared) ∧
    (¬ (∀ x ∈ old, x ∈ declared) →
      mergeParams Facts.paramMerge old declared = old ++ declared.filter (fun x => !old.contains x)) ∧
    (old.Nodup → declared.Nodup → (mergeParams Facts.paramMerge old declared).Nodup) :=
  C17_parameters C17_facts.1 old declared

/-- the processed class carries exactly that merge of the (subscripted) parent's parameters and its own -/
theorem C17_parameters_class (d : ClassDeclM) (parent : Option ClassM) (bound : List (String × Ty))
    (pp : List String) (c : ClassM) (h : processClass d parent bound pp = .ok c) :
    c.params = mergeParams Facts.paramMerge pp d.tvars :=
  (c17_processClass_ok d parent bound pp c h).2.2.2.1

/-- **Negation witness.** The plain concatenation (the form before the repair, D18) duplicates a
re-declared parameter: `class Child(Base[V], Generic[V])`. -/
theorem C17_parameters_concat_duplicates :
    mergeParams (some "concat") ["V"] ["V"] = ["V", "V"] ∧ ¬ (mergeParams (some "concat") ["V"] ["V"]).Nodup := by
  refine ⟨rfl, ?_⟩
  rw [c17_mergeParams_concat]
  decide

/-! ## Class options -/

/-- **C17 (options are inherited unless overridden).** For `Opts.apply o ov inh = .ok o'` (`o` = the
parent's options, `ov` = the keyword arguments of the class statement; `processClass` passes
`inh = (Facts.classHandlersInherit == some true)`, which is `true`): every plain option is the override
if given, else the parent's value; `rename=r` sets both `in_rename = [r]` and `out_rename = r`; the
class handlers are the `custom=` argument if given, else the parent's.  The ONLY error is `rename`
together with `in_rename` / `out_rename` (`ValueError`).  (`Facts.replaceSkipsNone` — `opts.replace`
ignores `None` changes — is what makes `Opts.apply` the model of `opts.replace(**changes)`; it is
carried as a hypothesis so that the theorem is re-checked against the source.) -/
theorem C17_options_inherit
    (hF : Facts.classHandlersInherit = some true ∧ Facts.replaceSkipsNone = some true)
    (o : Opts) (ov : OptsOverride) :
    (∀ o', o.apply ov (Facts.classHandlersInherit == some true) = .ok o' →
      o'.outFormat = ov.outFormat.getD o.outFormat ∧ o'.inFormat = ov.inFormat.getD o.inFormat ∧
      o'.eq = ov.eq.getD o.eq ∧ o'.order = ov.order.getD o.order ∧ o'.frozen = ov.frozen.getD o.frozen ∧
      o'.unsafeHash = ov.unsafeHash.getD o.unsafeHash ∧ o'.kwOnly = ov.kwOnly.getD o.kwOnly ∧
      o'.allowExtra = ov.allowExtra.getD o.allowExtra ∧
      o'.inRename = ((ov.rename.map fun r => [r]).or ov.inRename).or o.inRename ∧
      o'.outRename = (ov.rename.or ov.outRename).or o.outRename ∧
      o'.classHandlers = (match ov.custom with | some hs => hs | none => o.classHandlers)) ∧
    ((∃ e, o.apply ov (Facts.classHandlersInherit == some true) = .error e) ↔
      ov.rename.isSome = true ∧ (ov.inRename.isSome = true ∨ ov.outRename.isSome = true)) ∧
    (∀ e, o.apply ov (Facts.classHandlersInherit == some true) = .error e → ∃ msg, e = .valueError msg) := by
  rw [hF.1]
  rw [c17_apply_eq]
  refine ⟨?_, ?_, ?_⟩
  · intro o' h
    split at h
    · cases h
    · cases h
      refine ⟨rfl, rfl, rfl, rfl, rfl, rfl, rfl, rfl, rfl, rfl, ?_⟩
      cases ov.custom <;> rfl
  · constructor
    · rintro ⟨e, h⟩
      split at h
      · rename_i hc; simpa using hc
      · cases h
    · intro hc
      rw [if_pos (by simpa using hc)]
      exact ⟨_, rfl⟩
  · intro e h
    split at h
    · cases h; exact ⟨_, rfl⟩
    · cases h

theorem C17_options_inherit' (o : Opts) (ov : OptsOverride) :
    (∀ o', o.apply ov (Facts.classHandlersInherit == some true) = .ok o' →
      o'.outFormat = ov.outFormat.getD o.outFormat ∧ o'.inFormat = ov.inFormat.getD o.inFormat ∧
      o'.eq = ov.eq.getD o.eq ∧ o'.order = ov.order.getD o.order ∧ o'.frozen = ov.frozen.getD o.frozen ∧
      o'.unsafeHash = ov.unsafeHash.getD o.unsafeHash ∧ o'.kwOnly = ov.kwOnly.getD o.kwOnly ∧
      o'.allowExtra = ov.allowExtra.getD o.allowExtra ∧
      o'.inRename = ((ov.rename.map fun r => [r]).or ov.inRename).or o.inRename ∧
      o'.outRename = (ov.rename.or ov.outRename).or o.outRename ∧
      o'.classHandlers = (match ov.custom with | some hs => hs | none => o.classHandlers)) ∧
    ((∃ e, o.apply ov (Facts.classHandlersInherit == some true) = .error e) ↔
      ov.rename.isSome = true ∧ (ov.inRename.isSome = true ∨ ov.outRename.isSome = true)) ∧
    (∀ e, o.apply ov (Facts.classHandlersInherit == some true) = .error e → ∃ msg, e = .valueError msg) :=
  C17_options_inherit ⟨C17_facts.2.1, C17_facts.2.2⟩ o ov

/-- `rename=r` spelled out; and without `rename=` the two styles are inherited separately -/
theorem C17_options_rename (o o' : Opts) (ov : OptsOverride) (inh : Bool) (h : o.apply ov inh = .ok o') :
    (∀ r, ov.rename = some r → o'.inRename = some [r] ∧ o'.outRename = some r) ∧
    (ov.rename = none → o'.inRename = ov.inRename.or o.inRename ∧ o'.outRename = ov.outRename.or o.outRename) := by
  rw [c17_apply_eq] at h
  split at h
  · cases h
  · cases h
    constructor
    · intro r hr; simp [hr]
    · intro hr; simp [hr]

/-- **Negation witness.** Were a missing `custom=` NOT to inherit (`inh = false`), a subclass would lose
its parent's class handlers. -/
theorem C17_options_handlers_not_inherited (o o' : Opts) (ov : OptsOverride) (hc : ov.custom = none)
    (h : o.apply ov false = .ok o') : o'.classHandlers = [] := by
  rw [c17_apply_eq] at h
  split at h
  · cases h
  · cases h; simp [hc]

/-- the options of a processed class are the parent's (the defaults for a root class) with the class
statement's keyword arguments applied -/
theorem C17_options_class (d : ClassDeclM) (parent : Option ClassM) (bound : List (String × Ty))
    (pp : List String) (c : ClassM) (h : processClass d parent bound pp = .ok c) :
    (match parent with | some p => p.opts | none => ({} : Opts)).apply d.opts
      (Facts.classHandlersInherit == some true) = .ok c.opts :=
  (c17_processClass_ok d parent bound pp c h).1

/-! ## Errors at class creation -/

/-- **C17 (creation errors, `posBounds`).** (a) a mandatory positional field after an optional positional
one, (b) a mandatory keyword-only field while `"tuple"` is an input format: `TypeError`, wherever the
fields stand and whatever the counters; and `posBounds` never fails otherwise than with `TypeError`. -/
theorem C17_creation_errors_posBounds (inF : List String) :
    (∀ (pre mid post : List FieldInfo) (g f : FieldInfo) (mn mx : Nat) (seen : Bool),
      g.init = true → g.kwOnly = false → g.hasDefault = true →
      f.init = true → f.kwOnly = false → f.hasDefault = false →
      ∃ msg, posBounds inF (pre ++ g :: (mid ++ f :: post)) mn mx seen = .error (.typeError msg)) ∧
    (∀ (pre post : List FieldInfo) (f : FieldInfo) (mn mx : Nat) (seen : Bool),
      inF.contains "tuple" = true → f.init = true → f.kwOnly = true → f.hasDefault = false →
      ∃ msg, posBounds inF (pre ++ f :: post) mn mx seen = .error (.typeError msg)) ∧
    (∀ fs mn mx seen e, posBounds inF fs mn mx seen = .error e → ∃ msg, e = .typeError msg) :=
  ⟨fun pre mid post g f mn mx seen gi gk gd hi hk hd =>
      c17_posBounds_mandatory_after_optional inF g f mid post gi gk gd hi hk hd pre mn mx seen,
    fun pre post f mn mx seen ht hi hk hd => c17_posBounds_kwonly_tuple inF f post ht hi hk hd pre mn mx seen,
    c17_posBounds_error_kind inF⟩

/-- (c) at the level of `make_field`: a name that cannot be split, no explicit `out_name` / `rename`,
under a class output style: `ValueError`; and `mapM` fails as soon as one element does -/
theorem C17_creation_errors_makeField (s : SpecM) (inR : Option (List String)) (st : String) (b : Bool)
    (h1 : s.outName = none) (h2 : s.rename = none) (h3 : renameField s.name st = none) :
    (∃ msg, makeField s inR (some st) b = .error (.valueError msg)) ∧
    (∀ specs : List SpecM, s ∈ specs → ∃ e, specs.mapM (fun s => makeField s inR (some st) b) = .error e) := by
  have h := c17_makeField_rename_error s inR st b h1 h2 h3
  refine ⟨⟨_, h⟩, fun specs hs => ?_⟩
  obtain ⟨e', _, _, _, hm⟩ := c17_mapM_fails (fun s => makeField s inR (some st) b) specs s _ hs h
  exact ⟨e', hm⟩

/-- **C17 (creation errors, `processClass`).** With `opts` the effective options and
`specs = c17_merged d parent bound opts` the merged specs (inherited, substituted, updated with the own
ones): the class is NOT created — `processClass` returns an error — when
(a) in field order (`c17_order`) a mandatory positional `init` spec follows an optional positional one;
(b) some `init` spec is keyword-only and mandatory while `"tuple" ∈ in_format`;
(c) under a class output-rename style some own or inherited spec without explicit `out_name`/`rename`
has a name `rename_field` cannot split.
In (a), (b) the error is a `TypeError` unless `make_field` already failed on some spec; in (c) it is the
"Unable to interpret field" `ValueError` of some spec, or `make_field`'s "only one of" `TypeError`. -/
theorem C17_creation_errors (d : ClassDeclM) (parent : Option ClassM) (bound : List (String × Ty))
    (pp : List String) (opts : Opts)
    (ho : (match parent with | some p => p.opts | none => ({} : Opts)).apply d.opts
      (Facts.classHandlersInherit == some true) = .ok opts) :
    (∀ (pre mid post : List SpecM) (g f : SpecM),
      c17_order (·.kwOnly) (c17_merged d parent bound opts) = pre ++ g :: (mid ++ f :: post) →
      g.init = true → g.kwOnly = false → c17_specHasDefault g = true →
      f.init = true → f.kwOnly = false → c17_specHasDefault f = false →
      ∃ e, processClass d parent bound pp = .error e ∧
        ((c17_merged d parent bound opts).mapM (c17_mk opts) = .error e ∨ ∃ msg, e = .typeError msg)) ∧
    (∀ f ∈ c17_merged d parent bound opts, opts.inFormat.contains "tuple" = true →
      f.init = true → f.kwOnly = true → c17_specHasDefault f = false →
      ∃ e, processClass d parent bound pp = .error e ∧
        ((c17_merged d parent bound opts).mapM (c17_mk opts) = .error e ∨ ∃ msg, e = .typeError msg)) ∧
    (∀ (st : String) (s : SpecM), opts.outRename = some st → s ∈ c17_merged d parent bound opts →
      s.outName = none → s.rename = none → renameField s.name st = none →
      ∃ e, processClass d parent bound pp = .error e ∧
        ((∃ s' ∈ c17_merged d parent bound opts, e = c17_renameErr s'.name) ∨
          e = .typeError "Can only specify one of 'rename', 'aliases', and 'in_names'")) := by
  have ho' : c17_effOpts d parent = .ok opts := ho
  refine ⟨?_, ?_, ?_⟩
  · intro pre mid post g f hsp gi gk gd hi hk hd
    exact c17_processClass_mandatory_after_optional d parent bound pp opts ho' pre mid post g f hsp gi gk gd hi hk hd
  · intro f hmem ht hi hk hd
    exact c17_processClass_kwonly_tuple d parent bound pp opts ho' ht f hmem hi hk hd
  · intro st s hst hmem h1 h2 h3
    exact c17_processClass_rename_error d parent bound pp opts ho' st hst s hmem h1 h2 h3

/-- the same, read on a class that WAS created: none of the three situations occurs in it -/
theorem C17_created_class_ok (d : ClassDeclM) (parent : Option ClassM) (bound : List (String × Ty))
    (pp : List String) (c : ClassM) (h : processClass d parent bound pp = .ok c) :
    (∀ (pre mid post : List FieldInfo) (g f : FieldInfo), c.fields = pre ++ g :: (mid ++ f :: post) →
      g.init = true → g.kwOnly = false → g.hasDefault = true → f.init = true → f.kwOnly = false →
      f.hasDefault = true) ∧
    (c.opts.inFormat.contains "tuple" = true → ∀ f ∈ c.fields, f.init = true → f.kwOnly = true →
      f.hasDefault = true) ∧
    (∀ st, c.opts.outRename = some st → ∀ s ∈ c.specs, s.outName = none → s.rename = none →
      (renameField s.name st).isSome = true) := by
  obtain ⟨_, _, _, _, hp, fields0, hm, _⟩ := c17_processClass_ok d parent bound pp c h
  refine ⟨?_, ?_, ?_⟩
  · intro pre mid post g f hf gi gk gd hi hk
    cases hd : f.hasDefault with
    | true => rfl
    | false =>
      obtain ⟨msg, he⟩ := c17_posBounds_mandatory_after_optional c.opts.inFormat g f mid post gi gk gd hi hk hd
        pre 0 0 false
      rw [← hf, hp] at he
      cases he
  · intro ht f hmem hi hk
    cases hd : f.hasDefault with
    | true => rfl
    | false =>
      obtain ⟨pre, post, hf⟩ := List.append_of_mem hmem
      obtain ⟨msg, he⟩ := c17_posBounds_kwonly_tuple c.opts.inFormat f post ht hi hk hd pre 0 0 false
      rw [← hf, hp] at he
      cases he
  · intro st hst s hmem h1 h2
    cases h3 : renameField s.name st with
    | some _ => rfl
    | none =>
      exfalso
      obtain ⟨f, _, hf⟩ := c17_All2_mem (c17_mapM_ok _ _ _ hm) s hmem
      have : c17_mk c.opts s = .error (c17_renameErr s.name) := by
        unfold c17_mk; rw [hst]; exact c17_makeField_rename_error s _ st _ h1 h2 h3
      rw [this] at hf
      cases hf

/-! ## Non-vacuity

The example classes (`c17_Base`, `c17_Child`, `c17_Mid`, `c17_Leaf`, `c17_Kw`, `c17_KwSub`, the refused
`c17_BadADecl` … `c17_BadCDecl`) are defined at the end of `Lemmas/PaneProofsC17.lean`. -/

-- C17_specs_update: `Child(Base[int])` — `y`, `z` overridden in place, `w` appended
example : c17_Base.specs.map (·.name) = ["x", "y", "z"] := by decide
example : c17_Child.specs.map (·.name) = ["x", "y", "z", "w"] := by decide
example : c17_Child.specs.map (·.kwOnly) = [false, true, false, true] := by decide
example : ((specsUpdate c17_Base.specs (bodySpecs false (fun _ => none) c17_ChildDecl.body)).map (·.name)).Nodup :=
  (C17_specs_update _ _).2.2.2 (by decide) (by decide)
example : (specsUpdate c17_Base.specs (bodySpecs false (fun _ => none) c17_ChildDecl.body)).find? (·.name == "y") =
    (bodySpecs false (fun _ => none) c17_ChildDecl.body).find? (·.name == "y") :=
  (C17_specs_update _ _).2.1 "y" (by decide)
example : (specsUpdate c17_Base.specs (bodySpecs false (fun _ => none) c17_ChildDecl.body)).find? (·.name == "x") =
    c17_Base.specs.find? (·.name == "x") :=
  (C17_specs_update _ _).2.2.1 "x" (by decide)

-- C17_fields_order: keyword-only `y`, `w` behind the positional `x`, `z`; types and converters follow
example : c17_Child.fields.map (·.name) = ["x", "z", "y", "w"] := by decide
example : c17_Child.fields.map (·.name) =
    (c17_Child.specs.filter (fun s => !s.kwOnly)).map (·.name) ++ (c17_Child.specs.filter (·.kwOnly)).map (·.name) :=
  (C17_fields_order _ _ _ _ _ c17_ChildOk).1
example : c17_Child.fieldTys.map Ty.head = ["int", "int", "list", "str"] := by decide
example : c17_Child.fields.map (·.kwOnly) = [false, false, true, true] := by decide
example : (c17_Child.minPos, c17_Child.maxPos) = (1, 2) := by decide
example : c17_Child.fieldTys.length = c17_Child.fields.length := (C17_fields_order _ _ _ _ _ c17_ChildOk).2.2.2.2.1

-- C17_kw_marker / C17_kw_class_option
example : (bodySpecs false (fun _ => none) c17_ChildDecl.body).map (·.kwOnly) = [false, true, true] := by decide
example : ∀ s ∈ bodySpecs true (fun _ => none) [.field { name := "w", ty := c17_str }], s.kwOnly = true :=
  (C17_kw_marker false (fun _ => none) [{ name := "z", ty := c17_int }] [.field { name := "w", ty := c17_str }]).2.1
example : c17_Kw.fields.map (·.kwOnly) = [false, false, true, true, true] := by decide
-- … and the class-level `kw_only=True` of `Kw` is inherited by `KwSub`: its field `other_one` is keyword-only
example : c17_KwSub.fields.map (·.kwOnly) = [false, false, true, true, true, true] := by decide

-- C17_inherited_default: `z: int` re-annotated bare in `Child` takes `Base`'s class attribute `z = 3`
example : c17_Base.attrs.map (·.1) = ["z"] := by decide
example : ((c17_Child.specs.find? (·.name == "z")).map fun s =>
    match s.default with | .value (.int 3) => true | _ => false) = some true := by decide
example : c17_ownDefault (fun n => c17_Base.attrs.lookup n) { name := "z", ty := c17_int } = .value (.int 3) :=
  (C17_inherited_default_head false _ { name := "z", ty := c17_int } []).2.1 rfl rfl (.int 3) (by rfl)
-- through `field()` it does not: the default stays missing, and `ChildVia` is refused (mandatory `z` after `y`)
example : c17_ownDefault (fun n => c17_Base.attrs.lookup n) { name := "z", ty := c17_int, viaFieldSpec := true } =
    .missing :=
  (C17_inherited_default_head false _ { name := "z", ty := c17_int, viaFieldSpec := true } []).2.2.1 rfl
example : c17_err (processClass c17_ChildViaDecl (some c17_Base) c17_bInt []) =
    some (.typeError "Mandatory field 'z' follows optional field") := by decide

-- C17_subst
example : substTy c17_bInt (c17_list c17_T) = c17_list c17_int := by
  simp [c17_bInt, c17_list, c17_T, substTy, List.lookup]
example : substTy c17_bInt (.mapping "dict" [c17_str, .tupleFixed [c17_T, c17_U]]) =
    .mapping "dict" [c17_str, .tupleFixed [c17_int, c17_U]] := by
  simp [c17_bInt, c17_T, c17_U, c17_str, substTy, substTys, List.lookup]
example : c17_normalTy (.mapping "dict" [c17_str, .tupleFixed [c17_T, c17_U]]) = true := by decide
example : substTy [] (.mapping "dict" [c17_str, .tupleFixed [c17_T, c17_U]]) =
    .mapping "dict" [c17_str, .tupleFixed [c17_T, c17_U]] :=
  (C17_subst_id [] _ (by decide)).2.2
example : substTy c17_bInt (c17_list c17_str) = c17_list c17_str :=
  (C17_subst_id c17_bInt _ (by decide)).2.1 (by decide)
-- a union in normal form (`Optional[T]`): its members must be told apart by `repr`, which the kernel
-- cannot evaluate, so the distinctness is a hypothesis here
example (h : toString (repr (Ty.scalar "NoneType")) ≠ toString (repr c17_U)) :
    substTy c17_bInt (.union [c17_U, .scalar "NoneType"]) = .union [c17_U, .scalar "NoneType"] :=
  (C17_subst_id c17_bInt _ (by simpa [c17_normalTy, c17_normalTys, c17_distinct, c17_isUnion, c17_U] using h)).1 (by decide)

-- C17_subst_compose_partial / C17_subst_depth: `Leaf(Mid[int])`, `Mid(Base[list[U]])`
example : substTy c17_bUInt (substTy c17_bListU (c17_list c17_T)) =
    substTy (c17_bListU.map (fun (n, u) => (n, substTy c17_bUInt u)) ++ c17_bUInt) (c17_list c17_T) :=
  C17_subst_compose_partial _ _ _ (by decide)
example : c17_Leaf.fieldTys.map Ty.head = ["list", "list", "int", "bool"] := by decide
example : c17_Leaf.specs.find? (·.name == "y") =
    some { name := "y", ty := substTy c17_bUInt (substTy c17_bListU (c17_list c17_T)),
           default := .factory "list", viaFieldSpec := true } :=
  ((C17_subst_depth c17_MidDecl c17_LeafDecl c17_Base c17_Mid c17_Leaf c17_bListU c17_bUInt ["U"] []
    c17_MidOk c17_LeafOk "y" _ (by decide) (by decide) (by rfl)).1)
example : substTy c17_bUInt (substTy c17_bListU (c17_list c17_T)) = c17_list (c17_list c17_int) := by
  simp [c17_bUInt, c17_bListU, c17_list, c17_T, c17_U, substTy, List.lookup]


-- C17_parent_subst_applied: in `Child(Base[int])` the inherited `x: T` is `x: int`; the own `w: str` is as written
example : c17_Child.specs.find? (·.name == "x") =
    (c17_Base.specs.find? (·.name == "x")).map fun s => { s with ty := substTy c17_bInt s.ty } :=
  (C17_parent_subst_applied _ _ _ _ _ c17_ChildOk).2.2.2.1 "x" (by decide)
example : (c17_Child.specs.find? (·.name == "x")).map (·.ty.head) = some "int" := by decide
example : (c17_Base.specs.find? (·.name == "x")).map (·.ty.head) = some "T" := by decide
example : (c17_Child.specs.find? (·.name == "w")).map (·.ty.head) = some "str" := by decide
example : c17_Base.specs = bodySpecs c17_Base.opts.kwOnly (fun _ => none) c17_BaseDecl.body :=
  C17_root_specs _ _ _ _ c17_BaseOk

-- C17_subscript: `Base[int]` binds `T`; `Base[int, str]` and `Child[int]` (not generic) are refused
example : c17_Base.params = ["T"] := by decide
example : subscriptBound c17_Base [c17_int] = .ok c17_bInt :=
  (C17_subscript c17_Base [c17_int] c17_bInt).1.2 ⟨by decide, by decide, rfl⟩
example : ∃ msg, subscriptBound c17_Base [c17_int, c17_str] = .error (.typeError msg) :=
  (C17_subscript c17_Base [c17_int, c17_str] []).2 (.inr (by decide))
example : ∃ msg, subscriptBound c17_Child [c17_int] = .error (.typeError msg) :=
  (C17_subscript c17_Child [c17_int] []).2 (.inl (by decide))
example : subscriptBound c17_Mid [c17_int] = .ok c17_bUInt :=
  (C17_subscript c17_Mid [c17_int] c17_bUInt).1.2 ⟨by decide, by decide, rfl⟩

-- C17_parameters: `class Mid(Base[list[U]], Generic[U])` has parameters `[U]`; the repaired D18 case
example : c17_Mid.params = ["U"] := by decide
example : c17_Mid.params = mergeParams Facts.paramMerge ["U"] ["U"] := C17_parameters_class _ _ _ _ _ c17_MidOk
example : mergeParams Facts.paramMerge ["V"] ["V"] = ["V"] := (C17_parameters' ["V"] ["V"]).1 (fun _ h => h)
example : mergeParams Facts.paramMerge ["K", "V"] ["V", "W"] = ["K", "V", "W"] :=
  ((C17_parameters' ["K", "V"] ["V", "W"]).2.1 (by decide)).trans (by decide)
example : (mergeParams Facts.paramMerge ["K", "V"] ["V", "W"]).Nodup :=
  (C17_parameters' ["K", "V"] ["V", "W"]).2.2 (by decide) (by decide)
example : mergeParams (some "concat") ["V"] ["V"] = ["V", "V"] := C17_parameters_concat_duplicates.1

-- C17_options_inherit: `Kw(Child, kw_only=True, frozen=False, rename='camel')`, `KwSub(Kw)`
example : (c17_Kw.opts.kwOnly, c17_Kw.opts.frozen, c17_Kw.opts.eq, c17_Kw.opts.inRename, c17_Kw.opts.outRename) =
    (true, false, true, some ["camel"], some "camel") := by decide
example : (c17_KwSub.opts.kwOnly, c17_KwSub.opts.frozen, c17_KwSub.opts.inRename, c17_KwSub.opts.outRename) =
    (true, false, some ["camel"], some "camel") := by decide
example : c17_KwSub.fields.map (·.outName) = ["x", "z", "y", "w", "someField", "otherOne"] := by decide
example : c17_Kw.opts.frozen = (c17_KwDecl.opts.frozen).getD c17_Child.opts.frozen :=
  ((C17_options_inherit' c17_Child.opts c17_KwDecl.opts).1 c17_Kw.opts
    (C17_options_class _ _ _ _ _ c17_KwOk)).2.2.2.2.1
example : ∃ e, ({} : Opts).apply { rename := some "camel", outRename := some "snake" }
    (Facts.classHandlersInherit == some true) = .error e :=
  (C17_options_inherit' {} { rename := some "camel", outRename := some "snake" }).2.1.2 ⟨rfl, .inr rfl⟩
example : (({ classHandlers := [⟨[("int", "conv")], true⟩] } : Opts).apply {} true).toOption.map
    (·.classHandlers.length) = some 1 := by decide
example : (({ classHandlers := [⟨[("int", "conv")], true⟩] } : Opts).apply {} false).toOption.map
    (·.classHandlers.length) = some 0 := by decide

-- C17_creation_errors
-- (a) `class BadA(Base[int]): q: int`
example : c17_err (processClass c17_BadADecl (some c17_Base) c17_bInt []) =
    some (.typeError "Mandatory field 'q' follows optional field") := by decide
example : ∃ e, processClass c17_BadADecl (some c17_Base) c17_bInt [] = .error e ∧
    ((c17_merged c17_BadADecl (some c17_Base) c17_bInt c17_Base.opts).mapM (c17_mk c17_Base.opts) = .error e ∨
      ∃ msg, e = .typeError msg) :=
  (C17_creation_errors c17_BadADecl (some c17_Base) c17_bInt [] c17_Base.opts (by rfl)).1
    [{ name := "x", ty := c17_int }]
    [{ name := "z", ty := c17_int, default := .value (.int 3) }] []
    { name := "y", ty := c17_list c17_int, default := .factory "list", viaFieldSpec := true }
    { name := "q", ty := c17_int } (by rfl) rfl rfl rfl rfl rfl rfl
-- (b) `class BadB(Base[int], in_format=('tuple',)): _: KW_ONLY; k: int`
example : c17_err (processClass c17_BadBDecl (some c17_Base) c17_bInt []) =
    some (.typeError "Field 'k' is kw_only but mandatory. This is incompatible with the 'tuple' in_format.") := by
  decide
example : ∃ e, processClass c17_BadBDecl (some c17_Base) c17_bInt [] = .error e ∧
    ((c17_merged c17_BadBDecl (some c17_Base) c17_bInt { inFormat := ["tuple"] }).mapM
        (c17_mk { inFormat := ["tuple"] }) = .error e ∨ ∃ msg, e = .typeError msg) := by
  have hm : c17_merged c17_BadBDecl (some c17_Base) c17_bInt { inFormat := ["tuple"] } =
      [{ name := "x", ty := c17_int },
       { name := "y", ty := c17_list c17_int, default := .factory "list", viaFieldSpec := true },
       { name := "z", ty := c17_int, default := .value (.int 3) },
       { name := "k", ty := c17_int, kwOnly := true }] := by rfl
  exact (C17_creation_errors c17_BadBDecl (some c17_Base) c17_bInt [] { inFormat := ["tuple"] } (by rfl)).2.1
    { name := "k", ty := c17_int, kwOnly := true } (by rw [hm]; simp) (by decide) rfl rfl rfl
-- (c) `class BadC(Base[int], out_rename='camel'): __q__: int = 0`
example : renameField "__q__" "camel" = none := by decide
example : c17_err (processClass c17_BadCDecl (some c17_Base) c17_bInt []) =
    some (.valueError "Unable to interpret field '__q__' for automatic rename") := by decide
-- the classes that were created have none of the three defects
example : ∀ f ∈ c17_Child.fields, f.init = true → f.kwOnly = false → f.hasDefault = false → f.name = "x" := by
  decide

-- (c) through the theorem
example : ∃ e, processClass c17_BadCDecl (some c17_Base) c17_bInt [] = .error e ∧
    ((∃ s' ∈ c17_merged c17_BadCDecl (some c17_Base) c17_bInt { outRename := some "camel" },
        e = c17_renameErr s'.name) ∨
      e = .typeError "Can only specify one of 'rename', 'aliases', and 'in_names'") := by
  have hm : c17_merged c17_BadCDecl (some c17_Base) c17_bInt { outRename := some "camel" } =
      [{ name := "x", ty := c17_int },
       { name := "y", ty := c17_list c17_int, default := .factory "list", viaFieldSpec := true },
       { name := "z", ty := c17_int, default := .value (.int 3) },
       { name := "__q__", ty := c17_int, default := .value (.int 0) }] := by rfl
  exact (C17_creation_errors c17_BadCDecl (some c17_Base) c17_bInt [] { outRename := some "camel" } (by rfl)).2.2
    "camel" { name := "__q__", ty := c17_int, default := .value (.int 0) } rfl (by rw [hm]; simp) rfl rfl (by decide)
example : ∃ msg, makeField { name := "__q__", ty := c17_int } none (some "camel") true = .error (.valueError msg) :=
  (C17_creation_errors_makeField { name := "__q__", ty := c17_int } none "camel" true rfl rfl (by decide)).1
example : ∃ msg, posBounds ["struct"]
    [{ name := "a", inNames := ["a"], outName := "a", default := .value (.int 1) },
     { name := "b", inNames := ["b"], outName := "b" }] 0 0 false = .error (.typeError msg) :=
  (C17_creation_errors_posBounds ["struct"]).1 [] [] []
    { name := "a", inNames := ["a"], outName := "a", default := .value (.int 1) }
    { name := "b", inNames := ["b"], outName := "b" } 0 0 false rfl rfl rfl rfl rfl rfl
example : ∃ msg, posBounds ["struct", "tuple"]
    [{ name := "a", inNames := ["a"], outName := "a", kwOnly := true }] 0 0 false = .error (.typeError msg) :=
  (C17_creation_errors_posBounds ["struct", "tuple"]).2.1 [] []
    { name := "a", inNames := ["a"], outName := "a", kwOnly := true } 0 0 false (by decide) rfl rfl rfl
-- without "tuple" the same field is fine
example : posBounds ["struct"] [{ name := "a", inNames := ["a"], outName := "a", kwOnly := true }] 0 0 false =
    .ok (0, 0) := by rfl
example : ∀ st, c17_KwSub.opts.outRename = some st → ∀ s ∈ c17_KwSub.specs, s.outName = none → s.rename = none →
    (renameField s.name st).isSome = true :=
  (C17_created_class_ok _ _ _ _ _ c17_KwSubOk).2.2

-- remaining theorems
example : (specsUpdate c17_Base.specs (bodySpecs false (fun _ => none) c17_ChildDecl.body))[1]?.map (·.kwOnly) =
    some true := by
  rw [C17_specs_update_in_place _ _ 1 (by decide)]; decide
example : c17_Child.info.fields.map (·.name) = ["x", "z", "y", "w"] := by
  rw [(C17_info_fields c17_Child).1]; decide
example : ∀ s ∈ bodySpecs true (fun _ => none) c17_KwDecl.body, s.kwOnly = true :=
  (C17_kw_class_option _ _).1
example : ∃ s, .field s ∈ c17_ChildDecl.body ∧ s.name = "w" :=
  let ⟨s, h1, h2, _⟩ := C17_inherited_default false (fun n => c17_Base.attrs.lookup n) c17_ChildDecl.body
    { name := "w", ty := c17_str, kwOnly := true } (by simp [c17_ChildDecl, bodySpecs]; rfl)
  ⟨s, h1, h2.symm⟩
example : substTy c17_bInt c17_T = c17_int := (C17_subst c17_bInt).1 "T" none [] c17_int (by rfl)
example : substTy c17_bInt c17_U = c17_U := (C17_subst c17_bInt).2.1 "U" none [] (by rfl)
-- `cls` arguments are descended into (D26): `Other[T]` becomes `Other[int]` under `T ↦ int`
example : substTy c17_bInt (.cls "Other" [c17_T]) = .cls "Other" [c17_int] := by
  rw [(C17_subst c17_bInt).2.2.2.2.2.2.2.2 "Other" [c17_T]]; rfl
example : substTy c17_bInt (c17_list c17_str) = c17_list c17_str := (C17_subst_id_unionFree _ _ (by decide)).1 (by decide)
example : c17_Kw.opts.inRename = some ["camel"] ∧ c17_Kw.opts.outRename = some "camel" :=
  (C17_options_rename _ _ _ _ (C17_options_class _ _ _ _ _ c17_KwOk)).1 "camel" rfl
example : ∀ o', ({ classHandlers := [⟨[("int", "conv")], true⟩] } : Opts).apply {} false = .ok o' →
    o'.classHandlers = [] := fun o' h => C17_options_handlers_not_inherited _ o' {} rfl h
example : ∀ o', ({ classHandlers := [⟨[("int", "conv")], true⟩] } : Opts).apply {}
    (Facts.classHandlersInherit == some true) = .ok o' → o'.classHandlers.length = 1 := fun o' h => by
  rw [((C17_options_inherit' _ {}).1 o' h).2.2.2.2.2.2.2.2.2.2]; rfl

/-! ## Axioms -/

#print axioms C17_facts
#print axioms C17_specs_update
#print axioms C17_specs_update_in_place
#print axioms C17_fields_order
#print axioms C17_info_fields
#print axioms C17_kw_marker
#print axioms C17_kw_class_option
#print axioms C17_inherited_default
#print axioms C17_inherited_default_head
#print axioms C17_subst
#print axioms C17_subst_other
#print axioms C17_subst_structLit
#print axioms C17_subst_id
#print axioms C17_subst_id_unionFree
#print axioms C17_subst_nil_counterexamples
#print axioms C17_subst_compose_partial
#print axioms C17_subst_compose_counterexample
#print axioms C17_parent_subst_applied
#print axioms C17_subst_complete
#print axioms C17_subst_complete_class
#print axioms C17_root_specs
#print axioms C17_subst_depth
#print axioms C17_subscript
#print axioms C17_parameters
#print axioms C17_parameters'
#print axioms C17_parameters_class
#print axioms C17_parameters_concat_duplicates
#print axioms C17_options_inherit
#print axioms C17_options_inherit'
#print axioms C17_options_rename
#print axioms C17_options_handlers_not_inherited
#print axioms C17_options_class
#print axioms C17_creation_errors_posBounds
#print axioms C17_creation_errors_makeField
#print axioms C17_creation_errors
#print axioms C17_created_class_ok

end PaneModel