"""Runs the REAL pane (in-process, PYTHONPATH=/repo) on scenarios and canonicalises the outcome.

`prepare(scen)` builds the live objects a scenario declares and derives the model-facing `env`
(class entries read from the live `__pane_info__`, the table of external-call results computed
with the real stdlib, `str()` of odd keys, factory products).  `run(scen, ctx)` executes the op.
"""
import pathlib
import datetime
import collections, copy, datetime, enum, gc, io, json, os, re, sys, traceback, types, typing as t, warnings
from decimal import Decimal
from fractions import Fraction

warnings.simplefilter('ignore')

import pane
from pane import PaneBase, field as pane_field
from pane.annotations import Condition, Tagged
import pane.annotations as A
from pane.convert import make_converter, ConverterHandlers
from pane.converters import Converter
from pane.errors import ConvertError, ParseInterrupt, UnsupportedAnnotation
from pane.util import KW_ONLY

import importlib
_MISSING = importlib.import_module('pane.field')._MISSING

import scen as S
from scen import Ctx, enc_tree, canon

STOCK = {id(getattr(A, n)): n for n in ('Positive', 'Negative', 'NonPositive', 'NonNegative', 'Finite', 'Empty', 'NonEmpty')}
STOCK_FMT = {'Positive': {'adjective': ['positive', 'a']}, 'Negative': {'adjective': ['negative', 'a']},
             'NonPositive': {'adjective': ['non-positive', 'a']}, 'NonNegative': {'adjective': ['non-negative', 'a']},
             'Finite': {'adjective': ['finite', 'a']}, 'Empty': {'adjective': ['empty', 'a']},
             'NonEmpty': {'adjective': ['non-empty', 'a']}}


# ------------------------------------------------------------------------------------------------
# custom (tagging) converters for C18, mirrored in Driver.lean (customTryImpl …)
class TagConv(Converter):
    def __init__(self, cid):
        self.cid = cid
        self.kind, self.arg = cid.split(':')

    def expected(self, plural=False):
        return 'custom ' + self.cid

    def _apply(self, val):
        if self.kind == 'tagint' and type(val) is int:
            return val * int(self.arg)
        if self.kind == 'tagstr' and type(val) is str:
            return val + self.arg
        return None

    def try_convert(self, val):
        r = self._apply(val)
        if r is None:
            raise ParseInterrupt()
        return r

    def collect_errors(self, val):
        from pane.errors import WrongTypeError
        if self._apply(val) is None:
            return WrongTypeError(self.expected(), val)
        return None

    def into_data(self, val):
        r = self._apply(val)
        return val if r is None else r


def hook_fn(hid):
    """named __post_init__ hooks, mirrored in Driver.lean (namedHook)"""
    if hid == 'raise_always':
        def h(self):
            raise TypeError('hook failed')
    elif hid.startswith('reject_neg:'):
        f = hid[len('reject_neg:'):]
        def h(self):
            v = getattr(self, f, None)
            if type(v) is int and v < 0:
                raise ValueError('negative ' + f)
    elif hid.startswith('touch:'):
        f = hid[len('touch:'):]
        def h(self):
            v = getattr(self, f, None)
            if type(v) is dict:
                v.pop('__touched', None)
                v['__touched'] = 1
            elif type(v) is list:
                v.append(0)
    elif hid.startswith('fill:'):
        f = hid[len('fill:'):]
        def h(self):
            object.__setattr__(self, f, 0)
    elif hid.startswith('need_set:'):
        # a hook that READS the record of set fields: valid only when exactly k fields were supplied
        k = int(hid[len('need_set:'):])
        def h(self):
            if len(self.__pane_set__) != k:
                raise ValueError('need_set')
    elif hid.startswith('assign:'):
        # the same through a PLAIN assignment (classes that are not frozen): `PaneBase.__setattr__` runs, which needs the instance
        # to be fully set up when the hook is called -- on every path.  (The record of set fields is left as it was.)
        f = hid[len('assign:'):]
        def h(self):
            was = f in self.__pane_set__
            setattr(self, f, 0)
            if not was:
                self.__pane_set__.discard(f)
    else:
        raise ValueError(hid)
    return h


class LiveCtx(Ctx):
    def __init__(self):
        super().__init__()
        self.tvars = {}
        self.class_decl = {}
        self.handler_desc = {}   # id(live handler) -> descriptor
        self.shared_fns = {}     # share key -> the one function object
        self.used = {}           # class key -> live class (everything describe() met)

    def tvar(self, name, bound=None, cons=()):
        if name not in self.tvars:
            self.tvars[name] = t.TypeVar(name, *[self.ty(c) for c in cons], **({'bound': self.ty(bound)} if bound is not None else {}))
        return self.tvars[name]

    def ty(self, j):
        if isinstance(j, dict) and 'typevar' in j:
            return self.tvar(*j['typevar'])
        return super().ty(j)

    def custom(self, cid):
        if cid not in self.customs:
            self.customs[cid] = TagConv(cid)
        return self.customs[cid]

    def handlers(self, hs):
        """handlers descriptor -> what is passed as custom=…"""
        if not hs:
            return None
        out = []
        for h in hs:
            out.append(self.handler(h))
        return out[0] if len(out) == 1 else out

    def handler(self, h):
        if h.get('exactOnly'):
            d = {self.head_type(head): self.custom(cid) for head, cid in h['entries']}
            if h.get('share'):
                # ONE long-lived mapping object passed to several calls, its contents CHANGED in between: the handlers of a
                # call are what the mapping holds at that call
                live = self.shared_fns.get(h['share'])
                if live is None:
                    self.shared_fns[h['share']] = live = {}
                live.clear()
                live.update(d)
                d = live
            self.handler_desc[id(d)] = h
            return d
        if h.get('share') and h['share'] in self.shared_fns:
            # ONE function object used in several places (a call's custom= and a class's custom=)
            return self.shared_fns[h['share']]
        table = {self.head_type(head): self.custom(cid) for head, cid in h['entries']}
        def fn(ty, args, *, handlers):
            if ty in table:
                return table[ty]
            return NotImplemented
        self.handler_desc[id(fn)] = h
        if h.get('share'):
            self.shared_fns[h['share']] = fn
        return fn

    def head_type(self, head):
        if head in S.SCALARS:
            return S.SCALARS[head]
        if head in self.enums:
            return self.enums[head]
        if head in self.subs:
            return self.subs[head][0]
        if head in self.classes:
            return self.classes[head]
        return {'list': list, 'tuple': tuple, 'dict': dict, 'set': set, 'frozenset': frozenset,
                'Sequence': collections.abc.Sequence, 'Mapping': collections.abc.Mapping}[head]

    # ---- dataclasses ---------------------------------------------------------------------------------
    def add_class(self, d):
        name = d['name']
        ann = {}
        ns = {}
        for f in d['fields']:
            if f['ty'] == 'KW_ONLY':
                ann[f['name']] = KW_ONLY
                continue
            ann[f['name']] = self.ty(f['ty'])
            spec = dict(f.get('spec') or {})
            dflt = f.get('default')
            if 'converter' in spec:
                spec['converter'] = self.custom(spec['converter'])
            as_list = spec.pop('in_names_as_list', False)
            for k in ('in_names', 'aliases'):
                if k in spec and spec[k] is not None:
                    spec[k] = list(spec[k]) if (as_list and k == 'in_names') else tuple(spec[k])
            if spec:
                if dflt is not None:
                    if 'value' in dflt:
                        spec['default'] = self.dec(dflt['value'])
                    else:
                        spec['default_factory'] = S.FACTORIES[dflt['factory']]
                ns[f['name']] = pane_field(**spec)
            elif dflt is not None:
                if 'value' in dflt:
                    ns[f['name']] = self.dec(dflt['value'])
                else:
                    ns[f['name']] = pane_field(default_factory=S.FACTORIES[dflt['factory']])
        ns['__annotations__'] = ann
        ns['__module__'] = __name__
        if d.get('explicit_hash'):
            ns['__hash__'] = lambda self: 7
        if d.get('explicit_eq'):
            ns['__eq__'] = lambda self, other: self is other
        if d.get('hook'):
            ns['__post_init__'] = hook_fn(d['hook'])
        bases = []
        if d.get('base'):
            bname, bargs = d['base']['cls']
            b = self.classes[bname]
            bases.append(b[tuple(self.ty(a) for a in bargs)] if bargs else b)
        else:
            bases.append(PaneBase)
        # further bases (mixins): {'cls': [name, args], 'first': bool}
        for m in d.get('mixins', []):
            mname, margs = m['cls']
            mb = self.classes[mname]
            mb = mb[tuple(self.ty(a) for a in margs)] if margs else mb
            if m.get('first'):
                bases.insert(0, mb)
            else:
                bases.append(mb)
        if len(bases) > 1 and PaneBase in bases:
            bases.remove(PaneBase)
        if d.get('tvars'):
            bases.append(t.Generic[tuple(self.tvar(n) for n in d['tvars'])])
        kw = dict(d.get('opts') or {})
        if 'in_format' in kw:
            kw['in_format'] = tuple(kw['in_format'])
        if 'in_rename' in kw and isinstance(kw['in_rename'], list):
            kw['in_rename'] = tuple(kw['in_rename'])
        if 'custom' in kw:
            kw['custom'] = self.handlers(kw['custom'])
        if d.get('mixins') or d.get('want_mro'):
            # the linearisation (C3) of the bases, as `_process` will walk it: the pane classes of reversed(mro[1:]).
            # Computed BEFORE the class statement runs (which may raise), from the bases' own `__mro__`.
            mro = []
            for base in reversed(c3_merge([list(b.__mro__) for b in bases if b is not t.Generic and t.get_origin(b) is not t.Generic]
                                          + [[b for b in bases if b is not t.Generic and t.get_origin(b) is not t.Generic]])):
                if not hasattr(base, '__pane_info__'):
                    continue
                bv = base.__dict__.get('__pane_boundvars__')
                if bv is not None:
                    mro.append({'alias': [base.__dict__['__origin__'].__name__, [[k.__name__, self.describe(v)] for k, v in bv.items()]]})
                else:
                    mro.append({'decl': base.__name__})
            d['mro'] = mro
        cls = types.new_class(name, tuple(bases), kw, lambda n: n.update(ns))
        self.classes[name] = cls
        self.class_decl[name] = d
        if 'mro' in d:
            live = [b for b in cls.__mro__[1:] if hasattr(b, '__pane_info__')]
            assert len(live) == len(d['mro']), 'harness: C3 linearisation differs from Python\'s'
        return cls

    def hook_of(self, cls):
        for k in cls.__mro__:
            d = self.class_decl.get(k.__name__)
            if d is not None and k.__dict__.get('__post_init__') is not None and d.get('hook'):
                return d['hook']
        return None

    # ---- live type -> descriptor -----------------------------------------------------------------------
    def describe(self, T):
        if T is t.Any:
            return 'any'
        if isinstance(T, t.TypeVar):
            return {'typevar': [T.__name__, None if T.__bound__ is None else self.describe(T.__bound__),
                                [self.describe(c) for c in T.__constraints__]]}
        if isinstance(T, dict):
            return {'struct': [[k, self.describe(v)] for k, v in T.items()]}
        if isinstance(T, tuple):
            return {'tuplit': [self.describe(v) for v in T]}
        if isinstance(T, (t.ForwardRef, str)):
            return {'fwd': str(T)}
        base = t.get_origin(T) or T
        args = t.get_args(T)
        if base is t.Annotated:
            return {'ann': [self.describe(args[0]), [self.describe_ann(a) for a in T.__metadata__]]}
        if base is t.Union or base is getattr(types, 'UnionType', None):
            return {'union': [self.describe(a) for a in args]}
        if base is t.Literal:
            return {'lit': [self.enc(a) for a in args]}
        if not isinstance(base, type):
            return {'unsupported': str(base)}
        for n, c in S.SCALARS.items():
            if base is c:
                return n
        for n, c in S.PATHS.items():
            if base is c:
                return n
        if base is re.Pattern:
            return {'pattern': None if not args else ('str' if args[0] is str else 'bytes' if args[0] is bytes else 'other')}
        if S.np is not None and base is S.np.ndarray:
            return 'ndarray'
        if base.__name__ == 'ValueOrList' and base.__module__ == 'pane.types':
            return {'vol': self.describe(args[0]) if args else None}
        if issubclass(base, enum.Enum):
            return {'enum': base.__name__}
        if base.__name__ in self.subs and self.subs[base.__name__][0] is base:
            return {'sub': [base.__name__, self.subs[base.__name__][1]]}
        if issubclass(base, PaneBase):
            origin = base.__dict__.get('__origin__')
            if origin is not None:
                bv = base.__dict__.get('__pane_boundvars__', {})
                params = [self.describe(p) for p in bv.values()]
                desc = {'cls': [origin.__name__, params]}
                if '__origin__' in origin.__dict__:
                    # subscripted more than once (`P[List[V], W][T, int]`): the arguments of the un-subscripted class are those of
                    # the earlier subscription with this one's bindings substituted
                    d0 = self.describe(origin)
                    by_name = {getattr(k, '__name__', str(k)): self.describe(v) for k, v in bv.items()}
                    def _subst(j):
                        if isinstance(j, dict) and 'typevar' in j and j['typevar'][0] in by_name:
                            return by_name[j['typevar'][0]]
                        if isinstance(j, dict):
                            return {k: _subst(v) for k, v in j.items()}
                        if isinstance(j, list):
                            return [_subst(x) for x in j]
                        return j
                    desc = _subst(d0)
            else:
                desc = {'cls': [base.__name__, [self.describe(a) for a in args]]}
                if args:
                    base = base[tuple(args)]
            self.used[cls_key(desc)] = base
            return desc
        if issubclass(base, tuple):
            if len(args) > 0 and args[-1] is not Ellipsis or args == () and hasattr(T, '__args__'):
                return {'tuple': [self.describe(a) for a in (() if args == ((),) else args)]}
            return {'seq': ['tuple', self.describe(args[0]) if args else None]}
        nm = base.__name__
        if nm in S.SEQ_BARE:
            return {'seq': [nm, self.describe(args[0]) if args else None]}
        if nm in S.MAP_BARE:
            return {'map': [nm, [self.describe(a) for a in args]]}
        return {'unsupported': nm}

    def describe_ann(self, a):
        if isinstance(a, Tagged):
            lay = 'internal' if a.external is False else 'external' if a.external is True else list(a.external)
            return {'tagged': [a.tag, lay]}
        if isinstance(a, Condition):
            if id(a) in STOCK:
                n = STOCK[id(a)]
                return {'cond': {'stock': n, 'name': a.cond_name()}, 'fmt': STOCK_FMT[n]}
            if id(a) in self.conds:
                return self.conds[id(a)]
        return {'foreign': True}

    def class_entry(self, key, cls):
        info = cls.__pane_info__
        fields = []
        for f in info.fields:
            if f.default is not _MISSING:
                dflt = {'value': self.enc(f.default)}
            elif f.default_factory is not None:
                dflt = {'factory': next((k for k, v in S.FACTORIES.items() if v is f.default_factory), 'unknown')}
            else:
                dflt = 'missing'
            fields.append({'name': f.name, 'inNames': list(f.in_names), 'outName': f.out_name, 'init': f.init,
                           'exclude': f.exclude, 'kwOnly': f.kw_only, 'default': dflt, 'compare': f.compare,
                           'hash': f.hash, 'repr': f.repr})
        ch = []
        for h in info.opts.class_handlers:
            d = self.handler_desc.get(id(h))
            if d is None and getattr(h, '__closure__', None):
                for cell in h.__closure__:
                    d = d or self.handler_desc.get(id(cell.cell_contents))
            ch.append(d or {'entries': [], 'exactOnly': False})
        return {'key': key,
                'info': {'name': cls.__name__, 'fields': fields, 'inFormat': list(info.opts.in_format),
                         'outFormat': info.opts.out_format, 'allowExtra': info.opts.allow_extra,
                         'minPos': info.pos_args[0], 'maxPos': info.pos_args[1], 'hook': self.hook_of(cls)},
                'fieldTys': [self.describe(f.type) for f in info.fields],
                'fieldConv': [None if f.converter is None else getattr(f.converter, 'cid', 'unknown') for f in info.fields],
                'classHandlers': ch}


def c3_merge(seqs):
    """the C3 merge of linearisations (textbook algorithm; checked against Python's own `__mro__` after creation)"""
    seqs = [list(s) for s in seqs if s]
    out = []
    while True:
        seqs = [s for s in seqs if s]
        if not seqs:
            return out
        for s in seqs:
            cand = s[0]
            if not any(cand in o[1:] for o in seqs):
                break
        else:
            raise TypeError('inconsistent MRO')
        out.append(cand)
        for s in seqs:
            if s and s[0] is cand:
                del s[0]


def cls_key(desc):
    name, args = desc['cls']
    if not args:
        return name
    return name + '[' + ','.join(ty_head(a) for a in args) + ']'


def ty_head(j):
    if j == 'any':
        return 'Any'
    if j == 'ndarray':
        return 'ndarray'
    if isinstance(j, str):
        return j
    (k, v), = j.items()
    return {'seq': lambda: v[0], 'tuple': lambda: 'tuple', 'map': lambda: v[0], 'union': lambda: 'Union', 'lit': lambda: 'Literal',
            'enum': lambda: v, 'sub': lambda: v[0], 'struct': lambda: 'dict', 'tuplit': lambda: 'tuple', 'cls': lambda: v[0],
            'ann': lambda: 'Annotated', 'typevar': lambda: v[0], 'pattern': lambda: 'Pattern', 'fwd': lambda: 'ForwardRef',
            'unsupported': lambda: v}[k]()


# ------------------------------------------------------------------------------------------------
def leaves(x, out, depth=0):
    """scalar leaves (and dict keys) of a python value"""
    if isinstance(x, (list, tuple, set, frozenset, collections.deque)):
        for v in x:
            leaves(v, out, depth + 1)
    elif isinstance(x, collections.abc.Mapping):      # dict, and mappings that are not dicts (UserDict, mappingproxy)
        for k, v in x.items():
            out.setdefault('keys', []).append(k)
            leaves(k, out, depth + 1)
            leaves(v, out, depth + 1)
    elif isinstance(x, PaneBase) and depth < 6:
        # a dataclass instance: its field values (whatever they hold: it may have been built unchecked)
        for f in type(x).__pane_info__.fields:
            try:
                leaves(getattr(x, f.name), out, depth + 1)
            except AttributeError:
                pass
    else:
        out.setdefault('scalars', []).append(x)


def _exc_entry(e):
    cls = type(e).__name__
    return {'err': [cls, ''.join(traceback.format_exception_only(type(e), e)).strip()]}


def ext_tables(ctx, values, tys_json, bounds=()):
    """results of every external call the model may make on these values, computed with the real stdlib"""
    text = json.dumps(tys_json)
    lv = {}
    for v in values:
        leaves(v, lv)
    scalars = lv.get('scalars', [])
    # numeric widenings (what a delegate's inner converter hands to a subclass constructor)
    extra = []
    for s in scalars:
        if type(s) in (int, bool):
            try:
                extra.append(float(s))
            except OverflowError:
                pass
            if type(s) is bool:
                extra.append(int(s))
        if type(s) is str and any(f'"{d}"' in text for d in ('datetime', 'date', 'time')):
            # the typed values a date/time target parses this text to: a later pass (a union's serialiser probing its members, a
            # second conversion) hands them to the converters as OBJECTS
            for cls_ in (datetime.datetime, datetime.date, datetime.time):
                try:
                    extra.append(cls_.fromisoformat(s))
                except (ValueError, TypeError):
                    pass
        if type(s) is bytearray:
            extra.append(bytes(s))
        if type(s) is bytes:
            extra.append(bytearray(s))
    for s in list(scalars) + list(extra):
        # … and what the converter's own conversions between date/time objects give (one more level)
        if isinstance(s, datetime.datetime):
            extra += [s.date(), s.time()]
        elif isinstance(s, datetime.date):
            extra.append(datetime.datetime.combine(s, datetime.time()))
    cands = []
    seen = set()
    for s in scalars + extra:
        key = (type(s).__name__, repr(s))
        if key not in seen and isinstance(s, (type(None), bool, int, float, complex, str, bytes, bytearray, Decimal, Fraction, pathlib.PurePath,
                                               datetime.date, datetime.time)):
            seen.add(key)
            cands.append(s)
    fns = []
    if 'Decimal' in text:
        fns.append(('Decimal', Decimal, (int, str, float, Decimal)))
    if 'Fraction' in text:
        fns.append(('Fraction', Fraction, (int, str, float, Decimal, Fraction)))
    for pname, pcls in S.PATHS.items():
        if pname in text:
            target = S.PATHS['Path:PurePath'] if pname == 'Path:PathLike' else pcls
            fns.append((pname if pname != 'Path:PathLike' else 'Path:PurePath', target, (str, pathlib.PurePath)))
    for d in ('datetime', 'date', 'time'):
        if f'"{d}"' in text:
            fns.append(('fromiso:' + d, S.SCALARS[d].fromisoformat, (str,)))
    # DatetimeConverter's conversions between date/time objects (`val.date()`, `val.time()`, `datetime.combine(val, time())`)
    fns.append(('dt:date', lambda v: v.date(), (datetime.datetime,)))
    fns.append(('dt:time', lambda v: v.time(), (datetime.datetime,)))
    fns.append(('dt:combine', lambda v: datetime.datetime.combine(v, datetime.time()), (datetime.date,)))
    if 'pattern' in text:
        fns.append(('re.compile', re.compile, (str, bytes)))
    for name, (cls, base) in ctx.subs.items():
        if base in S.SCALARS:
            fns.append(('sub:' + name, cls, (S.SCALARS[base],)))
    fns.append(('float', float, (int,)))
    fns.append(('complex', complex, (int,)))
    # a built-in scalar's serialiser is its constructor (`int(x)`, `str(x)` …): on a value of ANOTHER kind (an instance
    # that was built unchecked) the model asks for the result
    cross = {'int': (float, str, complex, Decimal, Fraction, type(None), bytes), 'float': (str, complex, Decimal, Fraction, type(None), bytes),
             'complex': (str, Decimal, Fraction, type(None), bytes), 'str': (bool, int, float, complex, type(None), bytes, bytearray, Decimal, Fraction),
             'bool': (int, float, complex, str, type(None), bytes, bytearray, Decimal, Fraction)}
    for fn, kinds in cross.items():
        fns.append((fn, {'int': int, 'float': float, 'complex': complex, 'str': str, 'bool': bool}[fn], kinds))
    out = []
    numerics = {}
    done = set()
    for fn, f, accepts in fns:
        for s in cands:
            if not isinstance(s, accepts) or (fn in ('float', 'complex') and type(s) in (int, bool) and (type(s) is bool or abs(s) < 2 ** 53)):
                continue
            if fn in cross and type(s) is bool and bool not in accepts:
                continue
            if (fn, type(s).__name__, repr(s)) in done:
                continue
            done.add((fn, type(s).__name__, repr(s)))
            try:
                r = f(s)
                out.append([fn, ctx.enc(s), {'ok': ctx.enc(r)}])
            except Exception as e:  # noqa
                out.append([fn, ctx.enc(s), _exc_entry(e)])
                continue
            if fn in ('Decimal', 'Fraction'):
                numerics[repr(r)] = r
    import math as _m, operator as _op
    bset = {}
    for b in [0] + list(bounds):
        if type(b) in (int, float, bool):
            bset[repr(b)] = b
    for r in numerics.values():
        for brepr, b in bset.items():
            for sym, o in (('>', _op.gt), ('>=', _op.ge), ('<', _op.lt), ('<=', _op.le), ('==', _op.eq), ('!=', _op.ne)):
                try:
                    out.append(['cmp:' + sym + ':' + brepr, ctx.enc(r), {'ok': bool(o(r, b))}])
                except Exception as e:  # noqa
                    out.append(['cmp:' + sym + ':' + brepr, ctx.enc(r), _exc_entry(e)])
        try:
            out.append(['isfinite', ctx.enc(r), {'ok': _m.isfinite(r)}])
        except Exception as e:  # noqa
            out.append(['isfinite', ctx.enc(r), _exc_entry(e)])
    strs = []
    seen = set()
    tops = [v for v in values if isinstance(v, (tuple, float, complex, bytes, Decimal, Fraction))]
    for k in lv.get('keys', []) + tops + [s for s in cands if isinstance(s, (float, complex, bytes, Decimal, Fraction))]:
        key = (type(k).__name__, repr(k))
        if key in seen or type(k) in (type(None), bool, int, str):
            continue
        seen.add(key)
        try:
            strs.append([ctx.enc(k), str(k)])
            strs.append([{'wrap': ['repr', ctx.enc(k)]}, repr(k)])
        except Exception:
            pass
    return out, strs


def _conds_of(j):
    """the condition expressions occurring in a type descriptor, in order (canonical text)"""
    out = []
    def strip(c):
        if isinstance(c, dict):
            return {k: strip(v) for k, v in c.items() if k not in ('_live', '_range')}
        if isinstance(c, list):
            return [strip(x) for x in c]
        return c
    def walk(x):
        if isinstance(x, dict):
            if 'cond' in x and isinstance(x['cond'], dict):
                out.append(json.dumps(strip(x['cond']), sort_keys=True))
            for v in x.values():
                walk(v)
        elif isinstance(x, list):
            for v in x:
                walk(v)
    walk(j)
    return out


def prepare(scen):
    """build live objects; derive scen['env'] for the model"""
    ctx = LiveCtx()
    ctx.spell = scen.get('spell', 0)
    decl = scen.get('decl') or {}
    for e in decl.get('enums', []):
        ctx.add_enum(*e)
    for name, base, attrs in decl.get('subs', []):
        ctx.add_sub(name, base, {k: ctx.dec(v) for k, v in (attrs or {}).items()})
    create_err = None
    for d in decl.get('classes', []):
        try:
            ctx.add_class(d)
        except Exception as e:  # class creation refused: recorded, ops on it will say so
            create_err = [d['name'], type(e).__name__]
            break
    env = {'enums': [[n, [ctx.enc(m.value) for m in c.__members__.values()]] for n, c in ctx.enums.items()],
           'attrs': [[n, k, ctx.enc(v)] for n, (c, b) in ctx.subs.items() for k, v in vars(c).items() if not k.startswith('__')],
           'factories': [[k, ctx.enc(f())] for k, f in S.FACTORIES.items()]}
    # classes: declared ones plus every subscripted/nested one reachable from their field types and from the op's type
    for name, cls in list(ctx.classes.items()):
        ctx.used[name] = cls
    for pre in scen.get('pre', []):
        # the types of the EARLIER conversions come into being first (a memo of subscripted classes is filled by the subscription)
        try:
            ctx.ty(pre['ty'])
        except Exception:  # noqa
            pass
    tys = [scen[k] for k in ('ty',) if k in scen] + list(scen.get('tys', []))
    for tj in tys:
        try:
            live = ctx.ty(tj)
            desc = ctx.describe(live)
            if tj is scen.get('ty') and scen.get('stream') == 'twins-generic' and isinstance(tj, dict) and tj.get('cls') and tj['cls'][1]:
                # C10: `G[X]` is the class whose variable is bound to X, whatever was subscripted before: its description must be
                # the one composed from the description of X itself (typing's own normalisation acts on both alike)
                want = {'cls': [tj['cls'][0], [ctx.describe(ctx.ty(a)) for a in tj['cls'][1]]]}
                if canon(want) != canon(desc):
                    scen.setdefault('_oracle_pre', {})['c10'] = (f'{tj["cls"][0]}[…] subscripted with {json.dumps(want["cls"][1])[:200]} after an equal-comparing '
                                                                 f'spelling is the class of {json.dumps(desc)[:200]}')
            if tj is scen.get('ty') and not create_err and '"unsupported"' not in json.dumps(desc) and '"foreign"' not in json.dumps(desc):
                # the model is given the type AS TYPING BUILT IT (typing normalises and caches: Union flattening /
                # de-duplication, order-insensitive equality of Literal inside cached generic aliases, …)
                scen['ty_declared'] = tj
                scen['ty'] = desc
                scen['_live_ty'] = live
                # typing may normalise unions and literals, but a Condition must stay the one that was written: two
                # conditions that mean different things must never be interchangeable (equal / same hash) for typing's caches
                want, got = _conds_of(tj), _conds_of(desc)
                if want != got:
                    scen['_oracle_pre'] = {'c13': f'the type was written with condition(s) {want} but the type object that was built carries {got}'}
        except Exception:
            pass
    entries = {}
    for _ in range(8):
        todo = [k for k in ctx.used if k not in entries]
        if not todo:
            break
        for k in todo:
            entries[k] = ctx.class_entry(k, ctx.used[k])
    env['classes'] = list(entries.values())
    if scen.get('registered'):
        env['registered'] = scen['registered']
    scen['env'] = env
    scen['_create_err'] = create_err
    return ctx


def _lits(j, out, bounds=None):
    if isinstance(j, list):
        for x in j:
            _lits(x, out, bounds)
    elif isinstance(j, dict):
        if 'lit' in j and isinstance(j['lit'], list):
            out.extend(j['lit'])
        if isinstance(j.get('default'), dict) and 'value' in j['default']:
            out.append(j['default']['value'])      # class-field defaults get serialised too
        if 'valCmp' in j and bounds is not None:
            bounds.append(j['valCmp'][1])
        for v in j.values():
            _lits(v, out, bounds)


def finish_env(scen, ctx, values):
    """external-call tables for the given live values (input and, for round trips, intermediate results)"""
    values = list(values)
    lits = []
    bounds = []
    _lits([scen.get('ty'), scen.get('tys'), (scen.get('decl') or {}).get('classes'), scen.get('decls')], lits, bounds)
    scen['_bounds'] = bounds
    for e in (scen.get('decl') or {}).get('enums', []):
        lits.extend(e[1])
    for l in lits:
        try:
            values.append(ctx.dec(l))
        except Exception:
            pass
    tys_json = [scen.get('ty'), scen.get('tys'), scen['env'].get('classes')]
    ext, strs = ext_tables(ctx, values, tys_json, [ctx.dec(b) for b in scen.get('_bounds', [])])
    have = {json.dumps(e[:2], sort_keys=True) for e in scen['env'].get('ext', [])}
    scen['env'].setdefault('ext', []).extend(e for e in ext if json.dumps(e[:2], sort_keys=True) not in have)
    haves = {json.dumps(e[0], sort_keys=True) for e in scen['env'].get('strs', [])}
    scen['env'].setdefault('strs', []).extend(e for e in strs if json.dumps(e[0], sort_keys=True) not in haves)


# ------------------------------------------------------------------------------------------------
def result_of(ctx, f):
    try:
        return {'value': ctx.enc(f())}
    except ConvertError as e:
        return {'convertError': enc_tree(ctx, e.tree)}
    except BaseException as e:  # noqa
        return {'raises': map_exc(e)}


def map_exc(e):
    n = type(e).__name__
    if isinstance(e, re.error):
        return 'error'
    if isinstance(e, AttributeError):
        return 'AttributeError'
    return n if n in ('KeyError', 'TypeError', 'ValueError', 'OverflowError', 'AttributeError', 'ZeroDivisionError',
                      'AssertionError', 'RuntimeError') else 'other'


def register_globals(scen, ctx):
    """`register_converter_handler`: the scenario's process-wide handlers, registered for the duration of the scenario.  The
    memo of make_converter does not know about them (documented: register before first use), so it is emptied around it."""
    regs = scen.get('registered')
    if not regs or ctx is None:
        return
    PC = sys.modules['pane.convert']
    fns = [ctx.handler(h) for h in regs]
    scen['_registered_fns'] = fns
    make_converter.cache.clear()
    for f in fns:
        PC.register_converter_handler(f)


def unregister_globals(scen):
    fns = scen.pop('_registered_fns', None)
    if not fns:
        return
    PC = sys.modules['pane.convert']
    for f in fns:
        try:
            PC._GLOBAL_HANDLERS.remove(f)
        except ValueError:
            pass
    make_converter.cache.clear()


def build(ctx, scen):
    """-> (converter, None) or (None, buildError json)"""
    try:
        T = scen.pop('_live_ty', None)
        if T is None:
            T = ctx.ty(scen['ty'])
    except Exception as e:
        return None, None, {'buildError': 'harness:' + type(e).__name__ + ':' + str(e)[:80]}
    custom = ctx.handlers(scen.get('handlers', {}).get('globals') if scen.get('handlers') else None)
    try:
        conv = make_converter(T, ConverterHandlers.make(custom))
    except TypeError:
        return T, None, {'buildError': 'TypeError'}
    except UnsupportedAnnotation:
        return T, None, {'buildError': 'UnsupportedAnnotation'}
    except AttributeError:
        return T, None, {'buildError': 'AttributeError'}
    except Exception as e:  # noqa
        return T, None, {'buildError': 'other:' + type(e).__name__}
    return T, conv, custom


def snapshot(x, memo=None):
    """deep structural snapshot incl. identity of container nodes (C09)"""
    if isinstance(x, (list, tuple)):
        return (type(x).__name__, id(x), tuple(snapshot(v) for v in x))
    if isinstance(x, dict):
        return ('dict', id(x), tuple((snapshot(k), snapshot(v)) for k, v in x.items()))
    if isinstance(x, (set, frozenset)):
        return (type(x).__name__, id(x), tuple(sorted((repr(v) for v in x))))
    if isinstance(x, bytearray):
        return ('bytearray', bytes(x))
    if isinstance(x, PaneBase):
        # a dataclass instance: the attributes it HAS (a serialiser must not give it new ones) and their values
        own = getattr(x, '__dict__', None) or {}
        return ('obj', id(x), type(x).__name__, tuple(sorted((k, snapshot(v)) for k, v in own.items() if k != '__pane_set__')),
                tuple(sorted(getattr(x, '__pane_set__', ()))))
    if isinstance(x, float) and x != x:
        return ('nan',)
    return (type(x).__name__, repr(x))


def run(scen, ctx):
    """execute scen['op'] on the implementation; returns canonical JSON"""
    op = scen['op']
    if scen.get('_create_err'):
        return {'classCreateError': scen['_create_err']}
    if op in ('from_data', 'try_collect', 'into_data', 'roundtrip', 'render', 'build', 'convert2', 'io'):
        # earlier conversions in the same interpreter (same class objects, possibly the same handler objects used in
        # another role): the model is a function of (type, handlers, value) only, so these must not matter
        for pre in scen.get('pre', []):
            try:
                pane.from_data(ctx.dec(pre['val']), ctx.ty(pre['ty']), custom=ctx.handlers((pre.get('handlers') or {}).get('globals')))
            except BaseException:  # noqa
                pass
            try:
                pane.into_data(pane.from_data(ctx.dec(pre['val']), ctx.ty(pre['ty']), custom=ctx.handlers((pre.get('handlers') or {}).get('globals'))),
                               ctx.ty(pre['ty']), custom=ctx.handlers((pre.get('handlers') or {}).get('globals')))
            except BaseException:  # noqa
                pass
        T, conv, custom = build(ctx, scen)
        if conv is None:
            return custom
        if op == 'build':
            return {'built': conv.expected(False), 'plural': conv.expected(True)}
        val = ctx.dec(scen['val'])
        snap = snapshot(val)
        out = None
        if op == 'from_data':
            out = result_of(ctx, lambda: pane.from_data(val, T, custom=custom) if scen.get('api', True) else conv.convert(val))
            if scen.get('same_builtin_handler') and custom is None:
                # C02 / C18: a mapping-form handler matches only the EXACT unparameterised type, so passing the library's own
                # converter of a type K as `{K: make_converter(K)}` changes nothing, whatever the target is (a bool target must not
                # pick up the entry for int, a str subclass not the one for str, ...)
                K = {'int': int, 'float': float, 'str': str, 'bytes': bytes, 'complex': complex, 'bool': bool}[scen['same_builtin_handler']]
                alt = result_of(ctx, lambda: pane.from_data(ctx.dec(scen['val']), T, custom={K: make_converter(K)}))
                if canon(alt) != canon(out):
                    scen.setdefault('_oracle_pre', {})['c02h'] = (f'from_data({val!r}, <type>) = {json.dumps(out)[:200]}, but with custom={{{K.__name__}: make_converter({K.__name__})}} '
                                                             f'(the library\'s own converter of {K.__name__}) it is {json.dumps(alt)[:200]}')
        elif op == 'try_collect':
            try:
                tr = {'ok': ctx.enc(conv.try_convert(val))}
            except ParseInterrupt:
                tr = 'interrupt'
            except BaseException as e:  # noqa
                tr = {'leak': map_exc(e)}
            try:
                co = enc_tree(ctx, conv.collect_errors(val))
            except ParseInterrupt:
                co = 'interrupt'
            except BaseException as e:  # noqa
                co = {'leak': map_exc(e)}
            out = {'try': tr, 'collect': co}
        elif op == 'into_data':
            try:
                out = {'ok': ctx.enc(pane.into_data(val, T, custom=custom) if scen.get('api', True) else conv.into_data(val))}
            except BaseException as e:  # noqa
                out = {'raises': map_exc(e)}
        elif op == 'render':
            try:
                r = pane.from_data(val, T, custom=custom) if scen.get('api', True) else conv.convert(val)
                out = {'value': ctx.enc(r)}
            except ConvertError as e:
                try:
                    out = {'text': render_text(e), 'tree': enc_tree(ctx, e.tree)}
                except BaseException as e2:  # noqa   rendering the tree RAISED: that is what C08 forbids, not a harness problem
                    out = {'render_raises': map_exc(e2), 'tree': enc_tree(ctx, e.tree)}
                    scen.setdefault('_oracle_pre', {})['c08'] = f'rendering the error tree raised {type(e2).__name__}: {e2}'
            except BaseException as e:  # noqa
                out = {'raises': map_exc(e)}
        elif op == 'io':
            out = run_io(scen, ctx, T, conv, val)
        elif op == 'convert2':
            r = result_of(ctx, lambda: conv.convert(val))
            if 'value' not in r:
                out = r
            else:
                x = conv.convert(val)
                r2 = result_of(ctx, lambda: pane.convert(x, T, custom=custom))
                out = {'x': ctx.enc(x), 'x2': r2}
                try:
                    scen['_intermediate'] = [x, pane.into_data(x, custom=custom)]
                    y = pane.convert(x, T, custom=custom)
                    scen['_same_type'] = type(y) is type(x)
                except BaseException:  # noqa
                    pass
        elif op == 'roundtrip':
            r = result_of(ctx, lambda: conv.convert(val))
            if 'value' not in r:
                out = r
            else:
                x = conv.convert(val)
                try:
                    d = pane.into_data(x, T, custom=custom) if scen.get('api', True) else conv.into_data(x)
                except BaseException as e:  # noqa
                    out = {'x': ctx.enc(x), 'd_raises': map_exc(e)}
                else:
                    r2 = result_of(ctx, lambda: conv.convert(d))
                    d2 = None
                    if 'value' in r2:
                        try:
                            d2 = {'ok': ctx.enc(conv.into_data(conv.convert(d)))}
                        except BaseException as e:  # noqa
                            d2 = {'raises': map_exc(e)}
                    out = {'x': ctx.enc(x), 'd': ctx.enc(d), 'x2': r2, 'd2': d2}
                    scen['_intermediate'] = [x, d]
        orc = {}
        for name in scen.get('oracles', []):
            if name not in ORACLES:
                continue
            try:
                orc[name] = ORACLES[name](ctx, scen, T, conv, val, out)
            except Exception as e:  # noqa  (an oracle crash is a harness problem, reported as such)
                orc[name] = 'ORACLE-ERROR ' + ''.join(traceback.format_exception_only(type(e), e)).strip()
        if op in ('from_data', 'roundtrip') and isinstance(out, dict):
            # the same call on the same object a second time: a conversion is a function of (type, handlers, value)
            again = result_of(ctx, lambda: pane.from_data(val, T, custom=custom) if (op == 'from_data' and scen.get('api', True)) else conv.convert(val))
            first = out if op == 'from_data' else ({'value': out['x']} if 'x' in out else out)
            if canon(again) != canon(first) and 'harnessError' not in json.dumps(again):
                orc['rep'] = f'the same conversion of the same object gave {json.dumps(first)[:160]} and then {json.dumps(again)[:160]}'
        if snapshot(val) != snap:
            orc['c09'] = f'the argument was modified: now {val!r}'
        if scen.get('expect') and op == 'from_data' and isinstance(out, dict):
            got = 'accept' if 'value' in out else 'reject' if 'convertError' in out else None
            if got and got != scen['expect']:
                orc['expect'] = f"the value should be {scen['expect']}ed by this type (by the kinds of its leaves alone) but was {got}ed: {json.dumps(out)[:200]}"
        orc.update(scen.get('_oracle_pre') or {})
        scen['_oracle'] = orc
        return out
    if op == 'process':
        return None   # handled by run_process (needs its own class creation)
    if op in ('construct', 'unchecked', 'fromdict', 'dictview', 'copy', 'replace', 'setattr', 'delattr', 'copyset'):
        return run_instance_op(scen, ctx)
    if op in ('cmp', 'repr'):
        return run_cmp(scen, ctx)
    if op == 'unionnorm':
        # what `typing` makes of the nested spelling (its own flattening / de-duplication), member names in order
        S = {'int': int, 'str': str, 'float': float, 'bool': bool, 'bytes': bytes, 'NoneType': type(None), 'complex': complex}
        def _ubuild(m):
            if isinstance(m, str):
                return S[m]
            parts = tuple(_ubuild(x) for x in m)
            for _clear in getattr(t, '_cleanups', []):      # also between the subscriptions of ONE nested spelling
                _clear()
            return t.Union[parts]
        # typing memoises `Union[...]` by its arguments, and two unions with the same members in ANOTHER order are equal: a nested
        # union may come back from that cache in the order of an earlier, different spelling (history of the process, not the
        # normalisation).  The caches are emptied so that what is compared is the normalisation itself.
        for _clear in getattr(t, '_cleanups', []):
            _clear()
        U = _ubuild(scen['members'])
        args = t.get_args(U) if t.get_origin(U) is t.Union else (U,)
        return {'norm': [a.__name__ for a in args]}
    if op == 'c3h':
        # Python's own answer: create the classes (plain classes: the linearisation is CPython's, pane only walks it)
        made = {'object': object}
        mros = []
        for nm, bases in scen['classes']:
            if any(b not in made for b in bases):
                mros.append(None)
                continue
            try:
                made[nm] = type(nm, tuple(made[b] for b in bases), {})
                mros.append([k.__name__ for k in made[nm].__mro__])
            except TypeError:
                mros.append(None)
        return {'mros': mros}
    if op == 'bcast':
        # the stock conditions `shape(s)` / `broadcastable(s)` on objects with a `.shape`, `is_broadcastable` / `broadcast_shapes`
        # with numpy and with numpy blocked (the pure-Python fallback), against numpy's own answer
        import types as _types
        from pane.util import broadcast_shapes, is_broadcastable
        shapes = [tuple(x) for x in scen['shapes']]
        def attempt(f):
            try:
                return list(f())
            except ValueError:
                return None
        import numpy as _np
        truth = attempt(lambda: _np.broadcast_shapes(*shapes))
        with_np = attempt(lambda: broadcast_shapes(*shapes))
        saved = sys.modules.get('numpy')
        sys.modules['numpy'] = None
        try:
            fallback = attempt(lambda: broadcast_shapes(*shapes))
            fb_ok = is_broadcastable(*shapes)
        finally:
            sys.modules['numpy'] = saved
        out = {'broadcast': with_np, 'fallback': fallback, 'is': is_broadcastable(*shapes), 'fallback_is': fb_ok}
        if len(shapes) == 2:
            v = _types.SimpleNamespace(shape=shapes[0])
            out['cond_broadcastable'] = bool(A.broadcastable(shapes[1]).f(v))
            out['cond_shape'] = bool(A.shape(list(shapes[1])).f(v))
            # the documented argument is a Sequence[int] (a list as well as a tuple), and `.shape` of an array-like may be a list
            variants = []
            for arg in (tuple(shapes[1]), list(shapes[1])):
                for shp in (tuple(shapes[0]), list(shapes[0])):
                    try:
                        variants.append([bool(A.broadcastable(arg).f(_types.SimpleNamespace(shape=shp))), bool(A.shape(arg).f(_types.SimpleNamespace(shape=shp)))])
                    except BaseException as e:  # noqa
                        variants.append('raises:' + map_exc(e))
            if any(x != [out['cond_broadcastable'], out['cond_shape']] for x in variants):
                out['cond_variants'] = variants
        notes = []
        if with_np != truth:
            notes.append(f'broadcast_shapes{tuple(shapes)} = {with_np}, numpy says {truth}')
        if fallback != truth:
            notes.append(f'without numpy broadcast_shapes{tuple(shapes)} = {fallback}, numpy says {truth}')
        if out['is'] != (truth is not None) or fb_ok != (truth is not None):
            notes.append(f'is_broadcastable{tuple(shapes)} = {out["is"]} (without numpy {fb_ok}), numpy says {truth is not None}')
        if len(shapes) == 2 and (out['cond_broadcastable'] != (truth is not None) or out['cond_shape'] != (shapes[0] == shapes[1])):
            notes.append(f'conditions on a value of shape {shapes[0]} against {shapes[1]}: broadcastable {out["cond_broadcastable"]}, shape {out["cond_shape"]}')
        if 'cond_variants' in out:
            notes.append(f'the shape conditions depend on the spelling (tuple / list) of their argument or of the value\'s .shape: {out["cond_variants"]}')
        scen['_oracle'] = {'c13b': notes[0] if notes else None}
        return out
    if op == 'reach':
        # C18, "handlers passed to a call apply at every depth inside containers, in both directions": serialising a container
        # whose element types are not declared = serialising every element by its own type with the SAME handlers
        val = ctx.dec(scen['val'])
        H = ctx.handlers((scen.get('handlers') or {}).get('globals'))
        def expect(v):
            if type(v) is dict:
                return {expect(k): expect(x) for k, x in v.items()}
            if type(v) is list:
                return [expect(x) for x in v]
            if type(v) is tuple:
                return tuple(expect(x) for x in v)
            return pane.into_data(v, type(v), custom=H)
        try:
            got = pane.into_data(val, custom=H) if scen.get('ty') is None else pane.into_data(val, ctx.ty(scen['ty']), custom=H)
            want = expect(val)
            def norm(v):   # the container kind follows the declared type (Sequence -> tuple); only the ELEMENTS are at stake
                if isinstance(v, (list, tuple)):
                    return [norm(x) for x in v]
                if isinstance(v, dict):
                    return {(tuple(k) if isinstance(k, list) else k): norm(x) for k, x in v.items()}
                return v
            if canon(ctx.enc(norm(got))) != canon(ctx.enc(norm(want))):
                scen['_oracle'] = {'c18': f'into_data({val!r}, custom=handlers) = {got!r}; element by element with the same handlers: {want!r}'}
            return {'ok': ctx.enc(got)}
        except BaseException as e:  # noqa
            scen['_oracle'] = {'c18': f'into_data({val!r}, custom=handlers) raised {type(e).__name__}: {e}'}
            return {'raises': map_exc(e)}
    if op == 'into_dyn':
        val = ctx.dec(scen['val'])
        snap = snapshot(val)
        try:
            out = {'ok': ctx.enc(pane.into_data(val))}
        except BaseException as e:  # noqa
            out = {'raises': map_exc(e)}
        if snapshot(val) != snap:
            scen['_oracle'] = {'c09': f'into_data modified its argument: now {val!r} with attributes {sorted(getattr(val, "__dict__", {}))}'}
        return out
    if op == 'rename':
        from pane.field import rename_field
        try:
            return {'ok': rename_field(scen['name'], scen['style'])}
        except ValueError:
            return {'raises': 'ValueError'}
        except BaseException as e:  # noqa
            return {'raises': map_exc(e)}
    if op == 'split':
        from pane.field import _split_field_name
        try:
            return {'ok': list(_split_field_name(scen['name']))}
        except ValueError:
            return {'raises': 'ValueError'}
        except BaseException as e:  # noqa
            return {'raises': map_exc(e)}
    raise ValueError('unknown op ' + op)


def run_process(scen):
    """op `process`: create the declared classes; report the LAST one's processed form (or the creation error)"""
    ctx = LiveCtx()
    ctx.spell = scen.get('spell', 0)
    decl = scen.get('decl') or {}
    for e in decl.get('enums', []):
        ctx.add_enum(*e)
    for name, base, attrs in decl.get('subs', []):
        ctx.add_sub(name, base, {k: ctx.dec(v) for k, v in (attrs or {}).items()})
    cls = None
    for d in scen['decls']:
        try:
            cls = ctx.add_class(d)
        except TypeError:
            return ctx, {'classError': 'TypeError'}
        except ValueError:
            return ctx, {'classError': 'ValueError'}
    e = ctx.class_entry(cls.__name__, cls)
    info = cls.__pane_info__
    out = {'name': cls.__name__, 'fields': e['info']['fields'], 'fieldTys': e['fieldTys'], 'fieldConv': e['fieldConv'],
           'inFormat': e['info']['inFormat'], 'outFormat': e['info']['outFormat'], 'allowExtra': e['info']['allowExtra'],
           'minPos': e['info']['minPos'], 'maxPos': e['info']['maxPos'], 'eq': info.opts.eq, 'order': info.opts.order,
           'frozen': info.opts.frozen, 'unsafeHash': info.opts.unsafe_hash, 'kwOnly': info.opts.kw_only,
           'params': [p.__name__ for p in getattr(cls, '__parameters__', ())], 'nHandlers': len(info.opts.class_handlers)}
    # `frozen` as it BEHAVES, not as the option record says: an assignment on an instance of the class (and of a subscripted
    # form of it) is refused iff the class is frozen
    if info.fields:
        from dataclasses import FrozenInstanceError
        probes = [cls]
        if getattr(cls, '__parameters__', ()):
            try:
                probes.append(cls[tuple(int for _ in cls.__parameters__)])
            except BaseException:  # noqa
                pass
        for pc in probes:
            inst = object.__new__(pc)
            try:
                object.__setattr__(inst, '__pane_set__', set())
                setattr(inst, info.fields[0].name, 1)
                refused = False
            except FrozenInstanceError:
                refused = True
            except BaseException:  # noqa
                continue
            if refused != bool(info.opts.frozen):
                out['frozen'] = refused
                scen['_oracle'] = {'c17': f'class {pc.__name__}: the (inherited / overridden) option frozen={info.opts.frozen}, but assigning to a field of an instance is '
                                          f'{"refused" if refused else "allowed"}'}
    h = cls.__dict__.get('__hash__', 'absent')
    if h == 'absent':
        act = 'leave'
    elif h is None:
        act = 'setNone'
    elif getattr(h, '__qualname__', '').startswith('_make_hash'):
        act = 'makeHash'
    else:
        act = 'leave'
    last = scen['decls'][-1]
    if last.get('explicit_eq') and not last.get('explicit_hash') and h is None:
        act = 'noneImplicit'      # Python's implicit `__hash__ = None` of a class that defines __eq__: indistinguishable from "set to None"
    return ctx, {'class': out, 'hashAction': act}


def _obj(ctx, j, key=None):
    """decode a dataclass instance, optionally as an instance of a subscripted class `key`"""
    if key and key in ctx.used and key != j['obj'][0]:
        cls = ctx.used[key]
        return cls.from_dict_unchecked({n: ctx.dec(x) for n, x in j['obj'][1]}, set_fields=set(j['obj'][2]))
    return ctx.dec(j)


def run_cmp(scen, ctx):
    a = _obj(ctx, scen['a'], scen.get('akey'))
    if scen['op'] == 'repr':
        try:
            out = {'ok': repr(a)}
        except BaseException as e:  # noqa
            return {'raises': map_exc(e)}
        if scen.get('partial'):
            # an instance that lacks the field: showing it fails; after the field is assigned it is shown like `a`
            missing = scen['partial']
            b = type(a).from_dict_unchecked({f.name: getattr(a, f.name) for f in type(a).__pane_info__.fields if f.name != missing})
            try:
                repr(b)
                first = 'shown'
            except AttributeError:
                first = 'AttributeError'
            except BaseException as e:  # noqa
                first = map_exc(e)
            object.__setattr__(b, missing, getattr(a, missing))
            try:
                out['after_fail'] = [first, repr(b)]
            except BaseException as e:  # noqa
                out['after_fail'] = [first, 'raises:' + map_exc(e)]
        return out
    b = _obj(ctx, scen['b'], scen.get('bkey'))
    out = {}
    import operator
    for name, f in (('eq', operator.eq), ('lt', operator.lt), ('le', operator.le), ('gt', operator.gt), ('ge', operator.ge)):
        try:
            out[name] = bool(f(a, b))
        except TypeError:
            out[name] = 'NotImplemented'
        except BaseException as e:  # noqa
            out[name] = 'raises:' + map_exc(e)
    pool = [_obj(ctx, x, k) for x, k in scen.get('pool', [])]
    if pool:
        scen['_oracle'] = {'c16': c16_laws(pool)}
    return out


def c16_laws(pool):
    """C16 observed directly on the implementation: equivalence, trichotomy, transitivity, eq => equal hash"""
    def safe(f, *xs):
        try:
            return f(*xs)
        except TypeError:
            return None
    import operator as op
    import copy as _copy
    # a hash must follow the CURRENT field values: hash an instance, change a (hashable, mutable) nested dataclass inside
    # it, and compare with an equal instance built afterwards
    for a in pool:
        for f in type(a).__pane_info__.fields:
            inner = getattr(a, f.name, None)
            if isinstance(inner, PaneBase) and not type(inner).__pane_info__.opts.frozen:
                h0 = safe(hash, a)
                if h0 is None:
                    continue
                ints = [g.name for g in type(inner).__pane_info__.fields if type(getattr(inner, g.name, None)) is int]
                if not ints:
                    continue
                old = getattr(inner, ints[0])
                try:
                    setattr(inner, ints[0], old + 17)
                    twin = _copy.deepcopy(a)
                    if safe(op.eq, a, twin) and safe(hash, a) != safe(hash, twin):
                        return f'{a!r} == {twin!r} but their hashes differ (the first was hashed before its field {f.name}.{ints[0]} changed)'
                finally:
                    setattr(inner, ints[0], old)
    for a in pool:
        if safe(op.eq, a, a) is not True:
            return f'{a!r} != itself'
    def origin(c):
        # the class a subscripted class `G[int]` was made from; an ordinary subclass is its own class
        return c.__bases__[0] if '__pane_boundvars__' in c.__dict__ else c
    for a in pool:
        for b in pool:
            e = safe(op.eq, a, b)
            if e and origin(type(a)) is not origin(type(b)):
                return f'{a!r} of {type(a).__name__} == {b!r} of another class {type(b).__name__} (bases {type(a).__bases__} / {type(b).__bases__})'
            if e != safe(op.eq, b, a):
                return f'== is not symmetric on {a!r}, {b!r}'
            hash_in_compare = all(f.compare or not f.hash for f in type(a).__pane_info__.fields)   # the stdlib's own proviso
            if e and hash_in_compare:
                ha, hb = safe(hash, a), safe(hash, b)
                if ha is not None and hb is not None and ha != hb:
                    return f'{a!r} == {b!r} but their hashes differ'
            lt, gt = safe(op.lt, a, b), safe(op.gt, a, b)
            if type(a) is type(b) and lt is not None and type(a).__pane_info__.opts.eq:
                if [bool(lt), bool(e), bool(gt)].count(True) != 1:
                    return f'not exactly one of <, ==, > holds for {a!r}, {b!r}: {lt}, {e}, {gt}'
                if safe(op.le, a, b) != (lt or e) or safe(op.ge, a, b) != (gt or e):
                    return f'<= / >= inconsistent with <, ==, > on {a!r}, {b!r}'
                if lt != safe(op.gt, b, a):
                    return f'a < b but not b > a for {a!r}, {b!r}'
            for c in pool:
                if e and safe(op.eq, b, c) and not safe(op.eq, a, c):
                    return f'== is not transitive on {a!r}, {b!r}, {c!r}'
                if type(a) is type(b) is type(c) and lt and safe(op.lt, b, c) and not safe(op.lt, a, c):
                    return f'< is not transitive on {a!r}, {b!r}, {c!r}'
    return None


def c14_oracle(ctx, cls, args, kwargs):
    """C14 observed directly: the constructor converts like from_data does, defaults are fresh products, the
    set-field record is exactly the supplied fields"""
    def attempt(f):
        try:
            return ('ok', f())
        except ConvertError:
            return ('convertError', None)
        except BaseException as e:  # noqa
            return ('raise', type(e).__name__)
    a = attempt(lambda: cls(*args, **kwargs))
    info = cls.__pane_info__
    if a[0] == 'ok':
        o = a[1]
        import inspect
        try:
            bound = inspect.signature(cls).bind(*args, **kwargs).arguments
        except TypeError:
            bound = {}
        if set(o.__pane_set__) != set(bound):
            return f'set-field record {sorted(o.__pane_set__)} is not the supplied fields {sorted(bound)}'
        try:
            view = o.dict(set_only=True)
        except BaseException as e:  # noqa
            view = None
        if view is not None and set(view) != set(bound):
            return f'dict(set_only=True) has {sorted(view)}, the supplied fields are {sorted(bound)}'
        b = attempt(lambda: cls(*args, **kwargs))
        for f in info.fields:
            if f.init and f.name not in bound:
                va, vb = getattr(o, f.name, None), getattr(b[1], f.name, None)
                if f.default_factory is not None:
                    if va is f.default_factory or isinstance(va, type):
                        return f'field {f.name} holds the factory itself, not its product'
                    if va is vb and va is not None and not isinstance(va, (int, str, float, bool, tuple, frozenset, bytes)):
                        return f'field {f.name}: two constructions share one default object'
    # by name: the same fields through from_data (only Python field names, struct layout enabled, all data interchange)
    names = {f.name for f in info.fields if f.init}
    if not args and 'struct' in info.opts.in_format and set(kwargs) <= names and not info.opts.class_handlers \
            and all(f.converter is None for f in info.fields):
        try:
            data = {k: pane.into_data(v) for k, v in kwargs.items()}
        except BaseException:  # noqa
            return None
        b = attempt(lambda: cls.from_data(data))
        if a[0] == 'raise' or b[0] == 'raise':
            return None if a[0] == b[0] or a[0] == 'raise' else f'from_data raised {b[1]}'
        if a[0] != b[0]:
            return f'constructor: {a[0]}, from_data of the same fields: {b[0]}'
        if a[0] == 'ok':
            if canon(ctx.enc(a[1])) != canon(ctx.enc(b[1])):
                return f'constructor gives {a[1]!r} (set {sorted(a[1].__pane_set__)}), from_data gives {b[1]!r} (set {sorted(b[1].__pane_set__)})'
    return None


def run_instance_op(scen, ctx):
    op = scen['op']
    cls = ctx.used.get(scen['cls']) or ctx.classes[scen['cls']]
    args = [ctx.dec(a) for a in scen.get('args', [])]
    kwargs = {k: ctx.dec(v) for k, v in scen.get('kwargs', [])}
    snaps = [snapshot(a) for a in args] + [snapshot(v) for v in kwargs.values()]
    def done(out):
        if [snapshot(a) for a in args] + [snapshot(v) for v in kwargs.values()] != snaps:
            scen['_oracle'] = {'c09': 'a constructor argument was modified'}
        return out
    if op == 'construct':
        out = done(result_of(ctx, lambda: cls(*args, **kwargs)))
        if 'c14' in scen.get('oracles', []):
            scen.setdefault('_oracle', {})['c14'] = c14_oracle(ctx, cls, args, kwargs)
        return out
    if op == 'unchecked':
        return done(result_of(ctx, lambda: cls.make_unchecked(*args, **kwargs)))
    if op == 'fromdict':
        st = scen.get('set')
        caller_dict = dict(kwargs)           # the caller's own dict: it must come back as it went in
        caller_set = None if st is None else set(st)
        before = (list(caller_dict.items()), None if caller_set is None else sorted(caller_set))
        res = result_of(ctx, lambda: cls.from_dict_unchecked(caller_dict, set_fields=caller_set))
        after = (list(caller_dict.items()), None if caller_set is None else sorted(caller_set))
        if [k for k, _ in after[0]] != [k for k, _ in before[0]] or any(a is not b for (_, a), (_, b) in zip(after[0], before[0])) or after[1] != before[1]:
            scen['_oracle'] = {'c09': f'from_dict_unchecked modified its arguments: the dict had keys {[k for k, _ in before[0]]}, now {[k for k, _ in after[0]]}; set_fields {before[1]} -> {after[1]}'}
        return done(res)
    obj = ctx.dec(scen['obj'])
    if op == 'dictview':
        try:
            return {'ok': ctx.enc(obj.dict(set_only=scen.get('set_only', False), rename=scen.get('rename')))}
        except BaseException as e:  # noqa
            return {'raises': map_exc(e)}
    if op == 'copyset':
        import copy as _copy
        how = scen['how']
        caller_set = set(obj.__pane_set__)
        try:
            if how == 'fromdict':
                c = cls.from_dict_unchecked({f.name: getattr(obj, f.name) for f in cls.__pane_info__.fields}, set_fields=caller_set)
            elif how == 'replace':
                c = obj.__replace__()
            else:
                c = (_copy.deepcopy if how == 'deepcopy' else _copy.copy)(obj)
        except ConvertError as e:
            return {'convertError': enc_tree(ctx, e.tree)}
        except BaseException as e:  # noqa
            return {'raises': map_exc(e), 'msg': str(e)}
        try:
            setattr(obj if scen['mutate'] == 'orig' else c, scen['name'], ctx.dec(scen['val']))
            st = 'ok'
        except BaseException as e:  # noqa
            st = map_exc(e)
        return {'set': st, 'orig': ctx.enc(obj), 'copy': ctx.enc(c), 'caller_set': sorted(caller_set)}
    if op == 'copy':
        import copy as _copy
        return result_of(ctx, lambda: (_copy.deepcopy if scen.get('deep') else _copy.copy)(obj))
    if op == 'replace':
        return done(result_of(ctx, lambda: obj.__replace__(**kwargs)))
    if op == 'setattr':
        try:
            setattr(obj, scen['name'], ctx.dec(scen['val']))
            return {'ok': ctx.enc(obj)}
        except BaseException as e:  # noqa
            return {'raises': map_exc(e)}
    if op == 'delattr':
        try:
            delattr(obj, scen['name'])
            return {'ok': ctx.enc(obj)}
        except BaseException as e:  # noqa
            return {'raises': map_exc(e)}
    raise ValueError(op)


_TB_DROP = re.compile(r'^\s*(Traceback \(most recent call last\):|File ".*", line \d+.*|[\^~]+\s*)$')


def render_text(e):
    """str(ConvertError) with traceback stack frames removed (only the exception-only lines stay)"""
    text = str(e)
    return canon_text(text)


def canon_text(text):
    out = []
    lines = text.split('\n')
    skip_code = False
    for ln in lines:
        if re.match(r'^\s*File ".*", line \d+', ln):
            skip_code = True
            continue
        if skip_code:
            skip_code = False
            if ln.startswith('    ') or ln.strip() == '':
                continue
        if re.match(r'^\s*Traceback \(most recent call last\):\s*$', ln) or re.match(r'^\s*[\^~]+\s*$', ln):
            continue
        if ln.strip() == '':
            continue
        if ln.strip().startswith(('During handling of the above exception', 'The above exception was the direct cause')):
            if out:
                out.pop()     # chained context: keep only the last exception of the chain
            continue
        if out and (out[-1].endswith('Caused by exception:') or re.search(r"Failed to call condition '.*':$", out[-1])):
            ln = ln.lstrip()   # indentation of the exception line depends on whether the traceback has frames
        out.append(ln.rstrip())
    # missing / unexpected lines come from sets: sort each consecutive run
    res = []
    i = 0
    while i < len(out):
        m = re.match(r"^(\s*)(Missing required field|Unexpected field) '", out[i])
        if m:
            j = i
            while j < len(out) and out[j].startswith(m.group(1) + m.group(2)):
                j += 1
            res.extend(sorted(out[i:j]))
            i = j
        else:
            res.append(out[i])
            i += 1
    return '\n'.join(res)


def expand_segments(ctx, segs):
    """Lean render segments -> text, expanding value/type segments with the real Python objects"""
    parts = []
    for s in segs:
        if isinstance(s, str):
            parts.append(s)
        elif 'val' in s:
            parts.append(str(ctx.dec(s['val'])))
        elif 'typ' in s:
            parts.append(type(ctx.dec(s['typ'])).__name__)
        elif 'cause' in s:
            parts.append(s['cause'][1])
    return canon_text(''.join(parts).rstrip('\n'))


# ------------------------------------------------------------------------------------------------
# the properties observed DIRECTLY on the implementation (no model involved); used on every scenario
# and by the failing-input search.  Each returns None (holds here) or a short description.
def _try(conv, val):
    try:
        return ('ok', conv.try_convert(val))
    except ParseInterrupt:
        return ('interrupt', None)
    except BaseException as e:  # noqa
        return ('leak', e)


def _col(conv, val):
    try:
        return ('ok', conv.collect_errors(val))
    except ParseInterrupt:
        return ('interrupt', None)
    except BaseException as e:  # noqa
        return ('leak', e)


def oracle_c03(ctx, scen, T, conv, val, out):
    t, c = _try(conv, val), _col(conv, val)
    if t[0] == 'ok' and c[0] == 'ok' and c[1] is None:
        return None
    if t[0] == 'interrupt' and c[0] == 'ok' and c[1] is not None:
        return None
    if t[0] == 'leak':
        return None   # an escaping exception is C04's subject
    return f'fast pass: {t[0]}, diagnostic pass: {c[0]} {"tree" if c[0] == "ok" and c[1] is not None else c[1]!r}'


def oracle_c04(ctx, scen, T, conv, val, out):
    if isinstance(out, dict) and 'raises' in out:
        return f"{out['raises']} escaped from_data"
    return None


def _same_tree(ctx, a, b):
    return canon(enc_tree(ctx, a)) == canon(enc_tree(ctx, b))


def c07_check(ctx, conv, val, node, path=()):
    """the tree `node` reported by `conv` for `val` is assembled from the sub-reports (recursively)"""
    from pane.converters import (UnionConverter, TaggedUnionConverter, TupleConverter, SequenceConverter, StructConverter,
                                 DictConverter, ConditionalConverter, DelegateConverter, EnumConverter, data_is_sequence, data_is_mapping)
    from pane.classes import PaneConverter
    from pane.errors import SumErrorNode, ProductErrorNode, DuplicateKeyError, WrongTypeError
    where = '/'.join(map(str, path)) or '<root>'
    if node is None:
        return None
    if isinstance(conv, TaggedUnionConverter):
        return None
    if isinstance(conv, UnionConverter) and conv.constructor is None:
        if not isinstance(node, SumErrorNode):
            return f'{where}: union reported {type(node).__name__}, not a sum'
        if len(node.children) != len(conv.converters):
            return f'{where}: sum has {len(node.children)} children for {len(conv.converters)} members'
        for i, (c, ch) in enumerate(zip(conv.converters, node.children)):
            own = _col(c, val)
            if own[0] != 'ok' or not _same_tree(ctx, own[1], ch):
                return f'{where}: child {i} of the sum is not member {i}\'s own report'
            r = c07_check(ctx, c, val, ch, path + (f'|{i}',))
            if r:
                return r
        return None
    if isinstance(conv, (ConditionalConverter, DelegateConverter, EnumConverter)):
        inner = getattr(conv, 'inner', None) or getattr(conv, 'inner_conv', None)
        if _try(inner, val)[0] == 'interrupt':
            own = _col(inner, val)
            if own[0] != 'ok' or not _same_tree(ctx, own[1], node):
                return f'{where}: wrapper did not pass the inner type\'s report through'
            return c07_check(ctx, inner, val, node, path)
        # the wrapper's own leaf (condition failed / constructor raised / not a member): it records the offending value
        if hasattr(node, 'actual') and not isinstance(node, ProductErrorNode) and snapshot(node.actual) != snapshot(val) and node.actual is not val:
            return f'{where}: leaf records {node.actual!r}, not the offending value {val!r}'
        return None
    if not isinstance(node, ProductErrorNode):
        # leaves record the offending sub-value itself (a compiled pattern is recorded by its text, an unknown tag by the tag)
        from pane.converters import PatternConverter, TaggedUnionConverter, UnionConverter
        if hasattr(node, 'actual') and not isinstance(conv, (PatternConverter, TaggedUnionConverter, UnionConverter)) \
                and not hasattr(node, 'children') and snapshot(node.actual) != snapshot(val) and node.actual is not val:
            return f'{where}: leaf records {node.actual!r}, not the offending value {val!r}'
        return None
    if isinstance(conv, (TupleConverter, SequenceConverter)):
        items = list(val)
        convs = conv.converters if isinstance(conv, TupleConverter) else [conv.v_conv] * len(items)
        for i, (c, v) in enumerate(zip(convs, items)):
            own = _col(c, v)
            if own[0] != 'ok':
                return f'{where}: element {i} report raised'
            if (own[1] is None) != (i not in node.children):
                return f'{where}: child {i} present={i in node.children} but element rejected on its own={own[1] is not None}'
            if own[1] is not None:
                if not _same_tree(ctx, own[1], node.children[i]):
                    return f'{where}: child {i} differs from the element\'s own report'
                r = c07_check(ctx, c, v, node.children[i], path + (i,))
                if r:
                    return r
        if set(node.children) - set(range(len(items))):
            return f'{where}: children keyed by non-positions {set(node.children) - set(range(len(items)))}'
        if snapshot(node.actual) != snapshot(val):
            return f'{where}: product node records a different value'
        return None
    if isinstance(conv, StructConverter):
        exp_extra = {k for k in val if k not in conv.fields}
        exp_missing = set(conv.fields) - set(val) - conv.opt_fields
        if set(node.extra) != exp_extra or set(node.missing) != exp_missing:
            return f'{where}: extra/missing {set(node.extra)}/{set(node.missing)} expected {exp_extra}/{exp_missing}'
        for k, v in val.items():
            if k in conv.fields:
                own = _col(conv.field_converters[k], v)
                if (own[1] is None) != (k not in node.children):
                    return f'{where}: child {k!r} presence wrong'
                if own[1] is not None:
                    if not _same_tree(ctx, own[1], node.children[k]):
                        return f'{where}: child {k!r} differs from the field\'s own report'
                    r = c07_check(ctx, conv.field_converters[k], v, node.children[k], path + (k,))
                    if r:
                        return r
        return None
    if isinstance(conv, PaneConverter):
        if data_is_mapping(val):
            seen = set()
            exp_extra = set()
            for k, v in val.items():
                try:
                    idx = conv.field_map.get(k)
                except TypeError:
                    idx = None
                if idx is None:
                    if not conv.opts.allow_extra:
                        exp_extra.add(k)
                    continue
                f = conv.fields[idx]
                if f.name in seen:
                    if not isinstance(node.children.get(k), DuplicateKeyError):
                        return f'{where}: second key {k!r} for field {f.name} is not reported as duplicate'
                    continue
                seen.add(f.name)
                own = _col(conv.field_converters[idx], v)
                if (own[1] is None) != (k not in node.children):
                    return f'{where}: child {k!r} presence wrong'
                if own[1] is not None:
                    if not _same_tree(ctx, own[1], node.children[k]):
                        return f'{where}: child {k!r} differs from the field\'s own report'
                    r = c07_check(ctx, conv.field_converters[idx], v, node.children[k], path + (k,))
                    if r:
                        return r
            exp_missing = {f.name for f in conv.fields if f.init and f.name not in seen and not f.has_default()}
            if set(node.extra) != exp_extra or set(node.missing) != exp_missing:
                return f'{where}: extra/missing {set(node.extra)}/{set(node.missing)} expected {exp_extra}/{exp_missing}'
            return None
        if data_is_sequence(val):
            convs = [c for f, c in zip(conv.fields, conv.field_converters) if f.init]
            for i, (c, v) in enumerate(zip(convs, val)):
                own = _col(c, v)
                if (own[1] is None) != (i not in node.children):
                    return f'{where}: child {i} presence wrong'
                if own[1] is not None:
                    if not _same_tree(ctx, own[1], node.children[i]):
                        return f'{where}: child {i} differs from the field\'s own report'
                    r = c07_check(ctx, c, v, node.children[i], path + (i,))
                    if r:
                        return r
            return None
    if isinstance(conv, DictConverter):
        strs = [str(k) for k in val]
        if len(set(strs)) != len(strs):
            return None     # known finding N7: children keyed by str(k) collide
        for k, v in val.items():
            kn, vn = _col(conv.k_conv, k)[1], _col(conv.v_conv, v)[1]
            if (kn is None and vn is None) != (str(k) not in node.children):
                return f'{where}: child {k!r} presence wrong'
            if kn is not None and vn is not None:
                continue    # known finding N7: one node per entry, the value's report overwrites the key's
            own = vn if vn is not None else kn
            if own is not None:
                if not _same_tree(ctx, own, node.children[str(k)]):
                    return f'{where}: child {k!r} differs from the entry\'s own report'
                r = c07_check(ctx, conv.v_conv if vn is not None else conv.k_conv, v if vn is not None else k, node.children[str(k)], path + (str(k),))
                if r:
                    return r
        return None
    return None


def oracle_c07(ctx, scen, T, conv, val, out):
    t = _try(conv, val)
    if t[0] != 'interrupt':
        return None
    c = _col(conv, val)
    if c[0] != 'ok' or c[1] is None:
        return None
    r = c07_check(ctx, conv, val, c[1])
    if r:
        return r
    # the tree a caller gets from ConvertError stays what the converters reported, also after it was printed
    try:
        str(c[1])
    except BaseException:  # noqa
        return None
    return c07_check(ctx, conv, val, c[1]) and 'after rendering: ' + str(c07_check(ctx, conv, val, c[1]))


def oracle_c08(ctx, scen, T, conv, val, out):
    t = _try(conv, val)
    if t[0] != 'interrupt':
        return None
    c = _col(conv, val)
    if c[0] != 'ok' or c[1] is None:
        return None
    before = canon(enc_tree(ctx, c[1]))
    try:
        a = str(c[1])
        b = str(c[1])
    except BaseException as e:  # noqa
        return f'rendering raised {type(e).__name__}: {e}'
    if a != b:
        return 'rendering is not deterministic'
    if canon(enc_tree(ctx, c[1])) != before:
        return 'rendering the error tree changed the tree (it no longer mirrors the type)'
    return c08_mentions(c[1], a) or c08_order(c[1], a)


def c08_order(node, text, pos=0, sum_depth=0):
    """'in nesting order': along every root-to-leaf path the path components and then the leaf's expectation occur in the
    text in that order; and the offending value of a leaf is shown (at any nesting depth of unions since the D13 fix)"""
    from pane.errors import SumErrorNode, ProductErrorNode, WrongTypeError, ConditionFailedError, WrongLenError
    if isinstance(node, (WrongTypeError, ConditionFailedError, WrongLenError)):
        i = text.find(node.expected, pos)
        if i < 0:
            return f'leaf expectation {node.expected!r} does not come after its path in the message'
        if True:
            try:
                shown = f'`{node.actual}`'
            except BaseException:  # noqa
                return None
            if shown not in text:
                return f'the offending value {shown} is not shown'
        return None
    if isinstance(node, ProductErrorNode):
        for k, ch in node.children.items():
            i = text.find(str(k), pos)
            if i < 0:
                return f'path component {k!r} does not come after its parent in the message'
            r = c08_order(ch, text, i, sum_depth)
            if r:
                return r
        return None
    if isinstance(node, SumErrorNode):
        for ch in node.children:
            r = c08_order(ch, text, pos, sum_depth + 1)
            if r:
                return r
    return None


def c08_mentions(node, text, sum_depth=0):
    from pane.errors import SumErrorNode, ProductErrorNode, DuplicateKeyError, WrongTypeError, ConditionFailedError, WrongLenError
    if isinstance(node, (WrongTypeError, ConditionFailedError, WrongLenError)):
        if node.expected not in text:
            return f'leaf expectation {node.expected!r} not in the message'
        cause = getattr(node, 'cause', None)
        if cause is not None:
            msg = ''.join(cause.format_exception_only()).strip().splitlines()[-1]
            if msg not in text:
                return f'cause {msg!r} not in the message'
        return None
    if isinstance(node, DuplicateKeyError):
        return None if str(node.key) in text else f'duplicate key {node.key!r} not named'
    if isinstance(node, ProductErrorNode):
        for k, ch in node.children.items():
            if str(k) not in text:
                return f'path component {k!r} not in the message'
            r = c08_mentions(ch, text, sum_depth)
            if r:
                return r
        for m in node.missing:
            if (m if isinstance(m, str) else '/'.join(m)) not in text:
                return f'missing field {m!r} not named'
        for x in node.extra:
            if str(x) not in text:
                return f'unexpected field {x!r} not named'
        return None
    if isinstance(node, SumErrorNode):
        for ch in node.children:
            r = c08_mentions(ch, text, sum_depth + 1)
            if r:
                return r
    return None


def oracle_c11(ctx, scen, T, conv, val, out):
    from pane.converters import UnionConverter, TaggedUnionConverter
    if not isinstance(conv, UnionConverter) or isinstance(conv, TaggedUnionConverter) or conv.constructor is not None:
        return None
    rs = [_try(c, val) for c in conv.converters]
    u = _try(conv, val)
    if any(r[0] == 'leak' for r in rs) or u[0] == 'leak':
        return None
    first = next((i for i, r in enumerate(rs) if r[0] == 'ok'), None)
    if first is None:
        return None if u[0] == 'interrupt' else 'no member accepts but the union does'
    if u[0] != 'ok':
        return f'member {first} accepts but the union rejects'
    if canon(ctx.enc(u[1])) != canon(ctx.enc(rs[first][1])) or type(u[1]) is not type(rs[first][1]):
        return f'union result {u[1]!r} is not what the left-most accepting member {first} produces ({rs[first][1]!r})'
    # serialisation uses a member that accepts the value
    x = u[1]
    try:
        d = conv.into_data(x)
    except BaseException:  # noqa
        return None
    acc = [c for c in conv.converters if _try(c, x)[0] == 'ok']
    if acc:
        try:
            ok = any(canon(ctx.enc(c.into_data(x))) == canon(ctx.enc(d)) for c in acc)
        except BaseException:  # noqa
            ok = True
        if not ok:
            return 'the union serialised the value with a member that does not accept it'
    return None


ORACLES = {'c03': oracle_c03, 'c04': oracle_c04, 'c07': oracle_c07, 'c08': oracle_c08, 'c11': oracle_c11}


# ------------------------------------------------------------------------------------------------
# C10: histories of (build type, convert, drop type, collect garbage, convert with custom handlers) on the real interpreter
def _fn_handler(ty, args, *, handlers):
    if ty is int:
        return _FN_CONV
    if isinstance(ty, type) and ty.__dict__.get('_hist_plain'):
        # a plain user class the library has no converter for: convertible only while this handler is passed
        return _PLAIN_CONV
    return NotImplemented


def _mk_plain():
    return type('HistPlain', (), {'_hist_plain': True})


def _mk_pane_plainfield():
    return type('HistP', (pane.PaneBase,), {'__annotations__': {'a': int, 'p': _mk_plain()}})


_FN_CONV = TagConv('tagint:2')
_PLAIN_CONV = TagConv('tagint:5')
_DICT_CONV = TagConv('tagint:3')


class _Unsupported:
    pass


def _mk_pane(bad=False):
    ns = {'__annotations__': {'a': int, 'b': (_Unsupported if bad else float), 'c': str}}
    return type('HistK', (pane.PaneBase,), ns)


def _mk_pane_safe(bad):
    # class creation itself does not build converters; a class with an unsupported field type is created fine
    return _mk_pane(bad)


def _pos_or_float():
    from pane.annotations import Positive
    return t.Union[t.Annotated[int, Positive], float]


TYPE_POOL = [lambda: list[int], lambda: dict[str, float], lambda: list[str], lambda: tuple[int, str], lambda: (int, str),
             lambda: {'a': int}, lambda: set[int], lambda: dict[str, list[int]], lambda: int | None, lambda: list[float],
             lambda: dict[str, int], lambda: tuple[int, ...], lambda: _mk_pane_safe(False), lambda: _mk_pane_safe(True), lambda: int,
             # unions whose members overlap: which member answers must not depend on what the converter saw before
             lambda: datetime.date | str, lambda: _pos_or_float(), lambda: list[datetime.date | str],
             # types that can be built ONLY with the function-form handler (#1): a failed build without it must leave no trace
             lambda: _mk_plain(), lambda: _mk_pane_plainfield()]
# several sample values per type; a call converts ONE of them (chosen by the history)
SAMPLES = [[[1, 2], [3]], [{'k': 1.5}, {}], [['s'], []], [[3, 's'], [4, 't']], [[4, 't'], [5, 'u']], [{'a': 5}, {}, {'a': 6}], [[6], [7, 7]],
           [{'k': [7]}, {}], [8, None], [[1.5], [2]], [{'k': 9}, {'j': 1}], [[10, 11], []],
           [{'a': 1, 'b': 2.5, 'c': 'x'}, {'a': 2, 'b': 1, 'c': 'y'}], [{'a': 1, 'b': 2.5, 'c': 'x'}, {'a': 1, 'b': 2.5, 'c': 'x'}], [12, 13],
           ['to be announced', '2024-02-29', 'tbd'], [-3, 5, 2.5], [['to be announced', '2024-02-29'], ['2024-02-29'], ['x']],
           [3, 4], [{'a': 1, 'p': 2}, {'a': 3, 'p': 4}]]
_REG = {}


def _handlers(hk):
    return None if hk == 0 else _fn_handler if hk == 1 else {int: _DICT_CONV} if hk == 2 else _REG


def _out(f):
    try:
        r = f()
        return ('ok', repr(r)) if not hasattr(r, '__pane_info__') else ('ok', repr(sorted(r.dict().items(), key=str)))
    except BaseException as e:  # noqa
        return ('raise', type(e).__name__)


def _sig(conv, d=None, k=0):
    try:
        base = (type(conv).__name__, conv.expected(True), conv.expected(False))
    except Exception as e:  # noqa
        return ('?', repr(e))
    if d is None:
        return base
    sample = SAMPLES[d][k % len(SAMPLES[d])]
    x = _out(lambda: conv.convert(sample))
    y = _out(lambda: conv.into_data(conv.convert(sample)))
    return base + (x, y)


def run_history(scen):
    """replay an abstract history with REAL type objects; returns (impl observations, model ops carrying the real ids).
    A conversion outcome is the converter's kind + description AND what it does to a sample value (parse, serialise)."""
    import threading
    from pane.convert import make_converter, ConverterHandlers
    _REG.clear()
    _REG[int] = TagConv('tagint:3')
    regver = [0]
    fresh = {}

    def fresh_sig(d, hk, k=0):
        key = (d, hk, regver[0] if hk == 3 else 0, k % len(SAMPLES[d]))
        if key not in fresh:
            try:
                hs = _handlers(hk)
                if hk == 3:
                    hs = dict(hs)      # same contents, an object never seen before
                # a converter built for this one use: it has seen no other value
                fresh[key] = _sig(make_converter.inner_f(TYPE_POOL[d](), ConverterHandlers.make(hs)), d, k)
            except Exception as e:  # noqa
                fresh[key] = ('build-error', type(e).__name__)
        return fresh[key]

    # the references are built BEFORE the history runs (handler-carrying ones first): a reference must not be what the
    # history left behind
    _d_of = {}
    for o in scen['hist']:
        if o[0] == 'alloc':
            _d_of[o[1]] = o[2]
        elif o[0] == 'call' and o[1] in _d_of and o[2] != 3:
            fresh_sig(_d_of[o[1]], o[2], o[3] if len(o) > 3 else 0)
    slots, desc = {}, {}
    ops, obs = [], []
    uniq = [1000]
    notes = []
    for o in scen['hist']:
        k = o[0]
        if k == 'alloc':
            _, s, d = o
            slots.pop(s, None)
            obj = TYPE_POOL[d]()
            slots[s], desc[s] = obj, d
            ops.append({'k': 'alloc', 's': s, 'd': d, 'a': str(id(obj))})
        elif k == 'drop':
            if o[1] in slots:
                del slots[o[1]]
            ops.append({'k': 'drop', 's': o[1]})
            ops.append({'k': 'gc'})      # CPython frees on the last reference; the model frees on gc
        elif k == 'gc':
            gc.collect()
            ops.append({'k': 'gc'})
        elif k == 'churn':
            # same-size garbage to provoke address reuse
            junk = [TYPE_POOL[o[1] % len(TYPE_POOL)]() for _ in range(o[2])]
            del junk
        elif k == 'mutreg':
            # the long-lived handlers mapping changes between calls: handlers are compared by what they contain
            _REG[int] = TagConv('tagint:%d' % o[1])
            regver[0] += 1
        elif k == 'call':
            _, s, hk = o[:3]
            k = o[3] if len(o) > 3 else 0
            if s not in slots:
                continue
            hid = hk
            if hk >= 2:
                uniq[0] += 1
                hid = uniq[0]        # a mapping-form handler is wrapped in a fresh closure per call: never equal to an earlier one
            try:
                conv = make_converter(slots[s], ConverterHandlers.make(_handlers(hk)))
                sg = _sig(conv, desc[s], k)
            except Exception as e:  # noqa
                sg = ('build-error', type(e).__name__)
            want = fresh_sig(desc[s], hk, k)
            if want[0] == 'build-error':
                # make_converter raises for this type: nothing is memoised, so the cache machine has no step for it
                # (a type object the cache does not pin may be freed and its address reused).  Observed directly only.
                if sg != want:
                    notes.append(f'call on slot {s} (type #{desc[s]}, handlers #{hk}) gave {sg!r}; building afresh fails with {want!r}')
                continue
            if sg == want:
                obs.append([desc[s], hid])
            else:
                match = [d for (d, h2, _, _), v in fresh.items() if v == sg and h2 == hk]
                obs.append([match[0] if match else -1, hid])
                notes.append(f'call on slot {s} (type #{desc[s]}, handlers #{hk}) behaves as {sg!r}; a converter freshly built for the same type and handlers as {want!r}')
            ops.append({'k': 'call', 's': s, 'h': hid})
    # concurrent use: several threads look up the live slots at once; every result must be the fresh one
    nthreads = scen.get('threads', 0)
    if nthreads and slots:
        import sys as _sys
        old = _sys.getswitchinterval()
        _sys.setswitchinterval(1e-6)
        res = []
        lock = threading.Lock()
        want_of = {(s, hk): fresh_sig(desc[s], hk) for s in slots for hk in (0, 1)}
        def work(seed):
            import random as _r
            rr = _r.Random(seed)
            for _ in range(30):
                s = rr.choice(list(slots))
                hk = rr.choice([0, 1])
                try:
                    sg = _sig(make_converter(slots[s], ConverterHandlers.make(_handlers(hk))), desc[s])
                except Exception as e:  # noqa
                    sg = ('build-error', type(e).__name__)
                if sg != want_of[(s, hk)]:
                    with lock:
                        res.append((s, hk, sg))
        ths = [threading.Thread(target=work, args=(i,)) for i in range(nthreads)]
        for th in ths:
            th.start()
        for th in ths:
            th.join()
        _sys.setswitchinterval(old)
        for s, hk, sg in res[:3]:
            notes.append(f'thread: slot {s} handlers #{hk} returned {sg!r}, fresh is {want_of[(s, hk)]!r}')
    scen['ops'] = ops
    scen['_oracle'] = {'c10': notes[0] if notes else None}
    return {'obs': obs}


def run_lru(scen):
    from pane.util import KeyCache
    calls = []
    def f(k):
        calls.append(k)
        return k * 7 + 1
    kc = KeyCache(f, lambda k: k, maxsize=scen['maxsize'])
    results = []
    for k in scen['keys']:
        try:
            results.append(kc(k))
        except Exception as e:  # noqa
            return {'raises': type(e).__name__}
    order = []
    link = kc._root[1]
    n = 0
    while link is not kc._root and n < 10000:
        order.append(link[2])
        link = link[1]
        n += 1
    scen['_oracle'] = {'c10': None if len(kc.cache) <= scen['maxsize'] and results == [k * 7 + 1 for k in scen['keys']] else
                       f'LRU cache holds {len(kc.cache)} entries for maxsize {scen["maxsize"]} or returned a wrong value'}
    return {'results': results, 'order': order}


# ------------------------------------------------------------------------------------------------
# C19: real files / streams, every formatting option
def run_io(scen, ctx, T, conv, val):
    import io as _io, tempfile, shutil, warnings, builtins, pathlib
    from pane import io as pio
    r = result_of(ctx, lambda: conv.convert(val))
    if 'value' not in r:
        return r
    x = conv.convert(val)
    fmt, sink, opts = scen['fmt'], scen['sink'], dict(scen.get('opts') or {})
    write = pio.write_json if fmt == 'json' else pio.write_yaml
    read = pio.from_json if fmt == 'json' else pio.from_yaml
    tmp = tempfile.mkdtemp(prefix='pane-io-')
    stream_open = True
    opened = []   # every file pane itself opens: (file object, encoding asked for)

    def rec_open(file, mode='r', *a, **kw):
        f = builtins.open(file, mode, *a, **kw)
        opened.append((f, kw.get('encoding'), mode))
        return f

    pio.open = rec_open   # module-level name shadows the builtin inside pane.io only
    if scen.get('prelude_fail'):
        # an EARLIER write that fails half-way (a value the codec cannot represent), on the same thread, through the
        # string-returning dataclass methods and through a stream: the scenario's own write must not see anything of it
        class _Unrep(PaneBase):
            name: str = 'carrier'
            gain: t.Any = None
        for w in ('write_json', 'write_yaml'):
            try:
                getattr(_Unrep(gain=3 + 4j if w == 'write_json' else object()), w)()
            except BaseException:  # noqa
                pass
        try:
            write(_Unrep(gain=3 + 4j if fmt == 'json' else object()), _io.StringIO(), ty=_Unrep)
        except BaseException:  # noqa
            pass
    try:
        with warnings.catch_warnings(record=True) as wlist:
            warnings.simplefilter('always', ResourceWarning)
            try:
                if sink in ('strpath', 'path', 'method_file'):
                    p = os.path.join(tmp, 'doc.' + fmt)
                    target = p if sink == 'strpath' else pathlib.Path(p)
                    if sink == 'method_file':
                        (x.write_json if fmt == 'json' else x.write_yaml)(target, **opts)
                        x2 = result_of(ctx, lambda: (type(x).from_json if fmt == 'json' else type(x).from_yaml)(target))
                    else:
                        write(x, target, ty=T, **opts)
                        x2 = result_of(ctx, lambda: read(target, T))
                    with builtins.open(p, 'rb') as fh:
                        raw = fh.read()
                    try:
                        raw.decode('utf-8')
                    except UnicodeDecodeError:
                        x2 = {'raises': 'file-not-utf8'}
                elif sink in ('stringio', 'method_stream'):
                    f = _io.StringIO()
                    if sink == 'method_stream':
                        (x.write_json if fmt == 'json' else x.write_yaml)(f, **opts)
                    else:
                        write(x, f, ty=T, **opts)
                    stream_open = not f.closed
                    f.seek(0)
                    x2 = result_of(ctx, lambda: read(f, T))
                    stream_open = stream_open and not f.closed
                elif sink == 'textfile':
                    p = os.path.join(tmp, 'doc.' + fmt)
                    with builtins.open(p, 'w+', encoding=scen.get('enc', 'utf-8')) as f:
                        write(x, f, ty=T, **opts)
                        stream_open = not f.closed
                        f.seek(0)
                        x2 = result_of(ctx, lambda: read(f, T))
                        stream_open = stream_open and not f.closed
                elif sink == 'textfile2':
                    # the caller's own text streams (any encoding they chose), one for writing and another for reading
                    p = os.path.join(tmp, 'doc.' + fmt)
                    with builtins.open(p, 'w', encoding=scen.get('enc', 'utf-8')) as f:
                        write(x, f, ty=T, **opts)
                        stream_open = not f.closed
                    with builtins.open(p, 'r', encoding=scen.get('enc', 'utf-8')) as f:
                        x2 = result_of(ctx, lambda: read(f, T))
                        stream_open = stream_open and not f.closed
                elif sink == 'method':
                    s = (x.write_json if fmt == 'json' else x.write_yaml)(**opts)
                    if not isinstance(s, str):
                        x2 = {'raises': 'method-returned-' + type(s).__name__}
                    else:
                        x2 = result_of(ctx, lambda: (type(x).from_jsons if fmt == 'json' else type(x).from_yamls)(s))
                elif sink in ('yaml_all', 'yaml_all_path'):
                    n = scen.get('ndocs', 2)
                    text = ''.join(pio_write_str(pio, x, T, opts) for _ in range(n))
                    if sink == 'yaml_all_path':
                        p = os.path.join(tmp, 'docs.yaml')
                        with builtins.open(p, 'w', encoding='utf-8') as fh:
                            fh.write(text)
                        xs = result_of(ctx, lambda: pio.from_yaml_all(p, T))
                    else:
                        f = _io.StringIO(text)
                        xs = result_of(ctx, lambda: pio.from_yaml_all(f, T))
                        stream_open = not f.closed
                    # one converted value per document: report the first when all n are present and equal
                    docs_out = xs['value'].get('l') if 'value' in xs and isinstance(xs['value'], dict) else None
                    if docs_out is not None and len(docs_out) == n and all(canon(o) == canon(docs_out[0]) for o in docs_out):
                        x2 = {'value': docs_out[0]}
                    else:
                        x2 = xs
                else:
                    raise ValueError(sink)
            except ConvertError as e:
                x2 = {'convertError': enc_tree(ctx, e.tree)}
            except BaseException as e:  # noqa
                x2 = {'raises': map_exc(e), 'msg': str(e)[:200]}
            path_closed = all(f.closed for f, _, _ in opened)
            utf8 = all(str(enc).lower().replace('-', '') == 'utf8' for _, enc, _ in opened)
            n_opened = len(opened)
            del opened[:]
        if any(issubclass(w.category, ResourceWarning) for w in wlist):
            path_closed = False
    finally:
        try:
            del pio.open
        except AttributeError:
            pass
        shutil.rmtree(tmp, ignore_errors=True)
    out = {'x': ctx.enc(x), 'x2': x2, 'stream_open': stream_open}
    if sink in ('strpath', 'path', 'method_file', 'yaml_all_path'):
        out['path_closed'] = path_closed and n_opened >= 1
        out['utf8'] = utf8
    return out


def pio_write_str(pio, x, T, opts):
    import io as _io
    f = _io.StringIO()
    pio.write_yaml(x, f, ty=T, **dict(opts, explicit_start=True))
    return f.getvalue()
