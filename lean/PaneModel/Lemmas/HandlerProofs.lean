import PaneModel.Lemmas.BuildProofs
import PaneModel.Model.Pane
/-!
# Lemmas about converter handlers (`custom=`, class `custom=`, `register_converter_handler`,
`field(converter=…)`) for `Props/C18.lean`

Everything here lives in `PaneModel.HandlerProofs` so that no name can clash with another file.
As in `BuildProofs.lean`, `mkTy` has no equation lemmas: the clauses needed are restated and closed by
`rfl` with smart unfolding off.
-/
namespace PaneModel.HandlerProofs

variable {env : Env} {mkCls : ClassEntry → Handlers → Except BuildErr Conv} {H : Handlers}

/-! ## The remaining clauses of `mkTy` -/

section Unfold
set_option smartUnfolding false

theorem mkTy_pattern (arg : Option String) :
    mkTy env mkCls H (.pattern arg) =
      match H.answer "Pattern" (if arg.isSome then 1 else 0) with
      | some id => .ok (.custom id)
      | none =>
        match arg with
        | none => (mkTy.mkInner H (.scalar "str")).map (.pattern false)
        | some "str" => (mkTy.mkInner H (.scalar "str")).map (.pattern false)
        | some "bytes" => (mkTy.mkInner H (.scalar "bytes")).map (.pattern true)
        | some _ => .error (.typeError "Pattern only accepts a 'str' or 'bytes' type argument") := rfl

theorem mkTy_cls (name : String) (args : List Ty) :
    mkTy env mkCls H (.cls name args) =
      match H.answer name args.length with
      | some id => .ok (.custom id)
      | none =>
        match env.classes.find? (·.key == clsKey name args) with
        | some ce => mkCls ce H
        | none => .error (.typeError ("unknown class " ++ clsKey name args)) := rfl

theorem mkTy_ndarray :
    mkTy env mkCls H .ndarray =
      match H.answer "ndarray" 0 with
      | some id => .ok (.custom id)
      | none => .ok (.nested .any) := rfl

theorem mkTy_enum (name : String) :
    mkTy env mkCls H (.enum name) =
      match H.answer name 0 with
      | some id => .ok (.custom id)
      | none =>
        match (env.registered.findSome? fun h => h.answer name 0) with
        | some id => .ok (.custom id)
        | none =>
          match env.enums.lookup name with
          | none => .error (.typeError ("unknown enum " ++ name))
          | some vals =>
            if vals.any (!·.hashable) then .error (.typeError "All enum members must be hashable")
            else
              let members := Val.dedupPy vals
              match exAll (members.map fun v => match kindTyName v with
                  | some n => Except.ok n | none => Except.error (BuildErr.typeError "All enum members must be data-interchange types")) with
              | .error e => .error e
              | .ok names =>
                let tys := (dedupStr names).map fun n =>
                  if n == "tuple" then Ty.seq "tuple" none else if n == "NoneType" then Ty.scalar "NoneType" else Ty.scalar n
                let inner : Except BuildErr Conv := match tys with
                  | [] => .error (.typeError "reduce() of empty iterable with no initial value")
                  | [t] => mkTy.mkInner H t
                  | ts => (exAll (ts.map (mkTy.mkInner H))).map .union
                inner.map fun ic => .enum name members ic := rfl

theorem mkTy_sub (name base : String) :
    mkTy env mkCls H (.sub name base) =
      match H.answer name 0 with
      | some id => .ok (.custom id)
      | none =>
        match (env.registered.findSome? fun h => h.answer name 0) with
        | some id => .ok (.custom id)
        | none =>
          if Facts.strSubclassIsSequence == some true && (base == "str" || base == "bytes" || base == "bytearray") then
            .ok (.seq ("sub:" ++ name) .any)
          else (mkTy.mkInner H (.scalar base)).map (.delegate name) := rfl

theorem mkTy_typeVar (n : String) (bound : Option Ty) (constraints : List Ty) :
    mkTy env mkCls H (.typeVar n bound constraints) =
      match bound with
      | some b => mkTy env mkCls H b
      | none =>
        if constraints.length > 1 then (exAll (mkTys env mkCls H constraints)).map .union
        else .ok .any := by
  cases bound <;> rfl

theorem mkTy_annotated (t : Ty) (anns : List Ann) :
    mkTy env mkCls H (.annotated t anns) =
      match annGo env
          (match t with
            | .union ts => some (exAll (mkTys env mkCls H ts), ts)
            | _ => none) none [] anns with
      | .error e => .error e
      | .ok (conv, conds) =>
        match (match conv with
            | some c => Except.ok c
            | none => mkTy env mkCls H t) with
        | .error e => .error e
        | .ok b =>
          match conds with
          | [] => .ok b
          | [(c, f)] => .ok (.cond b c f)
          | cs => .ok (.cond b (.all (cs.map (·.1))) .satisfying) := by
  cases t <;> rfl

theorem mkTy_forwardRef (s : String) :
    mkTy env mkCls H (.forwardRef s) = .error (.typeError ("Unresolved forward reference '" ++ s ++ "'")) := rfl

theorem mkTy_unsupported (w : String) :
    mkTy env mkCls H (.unsupported w) = .error (.typeError ("Unsupported special type '" ++ w ++ "'")) := rfl

theorem mkTys_nil : mkTys env mkCls H [] = [] := rfl

theorem mkTys_cons (t : Ty) (ts : List Ty) :
    mkTys env mkCls H (t :: ts) = mkTy env mkCls H t :: mkTys env mkCls H ts := rfl

theorem mkInner_seq_bare (origin : String) :
    mkTy.mkInner H (.seq origin none) =
      match H.answer origin 0 with
      | some id => .ok (.custom id)
      | none => (seqKind origin).elim (.error (.typeError "No converter")) fun k => .ok (.seq k .any) := rfl

end Unfold

/-! ## `Handler.answer` and `Handlers.answer` -/

/-- the whole of `Handler.answer` in one line: a mapping-form handler is silent on parameterised
types, otherwise the table decides -/
theorem answer_eq (h : Handler) (head : String) (n : Nat) :
    h.answer head n = if (h.exactOnly && n != 0) = true then none else h.entries.lookup head := by
  unfold Handler.answer
  cases h.entries.lookup head with
  | none => simp
  | some id => rfl

theorem answer_lookup_none {h : Handler} {head : String} (n : Nat) (hl : h.entries.lookup head = none) :
    h.answer head n = none := by
  rw [answer_eq, hl]; simp

theorem answer_some_lookup {h : Handler} {head : String} {n : Nat} {id : String}
    (ha : h.answer head n = some id) : h.entries.lookup head = some id := by
  rw [answer_eq] at ha
  split at ha
  · cases ha
  · exact ha

theorem answer_exactOnly {h : Handler} {head : String} {n : Nat} {id : String}
    (ha : h.answer head n = some id) (he : h.exactOnly = true) : n = 0 := by
  rw [answer_eq, he] at ha
  cases n with
  | zero => rfl
  | succ k => simp at ha

theorem answer_exact_zero {h : Handler} {head : String} : h.answer head 0 = h.entries.lookup head := by
  rw [answer_eq]; simp

theorem answer_function_form {h : Handler} {head : String} (n : Nat) (he : h.exactOnly = false) :
    h.answer head n = h.entries.lookup head := by
  rw [answer_eq, he]; simp

/-- the merged handlers `PaneConverter.__init__` passes to its fields -/
def merged (ce : ClassEntry) (H : Handlers) : Handlers :=
  { globals := H.globals, classLocal := ce.classHandlers ++ H.classLocal }

theorem answers_eq (hs : Handlers) (head : String) (n : Nat) :
    hs.answer head n =
      (hs.globals.findSome? (·.answer head n)).or (hs.classLocal.findSome? (·.answer head n)) := by
  unfold Handlers.answer
  rw [List.findSome?_append]

theorem answers_of_globals {hs : Handlers} {head : String} {n : Nat} {id : String}
    (hg : hs.globals.findSome? (·.answer head n) = some id) : hs.answer head n = some id := by
  rw [answers_eq, hg]; rfl

theorem answers_of_globals_none {hs : Handlers} {head : String} {n : Nat}
    (hg : hs.globals.findSome? (·.answer head n) = none) :
    hs.answer head n = hs.classLocal.findSome? (·.answer head n) := by
  rw [answers_eq, hg]; rfl

theorem merged_answers (ce : ClassEntry) (H : Handlers) (head : String) (n : Nat) :
    (merged ce H).answer head n =
      ((H.globals.findSome? (·.answer head n)).or (ce.classHandlers.findSome? (·.answer head n))).or
        (H.classLocal.findSome? (·.answer head n)) := by
  rw [answers_eq]
  show (H.globals.findSome? _).or ((ce.classHandlers ++ H.classLocal).findSome? _) = _
  rw [List.findSome?_append, Option.or_assoc]

/-- index form of "first that answers": element `i` answers and nothing before it does -/
theorem findSome?_of_leftmost {α β : Type} {f : α → Option β} {b : β} :
    ∀ {l : List α} {i : Nat} (hi : i < l.length), f l[i] = some b →
      (∀ (j : Nat) (hj : j < i), f (l[j]'(Nat.lt_trans hj hi)) = none) → l.findSome? f = some b
  | [], i, hi, _, _ => absurd hi (Nat.not_lt_zero _)
  | a :: l, 0, _, h1, _ => by
    simp only [List.getElem_cons_zero] at h1
    simp only [List.findSome?_cons, h1]
  | a :: l, i + 1, hi, h1, h2 => by
    have h0 : f a = none := by simpa using h2 0 (Nat.succ_pos _)
    simp only [List.findSome?_cons, h0]
    simp only [List.getElem_cons_succ] at h1
    refine findSome?_of_leftmost (i := i) (by simpa using hi) h1 ?_
    intro j hj
    simpa using h2 (j + 1) (Nat.succ_lt_succ hj)

theorem findSome?_leftmost {α β : Type} {f : α → Option β} {b : β} :
    ∀ {l : List α}, l.findSome? f = some b →
      ∃ (i : Nat) (hi : i < l.length), f l[i] = some b ∧
        ∀ (j : Nat) (hj : j < i), f (l[j]'(Nat.lt_trans hj hi)) = none
  | [], h => by simp at h
  | a :: l, h => by
    cases ha : f a with
    | some b' =>
      simp only [List.findSome?_cons, ha] at h
      cases h
      exact ⟨0, Nat.succ_pos _, by simpa using ha, fun j hj => absurd hj (Nat.not_lt_zero _)⟩
    | none =>
      simp only [List.findSome?_cons, ha] at h
      obtain ⟨i, hi, h1, h2⟩ := findSome?_leftmost h
      refine ⟨i + 1, Nat.succ_lt_succ hi, by simpa using h1, ?_⟩
      intro j hj
      cases j with
      | zero => simpa using ha
      | succ j => simpa using h2 j (Nat.lt_of_succ_lt_succ hj)

/-! ## `exAll` over a `map`, pointwise -/

/-- two lists of the same length, related position by position -/
def Pointwise {α β : Type} (P : α → β → Prop) : List α → List β → Prop
  | [], [] => True
  | a :: as, b :: bs => P a b ∧ Pointwise P as bs
  | _, _ => False

theorem Pointwise.mono {α β : Type} {P Q : α → β → Prop} (hPQ : ∀ a b, P a b → Q a b) :
    ∀ {as : List α} {bs : List β}, Pointwise P as bs → Pointwise Q as bs
  | [], [], _ => trivial
  | a :: _, b :: _, h => ⟨hPQ a b h.1, Pointwise.mono hPQ h.2⟩
  | [], _ :: _, h => h.elim
  | _ :: _, [], h => h.elim

theorem Pointwise.length {α β : Type} {P : α → β → Prop} :
    ∀ {as : List α} {bs : List β}, Pointwise P as bs → bs.length = as.length
  | [], [], _ => rfl
  | _ :: _, _ :: _, h => by simp [Pointwise.length h.2]
  | [], _ :: _, h => h.elim
  | _ :: _, [], h => h.elim

theorem Pointwise.getElem {α β : Type} {P : α → β → Prop} :
    ∀ {as : List α} {bs : List β}, Pointwise P as bs →
      ∀ (i : Nat) (ha : i < as.length) (hb : i < bs.length), P as[i] bs[i]
  | [], [], _, i, ha, _ => absurd ha (Nat.not_lt_zero _)
  | a :: as, b :: bs, h, 0, _, _ => h.1
  | a :: as, b :: bs, h, i + 1, ha, hb => by
    simpa using Pointwise.getElem h.2 i (by simpa using ha) (by simpa using hb)
  | [], _ :: _, h, _, _, _ => h.elim
  | _ :: _, [], h, _, _, _ => h.elim

theorem exAll_map_pointwise {α ε β : Type} {f : α → Except ε β} :
    ∀ {xs : List α} {cs : List β}, exAll (xs.map f) = .ok cs → Pointwise (fun a c => f a = .ok c) xs cs
  | [], cs, h => by
    simp only [List.map_nil, exAll] at h
    cases h
    trivial
  | x :: xs, cs, h => by
    simp only [List.map_cons, exAll] at h
    split at h
    · rename_i a hfa
      split at h
      · rename_i as has
        cases h
        exact ⟨hfa, exAll_map_pointwise has⟩
      · cases h
    · cases h

theorem exAll_mkTys_pointwise :
    ∀ {ts : List Ty} {cs : List Conv}, exAll (mkTys env mkCls H ts) = .ok cs →
      Pointwise (fun t c => mkTy env mkCls H t = .ok c) ts cs
  | [], cs, h => by
    rw [mkTys_nil] at h
    simp only [exAll] at h
    cases h
    trivial
  | t :: ts, cs, h => by
    rw [mkTys_cons] at h
    simp only [exAll] at h
    split at h
    · rename_i a hfa
      split at h
      · rename_i as has
        cases h
        exact ⟨hfa, exAll_mkTys_pointwise has⟩
      · cases h
    · cases h

/-! ## `mkPane` -/

/-- how `PaneConverter.__init__` builds the converter of one field -/
def fieldBuild (mk : Handlers → Ty → Except BuildErr Conv) (H' : Handlers) (p : Ty × Option String) :
    Except BuildErr Conv :=
  match p.2 with
  | some id => .ok (.custom id)
  | none => mk H' p.1

theorem mkPane_eq (mk : Handlers → Ty → Except BuildErr Conv) (ce : ClassEntry) (H : Handlers) :
    mkPane mk ce H =
      (exAll ((ce.fieldTys.zip ce.fieldConv).map (fieldBuild mk (merged ce H)))).map (.pane ce.info) := rfl

theorem mkPane_ok {mk : Handlers → Ty → Except BuildErr Conv} {ce : ClassEntry} {H : Handlers} {c : Conv}
    (h : mkPane mk ce H = .ok c) :
    ∃ cs, c = .pane ce.info cs ∧
      Pointwise (fun p c => fieldBuild mk (merged ce H) p = .ok c) (ce.fieldTys.zip ce.fieldConv) cs := by
  rw [mkPane_eq] at h
  cases hx : exAll ((ce.fieldTys.zip ce.fieldConv).map (fieldBuild mk (merged ce H))) with
  | error e => rw [hx] at h; cases h
  | ok cs =>
    rw [hx] at h
    cases h
    exact ⟨cs, rfl, exAll_map_pointwise hx⟩

/-! ## Reach: the handlers of a call are asked at every occurrence of a type

`LeafOK K name id t c` relates a type expression `t` to the converter tree `c` built from it and says:
at every position of `c` that was built for an occurrence of the scalar type `name` inside `t`
(through sequences, fixed tuples, mappings, unions, tagged unions, struct and tuple literals,
`Annotated`, type-variable bounds and constraints) sits the user converter `.custom id`.
Where a handler took a whole container (`.custom _` in place of the container's converter) no
converter was built for the occurrences inside it and nothing is claimed.  Shapes `make_converter`
cannot produce for `t` are excluded (`False`).  `K` says what is claimed at a dataclass. -/

mutual
def LeafOK (K : String → List Ty → Conv → Prop) (name id : String) : Ty → Conv → Prop
  | .scalar n, c => n = name → c = .custom id
  | .seq _ (some a), c =>
    match c with
    | .seq _ c' => LeafOK K name id a c'
    | .custom _ => True
    | _ => False
  | .valueOrList (some a), c =>
    -- `ValueOrList[T]`: the element converter (both members are built from it, through the same handlers)
    match c with
    | .vol c' => LeafOK K name id a c'
    | .custom _ => True
    | _ => False
  | .tupleFixed ts, c =>
    match c with
    | .tuple cs => LeafOKs K name id ts cs
    | .custom _ => True
    | _ => False
  | .mapping _ args, c =>
    match c with
    | .dict kind k v =>
      -- `Counter[K]`: the values are `int`s, built through the same handlers
      (kind = "Counter" → "int" = name → v = .custom id) ∧
      match args with
      | [] => True
      | [a] => LeafOK K name id a k
      | a :: b :: _ => LeafOK K name id a k ∧ (kind ≠ "Counter" → LeafOK K name id b v)
    | .custom _ => True
    | _ => False
  | .union ts, c =>
    match c with
    | .union cs => LeafOKs K name id ts cs
    | _ => False
  | .structLit _ ts, c =>
    match c with
    | .struct _ cs => LeafOKs K name id ts cs
    | _ => False
  | .tupleLit ts, c =>
    match c with
    | .tuple cs => LeafOKs K name id ts cs
    | _ => False
  | .annotated t _, c =>
    -- `b` = the converter under the (bundled) conditions: built from `t`, or the tagged union over
    -- the member converters `cs` the plain union would have
    ∃ b, (c = b ∨ ∃ cnd f, c = .cond b cnd f) ∧
      (LeafOK K name id t b ∨ ∃ cs tag tm lay, b = .tagged cs tag tm lay ∧ LeafOK K name id t (.union cs))
  | .typeVar _ (some b) _, c => LeafOK K name id b c
  | .typeVar _ none ts, c =>
    match c with
    | .union cs => LeafOKs K name id ts cs
    | .any => True
    | _ => False
  | .cls nm args, c => K nm args c
  | .sub _ base, c =>
    -- a subclass of a scalar delegates to its base type's converter, built through the same handlers
    match c with
    | .delegate _ inner => base = name → inner = .custom id
    | _ => True
  | _, _ => True
def LeafOKs (K : String → List Ty → Conv → Prop) (name id : String) : List Ty → List Conv → Prop
  | [], [] => True
  | t :: ts, c :: cs => LeafOK K name id t c ∧ LeafOKs K name id ts cs
  | _, _ => False
end

/-- what `_annotated_converter` leaves as the base converter: nothing, or a tagged union over the
member converters of the annotated `Union` -/
theorem annGo_conv {up : Option (Except BuildErr (List Conv) × List Ty)} :
    ∀ {anns : List Ann} {conv : Option Conv} {conds : List (CondExpr × ExpFmt)}
      {conv' : Option Conv} {conds' : List (CondExpr × ExpFmt)},
      annGo env up conv conds anns = .ok (conv', conds') →
      conv' = conv ∨ ∃ cs ts tag tm lay, up = some (.ok cs, ts) ∧ conv' = some (.tagged cs tag tm lay)
  | [], conv, conds, conv', conds', h => by
    simp only [annGo] at h
    cases h
    exact .inl rfl
  | .cond c f :: rest, conv, conds, conv', conds', h => by
    simp only [annGo] at h
    exact annGo_conv h
  | .foreign :: rest, conv, conds, conv', conds', h => by
    simp only [annGo] at h
    cases h
  | .tagged tag layout :: rest, conv, conds, conv', conds', h => by
    simp only [annGo] at h
    split at h
    · cases h
    · split at h
      · rename_i cs ts
        split at h
        · rename_i tm _
          rcases annGo_conv h with h' | ⟨cs', ts', tag', tm', lay', h1, h2⟩
          · exact .inr ⟨cs, ts, tag, tm, layout, rfl, h'⟩
          · exact .inr ⟨cs', ts', tag', tm', lay', h1, h2⟩
        · cases h
      · cases h
      · cases h

/-- shape of the converter of `Annotated[t, …]` -/
theorem annotated_shape {t : Ty} {anns : List Ann} {c : Conv}
    (h : mkTy env mkCls H (.annotated t anns) = .ok c) :
    ∃ b, (c = b ∨ ∃ cnd f, c = .cond b cnd f) ∧
      (mkTy env mkCls H t = .ok b ∨
        ∃ ts cs tag tm lay, t = .union ts ∧ exAll (mkTys env mkCls H ts) = .ok cs ∧ b = .tagged cs tag tm lay) := by
  rw [mkTy_annotated] at h
  split at h
  · cases h
  · rename_i conv conds hgo
    split at h
    · cases h
    · rename_i b hb
      have hc : c = b ∨ ∃ cnd f, c = .cond b cnd f := by
        split at h
        · cases h; exact .inl rfl
        · cases h; exact .inr ⟨_, _, rfl⟩
        · cases h; exact .inr ⟨_, _, rfl⟩
      refine ⟨b, hc, ?_⟩
      rcases annGo_conv hgo with rfl | ⟨cs, ts, tag, tm, lay, hup, rfl⟩
      · exact .inl hb
      · simp only [Except.ok.injEq] at hb
        subst hb
        refine .inr ⟨ts, cs, tag, tm, lay, ?_⟩
        cases t <;> simp only [reduceCtorEq] at hup
        simp only [Option.some.injEq, Prod.mk.injEq] at hup
        obtain ⟨h1, rfl⟩ := hup
        exact ⟨rfl, h1, rfl⟩

/-- the leaf builder used for implicit element types (`Counter` values, enum members, the base of a
scalar subclass) asks the same handlers first -/
theorem mkInner_scalar_handler {n id : String} {v : Conv} (hans : H.answer n 0 = some id)
    (hv : mkTy.mkInner H (.scalar n) = .ok v) : v = .custom id := by
  rw [mkInner_scalar, hans] at hv
  cases hv
  rfl

/-- shape of the converter of a mapping type -/
theorem mapping_shape {o : String} {args : List Ty} {c : Conv}
    (h : mkTy env mkCls H (.mapping o args) = .ok c) :
    (∃ i, c = .custom i) ∨ ∃ kind k v, c = .dict kind k v ∧
      (kind = "Counter" → mkTy.mkInner H (.scalar "int") = .ok v) ∧
      match args with
      | [] => True
      | [a] => mkTy env mkCls H a = .ok k
      | a :: b :: _ => mkTy env mkCls H a = .ok k ∧ (kind ≠ "Counter" → mkTy env mkCls H b = .ok v) := by
  rw [mkTy_mapping] at h
  split at h
  · cases h; exact .inl ⟨_, rfl⟩
  · split at h
    · cases h; exact .inl ⟨_, rfl⟩
    split at h
    · cases h
    · rename_i kind _
      right
      split at h
      · rename_i hk
        have hk' : kind = "Counter" := by simpa using hk
        cases args with
        | nil =>
          cases hv : mkTy.mkInner H (.scalar "int") with
          | error e => rw [hv] at h; cases h
          | ok v => rw [hv] at h; cases h; exact ⟨_, _, _, rfl, fun _ => rfl, trivial⟩
        | cons a as =>
          cases ha : mkTy env mkCls H a with
          | error e => simp only [ha] at h; cases h
          | ok k =>
            cases hv : mkTy.mkInner H (.scalar "int") with
            | error e => simp only [ha, hv] at h; cases h
            | ok v =>
              simp only [ha, hv] at h
              cases h
              refine ⟨_, _, _, rfl, fun _ => rfl, ?_⟩
              cases as with
              | nil => exact ha
              | cons b bs => exact ⟨ha, fun hne => absurd hk' hne⟩
      · rename_i hk
        have hk' : kind ≠ "Counter" := by simpa using hk
        cases args with
        | nil => cases h; exact ⟨_, _, _, rfl, fun hc => absurd hc hk', trivial⟩
        | cons a as =>
          cases as with
          | nil =>
            cases ha : mkTy env mkCls H a with
            | error e => simp only [ha] at h; cases h
            | ok k => simp only [ha] at h; cases h; exact ⟨_, _, _, rfl, fun hc => absurd hc hk', ha⟩
          | cons b bs =>
            cases ha : mkTy env mkCls H a with
            | error e => simp only [ha] at h; cases h
            | ok k =>
              cases hb : mkTy env mkCls H b with
              | error e => simp only [ha, hb] at h; cases h
              | ok v =>
                simp only [ha, hb] at h
                cases h
                exact ⟨_, _, _, rfl, fun hc => absurd hc hk', ha, fun _ => hb⟩

section Reach
variable {K : String → List Ty → Conv → Prop} {name id : String}

mutual
/-- **reach.** If the handlers answer `name ↦ id`, every converter built for an occurrence of the
scalar type `name` inside `t` is `.custom id`.  `hK` is the same claim at dataclasses, supplied by
the caller (`mkCls` is a parameter of `mkTy`). -/
theorem reach_ty (hans : H.answer name 0 = some id)
    (hK : ∀ nm args c, mkTy env mkCls H (.cls nm args) = .ok c → K nm args c) :
    ∀ (t : Ty) (c : Conv), mkTy env mkCls H t = .ok c → LeafOK K name id t c
  | .any, _, _ => trivial
  | .scalar n, c, h => by
    show n = name → c = .custom id
    intro hn
    subst hn
    rw [mkTy_scalar, hans] at h
    cases h
    rfl
  | .seq _ none, _, _ => trivial
  | .seq o (some a), c, h => by
    rw [mkTy_seq] at h
    split at h
    · cases h; exact trivial
    · split at h
      · cases h; exact trivial
      split at h
      · cases h
      · cases ha : mkTy env mkCls H a with
        | error e => simp only [ha] at h; cases h
        | ok c' =>
          simp only [ha] at h
          cases h
          exact reach_ty hans hK a c' ha
  | .valueOrList none, _, _ => trivial
  | .valueOrList (some a), c, h => by
    rw [mkTy_valueOrList] at h
    split at h
    · cases h; exact trivial
    · cases ha : mkTy env mkCls H a with
      | error e => simp only [ha] at h; cases h
      | ok c' =>
        simp only [ha] at h
        cases h
        exact reach_ty hans hK a c' ha
  | .tupleFixed ts, c, h => by
    rw [mkTy_tupleFixed] at h
    split at h
    · cases h; exact trivial
    · split at h
      · cases h; exact trivial
      cases hx : exAll (mkTys env mkCls H ts) with
      | error e => rw [hx] at h; cases h
      | ok cs =>
        rw [hx] at h
        cases h
        exact reach_tys hans hK ts cs hx
  | .mapping o [], c, h => by
    rcases mapping_shape h with ⟨i, rfl⟩ | ⟨kind, k, v, rfl, hcnt, _⟩
    · exact trivial
    · exact ⟨fun hc hn => mkInner_scalar_handler (hn ▸ hans) (hcnt hc), trivial⟩
  | .mapping o [a], c, h => by
    rcases mapping_shape h with ⟨i, rfl⟩ | ⟨kind, k, v, rfl, hcnt, ha⟩
    · exact trivial
    · exact ⟨fun hc hn => mkInner_scalar_handler (hn ▸ hans) (hcnt hc), reach_ty hans hK a k ha⟩
  | .mapping o (a :: b :: rest), c, h => by
    rcases mapping_shape h with ⟨i, rfl⟩ | ⟨kind, k, v, rfl, hcnt, ha, hb⟩
    · exact trivial
    · exact ⟨fun hc hn => mkInner_scalar_handler (hn ▸ hans) (hcnt hc),
        reach_ty hans hK a k ha, fun hne => reach_ty hans hK b v (hb hne)⟩
  | .union ts, c, h => by
    rw [mkTy_union] at h
    cases hx : exAll (mkTys env mkCls H ts) with
    | error e => rw [hx] at h; cases h
    | ok cs =>
      rw [hx] at h
      cases h
      exact reach_tys hans hK ts cs hx
  | .literal _, _, _ => trivial
  | .enum _, _, _ => trivial
  | .sub n base, c, h => by
    rw [mkTy_sub] at h
    split at h
    · cases h; exact trivial
    · split at h
      · cases h; exact trivial
      · split at h
        · cases h; exact trivial
        · cases hv : mkTy.mkInner H (.scalar base) with
          | error e => rw [hv] at h; cases h
          | ok v =>
            rw [hv] at h
            cases h
            show base = name → v = .custom id
            intro hn
            exact mkInner_scalar_handler (hn ▸ hans) hv
  | .structLit names ts, c, h => by
    rw [mkTy_structLit] at h
    cases hx : exAll (mkTys env mkCls H ts) with
    | error e => rw [hx] at h; cases h
    | ok cs =>
      rw [hx] at h
      cases h
      exact reach_tys hans hK ts cs hx
  | .tupleLit ts, c, h => by
    rw [mkTy_tupleLit] at h
    cases hx : exAll (mkTys env mkCls H ts) with
    | error e => rw [hx] at h; cases h
    | ok cs =>
      rw [hx] at h
      cases h
      exact reach_tys hans hK ts cs hx
  | .cls nm args, c, h => hK nm args c h
  | .annotated t anns, c, h => by
    obtain ⟨b, hc, hb⟩ := annotated_shape h
    refine ⟨b, hc, ?_⟩
    rcases hb with hb | ⟨ts, cs, tag, tm, lay, ht, hcs, rfl⟩
    · exact .inl (reach_ty hans hK t b hb)
    · refine .inr ⟨cs, tag, tm, lay, rfl, reach_ty hans hK t (.union cs) ?_⟩
      rw [ht, mkTy_union, hcs]
      rfl
  | .typeVar _ (some b) _, c, h => by
    rw [mkTy_typeVar] at h
    exact reach_ty hans hK b c h
  | .typeVar _ none ts, c, h => by
    rw [mkTy_typeVar] at h
    simp only [] at h
    split at h
    · cases hx : exAll (mkTys env mkCls H ts) with
      | error e => rw [hx] at h; cases h
      | ok cs =>
        rw [hx] at h
        cases h
        exact reach_tys hans hK ts cs hx
    · cases h; exact trivial
  | .pattern _, _, _ => trivial
  | .ndarray, _, _ => trivial
  | .forwardRef _, _, _ => trivial
  | .unsupported _, _, _ => trivial
theorem reach_tys (hans : H.answer name 0 = some id)
    (hK : ∀ nm args c, mkTy env mkCls H (.cls nm args) = .ok c → K nm args c) :
    ∀ (ts : List Ty) (cs : List Conv), exAll (mkTys env mkCls H ts) = .ok cs → LeafOKs K name id ts cs
  | [], cs, h => by
    rw [mkTys_nil] at h
    simp only [exAll] at h
    cases h
    trivial
  | t :: ts, cs, h => by
    rw [mkTys_cons] at h
    simp only [exAll] at h
    split at h
    · rename_i a hfa
      split at h
      · rename_i as has
        cases h
        exact ⟨reach_ty hans hK t a hfa, reach_tys hans hK ts as has⟩
      · cases h
    · cases h
end

end Reach

/-! ## Reach through dataclasses -/

/-- what is claimed about the converter `c'` of one field `p = (type, field converter)` -/
def FieldOK (R : Ty → Conv → Prop) (p : Ty × Option String) (c' : Conv) : Prop :=
  match p.2 with
  | some i => c' = .custom i
  | none => R p.1 c'

/-- claim at a dataclass `nm[args]`: a handler took it (`.custom _`), or it is the `PaneConverter` of
the class found in the environment, whose field converters — position by position — are the field's
own converter where it has one and satisfy `R` otherwise -/
def PaneOK (env : Env) (R : Ty → Conv → Prop) (nm : String) (args : List Ty) (c : Conv) : Prop :=
  (∃ i, c = .custom i) ∨
  ∃ ce cs, env.classes.find? (·.key == clsKey nm args) = some ce ∧ c = .pane ce.info cs ∧
    Pointwise (FieldOK R) (ce.fieldTys.zip ce.fieldConv) cs

/-- `LeafOK`, followed through `n` levels of dataclass nesting (the fuel of `mkF`) -/
def ReachF (env : Env) (name id : String) : Nat → Ty → Conv → Prop
  | 0 => fun _ _ => False
  | n + 1 => LeafOK (PaneOK env (ReachF env name id n)) name id

theorem merged_globals (ce : ClassEntry) (H : Handlers) : (merged ce H).globals = H.globals := rfl

/-- the fields of a dataclass built with `mk`: own converter first, otherwise `mk` under the merged
handlers — and whatever holds of `mk`'s results under handlers with the same `globals` holds of them -/
theorem pane_fields {mk : Handlers → Ty → Except BuildErr Conv} {ce : ClassEntry} {H : Handlers} {c : Conv}
    {R : Ty → Conv → Prop}
    (hR : ∀ t c', mk (merged ce H) t = .ok c' → R t c')
    (h : mkPane mk ce H = .ok c) :
    ∃ cs, c = .pane ce.info cs ∧ Pointwise (FieldOK R) (ce.fieldTys.zip ce.fieldConv) cs := by
  obtain ⟨cs, rfl, hpw⟩ := mkPane_ok h
  refine ⟨cs, rfl, hpw.mono ?_⟩
  intro p c' hp
  unfold fieldBuild at hp
  unfold FieldOK
  split at hp
  · cases hp
    rfl
  · exact hR _ _ hp

theorem mkF_succ (env : Env) (n : Nat) (H : Handlers) (t : Ty) :
    mkF env (n + 1) H t = mkTy env (fun ce H' => mkPane (mkF env n) ce H') H t := rfl

/-- **reach, every depth.** A call-level handler answering `name ↦ id` (first among the call-level
ones) is the converter of every occurrence of `name`, also inside nested dataclasses — unless a field
has its own converter or a handler took a whole enclosing container / class. -/
theorem reach_mkF {name id : String} :
    ∀ (n : Nat) (H : Handlers) (t : Ty) (c : Conv),
      H.globals.findSome? (·.answer name 0) = some id → mkF env n H t = .ok c → ReachF env name id n t c
  | 0, _, _, _, _, h => by cases h
  | n + 1, H, t, c, hg, h => by
    rw [mkF_succ] at h
    refine reach_ty (answers_of_globals hg) ?_ t c h
    intro nm args c hc
    rw [mkTy_cls] at hc
    split at hc
    · cases hc; exact .inl ⟨_, rfl⟩
    · split at hc
      · rename_i ce hfind
        obtain ⟨cs, rfl, hpw⟩ := pane_fields (R := ReachF env name id n)
          (fun t c' h' => reach_mkF n (merged ce H) t c' hg h') hc
        exact .inr ⟨ce, cs, hfind, rfl, hpw⟩
      · cases hc

/-- the `i`-th field converter of a built `PaneConverter` is what `fieldBuild` gives for the `i`-th
(type, field converter) pair under the merged handlers -/
theorem mkPane_field {mk : Handlers → Ty → Except BuildErr Conv} {ce : ClassEntry} {H : Handlers} {c : Conv}
    (h : mkPane mk ce H = .ok c) {i : Nat} (ht : i < ce.fieldTys.length) (hf : i < ce.fieldConv.length) :
    ∃ cs c', c = .pane ce.info cs ∧ cs[i]? = some c' ∧
      fieldBuild mk (merged ce H) (ce.fieldTys[i], ce.fieldConv[i]) = .ok c' := by
  obtain ⟨cs, rfl, hpw⟩ := mkPane_ok h
  have hl := hpw.length
  have hz : i < (ce.fieldTys.zip ce.fieldConv).length := by
    rw [List.length_zip]; exact Nat.lt_min.2 ⟨ht, hf⟩
  have hc : i < cs.length := by rw [hl]; exact hz
  have hi := hpw.getElem i hz hc
  rw [List.getElem_zip] at hi
  exact ⟨cs, cs[i], rfl, List.getElem?_eq_getElem hc, hi⟩

/-- `mk` is consulted only for the fields without a converter of their own -/
theorem mkPane_congr {mk mk' : Handlers → Ty → Except BuildErr Conv} {ce : ClassEntry} {H : Handlers}
    (h : ∀ p ∈ ce.fieldTys.zip ce.fieldConv, p.2 = none → mk (merged ce H) p.1 = mk' (merged ce H) p.1) :
    mkPane mk ce H = mkPane mk' ce H := by
  rw [mkPane_eq, mkPane_eq]
  congr 2
  apply List.map_congr_left
  intro p hp
  unfold fieldBuild
  split
  · rfl
  · rename_i hn
    exact h p hp hn

/-! ## small bookkeeping -/

/-- position of a step in the extracted dispatch order of `make_converter` -/
def rank (s : String) : Nat := Facts.dispatchOrder.idxOf s

/-- the type forms at which `make_converter` runs the handler loop (everything but the special forms
`Any`, `TypeVar`, struct / tuple literals, `ForwardRef`, `Annotated`, `Union`, `Literal`) -/
def asksHandlers : Ty → Bool
  | .scalar _ | .seq _ _ | .tupleFixed _ | .mapping _ _ | .cls _ _ | .enum _ | .sub _ _
  | .pattern _ | .ndarray | .valueOrList _ => true
  | _ => false

/-- the type forms at whose OWN node `make_converter` reaches the loop over the registered handlers
(`_GLOBAL_HANDLERS`, rule 5): a scalar type without a row in `_BASIC_CONVERTERS`, and every structural
built-in — enums, subclasses of scalars, fixed tuples, sequences / sets, mappings.  Not: the special forms
(decided before the handler loop), dataclasses and `ValueOrList` (`HasConverter`, rule 2), the scalars of
the table (rule 3), `re.Pattern` (rule 4), `ndarray` (numpy's own handler, modelled as a built-in). -/
def consultsRegistered : Ty → Bool
  | .scalar n => !(Facts.basicTable.find? (·.1 == n)).isSome
  | .enum _ | .sub _ _ | .tupleFixed _ | .seq _ _ | .mapping _ _ => true
  | _ => false

/-- the parts of a type expression `mkTy` builds by a recursive call at this node (for a `Union` under
`Annotated`: its members) -/
def builtParts : Ty → List Ty
  | .seq _ (some a) => [a]
  | .tupleFixed ts => ts
  | .mapping _ args => args
  | .union ts => ts
  | .structLit _ ts => ts
  | .tupleLit ts => ts
  | .annotated (.union ts) _ => ts
  | .annotated t _ => [t]
  | .typeVar _ (some b) _ => [b]
  | .typeVar _ none cs => cs
  | .valueOrList (some a) => [a]
  | _ => []

theorem mkTys_congr_env {env env' : Env} :
    ∀ {ts : List Ty}, (∀ a ∈ ts, mkTy env' mkCls H a = mkTy env mkCls H a) →
      mkTys env' mkCls H ts = mkTys env mkCls H ts
  | [], _ => rfl
  | t :: ts, h => by
    rw [mkTys_cons, mkTys_cons, h t (List.mem_cons_self ..),
      mkTys_congr_env (ts := ts) fun a ha => h a (List.mem_cons_of_mem _ ha)]

theorem tagAttr_registered (reg : List Handler) (tag : String) (t : Ty) :
    tagAttr { env with registered := reg } tag t = tagAttr env tag t := by
  cases t <;> rfl

theorem buildTagMap_registered (reg : List Handler) (tag : String) :
    ∀ (ts : List Ty) (i : Nat) (acc : List (Val × Nat)),
      buildTagMap { env with registered := reg } tag ts i acc = buildTagMap env tag ts i acc
  | [], _, _ => rfl
  | t :: ts, i, acc => by
    simp only [buildTagMap, tagAttr_registered, buildTagMap_registered reg tag ts]

/-- `_annotated_converter` does not look at the registered handlers -/
theorem annGo_registered (reg : List Handler) (up : Option (Except BuildErr (List Conv) × List Ty)) :
    ∀ (anns : List Ann) (conv : Option Conv) (conds : List (CondExpr × ExpFmt)),
      annGo { env with registered := reg } up conv conds anns = annGo env up conv conds anns
  | [], _, _ => rfl
  | .cond c f :: rest, conv, conds => by
    simp only [annGo]; exact annGo_registered reg up rest _ _
  | .foreign :: _, _, _ => rfl
  | .tagged tag layout :: rest, conv, conds => by
    simp only [annGo, buildTagMap_registered, annGo_registered reg up rest]

theorem tryCs_eq_map (E : Ext) : ∀ cs : List Conv, tryCs E cs = cs.map (tryC E)
  | [] => rfl
  | c :: cs => by
    show tryC E c :: tryCs E cs = _
    rw [tryCs_eq_map E cs]; rfl

theorem intoCs_eq_map (E : Ext) (dyn : Val → Except Exc Val) : ∀ cs : List Conv, intoCs E dyn cs = cs.map (intoC E dyn)
  | [] => rfl
  | c :: cs => by
    show intoC E dyn c :: intoCs E dyn cs = _
    rw [intoCs_eq_map E dyn cs]; rfl

/-! ## A concrete configuration (non-vacuity of `Props/C18.lean`)

```python
conv2, conv3, conv5, conv7 = (TagInt(k) for k in (2, 3, 5, 7))     # user converters: int ↦ k·int
class C(PaneBase, custom={int: conv3}):
    a: int
    b: list[int]
    c: int = field(converter=conv5)
class P(PaneBase):                      # no handlers of its own
    x: int
class D(PaneBase, custom={int: conv7}):
    inner: C
    p: P
    n: int
convert(data, C, custom={int: conv2})   # the call-level handler
```
-/

def exG : Handler := { entries := [("int", "tagint:2")], exactOnly := true }
def exC3 : Handler := { entries := [("int", "tagint:3")], exactOnly := true }
def exC7 : Handler := { entries := [("int", "tagint:7")], exactOnly := true }
/-- function form: answers for `list` and every `list[T]` -/
def exFn : Handler := { entries := [("list", "anylist")], exactOnly := false }
/-- mapping form for `list`: only the bare `list` -/
def exMapList : Handler := { entries := [("list", "barelist")], exactOnly := true }
/-- a handler that knows nothing about `int` (answers `NotImplemented`) -/
def exOther : Handler := { entries := [("str", "tagstr:x")], exactOnly := true }

def exInfoC : PaneInfo where
  name := "C"
  fields := [{ name := "a", inNames := ["a"], outName := "a" },
             { name := "b", inNames := ["b"], outName := "b" },
             { name := "c", inNames := ["c"], outName := "c" }]
  inFormat := ["struct"]
  outFormat := "struct"
  minPos := 3
  maxPos := 3

def exInfoP : PaneInfo where
  name := "P"
  fields := [{ name := "x", inNames := ["x"], outName := "x" }]
  inFormat := ["struct"]
  outFormat := "struct"
  minPos := 1
  maxPos := 1

def exInfoD : PaneInfo where
  name := "D"
  fields := [{ name := "inner", inNames := ["inner"], outName := "inner" },
             { name := "p", inNames := ["p"], outName := "p" },
             { name := "n", inNames := ["n"], outName := "n" }]
  inFormat := ["struct"]
  outFormat := "struct"
  minPos := 3
  maxPos := 3

def exClsC : ClassEntry where
  key := "C"
  info := exInfoC
  fieldTys := [.scalar "int", .seq "list" (some (.scalar "int")), .scalar "int"]
  fieldConv := [none, none, some "tagint:5"]
  classHandlers := [exC3]

def exClsP : ClassEntry where
  key := "P"
  info := exInfoP
  fieldTys := [.scalar "int"]
  fieldConv := [none]
  classHandlers := []

def exClsD : ClassEntry where
  key := "D"
  info := exInfoD
  fieldTys := [.cls "C" [], .cls "P" [], .scalar "int"]
  fieldConv := [none, none, none]
  classHandlers := [exC7]

def exEnv : Env := { classes := [exClsC, exClsP, exClsD] }

/-- a function-form handler claiming the heads of special forms (and `dict`) -/
def exGreedy : Handler :=
  { entries := [("Union", "u"), ("Literal", "l"), ("Any", "a"), ("Annotated", "n"), ("dict", "d")], exactOnly := false }

/-- a processed parent class `C` with `custom={int: tagint:3}` (for the inheritance examples) -/
def exParentM : ClassM :=
  { name := "C", opts := { classHandlers := [exC3] }, specs := [], fields := [], fieldTys := [], fieldConv := [],
    minPos := 0, maxPos := 0, params := [], hook := none }

/-- the `int` row of `_BASIC_CONVERTERS` -/
def exIntRow : Conv := .scalar "int" [.int] .viaCtor "an int" "ints"

/-- externals with the tagging converters `tagint:k` (multiply an int by `k`, both directions) -/
def exExt : Ext where
  call := fun _ v => .ok v
  cond := fun _ _ _ => .ok true
  hook := fun _ fs _ => .ok fs
  factory := fun _ => .none
  pyStr := fun _ => "?"
  customTry := fun id v =>
    match v with
    | .int i => .ok (.int (i * (if id == "tagint:2" then 2 else if id == "tagint:3" then 3 else 5)))
    | _ => .interrupt
  customCol := fun _ v => .ok (some (.wrongType "custom" v none none))
  customInto := fun id v =>
    match v with
    | .int i => .ok (.int (i * (if id == "tagint:2" then 2 else if id == "tagint:3" then 3 else 5)))
    | v => .ok v
  customExp := fun _ _ => "custom"

end PaneModel.HandlerProofs
