import PaneModel.Spec.Denotes
import PaneModel.Spec.Documented
/-!
# The strictness table: which runtime kinds of data a target type admits
(statement-level definitions for `Props/C02.lean`)

`Admits target kind` transcribes the documented rule "no coercion across value kinds":

* a `str` is admitted only by `str`, by the string-serialised targets (`Decimal`, `Fraction`,
  `datetime`/`date`/`time`, paths, `Pattern`) and by the value-compared targets (`Literal`, enums, `Any`);
* a `float` never by `int`/`bool`; a `complex` never by `int`/`bool`/`float`; an `int` never by `bool`;
* `bool` is a sub-kind of `int`: admitted wherever an `int` is;
* `str`/`bytes`/`bytearray` never by a sequence-like target or a dataclass;
* a mapping never by a sequence-like target, a sequence never by a mapping-like target;
* `None` only by `NoneType` and the value-compared targets;
* among the objects of the `datetime` module: each class by itself, a `datetime` also by `date` and `time`
  (`.date()`, `.time()`), a `date` also by `datetime` (`datetime.combine(d, time())`); a `time` never by
  `date`/`datetime`, a `date` never by `time`.
-/
namespace PaneModel

/-- targets whose converter compares by value (`==`) rather than by kind -/
def valueTargets : List String := ["Any", "Literal", "Enum"]

/-- targets that are serialised as strings, and therefore read from strings -/
def stringSerialised : List String := ["Decimal", "Fraction", "datetime", "date", "time", "Path", "Pattern"]

/-- sequence-like targets (every spelling) -/
def seqTargets : List String :=
  ["list", "tuple", "set", "frozenset", "deque", "Sequence", "MutableSequence", "Set", "MutableSet"]

/-- mapping-like targets (every spelling; a struct literal is a `dict`) -/
def mapTargets : List String :=
  ["dict", "Mapping", "MutableMapping", "OrderedDict", "defaultdict", "Counter"]

/-- **The strictness table.** -/
def Admits (target : String) (k : Val.Kind) : Bool :=
  valueTargets.contains target ||
  match k with
  | .none => target == "NoneType"
  | .bool => ["bool", "int", "float", "complex", "Decimal", "Fraction"].contains target
  | .int => ["int", "float", "complex", "Decimal", "Fraction"].contains target
  | .float => ["float", "complex", "Decimal", "Fraction"].contains target
  | .complex => target == "complex"
  | .str => target == "str" || stringSerialised.contains target
  | .bytes | .bytearray => ["bytes", "bytearray", "Pattern"].contains target
  | .list | .tuple | .deque => seqTargets.contains target || target == "dataclass"
  | .dict | .mapOf => mapTargets.contains target || target == "dataclass"
  | .opaque ty =>
    target == ty || (target == "Fraction" && ty == "Decimal") || (target == "Path" && ty.startsWith "Path:") ||
    -- the date/time conversions: a `datetime` is a `date` (subclass) and has a time of day; a `date` is the
    -- `datetime` at midnight.  Never `time → date/datetime`, never `date → time`.
    ((target == "date" || target == "time") && ty == "datetime") || (target == "datetime" && ty == "date")
  | .set | .frozenset | .enumMem | .sub | .obj | .wrap => false

/-- kind-level reading of `isinstance(val, allowed)` -/
def ACls.admitsKind : ACls → Val.Kind → Bool
  | .bool, .bool => true
  | .int, .bool => true
  | .int, .int => true
  | .float, .float => true
  | .complex, .complex => true
  | .str, .str => true
  | .bytes, .bytes => true
  | .bytearray, .bytearray => true
  | .decimal, .opaque t => t == "Decimal"
  | .fraction, .opaque t => t == "Fraction"
  | .pathLike, .opaque t => t.startsWith "Path:"
  | _, _ => false

/-- which kinds a leaf converter of the scalar table can accept at all -/
def Conv.admitsKind : Conv → Val.Kind → Bool
  | .scalar _ allowed _ _ _, k => allowed.any (·.admitsKind k)
  | .noneC, k => k == .none
  | .datetime ty, k =>
    k == .str || (Val.isDtName ty && k == .opaque ty) ||
    ((ty == "date" || ty == "time") && k == .opaque "datetime") || (ty == "datetime" && k == .opaque "date")
  /- `ValueOrList[T]`: what `T` admits, plus the real sequences (`data_is_sequence`) -/
  | .vol c, k => c.admitsKind k || k == .list || k == .tuple || k == .deque
  | _, _ => true

/-- the kinds the table is checked on, cell by cell -/
def tableKinds : List Val.Kind :=
  [.none, .bool, .int, .float, .complex, .str, .bytes, .bytearray, .list, .tuple, .dict, .set, .frozenset,
   .deque, .mapOf, .enumMem, .sub, .obj, .wrap,
   .opaque "Decimal", .opaque "Fraction", .opaque "datetime", .opaque "date", .opaque "time", .opaque "Pattern"]

/-- the target head under which a path row is listed -/
def tableTarget (name : String) : String := if name.startsWith "Path:" then "Path" else name

/-- the allowed classes of a table row -/
def allowedOf (name : String) : List ACls :=
  match row name with
  | .scalar _ allowed _ _ _ => allowed
  | _ => []

/-- `str`, `bytes`, `bytearray`: sequences for Python, never for pane -/
def Val.isStringy : Val → Bool
  | .str _ | .bytes _ | .bytearray _ => true
  | _ => false

end PaneModel
