import PaneModel.Model.Conv
/-!
# `typing`'s normalisation of `Union[...]`, as total functions

`typing.Union[A, Union[B, C], A, None]` is stored by `typing` as `Union[A, B, C, NoneType]`:

* nested unions are FLATTENED (`typing._flatten_literal_params` / `_remove_dups_flatten`: the members of a member that
  is itself a `Union` are spliced in its place, depth-first, left to right);
* later DUPLICATES are dropped, the first occurrence of every type object is kept (`typing._deduplicate`, i.e.
  `dict.fromkeys(params)`: `==` / `hash` of the type objects);
* a single remaining member is returned as itself (`Union[A] is A`); `Optional[X]` is `Union[X, None]`.

"The same type object" is abstract here: the caller gives a `key : α → String` (the harness sends a canonical string per
member) and two members are the same for `typing` iff their keys are equal.

This file also holds the NESTED semantics of the union loop (`firstOkU`): what a converter tree does whose union
members may themselves be unions; `Lemmas/TypingNormProofs.lean` proves that flattening and de-duplicating are
invisible to it.
-/
namespace PaneModel.TypingNorm

variable {α β γ : Type}

/-- keep the first occurrence of every key: the head stays, every later member with the head's key goes, and so on
for the rest (structural; `dedupBy_eq_seen` in `Lemmas/TypingNormProofs.lean` shows that this is the left-to-right scan
with a set of keys already seen, which is what `dict.fromkeys` does) -/
def dedupBy (key : α → String) : List α → List α
  | [] => []
  | a :: as => a :: (dedupBy key as).filter (fun b => key b != key a)

/-- the operational reading of `dict.fromkeys`: scan left to right, `seen` = the keys met so far, skip a member whose
key was met already -/
def dedupSeen (key : α → String) (seen : List String) : List α → List α
  | [] => []
  | a :: as => if seen.contains (key a) then dedupSeen key seen as else a :: dedupSeen key (key a :: seen) as

/-- a member is either a plain member or a nested union of members (one level of syntax; nesting is handled
recursively) -/
inductive UMem (α : Type)
  | one (a : α)
  | nested (ms : List (UMem α))

mutual
/-- the members one member contributes: itself, or (recursively) the flattened members of a nested union -/
def flattenMem : UMem α → List α
  | .one a => [a]
  | .nested ms => flatten ms
/-- typing's flattening: members of nested unions are spliced in place, depth-first, left to right -/
def flatten : List (UMem α) → List α
  | [] => []
  | m :: ms => flattenMem m ++ flatten ms
end

/-- `Union[...]` as typing stores it -/
def normalize (key : α → String) (ms : List (UMem α)) : List α := dedupBy key (flatten ms)

/-- what `Union[...]` evaluates to: `Union[A] is A` (a single remaining member is returned as itself, no union object
is made); `empty` for `Union[()]` (a `TypeError` in Python: "Cannot take a Union of no types") -/
inductive UnionResult (α : Type)
  | empty
  | single (a : α)
  | union (ms : List α)

def unionOf (key : α → String) (ms : List (UMem α)) : UnionResult α :=
  match normalize key ms with
  | [] => .empty
  | [a] => .single a
  | l => .union l

/-! ## The nested semantics of the union loop -/

mutual
/-- the answer of one member: a plain member answers with its own answer function, a nested union with the union loop
over its members (exactly what a nested `.union` converter does: `tryC E (.union cs) = firstOk (tryCs E cs)`) -/
def answerU (f : α → γ → Outcome β) : UMem α → γ → Outcome β
  | .one a, v => f a v
  | .nested ms, v => firstOkU f ms v
/-- the union loop over members that may be nested unions: `ok` stops, `interrupt` continues, a leak propagates (the
same three clauses as `firstOk`) -/
def firstOkU (f : α → γ → Outcome β) : List (UMem α) → γ → Outcome β
  | [], _ => .interrupt
  | m :: ms, v =>
    match answerU f m v with
    | .ok y => .ok y
    | .interrupt => firstOkU f ms v
    | .leak e => .leak e
end

/-! ## The converter tree of an un-normalised union -/

mutual
/-- the converter a member stands for when nothing is normalised: a nested union is a nested `.union` converter -/
def UMem.toConv : UMem Conv → Conv
  | .one c => c
  | .nested ms => .union (toConvs ms)
/-- member converters of an un-normalised union, in order, nesting kept -/
def toConvs : List (UMem Conv) → List Conv
  | [] => []
  | m :: ms => m.toConv :: toConvs ms
end

end PaneModel.TypingNorm
