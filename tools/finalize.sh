#!/bin/sh
# bring the committed, derived files in line with the CLEAN tree: facts, pinned facts, evidence (seed 1), seed table
set -e
cd "$(dirname "$0")/.."
test -z "$(git -C /repo status --porcelain)" || { echo "/repo is not clean"; exit 1; }
tools/soak.sh "1" | grep -v "KNOWN\|conda" | grep -v "exit 0" && { echo "a check does not pass on the clean tree"; exit 1; } || true
cp lean/PaneModel/Generated/Facts.lean lean/FactsPinned.lean
python3 tools/mkseedtable.py --write
python3 tools/mkmanifest.py C01,C02,C03,C04,C05,C06,C07,C08,C09,C10,C11,C12,C13,C14,C15,C16,C17,C18,C19,C20 >/dev/null
python3-vt - <<'PY'
import json, jsonschema, glob
jsonschema.validate(json.load(open('MANIFEST.json')), json.load(open('/root/.vp/MANIFEST.schema.json')))
sch = json.load(open('/root/.vp/EVIDENCE.schema.json'))
for f in sorted(glob.glob('evidence/*.json')):
    e = json.load(open(f)); jsonschema.validate(e, sch)
    c = e['coverage']; assert c['obligations'] == c['discharged'] and e['violations'] == 0 and e['seed'] == 1, f
print('manifest + evidence valid')
PY
