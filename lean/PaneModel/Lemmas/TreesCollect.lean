import PaneModel.Props.C03
/-!
# What the loops of the diagnostic pass put into a product / sum node (for C07)

Every loop of `collect_errors` is characterised *exactly*: the children `(keys, errs)` it returns are
`kidsOf` of the list of `(key, own report)` pairs of the elements it walked over, in data order, where
the "own report" of an element is what that element's converter returns for that element alone.
-/
namespace PaneModel

/-! ## Children contributed by a list of `(key, own report)` pairs -/

/-- Given, for every element of the data (in data order), its key and the outcome of its own
converter's diagnostic pass on it, the children the enclosing product node must have: one child per
rejected element, keyed by that element's key, the child being that element's own tree. -/
def kidsOf (krs : List (Val × Outcome (Option Err))) : List (Val × Err) :=
  krs.filterMap fun p => match p.2 with
    | .ok (some t) => some (p.1, t)
    | _ => none

@[simp] theorem kidsOf_nil : kidsOf [] = [] := rfl

theorem kidsOf_cons_some (k : Val) (t : Err) (krs) :
    kidsOf ((k, .ok (some t)) :: krs) = (k, t) :: kidsOf krs := by
  simp [kidsOf]

theorem kidsOf_cons_none (k : Val) (krs) : kidsOf ((k, .ok none) :: krs) = kidsOf krs := by
  simp [kidsOf]

theorem kidsOf_cons_interrupt (k : Val) (krs) : kidsOf ((k, .interrupt) :: krs) = kidsOf krs := by
  simp [kidsOf]

theorem kidsOf_cons_leak (k : Val) (e : Exc) (krs) : kidsOf ((k, .leak e) :: krs) = kidsOf krs := by
  simp [kidsOf]

theorem kidsOf_append (a b) : kidsOf (a ++ b) = kidsOf a ++ kidsOf b := by
  simp [kidsOf]

/-- a child is present exactly for a rejected element, and it is that element's own tree -/
theorem mem_kidsOf {krs : List (Val × Outcome (Option Err))} {k : Val} {t : Err} :
    (k, t) ∈ kidsOf krs ↔ (k, Outcome.ok (some t)) ∈ krs := by
  unfold kidsOf
  rw [List.mem_filterMap]
  constructor
  · rintro ⟨⟨k', r⟩, hm, hf⟩
    cases r with
    | ok o =>
      cases o with
      | none => simp at hf
      | some t' =>
        simp only [Option.some.injEq, Prod.mk.injEq] at hf
        obtain ⟨rfl, rfl⟩ := hf
        exact hm
    | interrupt => simp at hf
    | leak e => simp at hf
  · intro hm
    exact ⟨_, hm, rfl⟩

/-- an accepted element contributes no child: if every pair with key `k` is accepted, no child is keyed `k` -/
theorem not_mem_kidsOf_keys {krs : List (Val × Outcome (Option Err))} {k : Val}
    (h : ∀ r, (k, r) ∈ krs → r = .ok none) : ∀ t, (k, t) ∉ kidsOf krs := by
  intro t hm
  have := h _ (mem_kidsOf.1 hm)
  cases this

/-- the two parallel lists of a node, read as pairs -/
theorem zip_of_cons {k : Val} {t : Err} {ks : List Val} {ts : List Err} {l : List (Val × Err)}
    (h : ks.zip ts = l) : (k :: ks).zip (t :: ts) = (k, t) :: l := by
  rw [List.zip_cons_cons, h]

/-- pointwise reading of `keys.zip errs = l` when the lists are parallel -/
theorem zip_getElem?_iff {keys : List Val} {errs : List Err}
    {j : Nat} {k : Val} {t : Err} :
    (keys[j]? = some k ∧ errs[j]? = some t) ↔ (keys.zip errs)[j]? = some (k, t) := by
  rw [List.getElem?_zip_eq_some]

/-! ## Indexing into `colCs` / `tryCs` -/

theorem colCs_length_T (E : Ext) : ∀ cs : List Conv, (colCs E cs).length = cs.length
  | [] => by simp [colCs]
  | c :: cs => by simp [colCs, colCs_length_T E cs]

theorem colCs_getElemT? (E : Ext) : ∀ (cs : List Conv) (i : Nat), (colCs E cs)[i]? = cs[i]?.map (colC E)
  | [], i => by simp [colCs]
  | c :: cs, 0 => by simp [colCs]
  | c :: cs, i + 1 => by simp [colCs, colCs_getElemT? E cs i]

theorem tryCs_getElemT? (E : Ext) : ∀ (cs : List Conv) (i : Nat), (tryCs E cs)[i]? = cs[i]?.map (tryC E)
  | [], i => by simp [tryCs]
  | c :: cs, 0 => by simp [tryCs]
  | c :: cs, i + 1 => by simp [tryCs, tryCs_getElemT? E cs i]

theorem applyAt_colCs_T {E : Ext} {cs : List Conv} {i : Nat} {c : Conv} (h : cs[i]? = some c) (v : Val) :
    applyAt (colCs E cs) i v = colC E c v := by
  simp [applyAt, colCs_getElemT?, h]

theorem applyAt_tryCs_T {E : Ext} {cs : List Conv} {i : Nat} {c : Conv} (h : cs[i]? = some c) (v : Val) :
    applyAt (tryCs E cs) i v = tryC E c v := by
  simp [applyAt, tryCs_getElemT?, h]

theorem zipWith_colCs (E : Ext) : ∀ (cs : List Conv) (xs : List Val),
    List.zipWith (fun f x => f x) (colCs E cs) xs = List.zipWith (colC E) cs xs
  | [], _ => by simp [colCs]
  | _ :: _, [] => by simp [colCs]
  | c :: cs, x :: xs => by simp [colCs, zipWith_colCs E cs xs]

/-! ## `convert()` of a good pair, with the tree identified -/

theorem convertWith_cases {t c} (h : GoodF t c) (v : Val) :
    (c v = .ok none ∧ ∃ x, convertWith t c v = .value x) ∨
    (∃ e, c v = .ok (some e) ∧ convertWith t c v = .convertError e) := by
  rcases h v with ⟨x, h1, h2⟩ | ⟨h1, e, h2⟩
  · exact .inl ⟨h2, x, by simp only [convertWith, h1]⟩
  · exact .inr ⟨e, h2, by simp only [convertWith, h1, h2]⟩

/-! ## Positional loops: keys are positions -/

/-- `(position, own report)` pairs of a positional layout, numbered from `i` -/
def posReports (rs : List (Outcome (Option Err))) (i : Nat := 0) : List (Val × Outcome (Option Err)) :=
  (rs.zipIdx i).map fun p => (Val.int p.2, p.1)

theorem posReports_cons (r rs i) : posReports (r :: rs) i = (Val.int i, r) :: posReports rs (i + 1) := by
  simp [posReports, List.zipIdx_cons]

theorem mem_posReports {rs : List (Outcome (Option Err))} {i : Nat} {k : Val} {r} :
    (k, r) ∈ posReports rs i ↔ ∃ j, k = Val.int ((i + j : Nat) : Int) ∧ rs[j]? = some r := by
  induction rs generalizing i with
  | nil => simp [posReports]
  | cons r' rs ih =>
    rw [posReports_cons, List.mem_cons, ih]
    constructor
    · rintro (h | ⟨j, hk, hj⟩)
      · cases h; exact ⟨0, by simp, by simp⟩
      · exact ⟨j + 1, by rw [hk]; congr 2; omega, by simpa using hj⟩
    · rintro ⟨j, hk, hj⟩
      cases j with
      | zero => left; simp at hj; subst hj; rw [hk]; simp
      | succ j => right; exact ⟨j, by rw [hk]; congr 2; omega, by simpa using hj⟩

/-- tuple loop -/
theorem zipCol_kids : ∀ (fs : List (Val → Outcome (Option Err))) (xs : List Val) (i : Nat) (ch : Children),
    zipCol fs xs i = .ok ch →
    ch.1.length = ch.2.length ∧
    ch.1.zip ch.2 = kidsOf (posReports (List.zipWith (fun f x => f x) fs xs) i) ∧
    ∀ r ∈ List.zipWith (fun f x => f x) fs xs, ∃ o, r = .ok o
  | [], xs, i, ch, h => by
    simp only [zipCol] at h; cases h; simp [posReports]
  | _ :: _, [], i, ch, h => by
    simp only [zipCol] at h; cases h; simp [posReports]
  | f :: fs, x :: xs, i, ch, h => by
    simp only [zipCol] at h
    rw [List.zipWith_cons_cons, posReports_cons]
    cases hfx : f x with
    | interrupt => rw [hfx] at h; cases h
    | leak e => rw [hfx] at h; cases h
    | ok o =>
      rw [hfx] at h
      cases o with
      | none =>
        simp only at h
        obtain ⟨h1, h2, h3⟩ := zipCol_kids fs xs (i + 1) ch h
        refine ⟨h1, by rw [kidsOf_cons_none]; exact h2, ?_⟩
        intro r hr
        rcases List.mem_cons.1 hr with rfl | hr
        · exact ⟨_, rfl⟩
        · exact h3 r hr
      | some t =>
        simp only at h
        cases hrest : zipCol fs xs (i + 1) with
        | interrupt => rw [hrest] at h; cases h
        | leak e => rw [hrest] at h; cases h
        | ok ch' =>
          rw [hrest] at h
          cases h
          obtain ⟨h1, h2, h3⟩ := zipCol_kids fs xs (i + 1) ch' hrest
          refine ⟨by simp [h1], by rw [kidsOf_cons_some]; exact zip_of_cons h2, ?_⟩
          intro r hr
          rcases List.mem_cons.1 hr with rfl | hr
          · exact ⟨_, rfl⟩
          · exact h3 r hr

/-- sequence loop (one element converter, `convert()` per element) -/
theorem convertEach_kids {t c} (hg : GoodF t c) : ∀ (xs : List Val) (i : Nat) (vals : List Val) (ch : Children),
    convertEach t c xs i = .ok (vals, ch) →
    ch.1.length = ch.2.length ∧
    ch.1.zip ch.2 = kidsOf (posReports (xs.map c) i) ∧
    ∀ r ∈ xs.map c, ∃ o, r = .ok o
  | [], i, vals, ch, h => by
    simp only [convertEach] at h; cases h; simp [posReports]
  | x :: xs, i, vals, ch, h => by
    simp only [convertEach] at h
    rw [List.map_cons, posReports_cons]
    rcases convertWith_cases hg x with ⟨hc, y, hw⟩ | ⟨e, hc, hw⟩
    · rw [hw] at h
      simp only at h
      cases hrest : convertEach t c xs (i + 1) with
      | error e => rw [hrest] at h; cases h
      | ok p =>
        obtain ⟨ys, ch'⟩ := p
        rw [hrest] at h
        simp only [Except.ok.injEq, Prod.mk.injEq] at h
        obtain ⟨rfl, rfl⟩ := h
        obtain ⟨h1, h2, h3⟩ := convertEach_kids hg xs (i + 1) ys ch' hrest
        refine ⟨h1, by rw [hc, kidsOf_cons_none]; exact h2, ?_⟩
        intro r hr
        rcases List.mem_cons.1 hr with rfl | hr
        · exact ⟨_, hc⟩
        · exact h3 r hr
    · rw [hw] at h
      simp only at h
      cases hrest : convertEach t c xs (i + 1) with
      | error e => rw [hrest] at h; cases h
      | ok p =>
        obtain ⟨ys, ch'⟩ := p
        rw [hrest] at h
        simp only [Except.ok.injEq, Prod.mk.injEq] at h
        obtain ⟨rfl, rfl⟩ := h
        obtain ⟨h1, h2, h3⟩ := convertEach_kids hg xs (i + 1) ys ch' hrest
        refine ⟨by simp [h1], by rw [hc, kidsOf_cons_some]; exact zip_of_cons h2, ?_⟩
        intro r hr
        rcases List.mem_cons.1 hr with rfl | hr
        · exact ⟨_, hc⟩
        · exact h3 r hr

/-- dataclass positional loop -/
theorem convertZip_kids : ∀ {ts cs}, GoodFs ts cs → ∀ (xs : List Val) (i : Nat) (vals : List Val) (ch : Children),
    convertZip ts cs xs i = .ok (vals, ch) →
    ch.1.length = ch.2.length ∧
    ch.1.zip ch.2 = kidsOf (posReports (List.zipWith (fun f x => f x) cs xs) i) ∧
    ∀ r ∈ List.zipWith (fun f x => f x) cs xs, ∃ o, r = .ok o
  | _, _, .nil, xs, i, vals, ch, h => by
    simp only [convertZip] at h; cases h; simp [posReports]
  | _, _, .cons _ _, [], i, vals, ch, h => by
    simp only [convertZip] at h; cases h; simp [posReports]
  | _, _, .cons (t := t) (c := c) (ts := ts) (cs := cs) hg hgs, x :: xs, i, vals, ch, h => by
    simp only [convertZip] at h
    rw [List.zipWith_cons_cons, posReports_cons]
    rcases convertWith_cases hg x with ⟨hc, y, hw⟩ | ⟨e, hc, hw⟩
    · rw [hw] at h
      simp only at h
      cases hrest : convertZip ts cs xs (i + 1) with
      | error e => rw [hrest] at h; cases h
      | ok p =>
        obtain ⟨ys, ch'⟩ := p
        rw [hrest] at h
        simp only [Except.ok.injEq, Prod.mk.injEq] at h
        obtain ⟨rfl, rfl⟩ := h
        obtain ⟨h1, h2, h3⟩ := convertZip_kids hgs xs (i + 1) ys ch' hrest
        refine ⟨h1, by rw [hc, kidsOf_cons_none]; exact h2, ?_⟩
        intro r hr
        rcases List.mem_cons.1 hr with rfl | hr
        · exact ⟨_, hc⟩
        · exact h3 r hr
    · rw [hw] at h
      simp only at h
      cases hrest : convertZip ts cs xs (i + 1) with
      | error e => rw [hrest] at h; cases h
      | ok p =>
        obtain ⟨ys, ch'⟩ := p
        rw [hrest] at h
        simp only [Except.ok.injEq, Prod.mk.injEq] at h
        obtain ⟨rfl, rfl⟩ := h
        obtain ⟨h1, h2, h3⟩ := convertZip_kids hgs xs (i + 1) ys ch' hrest
        refine ⟨by simp [h1], by rw [hc, kidsOf_cons_some]; exact zip_of_cons h2, ?_⟩
        intro r hr
        rcases List.mem_cons.1 hr with rfl | hr
        · exact ⟨_, hc⟩
        · exact h3 r hr

/-! ## Struct-literal loop: keys are the data keys that are declared names -/

/-- the declared position of a data key of a struct literal (`self.fields.index(k)`), if any -/
def structKnown (names : List String) (k : Val) : Option Nat :=
  match k with
  | .str s => names.idxOf? s
  | _ => none

/-- own report of one entry of a struct literal: its field's converter on its value (nothing for an
undeclared key: that one goes to `extra`) -/
def structReport (names : List String) (cs : List (Val → Outcome (Option Err))) (kv : Val × Val) :
    Outcome (Option Err) :=
  match structKnown names kv.1 with
  | some i => applyAt cs i kv.2
  | none => .ok none

theorem structCol_cons (names cs) (k v : Val) (rest) :
    structCol names cs ((k, v) :: rest) =
      match structKnown names k with
      | none =>
        match structCol names cs rest with
        | .ok (ch, extra) => .ok (ch, k :: extra)
        | .interrupt => .interrupt
        | .leak e => .leak e
      | some i =>
        match applyAt cs i v with
        | .ok none => structCol names cs rest
        | .ok (some t) =>
          match structCol names cs rest with
          | .ok (ch, extra) => .ok ((k :: ch.1, t :: ch.2), extra)
          | .interrupt => .interrupt
          | .leak e => .leak e
        | .interrupt => .interrupt
        | .leak e => .leak e := by
  cases k <;> simp only [structCol, structKnown] <;> rfl

theorem structCol_kids (names : List String) (cs : List (Val → Outcome (Option Err))) :
    ∀ (items : List (Val × Val)) (ch : Children) (extra : List Val),
    structCol names cs items = .ok (ch, extra) →
    ch.1.length = ch.2.length ∧
    ch.1.zip ch.2 = kidsOf (items.map fun kv => (kv.1, structReport names cs kv)) ∧
    extra = (items.filter fun kv => (structKnown names kv.1).isNone).map (·.1) ∧
    ∀ kv ∈ items, ∃ o, structReport names cs kv = .ok o
  | [], ch, extra, h => by
    simp only [structCol] at h
    simp only [Outcome.ok.injEq, Prod.mk.injEq] at h
    obtain ⟨rfl, rfl⟩ := h
    simp
  | (k, v) :: rest, ch, extra, h => by
    rw [structCol_cons] at h
    rw [List.map_cons, List.filter_cons]
    cases hk : structKnown names k with
    | none =>
      rw [hk] at h
      simp only at h
      cases hrest : structCol names cs rest with
      | interrupt => rw [hrest] at h; cases h
      | leak e => rw [hrest] at h; cases h
      | ok p =>
        obtain ⟨ch', extra'⟩ := p
        rw [hrest] at h
        simp only [Outcome.ok.injEq, Prod.mk.injEq] at h
        obtain ⟨rfl, rfl⟩ := h
        obtain ⟨h1, h2, h3, h4⟩ := structCol_kids names cs rest ch' extra' hrest
        have hr : structReport names cs (k, v) = .ok none := by simp only [structReport, hk]
        refine ⟨h1, by rw [hr, kidsOf_cons_none]; exact h2, by simp [h3], ?_⟩
        intro kv hkv
        rcases List.mem_cons.1 hkv with rfl | hkv
        · exact ⟨_, hr⟩
        · exact h4 kv hkv
    | some i =>
      rw [hk] at h
      simp only at h
      have hr : structReport names cs (k, v) = applyAt cs i v := by simp only [structReport, hk]
      cases ha : applyAt cs i v with
      | interrupt => rw [ha] at h; cases h
      | leak e => rw [ha] at h; cases h
      | ok o =>
        rw [ha] at h
        cases o with
        | none =>
          simp only at h
          obtain ⟨h1, h2, h3, h4⟩ := structCol_kids names cs rest ch extra h
          refine ⟨h1, by rw [hr, ha, kidsOf_cons_none]; exact h2, by simp [h3], ?_⟩
          intro kv hkv
          rcases List.mem_cons.1 hkv with rfl | hkv
          · exact ⟨_, hr.trans ha⟩
          · exact h4 kv hkv
        | some t =>
          simp only at h
          cases hrest : structCol names cs rest with
          | interrupt => rw [hrest] at h; cases h
          | leak e => rw [hrest] at h; cases h
          | ok p =>
            obtain ⟨ch', extra'⟩ := p
            rw [hrest] at h
            simp only [Outcome.ok.injEq, Prod.mk.injEq] at h
            obtain ⟨rfl, rfl⟩ := h
            obtain ⟨h1, h2, h3, h4⟩ := structCol_kids names cs rest ch' extra' hrest
            refine ⟨by simp [h1], by rw [hr, ha, kidsOf_cons_some]; exact zip_of_cons h2, by simp [h3], ?_⟩
            intro kv hkv
            rcases List.mem_cons.1 hkv with rfl | hkv
            · exact ⟨_, hr.trans ha⟩
            · exact h4 kv hkv

/-! ## Union loop: one member tree per variant, each on the same value -/

theorem sumCol_members : ∀ (ts : List (Val → Outcome Val)) (cs : List (Val → Outcome (Option Err)))
    (v : Val) (l : List Err), sumCol ts cs v = .ok (some l) →
    l.length = min ts.length cs.length ∧
    ∀ (i : Nat) (t : Err), l[i]? = some t → ∃ (f : Val → Outcome Val) (c : Val → Outcome (Option Err)),
      ts[i]? = some f ∧ cs[i]? = some c ∧ f v = .interrupt ∧ c v = .ok (some t)
  | [], cs, v, l, h => by
    simp only [sumCol, Outcome.ok.injEq, Option.some.injEq] at h; subst h; simp
  | _ :: _, [], v, l, h => by
    simp only [sumCol, Outcome.ok.injEq, Option.some.injEq] at h; subst h; simp
  | t :: ts, c :: cs, v, l, h => by
    simp only [sumCol] at h
    cases ht : t v with
    | ok x => rw [ht] at h; cases h
    | leak e => rw [ht] at h; cases h
    | interrupt =>
      rw [ht] at h
      simp only at h
      cases hc : c v with
      | interrupt => rw [hc] at h; cases h
      | leak e => rw [hc] at h; cases h
      | ok o =>
        rw [hc] at h
        cases o with
        | none => cases h
        | some tree =>
          simp only at h
          cases hrest : sumCol ts cs v with
          | interrupt => rw [hrest] at h; cases h
          | leak e => rw [hrest] at h; cases h
          | ok o' =>
            rw [hrest] at h
            cases o' with
            | none => cases h
            | some rest =>
              simp only [Outcome.ok.injEq, Option.some.injEq] at h
              subst h
              obtain ⟨h1, h2⟩ := sumCol_members ts cs v rest hrest
              refine ⟨by simp only [List.length_cons, h1]; omega, ?_⟩
              intro i t' hi
              cases i with
              | zero =>
                simp only [List.getElem?_cons_zero, Option.some.injEq] at hi
                subst hi
                exact ⟨t, c, rfl, rfl, ht, hc⟩
              | succ i =>
                simp only [List.getElem?_cons_succ] at hi ⊢
                exact h2 i t' hi

/-! ## Dataclass keyword loop -/

/-- does data key `k` name the field called `n` (through `field_map`: Python name or an input alias)? -/
def namesField (info : PaneInfo) (k : Val) (n : String) : Bool :=
  match fieldIndex info.fields k with
  | some i =>
    match info.fields[i]? with
    | some f => f.name == n
    | none => false
  | none => false

/-- every element of a list together with the elements before it -/
def splits {α : Type} : List α → List α → List (List α × α)
  | _, [] => []
  | pre, x :: xs => (pre, x) :: splits (pre ++ [x]) xs

theorem mem_splits {α : Type} {pre items : List α} {p : List α} {x : α} :
    (p, x) ∈ splits pre items ↔ ∃ a b, items = a ++ x :: b ∧ p = pre ++ a := by
  induction items generalizing pre with
  | nil => simp [splits]
  | cons y ys ih =>
    rw [splits, List.mem_cons, ih]
    constructor
    · rintro (h | ⟨a, b, rfl, rfl⟩)
      · cases h; exact ⟨[], ys, rfl, by simp⟩
      · exact ⟨y :: a, b, rfl, by simp⟩
    · rintro ⟨a, b, hitems, rfl⟩
      cases a with
      | nil =>
        simp only [List.nil_append, List.cons.injEq] at hitems
        obtain ⟨rfl, rfl⟩ := hitems
        left; simp
      | cons a0 a =>
        simp only [List.cons_append, List.cons.injEq] at hitems
        obtain ⟨rfl, rfl⟩ := hitems
        right; exact ⟨a, b, rfl, by simp⟩

/-- own report of one entry `kv` of a dataclass given as a mapping, `pre` being the entries before it:
nothing for an unknown key (it goes to `extra`), a `DuplicateKeyError` node if an earlier key already
named the same field, otherwise what the field's converter says about the value. -/
def paneReport (info : PaneInfo) (cs : List (Val → Outcome (Option Err))) (pre : List (Val × Val))
    (kv : Val × Val) : Outcome (Option Err) :=
  match fieldIndex info.fields kv.1 with
  | none => .ok none
  | some i =>
    match info.fields[i]? with
    | none => .ok none
    | some f =>
      if pre.any (fun p => namesField info p.1 f.name) then .ok (some (.dupKey kv.1 f.inNames))
      else applyAt cs i kv.2

theorem paneLoop_kids (info : PaneInfo) {ts cs} (hg : GoodFs ts cs) (hlen : ts.length = info.fields.length) :
    ∀ (items pre : List (Val × Val)) (seen : List String) (vals : List (String × Val)) (ch : Children)
      (extra : List Val) (seen' : List String),
    (∀ n, seen.contains n = pre.any (fun p => namesField info p.1 n)) →
    paneColStructLoop info ts cs items seen = .ok (vals, ch, extra, seen') →
    ch.1.length = ch.2.length ∧
    ch.1.zip ch.2 = kidsOf ((splits pre items).map fun s => (s.2.1, paneReport info cs s.1 s.2)) ∧
    extra = (if info.allowExtra then []
      else (items.filter fun kv => (fieldIndex info.fields kv.1).isNone).map (·.1)) ∧
    (∀ n, seen'.contains n = (pre ++ items).any (fun p => namesField info p.1 n)) := by
  intro items
  induction items with
  | nil =>
    intro pre seen vals ch extra seen' hinv h
    simp only [paneColStructLoop, Except.ok.injEq, Prod.mk.injEq] at h
    obtain ⟨-, rfl, rfl, rfl⟩ := h
    exact ⟨rfl, by simp [splits], by simp, fun n => by rw [List.append_nil]; exact hinv n⟩
  | cons kv rest ih =>
    intro pre seen vals ch extra seen' hinv h
    obtain ⟨k, v⟩ := kv
    simp only [paneColStructLoop] at h
    rw [splits, List.map_cons]
    cases hfi : fieldIndex info.fields k with
    | none =>
      rw [hfi] at h
      simp only at h
      have hnf : ∀ n, namesField info k n = false := fun n => by simp only [namesField, hfi]
      have hinv' : ∀ n, seen.contains n = (pre ++ [(k, v)]).any (fun p => namesField info p.1 n) := by
        intro n; rw [List.any_append, hinv]; simp [hnf]
      cases hrest : paneColStructLoop info ts cs rest seen with
      | error e => rw [hrest] at h; cases h
      | ok p =>
        obtain ⟨vals', ch', extra', seen''⟩ := p
        rw [hrest] at h
        simp only [Except.ok.injEq, Prod.mk.injEq] at h
        obtain ⟨rfl, rfl, rfl, rfl⟩ := h
        obtain ⟨h1, h2, h3, h4⟩ := ih _ _ _ _ _ _ hinv' hrest
        have hr : paneReport info cs pre (k, v) = .ok none := by simp only [paneReport, hfi]
        refine ⟨h1, by rw [hr, kidsOf_cons_none]; exact h2, ?_, ?_⟩
        · have hfilter : (fieldIndex info.fields (k, v).1).isNone = true := by simp [hfi]
          rw [List.filter_cons, hfilter, if_pos rfl, List.map_cons, h3]
          cases info.allowExtra <;> simp
        · intro n; rw [h4]; simp
    | some i =>
      rw [hfi] at h
      simp only at h
      have hlt : i < info.fields.length := fieldIndex_lt hfi
      have hget : info.fields[i]? = some info.fields[i] := List.getElem?_eq_getElem hlt
      rw [hget] at h
      simp only at h
      have hnf : ∀ n, namesField info k n = ((info.fields[i]).name == n) := fun n => by
        simp only [namesField, hfi, hget]
      have hfilter : (fieldIndex info.fields (k, v).1).isNone = false := by simp [hfi]
      cases hseen : seen.contains (info.fields[i]).name with
      | true =>
        rw [hseen] at h
        simp only [if_true] at h
        have hinv' : ∀ n, seen.contains n = (pre ++ [(k, v)]).any (fun p => namesField info p.1 n) := by
          intro n
          rw [List.any_append, ← hinv]
          simp only [List.any_cons, List.any_nil, Bool.or_false, hnf]
          cases hn : (info.fields[i]).name == n with
          | false => simp
          | true =>
            have : (info.fields[i]).name = n := by simpa using hn
            rw [← this, hseen]; rfl
        cases hrest : paneColStructLoop info ts cs rest seen with
        | error e => rw [hrest] at h; cases h
        | ok p =>
          obtain ⟨vals', ch', extra', seen''⟩ := p
          rw [hrest] at h
          simp only [Except.ok.injEq, Prod.mk.injEq] at h
          obtain ⟨rfl, rfl, rfl, rfl⟩ := h
          obtain ⟨h1, h2, h3, h4⟩ := ih _ _ _ _ _ _ hinv' hrest
          have hr : paneReport info cs pre (k, v) = .ok (some (.dupKey k (info.fields[i]).inNames)) := by
            simp only [paneReport, hfi, hget, ← hinv, hseen, if_true]
          refine ⟨by simp [h1], by rw [hr, kidsOf_cons_some]; exact zip_of_cons h2, ?_, ?_⟩
          · rw [List.filter_cons, hfilter]; simp only [Bool.false_eq_true, if_false]; exact h3
          · intro n; rw [h4]; simp
      | false =>
        rw [hseen] at h
        simp only [Bool.false_eq_true, if_false] at h
        have hinv' : ∀ n, ((info.fields[i]).name :: seen).contains n =
            (pre ++ [(k, v)]).any (fun p => namesField info p.1 n) := by
          intro n
          rw [List.any_append, ← hinv, List.contains_cons]
          simp only [List.any_cons, List.any_nil, Bool.or_false, hnf]
          rw [Bool.or_comm, BEq.comm]
        have hr : paneReport info cs pre (k, v) = applyAt cs i v := by
          simp only [paneReport, hfi, hget, ← hinv, hseen, Bool.false_eq_true, if_false]
        have hgood := applyAt_good hg (i := i) (by rw [hlen]; exact hlt)
        rcases convertWith_cases hgood v with ⟨hc, x, hw⟩ | ⟨e, hc, hw⟩
        · rw [hw] at h
          simp only at h
          cases hrest : paneColStructLoop info ts cs rest ((info.fields[i]).name :: seen) with
          | error e => rw [hrest] at h; cases h
          | ok p =>
            obtain ⟨vals', ch', extra', seen''⟩ := p
            rw [hrest] at h
            simp only [Except.ok.injEq, Prod.mk.injEq] at h
            obtain ⟨rfl, rfl, rfl, rfl⟩ := h
            obtain ⟨h1, h2, h3, h4⟩ := ih _ _ _ _ _ _ hinv' hrest
            refine ⟨h1, by rw [hr, hc, kidsOf_cons_none]; exact h2, ?_, ?_⟩
            · rw [List.filter_cons, hfilter]; simp only [Bool.false_eq_true, if_false]; exact h3
            · intro n; rw [h4]; simp
        · rw [hw] at h
          simp only at h
          cases hrest : paneColStructLoop info ts cs rest ((info.fields[i]).name :: seen) with
          | error e => rw [hrest] at h; cases h
          | ok p =>
            obtain ⟨vals', ch', extra', seen''⟩ := p
            rw [hrest] at h
            simp only [Except.ok.injEq, Prod.mk.injEq] at h
            obtain ⟨rfl, rfl, rfl, rfl⟩ := h
            obtain ⟨h1, h2, h3, h4⟩ := ih _ _ _ _ _ _ hinv' hrest
            refine ⟨by simp [h1], by rw [hr, hc, kidsOf_cons_some]; exact zip_of_cons h2, ?_, ?_⟩
            · rw [List.filter_cons, hfilter]; simp only [Bool.false_eq_true, if_false]; exact h3
            · intro n; rw [h4]; simp

/-! ## Dict loop (children keyed by `str(k)`), for data whose keys have pairwise distinct `str` -/

theorem beq_str_right {x : Val} {s : String} (h : Val.beq x (.str s) = true) : x = .str s := by
  cases x <;> simp [Val.beq] at h
  subst h; rfl

theorem beq_str_self (s : String) : Val.beq (.str s) (.str s) = true := by simp [Val.beq]

/-- a fresh key is appended -/
theorem setStr_new {ch : Children} {s : String} (t : Err) (h : Val.str s ∉ ch.1) :
    dictCol.setStr ch (.str s) t = (ch.1 ++ [.str s], ch.2 ++ [t]) := by
  unfold dictCol.setStr
  have : ch.1.findIdx? (fun k => Val.beq k (.str s)) = none := by
    rw [List.findIdx?_eq_none_iff]
    intro x hx
    cases hb : Val.beq x (.str s) with
    | false => rfl
    | true => exact absurd (beq_str_right hb ▸ hx) h
  rw [this]

/-- the node just appended under a fresh key is overwritten in place -/
theorem setStr_last {ks : List Val} {ts : List Err} {s : String} (t t' : Err) (hlen : ks.length = ts.length)
    (h : Val.str s ∉ ks) :
    dictCol.setStr (ks ++ [.str s], ts ++ [t]) (.str s) t' = (ks ++ [.str s], ts ++ [t']) := by
  unfold dictCol.setStr
  have hnone : ks.findIdx? (fun k => Val.beq k (.str s)) = none := by
    rw [List.findIdx?_eq_none_iff]
    intro x hx
    cases hb : Val.beq x (.str s) with
    | false => rfl
    | true => exact absurd (beq_str_right hb ▸ hx) h
  have : (ks ++ [Val.str s]).findIdx? (fun k => Val.beq k (.str s)) = some ks.length := by
    rw [List.findIdx?_append, hnone]
    simp [List.findIdx?_cons, beq_str_self]
  simp only [this]
  rw [List.set_append, hlen]
  simp

/-- own report of one dict entry: the value's tree if the value is rejected, else the key's report
(`nodes[str(k)]` is assigned the key's node first and then overwritten by the value's) -/
def dictReport (rk rv : Outcome (Option Err)) : Outcome (Option Err) :=
  match rv with
  | .ok none => rk
  | o => o

theorem dictCol_kids (E : Ext) (kc vc : Val → Outcome (Option Err)) :
    ∀ (items : List (Val × Val)) (ch0 ch : Children),
    dictCol E kc vc items ch0 = .ok ch →
    ch0.1.length = ch0.2.length →
    (items.map fun p => pyStr E p.1).Nodup →
    (∀ p ∈ items, Val.str (pyStr E p.1) ∉ ch0.1) →
    ch.1.length = ch.2.length ∧
    ch.1.zip ch.2 = ch0.1.zip ch0.2 ++
      kidsOf (items.map fun p => (Val.str (pyStr E p.1), dictReport (kc p.1) (vc p.2))) ∧
    ∀ p ∈ items, (∃ o, kc p.1 = .ok o) ∧ (∃ o, vc p.2 = .ok o) := by
  intro items
  induction items with
  | nil =>
    intro ch0 ch h hlen _ _
    simp only [dictCol, Outcome.ok.injEq] at h
    subst h
    simp [hlen]
  | cons kv rest ih =>
    intro ch0 ch h hlen hnd hfresh
    obtain ⟨k, v⟩ := kv
    simp only [dictCol] at h
    rw [List.map_cons, List.nodup_cons] at hnd
    obtain ⟨hknew, hnd⟩ := hnd
    have hk0 : Val.str (pyStr E k) ∉ ch0.1 := hfresh (k, v) (List.mem_cons_self ..)
    have hfresh_rest : ∀ p ∈ rest, Val.str (pyStr E p.1) ∉ ch0.1 :=
      fun p hp => hfresh p (List.mem_cons_of_mem _ hp)
    have hne : ∀ p ∈ rest, Val.str (pyStr E p.1) ≠ Val.str (pyStr E k) := by
      intro p hp heq
      apply hknew
      have : pyStr E p.1 = pyStr E k := by injection heq
      rw [← this]
      exact List.mem_map_of_mem (f := fun p => pyStr E p.1) hp
    -- after this entry: either unchanged, or one pair appended
    have key : ∀ (ch2 : Children), dictCol E kc vc rest ch2 = .ok ch →
        ch2.1.length = ch2.2.length →
        (∀ p ∈ rest, Val.str (pyStr E p.1) ∉ ch2.1) →
        ∀ l, ch2.1.zip ch2.2 = ch0.1.zip ch0.2 ++ l →
        ch.1.length = ch.2.length ∧
        ch.1.zip ch.2 = ch0.1.zip ch0.2 ++
          (l ++ kidsOf (rest.map fun p => (Val.str (pyStr E p.1), dictReport (kc p.1) (vc p.2)))) ∧
        ∀ p ∈ rest, (∃ o, kc p.1 = .ok o) ∧ (∃ o, vc p.2 = .ok o) := by
      intro ch2 h2 hl2 hf2 l hz
      obtain ⟨h1, h2', h3⟩ := ih ch2 ch h2 hl2 hnd hf2
      exact ⟨h1, by rw [h2', hz, List.append_assoc], h3⟩
    have happ : ∀ t, Val.str (pyStr E k) ∉ ch0.1 →
        (∀ p ∈ rest, Val.str (pyStr E p.1) ∉ (ch0.1 ++ [Val.str (pyStr E k)])) ∧
        (ch0.1 ++ [Val.str (pyStr E k)]).zip (ch0.2 ++ [t]) = ch0.1.zip ch0.2 ++ [(Val.str (pyStr E k), t)] ∧
        (ch0.1 ++ [Val.str (pyStr E k)]).length = (ch0.2 ++ [t]).length := by
      intro t _
      refine ⟨?_, by rw [List.zip_append hlen]; rfl, by simp [hlen]⟩
      intro p hp hmem
      rcases List.mem_append.1 hmem with hm | hm
      · exact hfresh_rest p hp hm
      · exact hne p hp (by simpa using hm)
    cases hkc : kc k with
    | interrupt => rw [hkc] at h; cases h
    | leak e => rw [hkc] at h; cases h
    | ok kn =>
      rw [hkc] at h
      simp only at h
      cases hvc : vc v with
      | interrupt => rw [hvc] at h; cases h
      | leak e => rw [hvc] at h; cases h
      | ok vn =>
        rw [hvc] at h
        simp only at h
        cases kn with
        | none =>
          cases vn with
          | none =>
            simp only at h
            obtain ⟨h1, h2, h3⟩ := key ch0 h hlen hfresh_rest [] (by simp)
            refine ⟨h1, ?_, ?_⟩
            · have hr : dictReport (kc k) (vc v) = .ok none := by rw [hkc, hvc]; rfl
              rw [h2, List.map_cons]; simp only [hr, kidsOf_cons_none, List.nil_append]
            · intro p hp
              rcases List.mem_cons.1 hp with rfl | hp
              · exact ⟨⟨_, hkc⟩, ⟨_, hvc⟩⟩
              · exact h3 p hp
          | some tv =>
            simp only at h
            rw [setStr_new tv hk0] at h
            obtain ⟨hf, hz, hl⟩ := happ tv hk0
            obtain ⟨h1, h2, h3⟩ := key _ h hl hf _ hz
            refine ⟨h1, ?_, ?_⟩
            · have hr : dictReport (kc k) (vc v) = .ok (some tv) := by rw [hkc, hvc]; rfl
              rw [h2, List.map_cons]; simp only [hr, kidsOf_cons_some, List.singleton_append]
            · intro p hp
              rcases List.mem_cons.1 hp with rfl | hp
              · exact ⟨⟨_, hkc⟩, ⟨_, hvc⟩⟩
              · exact h3 p hp
        | some tk =>
          cases vn with
          | none =>
            simp only at h
            rw [setStr_new tk hk0] at h
            obtain ⟨hf, hz, hl⟩ := happ tk hk0
            obtain ⟨h1, h2, h3⟩ := key _ h hl hf _ hz
            refine ⟨h1, ?_, ?_⟩
            · have hr : dictReport (kc k) (vc v) = .ok (some tk) := by rw [hkc, hvc]; rfl
              rw [h2, List.map_cons]; simp only [hr, kidsOf_cons_some, List.singleton_append]
            · intro p hp
              rcases List.mem_cons.1 hp with rfl | hp
              · exact ⟨⟨_, hkc⟩, ⟨_, hvc⟩⟩
              · exact h3 p hp
          | some tv =>
            simp only at h
            rw [setStr_new tk hk0, setStr_last tk tv hlen hk0] at h
            obtain ⟨hf, hz, hl⟩ := happ tv hk0
            obtain ⟨h1, h2, h3⟩ := key _ h hl hf _ hz
            refine ⟨h1, ?_, ?_⟩
            · have hr : dictReport (kc k) (vc v) = .ok (some tv) := by rw [hkc, hvc]; rfl
              rw [h2, List.map_cons]; simp only [hr, kidsOf_cons_some, List.singleton_append]
            · intro p hp
              rcases List.mem_cons.1 hp with rfl | hp
              · exact ⟨⟨_, hkc⟩, ⟨_, hvc⟩⟩
              · exact h3 p hp

/-! ## Reading a node's parallel lists against the `(key, own report)` pairs -/

/-- was this element rejected on its own? -/
def isRejected : Outcome (Option Err) → Bool
  | .ok (some _) => true
  | _ => false

/-- the keys of a positional node are the rejected positions, in increasing order -/
theorem kidsOf_posReports_keys (rs : List (Outcome (Option Err))) (i : Nat) :
    (kidsOf (posReports rs i)).map (·.1) =
      ((rs.zipIdx i).filter fun p => isRejected p.1).map fun p => Val.int p.2 := by
  induction rs generalizing i with
  | nil => simp [posReports]
  | cons r rs ih =>
    rw [posReports_cons, List.zipIdx_cons, List.filter_cons]
    cases r with
    | ok o =>
      cases o with
      | none => rw [kidsOf_cons_none, ih]; simp [isRejected]
      | some t => rw [kidsOf_cons_some]; simp [isRejected, ih]
    | interrupt => rw [kidsOf_cons_interrupt, ih]; simp [isRejected]
    | leak e => rw [kidsOf_cons_leak, ih]; simp [isRejected]

section Read
variable {keys : List Val} {errs : List Err} {krs : List (Val × Outcome (Option Err))}

/-- every child is keyed by the key of a rejected element and is that element's own tree -/
theorem kids_child (hz : keys.zip errs = kidsOf krs)
    {j : Nat} {k : Val} {t : Err} (hk : keys[j]? = some k) (ht : errs[j]? = some t) :
    (k, Outcome.ok (some t)) ∈ krs := by
  have : (keys.zip errs)[j]? = some (k, t) := (zip_getElem?_iff (j := j)).1 ⟨hk, ht⟩
  have hm : (k, t) ∈ keys.zip errs := List.mem_iff_getElem?.2 ⟨j, this⟩
  rw [hz] at hm
  exact mem_kidsOf.1 hm

/-- every rejected element has a child keyed by its key, which is its own tree -/
theorem kids_rejected (hz : keys.zip errs = kidsOf krs)
    {k : Val} {t : Err} (hm : (k, Outcome.ok (some t)) ∈ krs) :
    ∃ j : Nat, keys[j]? = some k ∧ errs[j]? = some t := by
  have : (k, t) ∈ keys.zip errs := by rw [hz]; exact mem_kidsOf.2 hm
  obtain ⟨j, hj⟩ := List.mem_iff_getElem?.1 this
  exact ⟨j, (zip_getElem?_iff (j := j)).2 hj⟩

/-- a key all of whose elements are accepted keys no child -/
theorem kids_accepted (hlen : keys.length = errs.length) (hz : keys.zip errs = kidsOf krs)
    {k : Val} (h : ∀ r, (k, r) ∈ krs → r = .ok none) : k ∉ keys := by
  intro hk
  obtain ⟨j, hj⟩ := List.mem_iff_getElem?.1 hk
  have hjlt : j < errs.length := by
    rw [← hlen]; exact (List.getElem?_eq_some_iff.1 hj).1
  have ht : errs[j]? = some errs[j] := List.getElem?_eq_getElem hjlt
  have := h _ (kids_child hz hj ht)
  cases this

end Read

/-! ## Guard facts, tag extraction, root `actual` -/

theorem guards_key (hG : GuardsCover = true) {s : Site} (hs : s ∈ keyErrorSites) :
    covers (Facts.catches s) .keyError = true := by
  simp only [GuardsCover, Bool.and_eq_true, List.all_eq_true] at hG
  exact hG.1.1.1.1.1.2 s hs

theorem guards_type (hG : GuardsCover = true) {s : Site} (hs : s ∈ typeErrorSites) :
    covers (Facts.catches s) .typeError = true := by
  simp only [GuardsCover, Bool.and_eq_true, List.all_eq_true] at hG
  exact hG.1.1.1.1.2 s hs

theorem guards_all (hG : GuardsCover = true) {s : Site} (hs : s ∈ exceptionSites) :
    coversAll (Facts.catches s) = true := by
  simp only [GuardsCover, Bool.and_eq_true, List.all_eq_true] at hG
  exact hG.1.1.1.1.1.1 s hs

theorem mapItems_of_not_isMap {v : Val} (h : v.isMap = false) : v.mapItems = [] := by
  cases v <;> first | rfl | cases h

/-- a tag can only be extracted from a mapping -/
theorem extractTag_ok_isMap {layout : Layout} {tag : String} {v t body : Val}
    (h : extractTag layout tag v = some (.ok (t, body))) : v.isMap = true := by
  cases hm : v.isMap with
  | true => rfl
  | false =>
    unfold extractTag at h
    rw [mapItems_of_not_isMap hm] at h
    cases layout <;> simp [Val.lookupPy] at h

/-- the `actual` recorded at the root of a tree (leaves and product nodes have one) -/
def Err.actual? : Err → Option Val
  | .wrongType _ a _ _ => some a
  | .wrongLen _ _ _ a _ => some a
  | .condFailed _ a _ _ => some a
  | .product _ _ _ a _ _ => some a
  | .dupKey _ _ => none
  | .sum _ => none

/-- converters whose own node (leaf or product) always records the input value itself -/
def Conv.recordsInput : Conv → Bool
  | .noneC | .scalar _ _ _ _ _ | .literal _ | .datetime _ | .tuple _ | .seq _ _ | .dict _ _ _
  | .struct _ _ | .pane _ _ => true
  | _ => false

/-! ## Small facts used by the C07 statements -/

variable {E : Ext}

theorem zipWith_colC_getElem? {cs : List Conv} {xs : List Val} {i : Nat} {r : Outcome (Option Err)} :
    (List.zipWith (colC E) cs xs)[i]? = some r ↔ ∃ c x, cs[i]? = some c ∧ xs[i]? = some x ∧ r = colC E c x := by
  rw [List.getElem?_zipWith]
  cases cs[i]? <;> cases xs[i]? <;> simp [eq_comm]

theorem structReport_colCs {names : List String} {cs : List Conv} {k x : Val} {i : Nat} {c : Conv}
    (hk : structKnown names k = some i) (hc : cs[i]? = some c) :
    structReport names (colCs E cs) (k, x) = colC E c x := by
  simp only [structReport, hk, applyAt_colCs_T hc]

theorem isSeq_of_isMap {v : Val} (h : v.isMap = true) : v.isSeq = false := by
  cases v <;> first | rfl | cases h

theorem paneGate_eq (v : Val) : paneSeqGate Facts.paneTupleGateCollect v = v.isSeq := rfl

/-- the `expected` text of the leaf reported when the tag key is absent -/
def tagAbsentText (E : Ext) (tag : String) (tagMap : List (Val × Nat)) : Layout → String
  | .adjacent t c => "mapping with keys '" ++ t ++ "' and '" ++ c ++ "'"
  | _ => "mapping with key '" ++ tag ++ "' => " ++ listPhrase (tagMap.map fun p => pyRepr E p.1)


end PaneModel
