import typing as t
import pane
from pane import from_data, into_data, ConvertError
def tryit(label, f):
    try:
        r = f(); print(f"{label}: OK -> {r!r}")
    except BaseException as e:
        print(f"{label}: RAISES {type(e).__name__}: {str(e)[:200]!r}")
class A(pane.PaneBase):
    x: int = pane.field(in_names=('y',))
tryit("in_names y", lambda: A.from_data({'y': 1}))
tryit("in_names x (python name)", lambda: A.from_data({'x': 1}))
tryit("in_names x+y dup", lambda: A.from_data({'x': 1, 'y': 2}))
class B(pane.PaneBase):
    x: int = pane.field(rename='z')
tryit("rename z", lambda: B.from_data({'z': 1}))
tryit("rename x", lambda: B.from_data({'x': 1}))
tryit("rename out", lambda: B(1).into_data())
class C(pane.PaneBase, rename='scream'):
    ab_cd: int
tryit("class rename AB_CD", lambda: C.from_data({'AB_CD': 1}))
tryit("class rename ab_cd", lambda: C.from_data({'ab_cd': 1}))
# collision: field a in_names ('b',) and field b
class D(pane.PaneBase):
    a: int = pane.field(in_names=('b',), default=0)
    b: int = 0
tryit("collision {'b':1}", lambda: D.from_data({'b': 1}))
import numpy as np
from pane.annotations import shape, broadcastable
print(shape([2,2]).f(np.zeros((2,2))), shape((2,2)).f(np.zeros((2,2))))
print(broadcastable([2,2]).f(np.zeros((1,2))), broadcastable((0,)).f(np.zeros((1,))))
