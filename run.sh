#!/bin/sh
# helper: run a tools/ script with the real pane on the path
exec env PYTHONPATH=/repo:/verif/tools PYTHONDONTWRITEBYTECODE=1 PYTHONHASHSEED=0 /venv/bin/python "$@"
