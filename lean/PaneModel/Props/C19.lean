import PaneModel.Model.IO
import PaneModel.Props.C03
/-!
# C19 — JSON / YAML file round trip and stream ownership

Full statement (properties.jsonl): writing any JSON- or YAML-representable typed value with
write_json / write_yaml (to a path, to an open text stream, or returned as a string by the dataclass
methods) and reading it back with from_json / from_yaml or the dataclass classmethods yields an
equal value, for every formatting option (indent, sort_keys, flow style, unicode escaping, explicit
start/end); from_yaml_all returns one converted value per document.  Text streams supplied by the
caller are left open; paths are opened as UTF-8 and closed.

PARTIAL: pane's own code here is glue; `json`, PyYAML, `TextIOWrapper` and the OS are externals.
The theorems are a COMPOSITION under the explicit codec hypothesis `CodecRT` (validated by the
correspondence run on every generated document and option vector, never proved) plus the ownership
facts read from `open_file`.  The conversion-level content (serialise ; parse gives the value back)
is C05.
-/
namespace PaneModel

/-- the codec hypothesis: on representable data, parse ∘ dump = normalise (tuples become lists) -/
def CodecRT (k : Codec) : Prop :=
  ∀ d, representable d = true → ∃ s, k.dump d = .ok s ∧ k.parse s = .ok (normalise d)

/-- Writing then reading is `from_data` of the normalised serialised form — for every codec that
round-trips representable data (whatever its formatting options do to the text). -/
theorem C19_write_read (E : Ext) (k : Codec) (hk : CodecRT k) (dyn : Val → Except Exc Val) (c : Conv) (x d : Val)
    (hd : intoC E dyn c x = .ok d) (hr : representable d = true) :
    ∃ s, writeDoc E k dyn c x = .ok s ∧ readDoc E k c s = convertC E c (normalise d) := by
  obtain ⟨s, hs, hp⟩ := hk d hr
  exact ⟨s, by simp [writeDoc, hd, hs], by simp [readDoc, hp]⟩

/-- … hence equal to the written value whenever the conversion-level round trip (C05) holds on the
normalised data. -/
theorem C19_roundtrip (E : Ext) (k : Codec) (hk : CodecRT k) (dyn : Val → Except Exc Val) (c : Conv) (x d x' : Val)
    (hd : intoC E dyn c x = .ok d) (hr : representable d = true) (h05 : convertC E c (normalise d) = .value x') :
    ∃ s, writeDoc E k dyn c x = .ok s ∧ readDoc E k c s = .value x' := by
  obtain ⟨s, hw, hrd⟩ := C19_write_read E k hk dyn c x d hd hr
  exact ⟨s, hw, by rw [hrd, h05]⟩

mutual
/-- data without tuples is unchanged by the codec round trip -/
theorem normalise_id : ∀ (d : Val), noTuples d = true → normalise d = d
  | .tuple _, h => by simp [noTuples] at h
  | .list xs, h => by simp only [normalise]; rw [normaliseList_id xs (by simpa [noTuples] using h)]
  | .dict kvs, h => by simp only [normalise]; rw [normalisePairs_id kvs (by simpa [noTuples] using h)]
  | .none, _ | .bool _, _ | .int _, _ | .float _, _ | .complex _ _, _ | .str _, _ | .bytes _, _ | .bytearray _, _
  | .set _, _ | .frozenset _, _ | .deque _, _ | .mapOf _ _, _ | .opaque _ _, _ | .enumMem _ _, _ | .sub _ _, _
  | .obj _ _ _, _ | .wrap _ _, _ => by simp [normalise]
theorem normaliseList_id : ∀ (xs : List Val), noTuplesList xs = true → normaliseList xs = xs
  | [], _ => rfl
  | x :: xs, h => by
    simp only [noTuplesList, Bool.and_eq_true] at h
    simp only [normaliseList, normalise_id x h.1, normaliseList_id xs h.2]
theorem normalisePairs_id : ∀ (kvs : List (Val × Val)), noTuplesPairs kvs = true → normalisePairs kvs = kvs
  | [], _ => rfl
  | (k, v) :: r, h => by
    simp only [noTuplesPairs, Bool.and_eq_true] at h
    simp only [normalisePairs, normalise_id v h.1, normalisePairs_id r h.2]
end

/-- `from_yaml_all` is `from_data(list of documents, List[T])`: it accepts iff every document is
accepted by T, and then returns one converted value per document, in order. -/
theorem C19_all_documents (E : Ext) (k : Codec) (c : Conv) (s : String) (ds : List Val)
    (hp : k.parseAll s = .ok ds) : readAllDocs E k c s = convertC E (.seq "list" c) (.list ds) := by
  simp [readAllDocs, hp]

/-- ownership, from the current source of `open_file`: a path is opened by pane (and therefore
closed by the `with` block), a caller-supplied stream is wrapped in `nullcontext` (left open), and
paths are opened as UTF-8 -/
theorem C19_facts :
    Facts.ioPathBranchOpens = some true ∧ Facts.ioStreamBranchNullcontext = some true ∧
    Facts.ioEncodingDefault = some "utf-8" := by decide

theorem C19_ownership :
    closedAfter (Facts.ioPathBranchOpens == some true) (Facts.ioStreamBranchNullcontext == some true) .path = true ∧
    closedAfter (Facts.ioPathBranchOpens == some true) (Facts.ioStreamBranchNullcontext == some true) .stream = false := by
  decide

#print axioms C19_write_read
#print axioms C19_roundtrip
#print axioms normalise_id
#print axioms C19_all_documents
#print axioms C19_facts
#print axioms C19_ownership

/-- **C19 (the five functions are the pipelines the model composes).**  Read from the current source: every
reader is `with open_file(f) as f: obj = <parse>(f …)` followed by `from_data(obj, ty …)` (`from_yaml_all`:
the list of ALL documents, unfiltered, converted as `List[ty]`); every writer is
`with open_file(f, 'w') as f: <dump>(into_data(obj, ty, custom=custom), f, …)` with every formatting option
forwarded under its own name and nothing else in the `with` body.  So `readDoc` / `readAllDocs` /
`writeDoc` are what the functions do, given the codec. -/
theorem C19_pipeline_facts :
    Facts.ioPipelines =
      [("from_json", "open_file", "r", "json.load", "f", [], "from_data(obj, ty, custom=custom)", 0),
       ("from_yaml", "open_file", "r", "yaml.load", "f", [], "from_data(obj, ty, custom=custom)", 0),
       ("from_yaml_all", "open_file", "r", "yaml.load_all+list", "f", [], "from_data(obj, t.List[ty], custom=custom)", 0),
       ("write_json", "open_file", "w", "json.dump", "into_data(obj, ty, custom=custom)", ["indent", "sort_keys"], "", 0),
       ("write_yaml", "open_file", "w", "yaml.dump", "into_data(obj, ty, custom=custom)",
         ["Dumper", "allow_unicode", "default_flow_style", "default_style", "explicit_end", "explicit_start", "indent",
          "sort_keys", "width"], "", 0)] := by rfl

/-- the dataclass convenience methods (string and file variants) delegate to those five functions -/
theorem C19_method_facts :
    Facts.ioMethodDelegates =
      [("from_json", ["io.from_json"]), ("from_yaml", ["io.from_yaml"]), ("from_yaml_all", ["io.from_yaml_all"]),
       ("from_yamls", ["io.from_yaml"]), ("from_jsons", ["io.from_json"]), ("write_json", ["io.write_json"]),
       ("write_yaml", ["io.write_yaml"])] := by decide

/-- … and they call NOTHING else: the complete set of calls in each method body is the delegate, plus — in the string
variants — a fresh `StringIO` (and its `getvalue`).  No second code path (another dumper, a shared buffer, a cache). -/
theorem C19_method_calls :
    Facts.ioMethodCalls =
      [("from_json", ["io.from_json"]), ("from_yaml", ["io.from_yaml"]), ("from_yaml_all", ["io.from_yaml_all"]),
       ("from_yamls", ["StringIO", "io.from_yaml"]), ("from_jsons", ["StringIO", "io.from_json"]),
       ("write_json", ["StringIO", "buf.getvalue", "io.write_json"]),
       ("write_yaml", ["StringIO", "buf.getvalue", "io.write_yaml"])] := by decide

#print axioms C19_pipeline_facts
#print axioms C19_method_facts
#print axioms C19_method_calls

end PaneModel
