import PaneModel.Lemmas.TreesWF
import PaneModel.Lemmas.TreesRender
import PaneModel.Props.C07
/-!
# C08 — error messages are total and complete

Rendering any error tree produced by a failed conversion to text never raises and is deterministic.
The text names, in nesting order, every failing path component, the expectation of every leaf, every
missing, unexpected and duplicated field, shows the offending value, and includes the message of the
underlying exception whenever a failure was caused by one.

`render` (the model of `print_error`) is a total Lean function: termination and determinism of the
model are checked by Lean when the definition is accepted.  What a total function cannot show is the
one place where the Python renderer can raise: `DuplicateKeyError.print_error` does
`assert not inside_sum`.  `Err.WF` (no `DuplicateKeyError` directly under a sum, parallel child lists in
every product node, recursively) reflects it, `C08_reachable_wf` shows that every tree `collect_errors`
builds is well-formed, and `C08_never_asserts` that on a well-formed tree no such assertion is reached.

Text vocabulary (`Lemmas/TreesRender.lean`): `Mentions s segs` — some literal segment contains `s`;
`flatText segs` — the concatenated literal text; `InOrder ks s` — the strings `ks` occur in `s` in this
order without overlapping; `PathTo t ks n` — node `n` is reached from `t` through product children keyed
`ks` and sum members; `LeafIn t l`.

Restricted statements (never weakened silently):
* `C08_reachable_wf` takes one hypothesis beyond C03's: `CustomGood E` — user-written `custom`
  converters (whose trees the model cannot see into) report well-formed trees themselves;
* `C08_value_shown_sum`: a sum root shows the input for unions, nested to ANY depth, over self-inspecting
  converters (`Conv.recordsInputDeep`).  Finding D13 (nested sums were flattened one level only, so three
  unions deep the footer showed `None`) is fixed in the source: `_flatten_sum` is recursive, the former
  negation witness is now the positive regression theorem `C08_d13_fixed` / `C08_d13_footer_fixed`.  The
  restriction to self-inspecting members stays (a member such as a condition, an enum, a tagged union or a
  `custom` converter need not record the input itself); `C08_footer_exact` says exactly which value the footer
  shows for every tree;
* in `C08_missing_shown` / `C08_extra_shown` the fused path prefix of the line is existentially
  quantified (it is not identified with the dotted keys of the chain).
-/
namespace PaneModel

variable {E : Ext}

/-! ## Reachable trees are well-formed -/

section Induction

mutual
/-- every well-formed converter reports only `Good` trees -/
theorem C08.reach (hG : GuardsCover = true) (hE : ExtOk E) (hC : CustomGood E) :
    (c : Conv) → c.wf = true → TreesGood (colC E c)
  | .any, _ => reach_any
  | .noneC, _ => reach_noneC
  | .scalar .., _ => reach_scalar
  | .datetime _, _ => reach_datetime
  | .literal _, _ => reach_literal
  | .custom _, _ => reach_custom hC
  | .union cs, h => reach_union (C08.reachs hG hE hC cs (by simpa only [Conv.wf] using h))
  | .tuple cs, h => reach_tuple (C08.reachs hG hE hC cs (by simpa only [Conv.wf] using h))
  | .tagged cs _ _ _, h => by
    simp only [Conv.wf, Bool.and_eq_true] at h
    exact reach_tagged (C08.reachs hG hE hC cs h.1)
  | .struct _ cs, h => by
    simp only [Conv.wf, Bool.and_eq_true] at h
    exact reach_struct (C08.reachs hG hE hC cs h.1)
  | .dict _ k vc, h => by
    simp only [Conv.wf, Bool.and_eq_true] at h
    exact reach_dict (C08.reach hG hE hC k h.1) (C08.reach hG hE hC vc h.2)
  | .seq _ vc, h =>
    reach_seq (C03.good hG hE vc (by simpa only [Conv.wf] using h))
      (C08.reach hG hE hC vc (by simpa only [Conv.wf] using h))
  | .vol vc, h =>
    reach_vol (C03.good hG hE vc (by simpa only [Conv.wf] using h))
      (C08.reach hG hE hC vc (by simpa only [Conv.wf] using h))
  | .cond inner _ _, h => reach_cond (C08.reach hG hE hC inner (by simpa only [Conv.wf] using h))
  | .enum _ _ inner, h => reach_enum (C08.reach hG hE hC inner (by simpa only [Conv.wf] using h))
  | .delegate _ inner, h => reach_delegate (C08.reach hG hE hC inner (by simpa only [Conv.wf] using h))
  | .pattern _ _, _ => reach_pattern
  | .nested vc, h => reach_nested (C08.reach hG hE hC vc (by simpa only [Conv.wf] using h))
  | .pane info cs, h => by
    simp only [Conv.wf, Bool.and_eq_true, beq_iff_eq] at h
    exact reach_pane (C03.goods hG hE cs h.1.1) (by rw [tryCs_length]; exact h.1.2)
      (C08.reachs hG hE hC cs h.1.1)
theorem C08.reachs (hG : GuardsCover = true) (hE : ExtOk E) (hC : CustomGood E) :
    (cs : List Conv) → wfList cs = true → TreesGoods (colCs E cs)
  | [], _ => by intro f hf; simp [colCs] at hf
  | c :: cs, h => by
    simp only [wfList, Bool.and_eq_true] at h
    intro f hf
    simp only [colCs, List.mem_cons] at hf
    rcases hf with rfl | hf
    · exact C08.reach hG hE hC c h.1
    · exact C08.reachs hG hE hC cs h.2 f hf
end

end Induction

/-- **C08 (reachable trees are well-formed).**  Under the C03 hypotheses (plus: user-written `custom`
converters report well-formed trees themselves), every tree the diagnostic pass reports is well-formed
and is not a bare `DuplicateKeyError`: such nodes are only ever created as children of a dataclass
product node. -/
theorem C08_reachable_wf (hG : GuardsCover = true) (hE : ExtOk E) (hC : CustomGood E) (c : Conv)
    (hwf : c.wf = true) (v : Val) {t : Err} (h : colC E c v = .ok (some t)) :
    t.WF = true ∧ t.isDupKey = false :=
  C08.reach hG hE hC c hwf v t h

/-- **C08 (never raises).**  On a well-formed tree, `print_error(indent, inside_sum=False)` — the call
`ConvertError.__str__` makes — never reaches a failing `assert not inside_sum`. -/
theorem C08_never_asserts (t : Err) (hwf : t.WF = true) : t.assertOk false = true :=
  Err.assertOk_of_wf t hwf false (.inr rfl)

/-- … hence for every tree reported by a failed conversion -/
theorem C08_total (hG : GuardsCover = true) (hE : ExtOk E) (hC : CustomGood E) (c : Conv)
    (hwf : c.wf = true) (v : Val) {t : Err} (h : convertC E c v = .convertError t) :
    t.WF = true ∧ t.assertOk false = true := by
  have hcol : colC E c v = .ok (some t) := by
    unfold convertC convertWith at h
    split at h
    · cases h
    · cases h
    · split at h
      · rename_i heq; cases h; exact heq
      · cases h
      · cases h
      · cases h
  have := C08_reachable_wf hG hE hC c hwf v hcol
  exact ⟨this.1, C08_never_asserts t this.1⟩

/-! ## Expectations of leaves -/

/-- **C08 (leaf expectations).**  For every leaf occurring anywhere in the tree, some literal segment
of the rendered text contains that leaf's expectation text. -/
theorem C08_leaf_expected {t l : Err} (hl : LeafIn t l) {e : String} (he : l.expected? = some e)
    (indent : String) (inSum : Bool) : Mentions e (render E t indent inSum) := by
  obtain ⟨hleaf, ks, hp⟩ := hl
  have hns : l.isSum = false := by cases l <;> first | rfl | cases hleaf
  have hnp : l.isProduct = false := by cases l <;> first | rfl | cases hleaf
  obtain ⟨ind, b, hsub⟩ := (rendered_in_root (E := E) hp hns indent inSum).atom hnp
  obtain ⟨s, hs, hinf⟩ := leaf_mentions_expected (E := E) he ind b
  exact ⟨s, hsub hs, hinf⟩

/-! ## Path components -/

/-- **C08 (paths).**  The key texts along the path from the root to any leaf (or `DuplicateKeyError`
node) occur in the rendered literal text, in nesting order, without overlapping. -/
theorem C08_paths {t l : Err} {ks : List Val} (hp : PathTo t ks l) (hl : l.isProduct = false)
    (indent : String) (inSum : Bool) :
    InOrder (ks.map (keyText E)) (flatText (render E t indent inSum)) :=
  (inOrder_of_path hp hl).1 indent inSum

/-- in particular each of them occurs -/
theorem C08_paths_each {t l : Err} {ks : List Val} (hp : PathTo t ks l) (hl : l.isProduct = false)
    (indent : String) (inSum : Bool) {k : Val} (hk : k ∈ ks) :
    StrInfix (keyText E k) (flatText (render E t indent inSum)) :=
  (C08_paths hp hl indent inSum).infix _ (List.mem_map_of_mem hk)

/-- **C08 (paths, segment form).**  Each key on the path sits in a `While parsing field '…'` line,
possibly inside a fused dotted path (`a.k.b`). -/
theorem C08_paths_segments {t l : Err} {ks : List Val} (hp : PathTo t ks l) (hl : l.isProduct = false)
    (indent : String) (inSum : Bool) {k : Val} (hk : k ∈ ks) :
    ∃ ind a b, Seg.lit (ind ++ "While parsing field '" ++ a ++ keyText E k ++ b ++ "':\n" ++ ind ++ "  ") ∈
      render E t indent inSum :=
  (whileSeg_of_path hp hl).1 indent inSum k hk

/-! ## Missing, unexpected, duplicated fields -/

/-- **C08 (missing fields).**  Every element of the `missing` list of every product node of the tree
appears in a `Missing required field '…'` line (prefixed by the fused path `pre`, if the node is at the
end of a fused chain). -/
theorem C08_missing_shown {t : Err} {ks : List Val} {exp keys errs act ms xs}
    (hp : PathTo t ks (.product exp keys errs act ms xs)) {m : Val} (hm : m ∈ ms)
    (indent : String) (inSum : Bool) :
    ∃ ind pre, Seg.lit (ind ++ "  Missing required field '" ++ (pre ++ keyText E m) ++ "'\n") ∈
      render E t indent inSum := by
  obtain ⟨exp', pre, ind, b, hsub⟩ := (rendered_in_root (E := E) hp rfl indent inSum).product
  exact ⟨ind, pre, hsub (renderProd_shows_missing (List.mem_map_of_mem (f := fun m => pre ++ keyText E m) hm))⟩

/-- **C08 (unexpected fields).**  Likewise for every element of every `extra` list. -/
theorem C08_extra_shown {t : Err} {ks : List Val} {exp keys errs act ms xs}
    (hp : PathTo t ks (.product exp keys errs act ms xs)) {x : Val} (hx : x ∈ xs)
    (indent : String) (inSum : Bool) :
    ∃ ind pre, Seg.lit (ind ++ "  Unexpected field '" ++ (pre ++ keyText E x) ++ "'\n") ∈
      render E t indent inSum := by
  obtain ⟨exp', pre, ind, b, hsub⟩ := (rendered_in_root (E := E) hp rfl indent inSum).product
  exact ⟨ind, pre, hsub (renderProd_shows_extra (List.mem_map_of_mem (f := fun x => pre ++ keyText E x) hx))⟩

/-- **C08 (duplicated fields).**  Every `DuplicateKeyError` node of the tree appears as its
`Duplicate key … (same as …)` line. -/
theorem C08_dup_shown {t : Err} {ks : List Val} {k : Val} {aliases : List String}
    (hp : PathTo t ks (.dupKey k aliases)) (indent : String) (inSum : Bool) :
    Seg.lit ("Duplicate key " ++ keyText E k ++ " (same as " ++ "/".intercalate aliases ++ ")\n") ∈
      render E t indent inSum := by
  obtain ⟨ind, b, hsub⟩ := (rendered_in_root (E := E) hp rfl indent inSum).atom rfl
  apply hsub
  rw [render_dupKey]
  exact List.mem_singleton.2 rfl

/-! ## The offending value -/

/-- **C08 (value shown, leaf root).**  A leaf printed outside a sum shows its offending value. -/
theorem C08_value_shown_leaf {l : Err} (hl : l.isLeaf = true) {a : Val} (ha : l.actual? = some a)
    (indent : String) : Seg.val a ∈ render E l indent false :=
  leaf_shows_value hl ha indent

/-- **C08 (value shown, no sum on the way).**  Below a root that is a leaf or a product node, every leaf
reached through product children only shows its offending value. -/
theorem C08_value_shown_product {t l : Err} (hp : ProdPathTo t l) (hl : l.isLeaf = true) {a : Val}
    (ha : l.actual? = some a) (indent : String) : Seg.val a ∈ render E t indent false :=
  (value_of_prodPath hp hl ha).1 indent false (.inr rfl)

/-- **C08 (value shown, sum root — exact).**  The footer `Instead got …` of a sum shows the `actual` of
the last of its printed members (`flatMembers`: nested sums flattened recursively, at every depth — no
printed member is a sum, `flatMembers_not_sum`) that has one; `None` if there is no such member. -/
theorem C08_footer_exact (ch : List Err) (indent : String) (inSum : Bool) :
    ∃ segs, render E (.sum ch) indent inSum =
      [Seg.lit "Expected one of:\n"] ++ segs ++
        [.lit (indent ++ "Instead got `"),
         .val ((((flatMembers ch).filterMap Err.actual?).getLast?).getD Val.none),
         .lit "` of type `",
         .typ ((((flatMembers ch).filterMap Err.actual?).getLast?).getD Val.none), .lit "`\n"] := by
  refine ⟨(renderSum E ch indent Val.none).1, ?_⟩
  rw [render_sum, renderSum_snd, foldl_nextAct]

/-- a converter that inspects the input itself reports a node that is printed as it is and records the input -/
theorem C08.leaf_flat {c : Conv} (hr : c.recordsInput = true) (v : Val) {t : Err}
    (h : colC E c v = .ok (some t)) : (∀ m ∈ t.flat, m.actual? = some v) ∧ t.flat ≠ [] := by
  have ha := C07_leaf_actual c hr v h
  have hs : t.isSum = false := by cases t <;> first | rfl | cases ha
  rw [Err.flat_nonsum hs]
  exact ⟨fun m hm => (List.mem_singleton.1 hm) ▸ ha, by simp⟩

section Deep

mutual
/-- every fully flattened member of the report of a `recordsInputDeep` converter on `v` records `v`, and
there is at least one -/
theorem C08.deep (v : Val) : (c : Conv) → c.recordsInputDeep = true → (t : Err) → colC E c v = .ok (some t) →
    (∀ m ∈ t.flat, m.actual? = some v) ∧ t.flat ≠ []
  | .union ds, h, t, hcol => by
    obtain ⟨hne, hds⟩ := Conv.recordsInputDeep_union.1 h
    obtain ⟨ts, rfl⟩ := C07_union_is_sum ds v hcol
    obtain ⟨hlen, hmem⟩ := C07_sum_children ds v hcol
    rw [Err.flat_sum]
    have := C08.deeps v ds (recordsInputDeepList_iff.2 hds) ts hlen (fun i h1 h2 => (hmem i h1 h2).1)
    exact ⟨this.1, this.2 hne⟩
  | .any, h, t, hcol | .noneC, h, t, hcol | .scalar .., h, t, hcol | .datetime _, h, t, hcol
  | .literal _, h, t, hcol | .custom _, h, t, hcol | .tuple _, h, t, hcol | .tagged .., h, t, hcol
  | .struct .., h, t, hcol | .dict .., h, t, hcol | .seq .., h, t, hcol | .cond .., h, t, hcol
  | .enum .., h, t, hcol | .delegate .., h, t, hcol | .pattern .., h, t, hcol | .nested _, h, t, hcol
  | .pane .., h, t, hcol => by
    rcases Conv.recordsInputDeep_iff.1 h with hr | ⟨_, hd, _⟩ | ⟨_, hd, _⟩
    · exact C08.leaf_flat hr v hcol
    · cases hd
    · cases hd
  | .vol d, h, t, hcol => by
    -- a sum of `d`'s own report and the list converter's own report (which records the input itself)
    rw [Conv.recordsInputDeep_vol] at h
    obtain ⟨t1, t2, rfl, h1, h2, -, -⟩ := C07_vol_tree d v hcol
    have hd := C08.deep v d h t1 h1
    have hl := C08.leaf_flat (c := .seq "list" d) rfl v h2
    rw [Err.flat_sum, flatMembers_cons, flatMembers_cons, flatMembers_nil, List.append_nil]
    refine ⟨fun m hm => ?_, fun hnil => hd.2 (List.append_eq_nil_iff.1 hnil).1⟩
    rcases List.mem_append.1 hm with hm | hm
    · exact hd.1 m hm
    · exact hl.1 m hm
theorem C08.deeps (v : Val) : (cs : List Conv) → recordsInputDeepList cs = true → (ts : List Err) →
    ts.length = cs.length →
    (∀ (i : Nat) (h1 : i < cs.length) (h2 : i < ts.length), colC E cs[i] v = .ok (some ts[i])) →
    (∀ m ∈ flatMembers ts, m.actual? = some v) ∧ (cs ≠ [] → flatMembers ts ≠ [])
  | [], _, [], _, _ => by
    rw [flatMembers_nil]
    exact ⟨fun m hm => (nomatch hm), fun h => absurd rfl h⟩
  | [], _, _ :: _, hl, _ => by simp at hl
  | _ :: _, _, [], hl, _ => by simp at hl
  | c :: cs, h, t :: ts, hl, hm => by
    simp only [recordsInputDeepList, Bool.and_eq_true] at h
    have h0 := C08.deep v c h.1 t (hm 0 (by simp) (by simp))
    have hr := C08.deeps v cs h.2 ts (by simpa using hl)
      (fun i h1 h2 => hm (i + 1) (by simpa using h1) (by simpa using h2))
    rw [flatMembers_cons]
    refine ⟨fun m hm' => ?_, fun _ hnil => h0.2 (List.append_eq_nil_iff.1 hnil).1⟩
    rcases List.mem_append.1 hm' with h1 | h1
    · exact h0.1 m h1
    · exact hr.1 m h1
end

end Deep

/-- **C08 (value shown, sum root — full).**  For a union, nested to ANY depth, of converters that inspect
the input themselves (`Conv.recordsInputDeep`: `recordsInput` — `None`, scalars, literals, datetimes,
tuples, sequences, dicts, struct literals, dataclasses — or a non-empty union of `recordsInputDeep`
converters), the footer of the rendered sum shows the input: every fully flattened member is the report
of a `recordsInput` converter on `v`, hence records `v`, and there is at least one.  (Before the fix of
finding D13 — `_flatten_sum` flattened one level only — this held for two levels only.) -/
theorem C08_value_shown_sum (cs : List Conv) (hne : cs ≠ [])
    (hcs : ∀ c ∈ cs, c.recordsInputDeep = true)
    (v : Val) {ts : List Err} (h : colC E (.union cs) v = .ok (some (.sum ts))) :
    footerVal ts = v := by
  have hd := C08.deep (E := E) v (.union cs) (Conv.recordsInputDeep_union.2 ⟨hne, hcs⟩) (.sum ts) h
  rw [Err.flat_sum] at hd
  unfold footerVal
  rw [← foldl_nextAct]
  exact foldl_nextAct_const hd.2 hd.1 Val.none

/-- … and the rendered text ends with the footer showing `v` -/
theorem C08_value_shown_sum_render (cs : List Conv) (hne : cs ≠ [])
    (hcs : ∀ c ∈ cs, c.recordsInputDeep = true)
    (v : Val) {ts : List Err} (h : colC E (.union cs) v = .ok (some (.sum ts))) (indent : String) (inSum : Bool) :
    ∃ segs, render E (.sum ts) indent inSum =
      [Seg.lit "Expected one of:\n"] ++ segs ++
        [.lit (indent ++ "Instead got `"), .val v, .lit "` of type `", .typ v, .lit "`\n"] := by
  have hv := C08_value_shown_sum cs hne hcs v h
  unfold footerVal at hv
  obtain ⟨segs, hs⟩ := C08_footer_exact (E := E) ts indent inSum
  rw [hv] at hs
  exact ⟨segs, hs⟩

/-- **C08 (value shown, sum root — the former two-level statement)**, now a corollary: unions nested at
most two deep over self-inspecting converters. -/
theorem C08_value_shown_two_levels (cs : List Conv) (hne : cs ≠ [])
    (hcs : ∀ c ∈ cs, c.recordsInput = true ∨
      ∃ ds, c = .union ds ∧ ds ≠ [] ∧ ∀ d ∈ ds, d.recordsInput = true)
    (v : Val) {ts : List Err} (h : colC E (.union cs) v = .ok (some (.sum ts))) :
    footerVal ts = v := by
  refine C08_value_shown_sum cs hne (fun c hc => ?_) v h
  rcases hcs c hc with hr | ⟨ds, rfl, hdne, hds⟩
  · exact Conv.recordsInputDeep_of_recordsInput hr
  · exact Conv.recordsInputDeep_union.2 ⟨hdne, fun d hd => Conv.recordsInputDeep_of_recordsInput (hds d hd)⟩

/-- **Regression theorem for finding D13 (fixed).**  The former negation witness of the unrestricted
statement — `Union[Union[Union[int]]]` on `"a"`, three unions deep, where the footer used to show `None`
because the members of a nested sum were flattened one level only — now shows the input. -/
theorem C08_d13_fixed :
    ∃ ts : List Err, colC extRaising (.union [.union [.union [exInt]]]) (.str "a") = .ok (some (.sum ts)) ∧
      ts = [.sum [.sum [.wrongType "an int" (.str "a") none none]]] ∧ footerVal ts = .str "a" := by
  have h : colC extRaising (.union [.union [.union [exInt]]]) (.str "a") =
      .ok (some (.sum [.sum [.sum [.wrongType "an int" (.str "a") none none]]])) := by with_unfolding_all rfl
  exact ⟨_, h, rfl, C08_value_shown_sum [.union [.union [exInt]]] (by simp) (by decide) (.str "a") h⟩

/-- the same on the bare tree of the finding: `sum [sum [sum [wrongType "x" 1]]]` renders a footer
showing `1` (it used to show `None`) -/
theorem C08_d13_footer_fixed (indent : String) (inSum : Bool) :
    ∃ segs, render E (.sum [.sum [.sum [.wrongType "x" (.int 1) none none]]]) indent inSum =
      [Seg.lit "Expected one of:\n"] ++ segs ++
        [.lit (indent ++ "Instead got `"), .val (.int 1), .lit "` of type `", .typ (.int 1), .lit "`\n"] :=
  C08_footer_exact _ indent inSum

/-- … and the whole text of that tree: one member line, the leaf (no `Expected one of:` of a nested sum) -/
example : render extRaising (.sum [.sum [.sum [.wrongType "x" (.int 1) none none]]]) "" false =
    [.lit "Expected one of:\n", .lit "- ", .lit "x\n",
     .lit "Instead got `", .val (.int 1), .lit "` of type `", .typ (.int 1), .lit "`\n"] := by
  simp [render, renderSum]

/-! ## Causes -/

/-- **C08 (causes).**  Every leaf caused by an exception renders that exception's formatted message. -/
theorem C08_cause_shown {t l : Err} (hl : LeafIn t l) {m : String} (hc : l.cause? = some m)
    (indent : String) (inSum : Bool) : ∃ ind, Seg.cause ind m ∈ render E t indent inSum := by
  obtain ⟨hleaf, ks, hp⟩ := hl
  have hns : l.isSum = false := by cases l <;> first | rfl | cases hleaf
  have hnp : l.isProduct = false := by cases l <;> first | rfl | cases hleaf
  obtain ⟨ind, b, hsub⟩ := (rendered_in_root (E := E) hp hns indent inSum).atom hnp
  exact ⟨ind, hsub (leaf_shows_cause hc ind b)⟩

/-! ## Non-vacuity -/

theorem extRaising_customGood : CustomGood extRaising := by
  intro id v t h
  simp only [extRaising, Outcome.ok.injEq, Option.some.injEq] at h
  subst h
  exact good_wrongType _ _ _ _

/-- the tree of `exPane_tree` (C07): a dataclass node with an own-tree child, a duplicate key, a
missing and an unexpected field -/
def exTreeP : Err :=
  .product "struct P" [.str "x", .str "X"]
    [.wrongType "an int" (.str "no") none none, .dupKey (.str "X") ["x", "X"]]
    (.dict [(.str "x", .str "no"), (.str "X", .int 2), (.str "z", .int 3)]) [.str "y"] [.str "z"]

/-- a fused chain `a.b` ending in a leaf caused by an exception, with a missing field `m` at its end -/
def exChain : Err :=
  .product "A" [.str "a"]
    [.product "B" [.str "b"] [.wrongType "an int" (.str "q") (some "boom") none] (.dict []) [.str "m"] []]
    (.dict []) [] []

/-- what it renders to: one `While parsing field 'a.b'` line, the missing field as `a.m` -/
example : render extRaising exChain "" false =
    [.lit "Expected A\n", .lit "While parsing field 'a.b':\n  ",
     .lit "Expected an int, instead got `", .val (.str "q"), .lit "` of type `", .typ (.str "q"), .lit "`\n",
     .lit "Caused by exception:\n  ", .cause "  " "boom", .lit "\n",
     .lit "  Missing required field 'a.m'\n"] := by
  simp [exChain, render, renderProd, renderChildren, keyText, pyStr]

/-- the union tree of `exUnion_tree` (C07) -/
def exTreeU : Err :=
  .sum [.wrongType "sequence of ints" (.dict [(.str "x", .str "no")]) none none,
    .product "struct Point" [.str "x"] [.wrongType "an int" (.str "no") none none]
      (.dict [(.str "x", .str "no")]) [] []]

-- reachable trees are well-formed / rendering never asserts
example := C08_reachable_wf C03_guards extRaising_ok extRaising_customGood exConv (by decide) _ exUnion_tree
example := C08_reachable_wf C03_guards extRaising_ok extRaising_customGood (.pane exP [exInt, exInt]) (by decide) _
  exPane_tree
example : exTreeP.WF = true ∧ exTreeP.assertOk false = true :=
  C08_total C03_guards extRaising_ok extRaising_customGood (.pane exP [exInt, exInt]) (by decide)
    (.dict [(.str "x", .str "no"), (.str "X", .int 2), (.str "z", .int 3)]) (by with_unfolding_all rfl)
/-- … and `WF` is not vacuous: a `DuplicateKeyError` directly under a sum is rejected -/
example : (Err.sum [.dupKey (.str "X") ["x", "X"]]).WF = false := by rfl
example : (Err.sum [.dupKey (.str "X") ["x", "X"]]).assertOk false = false := by rfl

-- leaf expectations
theorem exChain_path : PathTo exChain [.str "a", .str "b"] (.wrongType "an int" (.str "q") (some "boom") none) :=
  .child0 (.child0 (.here _))
theorem exChain_leaf : LeafIn exChain (.wrongType "an int" (.str "q") (some "boom") none) := ⟨rfl, _, exChain_path⟩
theorem exTreeU_leaf : LeafIn exTreeU (.wrongType "an int" (.str "no") none none) :=
  ⟨rfl, [.str "x"], .member1 (.child0 (.here _))⟩

example : Mentions "an int" (render extRaising exChain "" false) := C08_leaf_expected exChain_leaf rfl "" false
example : Mentions "an int" (render extRaising exTreeU "" false) := C08_leaf_expected exTreeU_leaf rfl "" false
example : Mentions "sequence of ints" (render extRaising exTreeU "" false) :=
  C08_leaf_expected ⟨rfl, [], .member0 (.here _)⟩ rfl "" false

-- paths: `a` then `b`, in this order (fused into `a.b`); each in a `While parsing field` line
example : InOrder ["a", "b"] (flatText (render extRaising exChain "" false)) :=
  C08_paths (E := extRaising) exChain_path rfl "" false
example : ∃ ind a b, Seg.lit (ind ++ "While parsing field '" ++ a ++ "a" ++ b ++ "':\n" ++ ind ++ "  ") ∈
    render extRaising exChain "" false :=
  C08_paths_segments (E := extRaising) exChain_path rfl "" false (k := .str "a") (by simp)
example : StrInfix "x" (flatText (render extRaising exTreeU "" false)) :=
  C08_paths_each (E := extRaising) (l := .wrongType "an int" (.str "no") none none)
    (.member1 (.child0 (.here _))) rfl "" false (k := .str "x") (by simp)

-- missing / unexpected / duplicated
example : ∃ ind pre, Seg.lit (ind ++ "  Missing required field '" ++ (pre ++ "y") ++ "'\n") ∈
    render extRaising exTreeP "" false :=
  C08_missing_shown (E := extRaising) (.here exTreeP) (m := .str "y") (by simp) "" false
example : ∃ ind pre, Seg.lit (ind ++ "  Missing required field '" ++ (pre ++ "m") ++ "'\n") ∈
    render extRaising exChain "" false :=
  C08_missing_shown (E := extRaising) (t := exChain) (ks := [.str "a"]) (.child0 (.here _)) (m := .str "m")
    (by simp) "" false
example : ∃ ind pre, Seg.lit (ind ++ "  Unexpected field '" ++ (pre ++ "z") ++ "'\n") ∈
    render extRaising exTreeP "" false :=
  C08_extra_shown (E := extRaising) (.here exTreeP) (x := .str "z") (by simp) "" false
example : Seg.lit ("Duplicate key " ++ "X" ++ " (same as " ++ "/".intercalate ["x", "X"] ++ ")\n") ∈
    render extRaising exTreeP "" false :=
  C08_dup_shown (E := extRaising) (t := exTreeP) (ks := [.str "X"]) (.child1 (.here _)) "" false

-- values
example : Seg.val (.str "q") ∈ render extRaising exChain "" false :=
  C08_value_shown_product (E := extRaising) (t := exChain) (.child0 (.child0 (.here _))) rfl rfl ""
example : Seg.val (.str "b") ∈ render extRaising (.wrongType "an int" (.str "b") none none) "" false :=
  C08_value_shown_leaf rfl rfl ""
/-- `list[int] | Point` on `{"x": "no"}`: the footer shows the input -/
example : footerVal [Err.wrongType "sequence of ints" (.dict [(.str "x", .str "no")]) none none,
    .product "struct Point" [.str "x"] [.wrongType "an int" (.str "no") none none]
      (.dict [(.str "x", .str "no")]) [] []] = .dict [(.str "x", .str "no")] :=
  C08_value_shown_sum (E := extRaising) [.seq "list" exInt, .pane exPoint [exInt, exInt]] (by simp)
    (by intro c hc; simp at hc; rcases hc with rfl | rfl <;> rfl) _ exUnion_tree
example : footerVal [Err.wrongType "sequence of ints" (.dict [(.str "x", .str "no")]) none none,
    .product "struct Point" [.str "x"] [.wrongType "an int" (.str "no") none none]
      (.dict [(.str "x", .str "no")]) [] []] = .dict [(.str "x", .str "no")] :=
  C08_value_shown_two_levels (E := extRaising) [.seq "list" exInt, .pane exPoint [exInt, exInt]] (by simp)
    (by intro c hc; simp at hc; rcases hc with rfl | rfl <;> exact .inl rfl) _ exUnion_tree
/-- `recordsInputDeep` is not vacuous, and it does exclude members that need not record the input -/
example : (Conv.union [.union [.union [exInt]], .noneC]).recordsInputDeep = true := by decide
example : (Conv.union [.union [], exInt]).recordsInputDeep = false := by decide
example : (Conv.union [.any]).recordsInputDeep = false := by decide

-- causes
example : ∃ ind, Seg.cause ind "boom" ∈ render extRaising exChain "" false :=
  C08_cause_shown exChain_leaf rfl "" false

/-! ## Axioms -/

#print axioms C08_reachable_wf
#print axioms C08_never_asserts
#print axioms C08_total
#print axioms C08_leaf_expected
#print axioms C08_paths
#print axioms C08_paths_each
#print axioms C08_paths_segments
#print axioms C08_missing_shown
#print axioms C08_extra_shown
#print axioms C08_dup_shown
#print axioms C08_value_shown_leaf
#print axioms C08_value_shown_product
#print axioms C08_footer_exact
#print axioms C08_value_shown_sum
#print axioms C08_value_shown_sum_render
#print axioms C08_value_shown_two_levels
#print axioms C08_d13_fixed
#print axioms C08_d13_footer_fixed
#print axioms C08_cause_shown
#print axioms extRaising_customGood

end PaneModel
