import PaneModel.Lemmas.PaneProofsC17
/-!
# Several bases: the MRO loop of `_process` (`mroSpecs`, `processClassMro`)

Core Lean only.  Every name is prefixed `mro_`.

* (A) `processClass` (one parent) is the special case of `processClassMro`.
* (B) the loop unfolded: `mro_specs_nil`, `mro_specs_snoc`, `mro_specs_alias`.
* (C) field order = MRO order: `mro_specs_names`, `mro_specs_nodup`.
* (D) the nearest declaration wins, later substitutions applied in order: `mro_specs_find`,
  `mro_specs_find_none`.
* (E) structure of a successful `processClassMro`: `mro_processClassMro_ok` (+ `_extra`, `_names`).
-/
namespace PaneModel.PaneProofs

/-! ## (A) single inheritance is the special case -/

theorem mro_processClass_eq (d : ClassDeclM) (parent : Option ClassM) (bound : List (String × Ty))
    (pp : List String) :
    processClass d parent bound pp =
      processClassMro d (c17_baseOpts parent) (c17_inherited parent bound)
        (match parent with | some p => p.attrs | none => []) (parent.bind (·.hook)) pp := by
  cases parent <;> rfl

/-! ## (B) the loop, unfolded -/

/-- one iteration of the loop: `specs.update(base.specs)`, then the variables `base` binds are replaced -/
def mro_step (acc : List SpecM) (e : MroEntry) : List SpecM :=
  (specsUpdate acc e.own).map fun s => { s with ty := substTy e.bound s.ty }

/-- the loop started from an arbitrary accumulator -/
def mro_from (acc : List SpecM) (anc : List MroEntry) : List SpecM := anc.foldl mro_step acc

theorem mro_specs_eq_from (anc : List MroEntry) : mroSpecs anc = mro_from [] anc := rfl

theorem mro_from_nil (acc : List SpecM) : mro_from acc [] = acc := rfl

theorem mro_from_cons (acc : List SpecM) (e : MroEntry) (anc : List MroEntry) :
    mro_from acc (e :: anc) = mro_from (mro_step acc e) anc := rfl

theorem mro_specs_nil : mroSpecs [] = [] := rfl

theorem mro_specs_append (a b : List MroEntry) : mroSpecs (a ++ b) = mro_from (mroSpecs a) b := by
  unfold mroSpecs mro_from
  rw [List.foldl_append]
  rfl

theorem mro_specs_snoc (anc : List MroEntry) (e : MroEntry) :
    mroSpecs (anc ++ [e]) =
      (specsUpdate (mroSpecs anc) e.own).map fun s => { s with ty := substTy e.bound s.ty } := by
  rw [mro_specs_append]
  rfl

/-- `specs.update({})` changes nothing -/
theorem mro_specsUpdate_nil (old : List SpecM) : specsUpdate old [] = old := by
  rw [c17_specsUpdate_eq, List.filter_nil, List.append_nil]
  induction old with
  | nil => rfl
  | cons a l ih => rw [List.map_cons, ih]; rfl

/-- `{}.update(new)` is `new` -/
theorem mro_specsUpdate_nil_left (new : List SpecM) : specsUpdate [] new = new := by
  rw [c17_specsUpdate_eq, List.map_nil, List.nil_append]
  exact List.filter_eq_self.2 (fun _ _ => rfl)

/-- a subscripted alias `P[args]` on the MRO declares nothing and substitutes `P`'s parameters -/
theorem mro_specs_alias (anc : List MroEntry) (σ : List (String × Ty)) :
    mroSpecs (anc ++ [⟨[], σ⟩]) = (mroSpecs anc).map fun s => { s with ty := substTy σ s.ty } := by
  rw [mro_specs_snoc, mro_specsUpdate_nil]

/-- chain coherence with `processClass`: if the parent's merged specs are those of its own MRO, what a
single-parent subclass of `P[args]` inherits is the loop over that MRO followed by the alias entry -/
theorem mro_inherited_alias (p : ClassM) (anc : List MroEntry) (σ : List (String × Ty))
    (hp : p.specs = mroSpecs anc) :
    c17_inherited (some p) σ = mroSpecs (anc ++ [⟨[], σ⟩]) := by
  rw [mro_specs_alias, ← hp]
  rfl

/-- an ordinary class (binds nothing) whose merged field types are in typing-normal form: its entry is a
plain `specs.update` (`substTy []` is the identity on normal types only, see `C17_subst_nil_counterexamples`) -/
theorem mro_specs_plain (anc : List MroEntry) (own : List SpecM)
    (hn : ∀ s ∈ specsUpdate (mroSpecs anc) own, c17_normalTy s.ty = true) :
    mroSpecs (anc ++ [⟨own, []⟩]) = specsUpdate (mroSpecs anc) own := by
  rw [mro_specs_snoc]
  have : ∀ l : List SpecM, (∀ s ∈ l, c17_normalTy s.ty = true) →
      l.map (fun s => { s with ty := substTy [] s.ty }) = l := by
    intro l
    induction l with
    | nil => intro _; rfl
    | cons a l ih =>
      intro h
      rw [List.map_cons, ih (fun s hs => h s (List.mem_cons_of_mem _ hs)),
        c17_subst_fresh [] a.ty (h a (List.mem_cons_self ..)) (c17_fresh_nil _)]
  exact this _ hn

/-! ## (C) field order = MRO order -/

/-- first occurrences, in order -/
def mro_dedup : List String → List String
  | [] => []
  | x :: xs => x :: (mro_dedup xs).filter (· != x)

/-- it is the model's `dedupS` -/
theorem mro_dedup_eq_dedupS : ∀ l : List String, mro_dedup l = dedupS l
  | [] => rfl
  | x :: xs => by simp only [mro_dedup, dedupS, mro_dedup_eq_dedupS xs]

theorem mro_mem_dedup (n : String) : ∀ l : List String, n ∈ mro_dedup l ↔ n ∈ l
  | [] => Iff.rfl
  | x :: xs => by
    simp only [mro_dedup, List.mem_cons, List.mem_filter, mro_mem_dedup n xs]
    by_cases h : n = x <;> simp [h]

theorem mro_dedup_contains (l : List String) (n : String) : (mro_dedup l).contains n = l.contains n := by
  rw [Bool.eq_iff_iff, List.contains_iff_mem, List.contains_iff_mem]
  exact mro_mem_dedup n l

theorem mro_dedup_nodup : ∀ l : List String, (mro_dedup l).Nodup
  | [] => List.nodup_nil
  | x :: xs => by
    rw [mro_dedup, List.nodup_cons]
    refine ⟨?_, (mro_dedup_nodup xs).filter _⟩
    simp [List.mem_filter]

theorem mro_dedup_of_nodup : ∀ l : List String, l.Nodup → mro_dedup l = l
  | [], _ => rfl
  | x :: xs, h => by
    rw [List.nodup_cons] at h
    rw [mro_dedup, mro_dedup_of_nodup xs h.2]
    congr 1
    rw [List.filter_eq_self]
    intro a ha
    have : a ≠ x := fun hax => h.1 (hax ▸ ha)
    simpa using this

theorem mro_dedup_append (l e : List String) :
    mro_dedup (l ++ e) = mro_dedup l ++ (mro_dedup e).filter (fun n => !l.contains n) := by
  induction l with
  | nil =>
    rw [List.nil_append]
    have : (mro_dedup e).filter (fun n => !([] : List String).contains n) = mro_dedup e :=
      List.filter_eq_self.2 (fun _ _ => rfl)
    rw [this]; rfl
  | cons x xs ih =>
    rw [List.cons_append, mro_dedup, ih, List.filter_append, List.filter_filter, mro_dedup, List.cons_append]
    congr 2
    apply List.filter_congr
    intro n _
    rw [List.contains_cons]
    cases h1 : (n == x) <;> cases h2 : xs.contains n <;> simp [bne, h1]

/-- `[a, b, a, c, b]` ↦ `[a, b, c]` -/
example : mro_dedup ["a", "b", "a", "c", "b"] = ["a", "b", "c"] := by decide

theorem mro_snoc_induction {α : Type} {P : List α → Prop} (nil : P [])
    (snoc : ∀ (l : List α) (a : α), P l → P (l ++ [a])) : ∀ l, P l := by
  intro l
  have : ∀ r : List α, P r.reverse := by
    intro r
    induction r with
    | nil => exact nil
    | cons a r ih => rw [List.reverse_cons]; exact snoc _ _ ih
  have h := this l.reverse
  rwa [List.reverse_reverse] at h

theorem mro_retype_names (f : SpecM → Ty) (l : List SpecM) :
    (l.map fun s => { s with ty := f s }).map (·.name) = l.map (·.name) := by
  rw [List.map_map]; rfl

/-- one `update` step on names: first occurrences of the concatenation -/
theorem mro_specsUpdate_names_dedup (old new : List SpecM) (L : List String)
    (hold : old.map (·.name) = mro_dedup L) (hnew : (new.map (·.name)).Nodup) :
    (specsUpdate old new).map (·.name) = mro_dedup (L ++ new.map (·.name)) := by
  rw [c17_specsUpdate_names, hold, mro_dedup_append, mro_dedup_of_nodup _ hnew]
  congr 1
  apply List.filter_congr
  intro n _
  rw [mro_dedup_contains]

/-- the names declared along the MRO, far end first, each body in declaration order -/
def mro_declared (anc : List MroEntry) : List String := anc.flatMap fun e => e.own.map (·.name)

theorem mro_declared_snoc (anc : List MroEntry) (e : MroEntry) :
    mro_declared (anc ++ [e]) = mro_declared anc ++ e.own.map (·.name) := by
  unfold mro_declared
  rw [List.flatMap_append, List.flatMap_cons, List.flatMap_nil, List.append_nil]

/-- **field order = MRO order**: the merged names are the first occurrences of the declared names, read
from the far end of the MRO to the nearest base -/
theorem mro_specs_names (anc : List MroEntry) (h : ∀ e ∈ anc, (e.own.map (·.name)).Nodup) :
    (mroSpecs anc).map (·.name) = mro_dedup (anc.flatMap fun e => e.own.map (·.name)) := by
  revert h
  refine mro_snoc_induction
    (P := fun anc => (∀ e ∈ anc, (e.own.map (·.name)).Nodup) →
      (mroSpecs anc).map (·.name) = mro_dedup (mro_declared anc)) ?_ ?_ anc
  · intro _; rfl
  · intro anc e ih h
    have ih' := ih (fun e' he' => h e' (List.mem_append_left _ he'))
    have he := h e (List.mem_append_right _ (List.mem_singleton_self e))
    rw [mro_specs_snoc, mro_retype_names, mro_declared_snoc]
    exact mro_specsUpdate_names_dedup _ _ _ ih' he

theorem mro_specs_nodup (anc : List MroEntry) (h : ∀ e ∈ anc, (e.own.map (·.name)).Nodup) :
    ((mroSpecs anc).map (·.name)).Nodup := by
  rw [mro_specs_names anc h]
  exact mro_dedup_nodup _

/-- a name is a merged field iff some class on the MRO declares it (no hypothesis needed) -/
theorem mro_specs_mem_names (anc : List MroEntry) (n : String) :
    n ∈ (mroSpecs anc).map (·.name) ↔ ∃ e ∈ anc, n ∈ e.own.map (·.name) := by
  refine mro_snoc_induction
    (P := fun anc => n ∈ (mroSpecs anc).map (·.name) ↔ ∃ e ∈ anc, n ∈ e.own.map (·.name)) ?_ ?_ anc
  · simp [mro_specs_nil]
  · intro anc e ih
    rw [mro_specs_snoc, mro_retype_names, c17_specsUpdate_names, List.mem_append, ih, List.mem_filter]
    constructor
    · rintro (⟨e', he', hn⟩ | ⟨hn, _⟩)
      · exact ⟨e', List.mem_append_left _ he', hn⟩
      · exact ⟨e, List.mem_append_right _ (List.mem_singleton_self e), hn⟩
    · rintro ⟨e', he', hn⟩
      rcases List.mem_append.1 he' with he' | he'
      · exact .inl ⟨e', he', hn⟩
      · rw [List.mem_singleton] at he'
        subst he'
        by_cases hold : ∃ e ∈ anc, n ∈ e.own.map (·.name)
        · exact .inl hold
        · refine .inr ⟨hn, ?_⟩
          have : ¬ n ∈ (mroSpecs anc).map (·.name) := fun hc => hold (ih.1 hc)
          simpa using this

/-- **the hypothesis of `mro_specs_names` is needed**: a "body" declaring the same name twice (not a
Python dict) keeps both -/
theorem mro_specs_names_needs_nodup :
    ∃ anc : List MroEntry, (mroSpecs anc).map (·.name) ≠ mro_dedup (anc.flatMap fun e => e.own.map (·.name)) :=
  ⟨[⟨[{ name := "a", ty := .any }, { name := "a", ty := .any }], []⟩], by decide⟩

/-! ## (D) which spec wins -/

/-- apply the bound-variable substitutions of the entries `es` (far to near) to a type -/
def mro_substAll (es : List MroEntry) (t : Ty) : Ty := es.foldl (fun t e => substTy e.bound t) t

theorem mro_substAll_nil (t : Ty) : mro_substAll [] t = t := rfl

theorem mro_substAll_cons (e : MroEntry) (es : List MroEntry) (t : Ty) :
    mro_substAll (e :: es) t = mro_substAll es (substTy e.bound t) := rfl

theorem mro_substAll_snoc (es : List MroEntry) (e : MroEntry) (t : Ty) :
    mro_substAll (es ++ [e]) t = substTy e.bound (mro_substAll es t) := by
  unfold mro_substAll
  rw [List.foldl_append]
  rfl

theorem mro_step_find (acc : List SpecM) (e : MroEntry) (n : String) :
    (mro_step acc e).find? (·.name == n) =
      ((specsUpdate acc e.own).find? (·.name == n)).map fun s => { s with ty := substTy e.bound s.ty } := by
  unfold mro_step
  rw [List.find?_map]
  rfl

/-- a field nobody redeclares later only has the later substitutions applied -/
theorem mro_from_find_some (n : String) : ∀ (post : List MroEntry) (acc : List SpecM) (s0 : SpecM),
    acc.find? (·.name == n) = some s0 → (∀ e' ∈ post, n ∉ e'.own.map (·.name)) →
    (mro_from acc post).find? (·.name == n) = some { s0 with ty := mro_substAll post s0.ty }
  | [], acc, s0, h, _ => by rw [mro_from_nil, h]; rfl
  | e' :: post, acc, s0, h, hno => by
    have h1 : (mro_step acc e').find? (·.name == n) = some { s0 with ty := substTy e'.bound s0.ty } := by
      rw [mro_step_find, c17_specsUpdate_find_old _ _ _ (hno e' (List.mem_cons_self ..)), h]
      rfl
    rw [mro_from_cons, mro_from_find_some n post _ _ h1 (fun e hE => hno e (List.mem_cons_of_mem _ hE))]
    rfl

theorem mro_from_find_none (n : String) : ∀ (post : List MroEntry) (acc : List SpecM),
    acc.find? (·.name == n) = none → (∀ e' ∈ post, n ∉ e'.own.map (·.name)) →
    (mro_from acc post).find? (·.name == n) = none
  | [], acc, h, _ => by rw [mro_from_nil, h]
  | e' :: post, acc, h, hno => by
    have h1 : (mro_step acc e').find? (·.name == n) = none := by
      rw [mro_step_find, c17_specsUpdate_find_old _ _ _ (hno e' (List.mem_cons_self ..)), h]
      rfl
    rw [mro_from_cons, mro_from_find_none n post _ h1 (fun e hE => hno e (List.mem_cons_of_mem _ hE))]

/-- **the nearest declaration wins**: the spec of `n` is the one declared by the last entry declaring `n`,
with the substitutions of that entry and of every later (nearer) entry applied to its type, in order.
(No distinctness hypothesis is needed: `find?` takes the first spec named `n` of the body.) -/
theorem mro_specs_find (anc pre post : List MroEntry) (e : MroEntry) (n : String) (s : SpecM)
    (hanc : anc = pre ++ [e] ++ post)
    (hs : e.own.find? (·.name == n) = some s)
    (hpost : ∀ e' ∈ post, n ∉ e'.own.map (·.name)) :
    (mroSpecs anc).find? (·.name == n) = some { s with ty := mro_substAll (e :: post) s.ty } := by
  subst hanc
  have hmem : n ∈ e.own.map (·.name) := by
    have h1 : s.name = n := by simpa using List.find?_some hs
    exact h1 ▸ List.mem_map_of_mem (List.mem_of_find?_eq_some hs)
  have h1 : (mroSpecs (pre ++ [e])).find? (·.name == n) = some { s with ty := substTy e.bound s.ty } := by
    rw [mro_specs_append, mro_from_cons, mro_from_nil, mro_step_find, c17_specsUpdate_find_new _ _ _ hmem, hs]
    rfl
  rw [mro_specs_append, mro_from_find_some n post _ _ h1 hpost]
  rfl

/-- a name no class on the MRO declares is not a field -/
theorem mro_specs_find_none (anc : List MroEntry) (n : String)
    (h : ∀ e ∈ anc, n ∉ e.own.map (·.name)) : (mroSpecs anc).find? (·.name == n) = none := by
  rw [mro_specs_eq_from]
  exact mro_from_find_none n anc [] rfl h

/-- in a body with pairwise distinct names, `find?` by name is membership -/
theorem mro_find_of_mem : ∀ (l : List SpecM) (s : SpecM), (l.map (·.name)).Nodup → s ∈ l →
    l.find? (·.name == s.name) = some s
  | [], _, _, h => by cases h
  | a :: l, s, hn, h => by
    rw [List.map_cons, List.nodup_cons] at hn
    rcases List.mem_cons.1 h with rfl | h
    · simp
    · have hne : a.name ≠ s.name := fun hc => hn.1 (hc ▸ List.mem_map_of_mem h)
      have : (a.name == s.name) = false := by simpa using hne
      rw [List.find?_cons, this]
      exact mro_find_of_mem l s hn.2 h

/-- (D) in membership form, under the distinctness hypothesis on the declaring body -/
theorem mro_specs_find_mem (anc pre post : List MroEntry) (e : MroEntry) (s : SpecM)
    (hanc : anc = pre ++ [e] ++ post)
    (hnd : (e.own.map (·.name)).Nodup) (hs : s ∈ e.own)
    (hpost : ∀ e' ∈ post, s.name ∉ e'.own.map (·.name)) :
    (mroSpecs anc).find? (·.name == s.name) = some { s with ty := mro_substAll (e :: post) s.ty } :=
  mro_specs_find anc pre post e s.name s hanc (mro_find_of_mem _ _ hnd hs) hpost

/-! ## (E) structure of a successful `processClassMro` -/

theorem mro_processClassMro_eq (d : ClassDeclM) (bo : Opts) (inh : List SpecM) (ia : List (String × Val))
    (ih : Option String) (pp : List String) :
    processClassMro d bo inh ia ih pp =
      match bo.apply d.opts (Facts.classHandlersInherit == some true) with
      | .error e => .error e
      | .ok opts =>
        let own := bodySpecs opts.kwOnly (fun n => ia.lookup n) d.body
        match (specsUpdate inh own).mapM (c17_mk opts) with
        | .error e => .error e
        | .ok fields0 =>
          let ordered := c17_order (fun p => p.1.kwOnly) (fields0.zip (specsUpdate inh own))
          let fields := ordered.map (·.1)
          match posBounds opts.inFormat fields 0 0 false with
          | .error e => .error e
          | .ok (mn, mx) =>
            .ok { name := d.name, opts := opts, specs := specsUpdate inh own, fields := fields
                  fieldTys := ordered.map (·.2.ty), fieldConv := ordered.map (·.2.converter)
                  minPos := mn, maxPos := mx
                  params := mergeParams Facts.paramMerge pp d.tvars
                  hook := match d.hook with | some h => some h | none => ih
                  attrs :=
                    let ownA := fields.filterMap fun f => match f.default with | .value v => some (f.name, v) | _ => none
                    ownA ++ ia.filter (fun a => !ownA.any (·.1 == a.1))
                  own := own } := rfl

/-- what a successful `processClassMro` computed (raw form, the analogue of `c17_processClass_ok`) -/
theorem mro_processClassMro_raw (d : ClassDeclM) (bo : Opts) (inh : List SpecM) (ia : List (String × Val))
    (ih : Option String) (pp : List String) (c : ClassM) (h : processClassMro d bo inh ia ih pp = .ok c) :
    bo.apply d.opts (Facts.classHandlersInherit == some true) = .ok c.opts ∧
    c.own = bodySpecs c.opts.kwOnly (fun n => ia.lookup n) d.body ∧
    c.specs = specsUpdate inh c.own ∧
    c.name = d.name ∧
    c.params = mergeParams Facts.paramMerge pp d.tvars ∧
    c.hook = (match d.hook with | some h => some h | none => ih) ∧
    c.attrs = (c.fields.filterMap fun f => match f.default with | .value v => some (f.name, v) | _ => none) ++
      ia.filter (fun a => !(c.fields.filterMap fun f =>
        match f.default with | .value v => some (f.name, v) | _ => none).any (·.1 == a.1)) ∧
    posBounds c.opts.inFormat c.fields 0 0 false = .ok (c.minPos, c.maxPos) ∧
    ∃ fields0, c.specs.mapM (c17_mk c.opts) = .ok fields0 ∧
      c.fields = (c17_order (fun p => p.1.kwOnly) (fields0.zip c.specs)).map (·.1) ∧
      c.fieldTys = (c17_order (fun p => p.1.kwOnly) (fields0.zip c.specs)).map (·.2.ty) ∧
      c.fieldConv = (c17_order (fun p => p.1.kwOnly) (fields0.zip c.specs)).map (·.2.converter) := by
  rw [mro_processClassMro_eq] at h
  cases ho : bo.apply d.opts (Facts.classHandlersInherit == some true) with
  | error e => rw [ho] at h; cases h
  | ok opts =>
    rw [ho] at h
    simp only [] at h
    cases hm : (specsUpdate inh (bodySpecs opts.kwOnly (fun n => ia.lookup n) d.body)).mapM (c17_mk opts) with
    | error e => rw [hm] at h; cases h
    | ok fields0 =>
      rw [hm] at h
      simp only [] at h
      cases hp : posBounds opts.inFormat
          ((c17_order (fun p => p.1.kwOnly)
            (fields0.zip (specsUpdate inh (bodySpecs opts.kwOnly (fun n => ia.lookup n) d.body)))).map (·.1))
          0 0 false with
      | error e => rw [hp] at h; cases h
      | ok mm =>
        obtain ⟨mn, mx⟩ := mm
        rw [hp] at h
        simp only [] at h
        cases h
        exact ⟨rfl, rfl, rfl, rfl, rfl, rfl, rfl, hp, fields0, hm, rfl, rfl, rfl⟩

/-- **structure of a successful `processClassMro`** — options, own specs, merged specs, and the field
order: positional fields first, keyword-only after, each group in merged-spec order -/
theorem mro_processClassMro_ok (d : ClassDeclM) (bo : Opts) (inh : List SpecM) (ia : List (String × Val))
    (ih : Option String) (pp : List String) (c : ClassM) (h : processClassMro d bo inh ia ih pp = .ok c) :
    bo.apply d.opts (Facts.classHandlersInherit == some true) = .ok c.opts ∧
    c.own = bodySpecs c.opts.kwOnly (fun n => ia.lookup n) d.body ∧
    c.specs = specsUpdate inh c.own ∧
    c.name = d.name ∧
    c17_All2 (fun s f => c17_mk c.opts s = .ok f) (c17_order (·.kwOnly) c.specs) c.fields ∧
    c.fieldTys = (c17_order (·.kwOnly) c.specs).map (·.ty) ∧
    posBounds c.opts.inFormat c.fields 0 0 false = .ok (c.minPos, c.maxPos) := by
  obtain ⟨h1, h2, h3, h4, _, _, _, hp, fields0, hm, hf, ht, _⟩ := mro_processClassMro_raw d bo inh ia ih pp c h
  have hall := c17_mapM_ok _ _ _ hm
  obtain ⟨k1, k2⟩ := c17_All2_order_zip (R := fun s f => c17_mk c.opts s = .ok f) (fun s : SpecM => s.kwOnly)
    (fun f : FieldInfo => f.kwOnly) (fun s f hsf => (c17_mk_ok c.opts s f hsf).2.1) hall
  refine ⟨h1, h2, h3, h4, ?_, ?_, hp⟩
  · rw [hf]; exact k2
  · rw [ht, ← k1, List.map_map]; rfl

/-- the remaining components: converters in field order, `__parameters__`, the hook and the class attributes -/
theorem mro_processClassMro_ok_extra (d : ClassDeclM) (bo : Opts) (inh : List SpecM) (ia : List (String × Val))
    (ih : Option String) (pp : List String) (c : ClassM) (h : processClassMro d bo inh ia ih pp = .ok c) :
    c.fieldConv = (c17_order (·.kwOnly) c.specs).map (·.converter) ∧
    c.params = mergeParams Facts.paramMerge pp d.tvars ∧
    c.hook = (match d.hook with | some h => some h | none => ih) ∧
    c.attrs = (c.fields.filterMap fun f => match f.default with | .value v => some (f.name, v) | _ => none) ++
      ia.filter (fun a => !(c.fields.filterMap fun f =>
        match f.default with | .value v => some (f.name, v) | _ => none).any (·.1 == a.1)) := by
  obtain ⟨_, _, _, _, h5, h6, h7, _, fields0, hm, _, _, hc⟩ := mro_processClassMro_raw d bo inh ia ih pp c h
  have hall := c17_mapM_ok _ _ _ hm
  obtain ⟨k1, _⟩ := c17_All2_order_zip (R := fun s f => c17_mk c.opts s = .ok f) (fun s : SpecM => s.kwOnly)
    (fun f : FieldInfo => f.kwOnly) (fun s f hsf => (c17_mk_ok c.opts s f hsf).2.1) hall
  refine ⟨?_, h5, h6, h7⟩
  rw [hc, ← k1, List.map_map]; rfl

/-- **the effective fields of a class with any number of bases**: when the inherited specs are those of
the MRO loop, the merged names are the first occurrences of the names declared along the MRO followed
by the class's own body, and the field names are those names, not-keyword-only first, keyword-only after -/
theorem mro_processClassMro_names (d : ClassDeclM) (bo : Opts) (anc : List MroEntry) (ia : List (String × Val))
    (ih : Option String) (pp : List String) (c : ClassM)
    (h : processClassMro d bo (mroSpecs anc) ia ih pp = .ok c)
    (hanc : ∀ e ∈ anc, (e.own.map (·.name)).Nodup) (hown : (c.own.map (·.name)).Nodup) :
    c.specs.map (·.name) = mro_dedup ((anc.flatMap fun e => e.own.map (·.name)) ++ c.own.map (·.name)) ∧
    (c.specs.map (·.name)).Nodup ∧
    c.fields.map (·.name) = (c17_order (·.kwOnly) c.specs).map (·.name) ∧
    c.fields.map (·.kwOnly) = (c17_order (·.kwOnly) c.specs).map (·.kwOnly) := by
  obtain ⟨_, _, h3, _, hall, _, _⟩ := mro_processClassMro_ok d bo _ ia ih pp c h
  have hn : c.specs.map (·.name) =
      mro_dedup ((anc.flatMap fun e => e.own.map (·.name)) ++ c.own.map (·.name)) := by
    rw [h3]
    exact mro_specsUpdate_names_dedup _ _ _ (mro_specs_names anc hanc) hown
  refine ⟨hn, ?_, ?_, ?_⟩
  · rw [hn]; exact mro_dedup_nodup _
  · exact c17_All2_map (fun s : SpecM => s.name) (fun f : FieldInfo => f.name)
      (fun s f hsf => (c17_mk_ok c.opts s f hsf).1) hall
  · exact c17_All2_map (fun s : SpecM => s.kwOnly) (fun f : FieldInfo => f.kwOnly)
      (fun s f hsf => (c17_mk_ok c.opts s f hsf).2.1) hall

/-! ## Examples: a generic diamond

```python
class Root(PaneBase, Generic[T]):  x: T; y: list[T]
class A(Root[int]):                y: list[str] = field(default_factory=list)
class B(Root[int]):                z: str = ""
class D(A, B):                     _: KW_ONLY; x: int; k: int
```
`D.__mro__ = (D, A, B, Root[int], Root, …)`, so the loop reads `Root, Root[int], B, A`. -/

def mro_Root : MroEntry :=
  ⟨[{ name := "x", ty := c17_T }, { name := "y", ty := c17_list c17_T }], []⟩
/-- the alias `Root[int]`: declares nothing, binds `T := int` -/
def mro_RootInt : MroEntry := ⟨[], c17_bInt⟩
def mro_specZ : SpecM := { name := "z", ty := c17_str, default := .value (.str "") }
def mro_B : MroEntry := ⟨[mro_specZ], []⟩
def mro_specY : SpecM := { name := "y", ty := c17_list c17_str, default := .factory "list", viaFieldSpec := true }
def mro_A : MroEntry := ⟨[mro_specY], []⟩
def mro_anc : List MroEntry := [mro_Root, mro_RootInt, mro_B, mro_A]

def mro_DDecl : ClassDeclM where
  name := "D"
  body := [.kwOnlyMarker, .field { name := "x", ty := c17_int }, .field { name := "k", ty := c17_int }]

def mro_D : ClassM := c17_get (processClassMro mro_DDecl {} (mroSpecs mro_anc) [("z", .str "")] none [])

theorem mro_DOk : processClassMro mro_DDecl {} (mroSpecs mro_anc) [("z", .str "")] none [] = .ok mro_D :=
  c17_get_ok _ (by decide)

-- (A): `Child(Base[int])` through the MRO form
example : processClassMro c17_ChildDecl c17_Base.opts (c17_inherited (some c17_Base) c17_bInt) c17_Base.attrs
    c17_Base.hook [] = .ok c17_Child :=
  (mro_processClass_eq c17_ChildDecl (some c17_Base) c17_bInt []).symm.trans c17_ChildOk

-- (B): the alias entry, and the loop one step at a time
example : mroSpecs [mro_Root, mro_RootInt] =
    (mroSpecs [mro_Root]).map fun s => { s with ty := substTy c17_bInt s.ty } :=
  mro_specs_alias [mro_Root] c17_bInt
example : (mroSpecs [mro_Root, mro_RootInt]).map (·.ty.head) = ["int", "list"] := by decide
example : mroSpecs mro_anc =
    (specsUpdate (mroSpecs [mro_Root, mro_RootInt, mro_B]) [mro_specY]).map fun s =>
      { s with ty := substTy [] s.ty } :=
  mro_specs_snoc [mro_Root, mro_RootInt, mro_B] mro_A
example : c17_inherited (some c17_Base) c17_bInt =
    mroSpecs ([⟨c17_Base.specs, []⟩] ++ [⟨[], c17_bInt⟩]) :=
  mro_inherited_alias c17_Base [⟨c17_Base.specs, []⟩] c17_bInt
    ((mro_specs_plain [] c17_Base.specs (by decide)).trans (mro_specsUpdate_nil_left _)).symm

-- (C): names in MRO order, `y` (redeclared by `A`) stays in `Root`'s position
example : (mroSpecs mro_anc).map (·.name) = ["x", "y", "z"] := by decide
example : (mroSpecs mro_anc).map (·.name) = mro_dedup ["x", "y", "z", "y"] :=
  mro_specs_names mro_anc (by decide)
example : ((mroSpecs mro_anc).map (·.name)).Nodup := mro_specs_nodup mro_anc (by decide)

-- (D): `y` comes from `A` (the nearest declaration); `x` from `Root` with `T := int` applied on the way
example : (mroSpecs mro_anc).find? (·.name == "y") =
    some { mro_specY with ty := mro_substAll [mro_A] mro_specY.ty } :=
  mro_specs_find mro_anc [mro_Root, mro_RootInt, mro_B] [] mro_A "y" mro_specY rfl rfl (by decide)
example : (mroSpecs mro_anc).find? (·.name == "x") =
    some { name := "x", ty := mro_substAll [mro_Root, mro_RootInt, mro_B, mro_A] c17_T } :=
  mro_specs_find mro_anc [] [mro_RootInt, mro_B, mro_A] mro_Root "x" { name := "x", ty := c17_T } rfl
    rfl (by decide)
example : (mro_substAll [mro_Root, mro_RootInt, mro_B, mro_A] c17_T).head = "int" := by decide
example : ((mroSpecs mro_anc).find? (·.name == "y")).map (fun s => (s.ty.head, s.viaFieldSpec)) =
    some ("list", true) := by decide
example : (mroSpecs mro_anc).find? (·.name == "w") = none :=
  mro_specs_find_none mro_anc "w" (by decide)

-- (E): `D(A, B)`: merged specs `x, y, z, k`; `x` (redeclared keyword-only, in place) and `k` go behind
example : mro_D.specs.map (·.name) = ["x", "y", "z", "k"] := by decide
example : mro_D.specs.map (·.name) = mro_dedup (["x", "y", "z", "y"] ++ ["x", "k"]) :=
  (mro_processClassMro_names mro_DDecl {} mro_anc _ none [] mro_D mro_DOk (by decide) (by decide)).1
example : mro_D.fields.map (·.name) = ["y", "z", "x", "k"] := by decide
example : mro_D.fields.map (·.kwOnly) = [false, false, true, true] := by decide
example : c17_All2 (fun s f => c17_mk mro_D.opts s = .ok f) (c17_order (·.kwOnly) mro_D.specs) mro_D.fields :=
  (mro_processClassMro_ok mro_DDecl {} _ _ none [] mro_D mro_DOk).2.2.2.2.1
example : (mro_D.minPos, mro_D.maxPos) = (0, 2) := by decide
example : mro_D.fieldTys.map Ty.head = ["list", "str", "int", "int"] := by decide

#print axioms mro_processClass_eq
#print axioms mro_specs_nil
#print axioms mro_specs_snoc
#print axioms mro_specs_alias
#print axioms mro_inherited_alias
#print axioms mro_specs_plain
#print axioms mro_dedup_eq_dedupS
#print axioms mro_specs_names
#print axioms mro_specs_nodup
#print axioms mro_specs_mem_names
#print axioms mro_specs_names_needs_nodup
#print axioms mro_specs_find
#print axioms mro_specs_find_none
#print axioms mro_specs_find_mem
#print axioms mro_processClassMro_ok
#print axioms mro_processClassMro_ok_extra
#print axioms mro_processClassMro_names
#print axioms mro_DOk

end PaneModel.PaneProofs
