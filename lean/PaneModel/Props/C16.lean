import PaneModel.Lemmas.OrderProofs
import PaneModel.Generated.Facts
/-!
# C16 — Dataclass value semantics: equality, order, hash, frozen, copy

Full statement (properties.jsonl): equality compares the class (ignoring generic parameters) and
the compare-fields pairwise; ordering uses the SAME class test (ignoring generic parameters) and is the lexicographic order of the compare-fields, consistent
with equality (for same-class instances with totally ordered fields exactly one of <, ==, > holds);
hashing follows the standard-library dataclass rule table for (eq, frozen, unsafe_hash, explicit
__hash__) and equal instances hash equal.  Frozen instances reject attribute assignment and
deletion; copy, deepcopy and replace yield equal instances with the same set-field record, replace
re-validating what it changes; repr lists the repr-fields in order.

The unbounded theorems about `__eq__`, `_pane_ord`, the four comparison methods, `__hash__` and
`__repr__` (for ANY field value type with its own `==`, `>` and `hash`) are in
`Lemmas/OrderProofs.lean` (`C16_eq_def`, `C16_eq_refl/symm/trans`, `C16_ord_same_class_only`,
`C16_lt_lex`, `C16_le_gt_ge_derived`, `C16_trichotomy`, `C16_trichotomy_swap`,
`C16_order_eq_consistent`, `C16_eq_hash`, `C16_repr`).  This file ties the hash rule table and the
accepted class options to the CURRENT source.  The mutable-state part (frozen / copy / replace) is
`Props/C16State.lean`.
-/
namespace PaneModel.Order

def actOfString : String → Option HashAct
  | "leave" => some .leave
  | "setNone" => some .setNone
  | "makeHash" => some .makeHash
  | "exception" => some .exception
  | _ => none

def tableOfFacts (rows : List ((Bool × Bool × Bool × Bool) × String)) : Option (List (HashKey × HashAct)) :=
  rows.mapM fun (k, s) => (actOfString s).map fun a => (k, a)

/-- pane's extracted `_hash_action` is the table the model uses … -/
theorem C16_facts_pane_table : tableOfFacts Facts.hashAction = some paneHashTable := by decide
/-- … and CPython's own table, read from the live `dataclasses` module, is the one transcribed in the model -/
theorem C16_facts_stdlib_table : tableOfFacts Facts.stdlibHashAction = some stdlibHashTable := by decide
/-- hence the extracted pane table equals the standard library's rule table, row by row (all 16) -/
theorem C16_hash_table_source : Facts.hashAction = Facts.stdlibHashAction := by decide

/-- every documented class option is accepted by `__init_subclass__` (D17: `unsafe_hash` was missing) -/
theorem C16_options_accepted :
    ∀ k ∈ ["name", "out_format", "in_format", "eq", "order", "frozen", "unsafe_hash", "kw_only", "rename",
           "in_rename", "out_rename", "allow_extra", "custom"],
      (Facts.initSubclassKw.getD []).contains k = true := by decide

/-! ## Ordering uses the same class test as equality (`_unsubscripted(self.__class__)`) -/

variable {α : Type}

/-- The ordering methods ignore the generic parameters: for two instances of the same UN-SUBSCRIPTED
class (`a.origin = b.origin`, whatever their exact classes `a.exact`, `b.exact`: `G[int](1)` vs
`G[Any](2)`), `_pane_ord` is an integer in `{-1, 0, 1}` and none of `<`, `<=`, `>`, `>=` is
`NotImplemented`: each is the corresponding sign test of that integer. -/
theorem C16_order_ignores_parameters (fs : List FieldFlags) (eqv gt : α → α → Bool) (a b : Inst α)
    (h : a.origin = b.origin) :
    ∃ o : Int, (o = -1 ∨ o = 0 ∨ o = 1) ∧
      paneOrd fs eqv gt a b = some o ∧
      lt fs eqv gt a b = some (decide (o < 0)) ∧
      le fs eqv gt a b = some (decide (o ≤ 0)) ∧
      gt' fs eqv gt a b = some (decide (o > 0)) ∧
      ge fs eqv gt a b = some (decide (o ≥ 0)) := by
  refine ⟨ordLoop eqv gt (zip3 fs a.vals b.vals), ordLoop_range eqv gt _, paneOrd_same fs eqv gt h, ?_, ?_, ?_, ?_⟩ <;>
    simp [lt, le, gt', ge, paneOrd_same fs eqv gt h]

/-- … and the exact class objects play no role at all in the result: replacing them by any others
leaves `_pane_ord` (hence all four comparisons) unchanged. -/
theorem C16_order_exact_irrelevant (fs : List FieldFlags) (eqv gt : α → α → Bool) (a b : Inst α)
    (e₁ e₂ : Nat) :
    paneOrd fs eqv gt { a with exact := e₁ } { b with exact := e₂ } = paneOrd fs eqv gt a b ∧
    lt fs eqv gt { a with exact := e₁ } { b with exact := e₂ } = lt fs eqv gt a b ∧
    le fs eqv gt { a with exact := e₁ } { b with exact := e₂ } = le fs eqv gt a b ∧
    gt' fs eqv gt { a with exact := e₁ } { b with exact := e₂ } = gt' fs eqv gt a b ∧
    ge fs eqv gt { a with exact := e₁ } { b with exact := e₂ } = ge fs eqv gt a b :=
  ⟨rfl, rfl, rfl, rfl, rfl⟩

/-- Consistency of `<=` / `>=` with `==`: equal instances are `<=` and `>=` each other.  Stated for
`a.origin = b.origin` (any exact classes); that hypothesis is in fact implied by
`instEq … a b = true` (`C16_eq_def`), see `C16_order_eq_consistent_le_ge'`.  (The `_pane_ord = 0 ↔ ==`
form is `C16_order_eq_consistent` in `Lemmas/OrderProofs.lean`.) -/
theorem C16_order_eq_consistent_le_ge (fs : List FieldFlags) (eqv gt : α → α → Bool) (a b : Inst α)
    (h : a.origin = b.origin) :
    instEq fs eqv a b = true → le fs eqv gt a b = some true ∧ ge fs eqv gt a b = some true := by
  intro he
  have h0 := (C16_order_eq_consistent fs eqv gt a b h).2 he
  simp [le, ge, h0]

/-- the same without the class hypothesis: `a == b` alone makes `a <= b` and `a >= b` `True`
(in particular not `NotImplemented`), and `a < b`, `a > b` `False` -/
theorem C16_order_eq_consistent_le_ge' (fs : List FieldFlags) (eqv gt : α → α → Bool) (a b : Inst α) :
    instEq fs eqv a b = true →
      le fs eqv gt a b = some true ∧ ge fs eqv gt a b = some true ∧
      lt fs eqv gt a b = some false ∧ gt' fs eqv gt a b = some false := by
  intro he
  have h : a.origin = b.origin := ((C16_eq_def fs eqv a b).1 he).1
  have h0 := (C16_order_eq_consistent fs eqv gt a b h).2 he
  simp [le, ge, lt, gt', h0]

namespace Examples

-- non-vacuity: `p123 : C`, `g123 : C[int]` (equal `origin`, different `exact`), `p124 : C`
example : p123.origin = g123.origin ∧ p123.exact ≠ g123.exact := by decide
example : g123.origin = p124.origin ∧ g123.exact ≠ p124.exact := by decide
example : lt fs ieq igt g123 p124 = some true ∧ le fs ieq igt g123 p124 = some true ∧
    gt' fs ieq igt g123 p124 = some false ∧ ge fs ieq igt g123 p124 = some false := by decide
example : ∃ o : Int, (o = -1 ∨ o = 0 ∨ o = 1) ∧ paneOrd fs ieq igt g123 p124 = some o ∧
    lt fs ieq igt g123 p124 = some (decide (o < 0)) ∧ le fs ieq igt g123 p124 = some (decide (o ≤ 0)) ∧
    gt' fs ieq igt g123 p124 = some (decide (o > 0)) ∧ ge fs ieq igt g123 p124 = some (decide (o ≥ 0)) :=
  C16_order_ignores_parameters fs ieq igt g123 p124 rfl
example : le fs ieq igt p123 g123 = some true ∧ ge fs ieq igt p123 g123 = some true :=
  C16_order_eq_consistent_le_ge fs ieq igt p123 g123 rfl (by decide)
-- trichotomy across `C[int]` / `C`
example : ExactlyOne (lt fs ieq igt g123 p124 = some true) (instEq fs ieq g123 p124 = true)
    (lt fs ieq igt p124 g123 = some true) :=
  C16_trichotomy_swap fs int_strictTotal g123 p124 rfl
-- unrelated classes stay `NotImplemented`
example : lt fs ieq igt p123 q123 = none ∧ ge fs ieq igt p123 q123 = none := by decide

end Examples

#print axioms C16_facts_pane_table
#print axioms C16_facts_stdlib_table
#print axioms C16_hash_table_source
#print axioms C16_options_accepted
#print axioms C16_hash_table
#print axioms C16_eq_def
#print axioms C16_eq_refl
#print axioms C16_eq_symm
#print axioms C16_eq_trans
#print axioms C16_ord_same_class_only
#print axioms C16_lt_lex
#print axioms C16_le_gt_ge_derived
#print axioms C16_trichotomy
#print axioms C16_trichotomy_swap
#print axioms C16_order_eq_consistent
#print axioms C16_notImplemented_iff
#print axioms C16_order_ignores_parameters
#print axioms C16_order_exact_irrelevant
#print axioms C16_order_eq_consistent_le_ge
#print axioms C16_order_eq_consistent_le_ge'
#print axioms C16_eq_hash
#print axioms C16_repr

end PaneModel.Order
