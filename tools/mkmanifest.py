#!/usr/bin/env python3
"""Regenerates MANIFEST.json from the table below (claimed checks + not_applicable)."""
import json, os, sys
VERIF = os.path.dirname(os.path.dirname(os.path.abspath(__file__)))
sys.path.insert(0, os.path.join(VERIF, 'tools'))
import props

LEVEL = {
 'C01': ("Machine-checked theorems (Lean 4): the fast pass equals a declarative `Denotes` relation on the core converter fragment (sound + complete + functional + exact result kind), the extracted scalar kind table equals the documented one (decide), spelling invariance of collection origins, build totality on the documented fragment; every rejected value gets a ConvertError (from C03/C04, all converters). Tie: facts regenerated from the source each run + differential correspondence (verdict and value) on generated (type, value) scenarios incl. dataclasses.", "8 C01"),
 'C02': ("Theorems: the extracted `allowed` table admits only the cells the statement allows (decide over the regenerated table), scalar strictness and lossless-widening-only, str/bytes never as a sequence (incl. dataclass positional layout, gate read from the source), mapping vs sequence, None only where allowed, strictness in every context (container element / key / value / slot / union member / struct field) by compositionality. Tie: exhaustive kind x target x context matrix run on the implementation and the model.", "8 C02"),
 'C03': ("Theorem C03_agree: for every well-formed converter tree (all 18 converter classes, unbounded nesting), every value and EVERY behaviour of user predicates/hooks/constructors, the fast pass fails iff the diagnostic pass yields a tree; no runtime-bug RuntimeError. Mutual structural induction, kernel-checked; guard facts re-decided from the except-clauses extracted from the current source. Tie: both passes called directly on the real converter on every generated scenario + model correspondence.", "8 C03"),
 'C04': ("Theorem C04_no_leak (same induction as C03): convert() returns or raises ConvertError for every converter tree, value and behaviour of externals, given per-site guard obligations that are re-decided (decide) against the extracted except-clauses on every run. Tie: from_data on generated + adversarial + matrix scenarios, escaping exception classes observed directly.", "8 C04"),
 'C05': ("Theorems: on the decidable fragment RTSafe (scalars, sequences, sets, tuples, dicts, conditions, unions under a per-value non-overlap condition, string-serialised scalars under ScalarRT, dataclass struct layout under naming side conditions) serialise;parse gives an eqv value and re-serialising gives the same data; output is interchange; negation witnesses proved for the known findings outside the fragment. PARTIAL: the full statement fails outside RTSafe (findings N1-N5).", "8 C05"),
 'C06': ("Theorems: untyped serialiser agrees with the typed one on the fragment; convert is a fixed point / idempotent up to eqv. PARTIAL as C05 (+ finding N6 Range).", "8 C06"),
 'C07': ("Theorems: product children = exactly the rejected positions/keys, each child = the element converter's own report, missing/extra exact, one sum child per member in order, tagged body only, leaves record the offending value; dict nodes under str-injectivity (finding N7 proved as negation). Tie: full tree correspondence + every node re-derived on the implementation by calling the element's own converter.", "8 C07"),
 'C08': ("Theorems about the renderer model (print_error with chain fusing and sum flattening, accepted as a terminating definition): reachable trees are well-formed (no dupKey under a sum), every leaf expectation / path key / missing / extra / duplicate / cause is mentioned, value shown (partial: sum nesting <= 2, finding D13 proved as negation). Tie: exact text of str(ConvertError) vs the model's segments.", "8 C08"),
 'C09': ("Theorem afterC_copy_id: in the state-passing model no pass changes its argument, for every converter tree and value at any depth, given the extracted fact that both tagged-union passes copy before pop (decide) and that the effect scan lists no other mutating call. PARTIAL: absence of other mutating statements rests on the syntactic scan + deep before/after snapshots in every scenario.", "8 C09"),
 'C10': ("Theorems over ALL valid histories (adversarial allocator, drop, gc) and ALL thread interleavings of the cache machine: cached run = cache-less reference run (C10_transparent), order independence, schedules, LRU refinement; negation proved for an id-only key. Key form and lookup-or-build step are facts extracted from the source. PARTIAL: GIL atomicity assumed. Tie: random histories replayed on the real interpreter with dynamically created, collected and re-created types (incl. dataclasses) and a long-lived handlers mapping that changes between calls; the looked-up converter must behave (parse, serialise a sample) like one freshly built.", "8 C10"),
 'C11': ("Theorems: union = firstOk (left-most accepting member), accept iff some member accepts, later members irrelevant, nesting = flattening, one diagnostic child per member, serialiser uses the left-most accepting member. Tie: each member run alone on the implementation and compared with the union.", "8 C11"),
 'C12': ("Theorems: dispatch by tag alone for the three layouts, body errors of the chosen variant only, bad/absent/unhashable tag is a ConvertError naming the tag (guards from extracted facts), duplicates refused at build, serialise/extract symmetry per layout. Tie: correspondence on tagged scenarios.", "8 C12"),
 'C13': ("Theorems: accept iff inner accepts and condition true on the converted value, raise = failure with cause, bundling, all/any/not with Python short-circuit order, stock conditions = arithmetic predicates from the extracted operators (decide), inclusive ranges, NaN, serialisation ignores conditions. Array conditions: shape() is tuple equality, broadcastable() is numpy's rule, and the pure-Python fallback as the source now reads equals it for all shapes (C13_fallback_source, rule read from the source). numpy.broadcast_shapes itself is the reference (bcast stream compares with it).", "8 C13"),
 'C14': ("Theorems about the construction model (constructor = per-field convert, defaults fresh via call counter, set-record exact on all three paths, unchecked verbatim, hook runs once); K6 finding as negation. Tie: constructor / from_data / make_unchecked correspondence over all subsets of supplied fields.", "8 C14"),
 'C15': ("Decision-table theorems for name resolution and layouts over the processed-class model; make_field rules extracted. Tie: class processing compared field by field with the live __pane_info__.", "8 C15"),
 'C16': ("Theorems for ANY field value type: eq definition / equivalence, lexicographic order, trichotomy, order-equality consistency, eq => equal hash, repr; the extracted 16-row hash rule table equals CPython's own (decide); documented class options accepted. Tie: cmp/hash/copy/replace/setattr on generated classes.", "8 C16"),
 'C17': ("Theorems about class processing: field order (positional first, keyword-only after, merged-spec order), override in place, type-variable substitution (unfolding, identity, composition, COMPLETENESS: no bound variable survives, also inside a subscripted dataclass used as a field type), parameter merge, option inheritance; for ANY number of bases via the MRO loop (C17_mro_names: names in MRO order at first occurrence; C17_mro_nearest: the nearest declaration wins with every later subscription applied), single inheritance as the special case. The C3 linearisation itself is an input. Tie: generated hierarchies (depth <= 4, generic re-parameterisation, nested generic field types, mixins, diamonds) vs live __pane_info__.", "8 C17, 13.1"),
 'C18': ("Theorems: precedence (field converter, call handlers, own class, enclosing classes, protocol/builtins, registered) from the extracted dispatch order and handler merge; reach at every depth; mapping-form exactness; defer on NotImplemented. Tie: tagging converters make the winning source readable on the implementation.", "8 C18"),
 'C19': ("Composition theorems: write then read = from_data of the normalised serialised form for every codec that round-trips representable data (whatever the formatting options do to the text); from_yaml_all = one conversion per document; ownership facts (path branch opens as UTF-8 and the with-block closes; caller's stream wrapped in nullcontext) decided over facts extracted from open_file. PARTIAL: json/PyYAML/TextIOWrapper/OS are hypotheses (CodecRT) validated by the run on every generated document and option vector. Tie: 10 sink/source kinds x options x caller-stream encodings on real files and streams; every file pane.io opens is observed (encoding, closed).", "8 C19, 13.1"),
 'C20': ("Theorems over unbounded snake names (abstract letters): canonical spelling per style, splitting recovers the words, reversible, idempotent, all style pairs, injective, refusal of unsplittable names, two-letter proviso is tight; the model's joiner IS the extracted _CONVERT_FNS table for every input (C20_model_is_source). PARTIAL: ASCII. Tie: rename/split correspondence incl. a malformed stream + canonical spelling / reversibility observed on the implementation.", "8 C20"),
}
TECH = "Lean 4 theorem (kernel-checked, re-decided against facts regenerated from the source) + differential correspondence model vs implementation"


def main(claimed, na_reasons):
    checks = []
    for pid in sorted(claimed):
        text, ref = LEVEL[pid]
        checks.append({
            'property_id': pid,
            'quick_cmd': f'./check {pid} --tier quick',
            'thorough_cmd': f'./check {pid} --tier thorough',
            'evidence_file': f'/verif/evidence/{pid}.json',
            'replay_cmd_template': f'./check {pid} --replay {{path}}',
            'engine': 'lean4-model+extract+corr',
            'level_claimed': {'category': 'proof', 'text': text, 'design_ref': 'DESIGN.md §' + ref},
            'level_note': 'Trusted: Lean kernel; axioms propext/Classical.choice/Quot.sound only (audited each run); tools/extract.py (translator); the correspondence harness and its generators (model = implementation only as far as sampled); CPython/stdlib behaviour modelled as parameters (Ext). ' + ' '.join(props.PROPS[pid].get('assumptions', [])),
            'technique': TECH,
        })
    m = {
        'version': 1,
        'setup_cmd': 'cd lean && lake build PaneModel 2>&1 | tail -5',
        'hooks': {'guard': 'PANE_VERIF', 'enable': 'no hooks: every observation point is public API (make_converter, Converter.try_convert/collect_errors, make_converter.cache, KeyCache._root)',
                  'baseline_off_cmd': 'cd /repo && /venv/bin/python -m pytest -ra -q -p no:cacheprovider --timeout=900 --continue-on-collection-errors',
                  'source_commits': [], 'add_only': True},
        'engines': [{'name': 'lean4-model+extract+corr', 'path': 'lean/ tools/', 'serves_properties': sorted(claimed),
                     'kind_free_text': 'hand-written Lean 4 model + theorems; translator regenerating facts from the source; differential correspondence harness'}],
        'checks': checks,
        'notes': 'See DESIGN.md. fix: commits in /repo repair 28 genuine defects (D1-D12, D14, D15, D17-D30; eleven of them found during the build, DESIGN.md 13.3) (known_findings.json, status=fixed); status=known entries are printed as KNOWN-FINDING.',
        'not_applicable': [{'property_id': p, 'reason': r} for p, r in sorted(na_reasons.items())],
    }
    json.dump(m, open(os.path.join(VERIF, 'MANIFEST.json'), 'w'), indent=1)
    print('claimed', sorted(claimed), 'not_applicable', sorted(na_reasons))


if __name__ == '__main__':
    claimed = sys.argv[1].split(',')
    na = {f'C{i:02d}': 'technique applies (model + theorems exist or are in progress); the registered check is not finished in this session yet' for i in range(1, 21) if f'C{i:02d}' not in claimed}
    main(claimed, na)
