import PaneModel.Lemmas.PaneProofs
import PaneModel.Lemmas.Union
/-!
# Helper lemmas for C14 (dataclass construction)
-/
namespace PaneModel.PaneProofs

open PaneModel

/-! ## `Signature.bind` -/

/-- the pairs bound positionally by `Cls(*args)` -/
def byPos (info : PaneInfo) (args : List Val) : List (String × Val) :=
  (((posFields info).map (·.1)).zip args).map fun (f, v) => (f.name, v)

/-- Python names of the init fields -/
def initNames (info : PaneInfo) : List String := (info.fields.filter (·.init)).map (·.name)

theorem bindSig_eq (info : PaneInfo) (args : List Val) (kwargs : List (String × Val)) :
    bindSig info args kwargs =
      if args.length > ((posFields info).map (·.1)).length then .error .tooManyPositional
      else match kwargs.find? (fun kv => !(initNames info).contains kv.1) with
        | some (k, _) => .error (.unexpectedKeyword k)
        | none => match kwargs.find? (fun kv => assocHas kv.1 (byPos info args)) with
          | some (k, _) => .error (.multipleValues k)
          | none =>
            match (info.fields.filter fun f =>
                f.init && !f.hasDefault && !assocHas f.name (byPos info args ++ kwargs)).head? with
            | some f => .error (.missing f.name)
            | none => .ok (byPos info args ++ kwargs) := by
  unfold bindSig
  simp only []
  split
  · rfl
  · rfl


theorem bindSig_ok_iff (info : PaneInfo) (args : List Val) (kwargs bound : List (String × Val)) :
    bindSig info args kwargs = .ok bound ↔
      args.length ≤ (posFields info).length ∧
      (∀ kv ∈ kwargs, ∃ f ∈ info.fields, f.init = true ∧ f.name = kv.1) ∧
      (∀ kv ∈ kwargs, assocHas kv.1 (byPos info args) = false) ∧
      (∀ f ∈ info.fields, f.init = true → f.hasDefault = false →
        assocHas f.name (byPos info args ++ kwargs) = true) ∧
      bound = byPos info args ++ kwargs := by
  rw [bindSig_eq]
  by_cases hlen : args.length > ((posFields info).map (·.1)).length
  · rw [if_pos hlen]
    constructor
    · intro h; cases h
    · rintro ⟨h, _⟩; simp at hlen; omega
  · rw [if_neg hlen]
    have hlen' : args.length ≤ (posFields info).length := by simpa using hlen
    have hinit : ∀ k, (initNames info).contains k = true ↔ ∃ f ∈ info.fields, f.init = true ∧ f.name = k := by
      intro k
      simp only [initNames, List.contains_iff_mem, List.mem_map, List.mem_filter]
      constructor
      · rintro ⟨f, ⟨h1, h2⟩, h3⟩; exact ⟨f, h1, h2, h3⟩
      · rintro ⟨f, h1, h2, h3⟩; exact ⟨f, ⟨h1, h2⟩, h3⟩
    cases hf1 : kwargs.find? (fun kv => !(initNames info).contains kv.1) with
    | some kv =>
      obtain ⟨k, v⟩ := kv
      simp only []
      constructor
      · intro h; cases h
      · rintro ⟨_, h, _⟩
        have hm := List.mem_of_find?_eq_some hf1
        have hp := List.find?_some hf1
        have := (hinit k).2 (h _ hm)
        simp only [this, Bool.not_true] at hp
        cases hp
    | none =>
      simp only []
      have h1 : ∀ kv ∈ kwargs, ∃ f ∈ info.fields, f.init = true ∧ f.name = kv.1 := by
        intro kv hkv
        have := List.find?_eq_none.1 hf1 kv hkv
        apply (hinit kv.1).1
        simpa using this
      cases hf2 : kwargs.find? (fun kv => assocHas kv.1 (byPos info args)) with
      | some kv =>
        obtain ⟨k, v⟩ := kv
        simp only []
        constructor
        · intro h; cases h
        · rintro ⟨_, _, h, _⟩
          have hm := List.mem_of_find?_eq_some hf2
          have hp := List.find?_some hf2
          rw [h _ hm] at hp; cases hp
      | none =>
        simp only []
        have h2 : ∀ kv ∈ kwargs, assocHas kv.1 (byPos info args) = false := by
          intro kv hkv
          have := List.find?_eq_none.1 hf2 kv hkv
          simpa using this
        cases hf3 : (info.fields.filter fun f =>
            f.init && !f.hasDefault && !assocHas f.name (byPos info args ++ kwargs)).head? with
        | some f =>
          simp only []
          constructor
          · intro h; cases h
          · rintro ⟨_, _, _, h, _⟩
            have hm := List.mem_of_mem_head? hf3
            obtain ⟨hm1, hm2⟩ := List.mem_filter.1 hm
            simp only [Bool.and_eq_true, Bool.not_eq_true'] at hm2
            rw [h f hm1 hm2.1.1 hm2.1.2] at hm2
            cases hm2.2
        | none =>
          simp only [Except.ok.injEq]
          have h3 : ∀ f ∈ info.fields, f.init = true → f.hasDefault = false →
              assocHas f.name (byPos info args ++ kwargs) = true := by
            intro f hf hi hd
            rw [List.head?_eq_none_iff] at hf3
            cases ha : assocHas f.name (byPos info args ++ kwargs) with
            | true => rfl
            | false =>
              have : f ∈ info.fields.filter fun f =>
                  f.init && !f.hasDefault && !assocHas f.name (byPos info args ++ kwargs) :=
                List.mem_filter.2 ⟨hf, by simp [hi, hd, ha]⟩
              rw [hf3] at this; cases this
          constructor
          · rintro rfl; exact ⟨hlen', h1, h2, h3, rfl⟩
          · rintro ⟨_, _, _, _, rfl⟩; rfl

/-- names bound positionally: the first `args.length` positional names -/
theorem byPos_names (info : PaneInfo) (args : List Val) :
    (byPos info args).map (·.1) = (posNames info).take args.length := by
  unfold byPos posNames
  rw [posFields_map_fst, List.map_map, ← List.map_take]
  exact zip_map_fst_take (fun p : FieldInfo => p.name) _ args

/-! ## The generated `__init__` -/

/-- `f` over a list in `Except`, stopping at the first error -/
def mapE {α β ε : Type} (f : α → Except ε β) : List α → Except ε (List β)
  | [] => .ok []
  | x :: xs =>
    match f x with
    | .ok y =>
      match mapE f xs with
      | .ok ys => .ok (y :: ys)
      | .error e => .error e
    | .error e => .error e

theorem mapE_ok_iff {α β ε : Type} {f : α → Except ε β} : ∀ {l : List α} {ys : List β},
    mapE f l = .ok ys ↔ ys.length = l.length ∧
      ∀ (i : Nat) (h1 : i < l.length) (h2 : i < ys.length), f l[i] = .ok ys[i]
  | [], ys => by cases ys <;> simp [mapE]
  | a :: l, ys => by
    simp only [mapE]
    cases hf : f a with
    | error e =>
      simp only [false_iff, reduceCtorEq]
      rintro ⟨hl, hall⟩
      cases ys with
      | nil => simp at hl
      | cons y ys =>
        have := hall 0 (by simp) (by simp)
        simp [hf] at this
    | ok y =>
      simp only
      cases hm : mapE f l with
      | error e =>
        simp only [false_iff, reduceCtorEq]
        rintro ⟨hl, hall⟩
        cases ys with
        | nil => simp at hl
        | cons y' ys =>
          have : mapE f l = .ok ys := by
            rw [mapE_ok_iff]
            refine ⟨by simpa using hl, ?_⟩
            intro i h1 h2
            exact hall (i + 1) (by simpa using h1) (by simpa using h2)
          rw [hm] at this; cases this
      | ok zs =>
        have ih := (mapE_ok_iff (f := f) (l := l) (ys := zs)).1 hm
        simp only [Except.ok.injEq]
        constructor
        · rintro rfl
          refine ⟨by simp [ih.1], ?_⟩
          intro i h1 h2
          cases i with
          | zero => exact hf
          | succ i => exact ih.2 i (by simpa using h1) (by simpa using h2)
        · rintro ⟨hl, hall⟩
          cases ys with
          | nil => simp at hl
          | cons y' ys =>
            have h0 := hall 0 (by simp) (by simp)
            simp only [List.getElem_cons_zero, hf, Except.ok.injEq] at h0
            subst h0
            have : mapE f l = .ok ys := by
              rw [mapE_ok_iff]
              refine ⟨by simpa using hl, ?_⟩
              intro i h1 h2
              exact hall (i + 1) (by simpa using h1) (by simpa using h2)
            rw [hm] at this; cases this; rfl

/-- the loop fails with the error of the FIRST failing element -/
theorem mapE_error_iff {α β ε : Type} {f : α → Except ε β} : ∀ {l : List α} {e : ε},
    mapE f l = .error e ↔
      ∃ (i : Nat) (h : i < l.length), f l[i] = .error e ∧
        ∀ (j : Nat) (hj : j < l.length), j < i → ∃ y, f l[j] = .ok y
  | [], e => by simp [mapE]
  | a :: l, e => by
    simp only [mapE]
    cases hf : f a with
    | error e' =>
      simp only [Except.error.injEq]
      constructor
      · rintro rfl; exact ⟨0, by simp, by simpa using hf, fun j _ hj => absurd hj (Nat.not_lt_zero _)⟩
      · rintro ⟨i, hi, h1, h2⟩
        cases i with
        | zero => simp only [List.getElem_cons_zero, hf, Except.error.injEq] at h1; exact h1
        | succ i =>
          obtain ⟨y, hy⟩ := h2 0 (by simp) (by omega)
          simp [hf] at hy
    | ok y =>
      simp only
      have ih := mapE_error_iff (f := f) (l := l) (e := e)
      cases hm : mapE f l with
      | ok zs =>
        rw [hm] at ih
        simp only [reduceCtorEq, false_iff] at ih ⊢
        rintro ⟨i, hi, h1, h2⟩
        cases i with
        | zero => simp [hf] at h1
        | succ i =>
          apply ih
          refine ⟨i, by simpa using hi, by simpa using h1, ?_⟩
          intro j hj hji
          exact h2 (j + 1) (by simpa using hj) (by omega)
      | error e' =>
        rw [hm] at ih
        simp only [Except.error.injEq] at ih ⊢
        constructor
        · intro h
          obtain ⟨i, hi, h1, h2⟩ := ih.1 h
          refine ⟨i + 1, by simpa using hi, by simpa using h1, ?_⟩
          intro j hj hji
          cases j with
          | zero => exact ⟨y, by simpa using hf⟩
          | succ j => exact h2 j (by simpa using hj) (by omega)
        · rintro ⟨i, hi, h1, h2⟩
          cases i with
          | zero => simp [hf] at h1
          | succ i =>
            apply ih.2
            refine ⟨i, by simpa using hi, by simpa using h1, ?_⟩
            intro j hj hji
            exact h2 (j + 1) (by simpa using hj) (by omega)

/-- what `__init__` stores for one init field `f` (index `i`): its Python name, the value — the
converted (or, unchecked, verbatim) argument if the field is bound, else its default — and whether it was
bound.  An argument whose conversion does not return a value ends `__init__` with that outcome. -/
def initVal (E : Ext) (called : Bool) (conv : Nat → Val → Result) (checked : Bool)
    (bound : List (String × Val)) (p : FieldInfo × Nat) : Except Result (String × Val × Bool) :=
  match bound.find? (·.1 == p.1.name) with
  | some (_, v) =>
    if checked then
      match conv p.2 v with
      | .value x => .ok (p.1.name, x, true)
      | r => .error r
    else .ok (p.1.name, v, true)
  | none =>
    match fieldDefault E called p.1 with
    | some d => .ok (p.1.name, d, false)
    | none => .error (.raises { cls := .runtimeBug, msg := "Mismatch between fields and signature" })

/-- stored attributes / set-record from the per-field results -/
def tripVals (trips : List (String × Val × Bool)) : List (String × Val) := trips.map fun t => (t.1, t.2.1)
def tripSet (trips : List (String × Val × Bool)) : List String := (trips.filter (·.2.2)).map (·.1)

theorem initLoop_eq (E : Ext) (called : Bool) (conv : Nat → Val → Result) (checked : Bool)
    (bound : List (String × Val)) : ∀ (l : List (FieldInfo × Nat)) (acc : List (String × Val)) (set : List String),
    initLoop E called conv checked l bound acc set =
      match mapE (initVal E called conv checked bound) (l.filter (·.1.init)) with
      | .error r => .error r
      | .ok trips => .ok (acc ++ tripVals trips, set ++ tripSet trips) := by
  intro l
  induction l with
  | nil => intro acc set; simp [initLoop, mapE, tripVals, tripSet]
  | cons p l ih =>
    intro acc set
    obtain ⟨f, i⟩ := p
    unfold initLoop
    cases hi : f.init with
    | false => simp only [Bool.not_false, if_true, List.filter_cons, hi, Bool.false_eq_true, if_false, ih]
    | true =>
      simp only [Bool.not_true, Bool.false_eq_true, if_false, List.filter_cons, hi, if_true, mapE, initVal]
      cases hb : bound.find? (·.1 == f.name) with
      | some kv =>
        obtain ⟨k, v⟩ := kv
        simp only
        cases checked with
        | true =>
          simp only [if_true]
          cases hc : conv i v with
          | value x =>
            simp only [ih]
            cases mapE (initVal E called conv true bound) (l.filter (·.1.init)) with
            | error r => rfl
            | ok trips => simp [tripVals, tripSet]
          | convertError t => rfl
          | raises e => rfl
        | false =>
          simp only [Bool.false_eq_true, if_false, ih]
          cases mapE (initVal E called conv false bound) (l.filter (·.1.init)) with
          | error r => rfl
          | ok trips => simp [tripVals, tripSet]
      | none =>
        simp only
        cases hd : fieldDefault E called f with
        | some d =>
          simp only [ih]
          cases mapE (initVal E called conv checked bound) (l.filter (·.1.init)) with
          | error r => rfl
          | ok trips => simp [tripVals, tripSet]
        | none => rfl

/-- the init fields with their index, in field order -/
def initFields (info : PaneInfo) : List (FieldInfo × Nat) := info.fields.zipIdx.filter (·.1.init)

theorem constructM_eq (E : Ext) (info : PaneInfo) (conv : Nat → Val → Result) (checked : Bool)
    (args : List Val) (kwargs : List (String × Val)) :
    constructM E info conv checked args kwargs =
      match bindSig info args kwargs with
      | .error _ => .raises { cls := .typeError, msg := "TypeError: bind" }
      | .ok bound =>
        match mapE (initVal E (Facts.initDefaultCalled == some true) conv checked bound) (initFields info) with
        | .error r => r
        | .ok trips =>
          match runHook E info (tripVals trips) (tripSet trips) with
          | .ok final => .value (mkObj info final (tripSet trips))
          | .error e => .raises e := by
  unfold constructM
  cases bindSig info args kwargs with
  | error e => rfl
  | ok bound =>
    simp only [initLoop_eq, initFields]
    cases mapE (initVal E (Facts.initDefaultCalled == some true) conv checked bound)
        (info.fields.zipIdx.filter (·.1.init)) with
    | error r => rfl
    | ok trips =>
      simp only [List.nil_append]
      cases runHook E info (tripVals trips) (tripSet trips) <;> rfl


theorem find?_isSome_assocHas (n : String) (l : List (String × Val)) :
    (l.find? (·.1 == n)).isSome = assocHas n l := by
  induction l with
  | nil => rfl
  | cons p l ih =>
    simp only [assocHas, List.any_cons] at ih ⊢
    rw [List.find?_cons]
    cases hp : p.1 == n with
    | true => simp
    | false => simpa using ih

theorem find?_none_assocHas {n : String} {l : List (String × Val)} :
    l.find? (·.1 == n) = none ↔ assocHas n l = false := by
  rw [← find?_isSome_assocHas]; cases l.find? (·.1 == n) <;> simp

/-- name and bound-flag of a per-field result -/
theorem initVal_ok {E : Ext} {called : Bool} {conv : Nat → Val → Result} {checked : Bool}
    {bound : List (String × Val)} {p : FieldInfo × Nat} {t : String × Val × Bool}
    (h : initVal E called conv checked bound p = .ok t) :
    t.1 = p.1.name ∧ t.2.2 = assocHas p.1.name bound ∧
    (∀ k v, bound.find? (·.1 == p.1.name) = some (k, v) →
      (checked = true → conv p.2 v = .value t.2.1) ∧ (checked = false → t.2.1 = v)) ∧
    (bound.find? (·.1 == p.1.name) = none → fieldDefault E called p.1 = some t.2.1) := by
  unfold initVal at h
  cases hb : bound.find? (·.1 == p.1.name) with
  | some kv =>
    obtain ⟨k, v⟩ := kv
    have ha : assocHas p.1.name bound = true := by rw [← find?_isSome_assocHas, hb]; rfl
    rw [hb] at h
    simp only at h
    cases checked with
    | true =>
      simp only [if_true] at h
      cases hc : conv p.2 v with
      | value x =>
        rw [hc] at h
        simp only [Except.ok.injEq] at h
        subst h
        refine ⟨rfl, ha.symm, ?_, (by intro h; cases h)⟩
        intro k' v' hkv
        cases hkv
        exact ⟨fun _ => hc, (by intro h; cases h)⟩
      | convertError t' => rw [hc] at h; cases h
      | raises e => rw [hc] at h; cases h
    | false =>
      simp only [Bool.false_eq_true, if_false, Except.ok.injEq] at h
      subst h
      refine ⟨rfl, ha.symm, ?_, (by intro h; cases h)⟩
      intro k' v' hkv
      cases hkv
      exact ⟨(by intro h; cases h), fun _ => rfl⟩
  | none =>
    have ha : assocHas p.1.name bound = false := find?_none_assocHas.1 hb
    rw [hb] at h
    simp only at h
    cases hd : fieldDefault E called p.1 with
    | some d =>
      rw [hd] at h
      simp only [Except.ok.injEq] at h
      subst h
      exact ⟨rfl, ha.symm, (by intro k v h; cases h), fun _ => rfl⟩
    | none => rw [hd] at h; cases h

theorem mapE_initVal_names {E : Ext} {called : Bool} {conv : Nat → Val → Result} {checked : Bool}
    {bound : List (String × Val)} : ∀ {l : List (FieldInfo × Nat)} {trips : List (String × Val × Bool)},
    mapE (initVal E called conv checked bound) l = .ok trips →
    trips.map (·.1) = l.map (·.1.name) ∧
    tripSet trips = (l.filter fun p => assocHas p.1.name bound).map (·.1.name) := by
  intro l
  induction l with
  | nil =>
    intro trips h
    simp only [mapE, Except.ok.injEq] at h
    subst h; exact ⟨rfl, rfl⟩
  | cons p l ih =>
    intro trips h
    simp only [mapE] at h
    cases hp : initVal E called conv checked bound p with
    | error r => rw [hp] at h; cases h
    | ok t =>
      rw [hp] at h
      simp only at h
      cases hm : mapE (initVal E called conv checked bound) l with
      | error r => rw [hm] at h; cases h
      | ok ts =>
        rw [hm] at h
        simp only [Except.ok.injEq] at h
        subst h
        obtain ⟨h1, h2⟩ := ih hm
        obtain ⟨g1, g2, -, -⟩ := initVal_ok hp
        refine ⟨by simp [h1, g1], ?_⟩
        simp only [tripSet, List.filter_cons, g2]
        cases assocHas p.1.name bound with
        | true => simp only [if_true, List.map_cons, g1]; rw [← h2]; rfl
        | false => simp only [Bool.false_eq_true, if_false]; exact h2

theorem initFields_map_fst (info : PaneInfo) : (initFields info).map (·.1) = info.fields.filter (·.init) :=
  zipIdx_filter_map_fst (fun f : FieldInfo => f.init) info.fields 0

theorem initFields_mem {info : PaneInfo} {p : FieldInfo × Nat} (hp : p ∈ initFields info) :
    p.1.init = true ∧ info.fields[p.2]? = some p.1 ∧ p.1 ∈ info.fields := by
  obtain ⟨h1, h2⟩ := List.mem_filter.1 hp
  have := List.mem_zipIdx_iff_getElem?.1 h1
  exact ⟨h2, this, List.mem_of_getElem? this⟩

/-- the names `__init__` records as set: the bound init fields, in field order -/
theorem tripSet_eq {E : Ext} {called : Bool} {conv : Nat → Val → Result} {checked : Bool}
    {bound : List (String × Val)} {info : PaneInfo} {trips : List (String × Val × Bool)}
    (h : mapE (initVal E called conv checked bound) (initFields info) = .ok trips) :
    tripSet trips = (info.fields.filter fun f => f.init && assocHas f.name bound).map (·.name) := by
  rw [(mapE_initVal_names h).2]
  have : ((initFields info).filter fun p => assocHas p.1.name bound).map (·.1.name) =
      ((((initFields info).map (·.1)).filter fun f => assocHas f.name bound)).map (·.name) := by
    rw [List.filter_map, List.map_map]; rfl
  rw [this, initFields_map_fst, List.filter_filter]
  congr 1
  apply List.filter_congr
  intro f _
  rw [Bool.and_comm]

theorem tripSet_sublist {E : Ext} {called : Bool} {conv : Nat → Val → Result} {checked : Bool}
    {bound : List (String × Val)} {info : PaneInfo} {trips : List (String × Val × Bool)}
    (h : mapE (initVal E called conv checked bound) (initFields info) = .ok trips) :
    (tripSet trips).Sublist (info.fields.map (·.name)) := by
  rw [tripSet_eq h]
  exact List.Sublist.map _ List.filter_sublist

/-! ## Attributes of the canonical instance -/

theorem find?_filterMap_fields (vals : List (String × Val)) (n : String) : ∀ (fields : List FieldInfo),
    (fields.filterMap fun f => (vals.find? (·.1 == f.name)).map fun p => (f.name, p.2)).find? (·.1 == n) =
      if fields.any (·.name == n) then (vals.find? (·.1 == n)).map fun p => (n, p.2) else none := by
  intro fields
  induction fields with
  | nil => rfl
  | cons f fs ih =>
    rw [List.filterMap_cons, List.any_cons]
    cases hfn : f.name == n with
    | true =>
      have heq : f.name = n := by simpa using hfn
      subst heq
      simp only [Bool.true_or, if_true]
      cases hv : vals.find? (·.1 == f.name) with
      | none =>
        simp only [Option.map_none]
        rw [ih, hv]
        simp
      | some p => simp
    | false =>
      simp only [Bool.false_or]
      cases hv : vals.find? (·.1 == f.name) with
      | none => simp only [Option.map_none]; exact ih
      | some p =>
        simp only [Option.map_some, List.find?_cons, hfn]
        exact ih

/-- an attribute of `mkObj info vals set` is the first entry of `vals` under that field name -/
theorem attrOf_mkObj (info : PaneInfo) (vals : List (String × Val)) (set : List String) {f : FieldInfo}
    (hf : f ∈ info.fields) :
    attrOf f.name (mkObj info vals set) = (vals.find? (·.1 == f.name)).map (·.2) := by
  rw [mkObj_eq]
  simp only [attrOf]
  rw [find?_filterMap_fields]
  have : info.fields.any (·.name == f.name) = true := List.any_eq_true.2 ⟨f, hf, by simp⟩
  rw [this]
  cases vals.find? (·.1 == f.name) <;> rfl

/-- in a list with pairwise distinct keys, looking up the key of an entry finds that entry -/
theorem find?_of_nodup_keys {α : Type} (key : α → String) : ∀ (l : List α) (i : Nat) (a : α),
    l[i]? = some a → (l.map key).Nodup → l.find? (fun b => key b == key a) = some a := by
  intro l
  induction l with
  | nil => intro i a h; simp at h
  | cons b l ih =>
    intro i a h hnd
    cases i with
    | zero =>
      simp only [List.getElem?_cons_zero, Option.some.injEq] at h
      subst h; simp
    | succ i =>
      simp only [List.map_cons, List.nodup_cons] at hnd
      simp only [List.getElem?_cons_succ] at h
      rw [List.find?_cons]
      have : (key b == key a) = false := by
        cases hk : key b == key a with
        | false => rfl
        | true =>
          have : key b = key a := by simpa using hk
          exact absurd (this ▸ List.mem_map_of_mem (List.mem_of_getElem? h)) hnd.1
      rw [this]
      exact ih i a h hnd.2

/-! ## Defaults -/

/-- what `fillDefaults` leaves: supplied entries are untouched, and (distinct field names) every
unsupplied init field got exactly its `fieldDefault` -/
theorem fillDefaults_spec (E : Ext) (called : Bool) : ∀ (fields : List FieldInfo) (vals all : List (String × Val)),
    fillDefaults E called fields vals = some all →
    (∀ n, assocHas n vals = true → all.find? (·.1 == n) = vals.find? (·.1 == n)) ∧
    (nodupNames (fields.map (·.name)) = true → ∀ f ∈ fields, f.init = true → assocHas f.name vals = false →
      ∃ d, fieldDefault E called f = some d ∧ all.find? (·.1 == f.name) = some (f.name, d)) ∧
    (∀ n, assocHas n all = true → assocHas n vals = true ∨ ∃ f ∈ fields, f.init = true ∧ f.name = n) := by
  intro fields
  induction fields with
  | nil =>
    intro vals all h
    simp only [fillDefaults, Option.some.injEq] at h
    subst h
    exact ⟨fun _ _ => rfl, (by intro _ f hf; cases hf), fun n h => Or.inl h⟩
  | cons f fs ih =>
    intro vals all h
    unfold fillDefaults at h
    split at h
    · rename_i hskip
      obtain ⟨h1, h2, h3⟩ := ih vals all h
      refine ⟨h1, ?_, ?_⟩
      · intro hnd g hg hgi hga
        simp only [List.map_cons, nodupNames, Bool.and_eq_true] at hnd
        rcases List.mem_cons.1 hg with rfl | hg
        · simp [hgi, hga] at hskip
        · exact h2 hnd.2 g hg hgi hga
      · intro n hn
        rcases h3 n hn with h | ⟨g, hg, hgi, hgn⟩
        · exact .inl h
        · exact .inr ⟨g, List.mem_cons_of_mem _ hg, hgi, hgn⟩
    · rename_i hskip
      have hskip' : f.init = true ∧ assocHas f.name vals = false := by
        cases hi : f.init <;> cases ha : assocHas f.name vals <;> simp [hi, ha] at hskip ⊢
      cases hd : fieldDefault E called f with
      | none => rw [hd] at h; cases h
      | some d =>
        rw [hd] at h
        simp only at h
        obtain ⟨h1, h2, h3⟩ := ih _ all h
        have hfind : ∀ n, assocHas n vals = true →
            (vals ++ [(f.name, d)]).find? (·.1 == n) = vals.find? (·.1 == n) := by
          intro n hn
          rw [List.find?_append]
          have : (vals.find? (·.1 == n)).isSome = true := by rw [find?_isSome_assocHas]; exact hn
          cases hv : vals.find? (·.1 == n) with
          | none => rw [hv] at this; cases this
          | some p => rfl
        refine ⟨?_, ?_, ?_⟩
        · intro n hn
          rw [h1 n (by rw [assocHas_append, hn]; rfl), hfind n hn]
        · intro hnd g hg hgi hga
          simp only [List.map_cons, nodupNames, Bool.and_eq_true, Bool.not_eq_true'] at hnd
          rcases List.mem_cons.1 hg with rfl | hg
          · refine ⟨d, hd, ?_⟩
            rw [h1 g.name (by rw [assocHas_append]; simp), List.find?_append,
              find?_none_assocHas.2 hga]
            simp
          · have hne : (f.name == g.name) = false := by
              cases hfg : f.name == g.name with
              | false => rfl
              | true =>
                have heq : f.name = g.name := by simpa using hfg
                have : (fs.map (·.name)).contains f.name = true := by
                  rw [List.contains_iff_mem, heq]; exact List.mem_map_of_mem hg
                rw [this] at hnd; cases hnd.1
            exact h2 hnd.2 g hg hgi (by rw [assocHas_append, hga, hne]; rfl)
        · intro n hn
          rcases h3 n hn with h | ⟨g, hg, hgi, hgn⟩
          · rw [assocHas_append] at h
            cases ha : assocHas n vals with
            | true => exact .inl rfl
            | false =>
              rw [ha, Bool.false_or] at h
              exact .inr ⟨f, List.mem_cons_self .., hskip'.1, by simpa using h⟩
          · exact .inr ⟨g, List.mem_cons_of_mem _ hg, hgi, hgn⟩


/-! ## The record of set fields, canonical -/

/-- every bound name is the Python name of an init field -/
theorem bound_names_init {info : PaneInfo} {args : List Val} {kwargs bound : List (String × Val)}
    (hb : bindSig info args kwargs = .ok bound) (n : String) (hn : assocHas n bound = true) :
    ∃ f ∈ info.fields, f.init = true ∧ f.name = n := by
  obtain ⟨-, hkw, -, -, rfl⟩ := (bindSig_ok_iff info args kwargs bound).1 hb
  rw [← contains_map_fst, List.map_append, List.contains_iff_mem, List.mem_append] at hn
  rcases hn with hn | hn
  · rw [byPos_names] at hn
    have hn' := List.mem_of_mem_take hn
    unfold posNames at hn'
    obtain ⟨f, hf, rfl⟩ := List.mem_map.1 hn'
    obtain ⟨hf1, hf2⟩ := List.mem_filter.1 hf
    simp only [isPos, Bool.and_eq_true] at hf2
    exact ⟨f, hf1, hf2.1, rfl⟩
  · obtain ⟨kv, hkv, rfl⟩ := List.mem_map.1 hn
    exact hkw kv hkv

/-- the record `__init__` accumulates, put in field order, is the canonical set of the bound names -/
theorem canonSet_tripSet {E : Ext} {called : Bool} {conv : Nat → Val → Result} {checked : Bool}
    {info : PaneInfo} {args : List Val} {kwargs bound : List (String × Val)}
    {trips : List (String × Val × Bool)}
    (hb : bindSig info args kwargs = .ok bound)
    (hm : mapE (initVal E called conv checked bound) (initFields info) = .ok trips) :
    canonSet info (tripSet trips) = canonSet info (bound.map (·.1)) := by
  apply canonSet_congr
  intro n
  rw [tripSet_eq hm, contains_map_fst, Bool.eq_iff_iff, List.contains_iff_mem, List.mem_map]
  constructor
  · rintro ⟨f, hf, rfl⟩
    have := (List.mem_filter.1 hf).2
    simp only [Bool.and_eq_true] at this
    exact this.2
  · intro hn
    obtain ⟨f, hf, hi, rfl⟩ := bound_names_init hb n hn
    exact ⟨f, List.mem_filter.2 ⟨hf, by simp [hi, hn]⟩, rfl⟩

/-! ## `constructM`, characterised -/

theorem constructM_value_iff (E : Ext) (info : PaneInfo) (conv : Nat → Val → Result) (checked : Bool)
    (args : List Val) (kwargs : List (String × Val)) (o : Val) :
    constructM E info conv checked args kwargs = .value o ↔
      ∃ bound trips final, bindSig info args kwargs = .ok bound ∧
        mapE (initVal E (Facts.initDefaultCalled == some true) conv checked bound) (initFields info) = .ok trips ∧
        runHook E info (tripVals trips) (tripSet trips) = .ok final ∧ o = mkObj info final (tripSet trips) := by
  rw [constructM_eq]
  cases hb : bindSig info args kwargs with
  | error e =>
    constructor
    · intro h; cases h
    · rintro ⟨_, _, _, h, _⟩; cases h
  | ok bound =>
    simp only
    cases hm : mapE (initVal E (Facts.initDefaultCalled == some true) conv checked bound) (initFields info) with
    | error r =>
      simp only
      constructor
      · intro h
        -- an error of the loop is never a value
        obtain ⟨i, hi, h1, -⟩ := mapE_error_iff.1 hm
        exfalso
        unfold initVal at h1
        split at h1
        · split at h1
          · split at h1
            · cases h1
            · rename_i hnv
              simp only [Except.error.injEq] at h1
              subst h1
              exact hnv _ h
          · cases h1
        · split at h1
          · cases h1
          · simp only [Except.error.injEq] at h1
            subst h1; cases h
      · rintro ⟨_, _, _, h, h', _⟩; cases h; rw [hm] at h'; cases h'
    | ok trips =>
      simp only
      cases hh : runHook E info (tripVals trips) (tripSet trips) with
      | error e =>
        constructor
        · intro h; cases h
        · rintro ⟨_, _, _, h, h', h'', _⟩
          cases h; rw [hm] at h'; cases h'; rw [hh] at h''; cases h''
      | ok final =>
        simp only [Result.value.injEq]
        constructor
        · rintro rfl; exact ⟨bound, trips, final, rfl, hm, hh, rfl⟩
        · rintro ⟨_, _, _, h, h', h'', rfl⟩
          cases h; rw [hm] at h'; cases h'; rw [hh] at h''; cases h''; rfl

/-- under a successful bind every init field has a per-field result unless a conversion fails -/
theorem initVal_isOk_of_bind {E : Ext} {called : Bool} {conv : Nat → Val → Result} {checked : Bool}
    {info : PaneInfo} {args : List Val} {kwargs bound : List (String × Val)}
    (hb : bindSig info args kwargs = .ok bound) {p : FieldInfo × Nat} (hp : p ∈ initFields info)
    (hconv : ∀ k v, bound.find? (·.1 == p.1.name) = some (k, v) → checked = true → ∃ x, conv p.2 v = .value x) :
    ∃ t, initVal E called conv checked bound p = .ok t := by
  obtain ⟨-, -, -, hreq, rfl⟩ := (bindSig_ok_iff info args kwargs bound).1 hb
  obtain ⟨hi, -, hmem⟩ := initFields_mem hp
  unfold initVal
  cases hf : (byPos info args ++ kwargs).find? (·.1 == p.1.name) with
  | some kv =>
    obtain ⟨k, v⟩ := kv
    simp only
    cases checked with
    | false => exact ⟨_, rfl⟩
    | true =>
      obtain ⟨x, hx⟩ := hconv k v hf rfl
      simp only [if_true, hx]
      exact ⟨_, rfl⟩
  | none =>
    simp only
    cases hd : fieldDefault E called p.1 with
    | some d => exact ⟨_, rfl⟩
    | none =>
      exfalso
      have h1 : p.1.hasDefault = false := by
        rw [← fieldDefault_isSome E called, hd]; rfl
      have := hreq p.1 hmem hi h1
      rw [find?_none_assocHas.1 hf] at this; cases this

theorem tripVals_find? (trips : List (String × Val × Bool)) (n : String) :
    (tripVals trips).find? (·.1 == n) = (trips.find? (·.1 == n)).map fun t => (t.1, t.2.1) := by
  unfold tripVals
  rw [List.find?_map]
  rfl

theorem initFields_names_nodup {info : PaneInfo} (hnd : nodupNames (info.fields.map (·.name)) = true) :
    ((initFields info).map (·.1.name)).Nodup := by
  have : (initFields info).map (·.1.name) = ((initFields info).map (·.1)).map (·.name) := by
    rw [List.map_map]; rfl
  rw [this, initFields_map_fst]
  exact ((nodupNames_iff _).1 hnd).sublist (List.Sublist.map _ List.filter_sublist)

/-- with pairwise distinct field names, the stored pair of the `i`-th init field is found under its name -/
theorem tripVals_lookup {E : Ext} {called : Bool} {conv : Nat → Val → Result} {checked : Bool}
    {bound : List (String × Val)} {info : PaneInfo} {trips : List (String × Val × Bool)}
    (hnd : nodupNames (info.fields.map (·.name)) = true)
    (h : mapE (initVal E called conv checked bound) (initFields info) = .ok trips)
    (i : Nat) (h1 : i < (initFields info).length) (h2 : i < trips.length) :
    (tripVals trips).find? (·.1 == (initFields info)[i].1.name) =
      some ((initFields info)[i].1.name, trips[i].2.1) := by
  obtain ⟨hl, hall⟩ := mapE_ok_iff.1 h
  obtain ⟨hn, -⟩ := mapE_initVal_names h
  have hname : trips[i].1 = (initFields info)[i].1.name := (initVal_ok (hall i h1 h2)).1
  rw [tripVals_find?, ← hname]
  have := find?_of_nodup_keys (fun t : String × Val × Bool => t.1) trips i trips[i]
    (List.getElem?_eq_getElem h2) (by rw [hn]; exact initFields_names_nodup hnd)
  rw [this]
  rfl

/-! ## `__post_init__` on every creation path -/

theorem runHook_raises {E : Ext} {info : PaneInfo} {h : String} (hh : info.hook = some h)
    (hr : ∀ vals set, ∃ e, E.hook h vals set = .error e) (vals : List (String × Val)) (set : List String) :
    ∃ e, runHook E info vals set = .error e := by
  unfold runHook; rw [hh]; exact hr vals _

theorem makeUncheckedKw_ok_iff (E : Ext) (info : PaneInfo) (vals : List (String × Val)) (o : Val) :
    makeUncheckedKw E info vals = .ok o ↔
      ∃ all final, fillDefaults E (Facts.initDefaultCalled == some true) info.fields vals = some all ∧
        runHook E info all (vals.map (·.1)) = .ok final ∧ o = mkObj info final (vals.map (·.1)) := by
  unfold makeUncheckedKw
  cases hfd : fillDefaults E (Facts.initDefaultCalled == some true) info.fields vals with
  | none => simp
  | some all =>
    simp only
    cases hh : runHook E info all (vals.map (·.1)) with
    | ok final =>
      simp only [Except.ok.injEq, Option.some.injEq]
      constructor
      · rintro rfl; exact ⟨all, final, rfl, hh, rfl⟩
      · rintro ⟨all', final', h1, h2, rfl⟩
        cases h1; rw [hh] at h2; cases h2; rfl
    | error e =>
      constructor
      · intro h; cases h
      · rintro ⟨all', final', h1, h2, _⟩
        cases h1; rw [hh] at h2; cases h2


/-! ## Constructor versus `from_data` on the same keyword mapping -/

/-- the hook depends on the stored attributes only through the by-name lookup (Python hooks read
`self.<name>`; the order in which the model lists the attributes is immaterial to them); the record of
set fields it is shown is the same on both sides -/
def HookByName (E : Ext) : Prop :=
  ∀ (h : String) (l l' : List (String × Val)) (s : List String),
    (∀ n, l.find? (·.1 == n) = l'.find? (·.1 == n)) → E.hook h l s = E.hook h l' s

/-- `convert(v, <type of field i>)` with the class's own field converters -/
def convOf (E : Ext) (cs : List Conv) (i : Nat) (v : Val) : Result :=
  match cs[i]? with
  | some c => convertC E c v
  | none => .raises { cls := .runtimeBug, msg := "IndexError" }

/-- keyword arguments as a mapping with `str` keys -/
def kwItems (kw : List (String × Val)) : List (Val × Val) := kw.map fun kv => (Val.str kv.1, kv.2)

theorem convOf_value_iff {E : Ext} (hG : GuardsCover = true) (hE : ExtOk E) {cs : List Conv}
    (hwf : wfList cs = true) {i : Nat} (hi : i < cs.length) (v y : Val) :
    convOf E cs i v = .value y ↔ applyAt (tryCs E cs) i v = .ok y := by
  have hc : cs[i]? = some cs[i] := List.getElem?_eq_getElem hi
  unfold convOf
  rw [hc, applyAt_tryCs_T hc]
  exact C03_convert_value_iff hG hE _ (wfList_mem hwf _ (List.getElem_mem hi)) v y

theorem mapE_ok_of_forall {α β ε : Type} {f : α → Except ε β} : ∀ {l : List α},
    (∀ a ∈ l, ∃ b, f a = .ok b) → ∃ ys, mapE f l = .ok ys
  | [], _ => ⟨[], rfl⟩
  | a :: l, h => by
    obtain ⟨b, hb⟩ := h a (List.mem_cons_self ..)
    obtain ⟨ys, hys⟩ := mapE_ok_of_forall (l := l) (fun a' ha' => h a' (List.mem_cons_of_mem _ ha'))
    exact ⟨b :: ys, by simp [mapE, hb, hys]⟩

theorem find?_filterMap_keyed (g : String × Val → Option (String × Val)) (n : String) :
    ∀ (l : List (String × Val)), (∀ a ∈ l, ∃ b, g a = some b ∧ b.1 = a.1) →
    (l.filterMap g).find? (·.1 == n) = (l.find? (·.1 == n)).bind g := by
  intro l
  induction l with
  | nil => intro _; rfl
  | cons a l ih =>
    intro h
    obtain ⟨b, hb, hba⟩ := h a (List.mem_cons_self ..)
    rw [List.filterMap_cons, hb, List.find?_cons, List.find?_cons, hba]
    cases a.1 == n with
    | true => simp [hb]
    | false => exact ih (fun a' ha' => h a' (List.mem_cons_of_mem _ ha'))

theorem filterMap_congr_mem {α β : Type} {f g : α → Option β} : ∀ {l : List α},
    (∀ a ∈ l, f a = g a) → l.filterMap f = l.filterMap g
  | [], _ => rfl
  | a :: l, h => by
    rw [List.filterMap_cons, List.filterMap_cons, h a (List.mem_cons_self ..),
      filterMap_congr_mem (l := l) (fun a' ha' => h a' (List.mem_cons_of_mem _ ha'))]

theorem mkObj_congr (info : PaneInfo) {l l' : List (String × Val)} {set set' : List String}
    (h1 : ∀ n, l.find? (·.1 == n) = l'.find? (·.1 == n)) (h2 : ∀ n, set.contains n = set'.contains n) :
    mkObj info l set = mkObj info l' set' := by
  rw [mkObj_eq, mkObj_eq]
  congr 1
  · apply filterMap_congr_mem
    intro f _
    rw [h1]
  · exact canonSet_congr info h2

section CtorEq
variable {E : Ext} {info : PaneInfo}

theorem fieldIndex_of_name (hu : NamesUnambiguous info.fields) {f : FieldInfo} {i : Nat}
    (hf : info.fields[i]? = some f) (hi : f.init = true) :
    fieldIndex info.fields (.str f.name) = some i := by
  obtain ⟨hlt, rfl⟩ := List.getElem?_eq_some_iff.1 hf
  exact (fieldIndex_unambiguous hu).2 ⟨hlt, hi, by simp [keysOf]⟩

theorem fieldIndex_name_inv (hu : NamesUnambiguous info.fields) {k : String} {i : Nat}
    (hk : ∃ f ∈ info.fields, f.init = true ∧ f.name = k) (h : fieldIndex info.fields (.str k) = some i) :
    ∃ f, info.fields[i]? = some f ∧ f.init = true ∧ f.name = k := by
  obtain ⟨f, hf, hi, rfl⟩ := hk
  obtain ⟨i0, hi0, rfl⟩ := List.getElem_of_mem hf
  have := fieldIndex_of_name hu (List.getElem?_eq_getElem hi0) hi
  rw [this] at h
  cases h
  exact ⟨_, List.getElem?_eq_getElem hi0, hi, rfl⟩

theorem namesField_of_name (hu : NamesUnambiguous info.fields) {k : String}
    (hk : ∃ f ∈ info.fields, f.init = true ∧ f.name = k) (n : String) :
    namesField info (.str k) n = (k == n) := by
  obtain ⟨f, hf, hi, rfl⟩ := hk
  obtain ⟨i0, hi0, rfl⟩ := List.getElem_of_mem hf
  unfold namesField
  rw [fieldIndex_of_name hu (List.getElem?_eq_getElem hi0) hi]
  simp only [List.getElem?_eq_getElem hi0]

theorem kwItems_any (hu : NamesUnambiguous info.fields) : ∀ (kw : List (String × Val)),
    (∀ kv ∈ kw, ∃ f ∈ info.fields, f.init = true ∧ f.name = kv.1) → ∀ n,
    (kwItems kw).any (fun p => namesField info p.1 n) = assocHas n kw := by
  intro kw
  induction kw with
  | nil => intro _ n; rfl
  | cons kv kw ih =>
    intro hk n
    simp only [kwItems, List.map_cons, List.any_cons, assocHas] at ih ⊢
    rw [namesField_of_name hu (hk kv (List.mem_cons_self ..))]
    rw [ih (fun kv' h' => hk kv' (List.mem_cons_of_mem _ h')) n]

/-- all required fields are given and every given value converts -/
def CtorOk (E : Ext) (info : PaneInfo) (cs : List Conv) (kw : List (String × Val)) : Prop :=
  (∀ f ∈ info.fields, f.init = true → f.hasDefault = false → assocHas f.name kw = true) ∧
  (∀ kv ∈ kw, ∀ i, fieldIndex info.fields (.str kv.1) = some i → ∃ y, applyAt (tryCs E cs) i kv.2 = .ok y)

variable {cs : List Conv} {kw : List (String × Val)}

theorem kw_find?_self (hdist : (kw.map (·.1)).Nodup) {kv : String × Val} (hkv : kv ∈ kw) :
    kw.find? (·.1 == kv.1) = some kv := by
  obtain ⟨i, hi, rfl⟩ := List.getElem_of_mem hkv
  exact find?_of_nodup_keys (fun a : String × Val => a.1) kw i _ (List.getElem?_eq_getElem hi) hdist

/-- mapping side: nothing offends and the defaults fill ⇔ `CtorOk` -/
theorem struct_side (hlen : (tryCs E cs).length = info.fields.length) (hnl : NoLeak (tryCs E cs))
    (hnd : nodupNames (info.fields.map (·.name)) = true)
    (hu : NamesUnambiguous info.fields)
    (hkeys : ∀ kv ∈ kw, ∃ f ∈ info.fields, f.init = true ∧ f.name = kv.1)
    (hdist : (kw.map (·.1)).Nodup) (called : Bool) :
    ((∀ a p b, kwItems kw = a ++ p :: b → ¬ Offends info (tryCs E cs) a p) ∧
      ∃ all, fillDefaults E called info.fields (structSpec info (tryCs E cs) (kwItems kw)) = some all) ↔
    CtorOk E info cs kw := by
  have hF3 : (∀ a p b, kwItems kw = a ++ p :: b → ¬ Offends info (tryCs E cs) a p) →
      ∀ n, assocHas n (structSpec info (tryCs E cs) (kwItems kw)) = assocHas n kw := by
    intro hno n
    rcases structLoop_verdict info (tryCs E cs) hlen hnl (kwItems kw) with ⟨-, a, p, b, h2, h3⟩ | ⟨-, -, h3⟩
    · exact absurd h3 (hno a p b h2)
    · rw [h3, kwItems_any hu kw hkeys]
  constructor
  · rintro ⟨hno, all, hfd⟩
    constructor
    · intro f hf hi hd
      cases ha : assocHas f.name kw with
      | true => rfl
      | false =>
        have := (fillDefaults_eq_none E called info.fields _ hnd).2 ⟨f, hf, hi, hd, by rw [hF3 hno, ha]⟩
        rw [this] at hfd; cases hfd
    · intro kv hkv i hfi
      obtain ⟨a', b', rfl⟩ := List.append_of_mem hkv
      have hsplit : kwItems (a' ++ kv :: b') = kwItems a' ++ (Val.str kv.1, kv.2) :: kwItems b' := by
        simp [kwItems]
      have hnot := hno _ _ _ hsplit
      have hlt := fieldIndex_lt hfi
      cases hx : applyAt (tryCs E cs) i kv.2 with
      | ok y => exact ⟨y, rfl⟩
      | interrupt =>
        exact absurd (.inr ⟨i, _, hfi, List.getElem?_eq_getElem hlt, .inr hx⟩) hnot
      | leak e => exact absurd hx (hnl i kv.2 e (by rw [hlen]; exact hlt))
  · rintro ⟨hreq, hconv⟩
    have hno : ∀ a p b, kwItems kw = a ++ p :: b → ¬ Offends info (tryCs E cs) a p := by
      intro a p b hsplit hoff
      unfold kwItems at hsplit
      obtain ⟨a', r, rfl, ha', hr⟩ := List.map_eq_append_iff.1 hsplit
      obtain ⟨kv, b', rfl, hp, -⟩ := List.map_eq_cons_iff.1 hr
      subst hp ha'
      have hkv : kv ∈ a' ++ kv :: b' := by simp
      rcases hoff with ⟨h1, -⟩ | ⟨i, f, hfi, hf, hor⟩
      · obtain ⟨f, hf, hi, hn⟩ := hkeys kv hkv
        obtain ⟨i0, hi0, rfl⟩ := List.getElem_of_mem hf
        have := fieldIndex_of_name hu (List.getElem?_eq_getElem hi0) hi
        rw [hn] at this
        simp only at h1
        rw [this] at h1; cases h1
      · simp only at hfi hor
        obtain ⟨f', hf', -, hn'⟩ := fieldIndex_name_inv hu (hkeys kv hkv) hfi
        rw [hf] at hf'; cases hf'
        rcases hor with hdup | hrej
        · have hk' : ∀ kv' ∈ a', ∃ f ∈ info.fields, f.init = true ∧ f.name = kv'.1 :=
            fun kv' h' => hkeys kv' (by simp [h'])
          have := kwItems_any hu a' hk' f.name
          unfold kwItems at this
          rw [this, hn'] at hdup
          simp only [assocHas, List.any_eq_true, beq_iff_eq] at hdup
          obtain ⟨kv', hkv', heq⟩ := hdup
          simp only [List.map_append, List.map_cons] at hdist
          have := (List.nodup_append.1 hdist).2.2 kv'.1 (List.mem_map_of_mem hkv') kv.1 (by simp)
          exact this heq
        · obtain ⟨y, hy⟩ := hconv kv hkv i hfi
          rw [hy] at hrej; cases hrej
    refine ⟨hno, ?_⟩
    cases hfd : fillDefaults E called info.fields (structSpec info (tryCs E cs) (kwItems kw)) with
    | some all => exact ⟨all, rfl⟩
    | none =>
      obtain ⟨f, hf, hi, hd, ha⟩ := (fillDefaults_eq_none E called info.fields _ hnd).1 hfd
      rw [hF3 hno, hreq f hf hi hd] at ha; cases ha

theorem byPos_nil (info : PaneInfo) : byPos info [] = [] := by simp [byPos]

/-- constructor side: the arguments bind and every per-field step succeeds ⇔ `CtorOk` -/
theorem ctor_side (hG : GuardsCover = true) (hE : ExtOk E) (hwf : wfList cs = true)
    (hcl : cs.length = info.fields.length)
    (hu : NamesUnambiguous info.fields)
    (hkeys : ∀ kv ∈ kw, ∃ f ∈ info.fields, f.init = true ∧ f.name = kv.1)
    (hdist : (kw.map (·.1)).Nodup) (called : Bool) :
    (bindSig info [] kw = .ok kw ∧
      ∃ trips, mapE (initVal E called (convOf E cs) true kw) (initFields info) = .ok trips) ↔
    CtorOk E info cs kw := by
  have hbind : bindSig info [] kw = .ok kw ↔
      (∀ f ∈ info.fields, f.init = true → f.hasDefault = false → assocHas f.name kw = true) := by
    rw [bindSig_ok_iff, byPos_nil]
    simp only [List.length_nil, Nat.zero_le, true_and, List.nil_append, and_true, assocHas, List.any_nil,
      implies_true]
    constructor
    · rintro ⟨-, h⟩; exact h
    · intro h; exact ⟨hkeys, h⟩
  constructor
  · rintro ⟨hb, trips, hm⟩
    refine ⟨hbind.1 hb, ?_⟩
    intro kv hkv i hfi
    obtain ⟨f, hf, hi, hn⟩ := fieldIndex_name_inv hu (hkeys kv hkv) hfi
    have hlt : i < info.fields.length := fieldIndex_lt hfi
    have hp : (f, i) ∈ initFields info := by
      unfold initFields
      rw [List.mem_filter]
      exact ⟨List.mem_zipIdx_iff_getElem?.2 hf, hi⟩
    obtain ⟨j, hj, hpj⟩ := List.getElem_of_mem hp
    obtain ⟨hl, hall⟩ := mapE_ok_iff.1 hm
    have hj2 : j < trips.length := by rw [hl]; exact hj
    have hiv := hall j hj hj2
    rw [hpj] at hiv
    have hfind : kw.find? (·.1 == f.name) = some kv := by rw [hn]; exact kw_find?_self hdist hkv
    obtain ⟨-, -, g3, -⟩ := initVal_ok hiv
    have := (g3 kv.1 kv.2 hfind).1 rfl
    exact ⟨_, (convOf_value_iff hG hE hwf (by rw [hcl]; exact hlt) _ _).1 this⟩
  · rintro ⟨hreq, hconv⟩
    have hb := hbind.2 hreq
    refine ⟨hb, ?_⟩
    apply mapE_ok_of_forall
    intro p hp
    apply initVal_isOk_of_bind hb hp
    intro k v hf _
    obtain ⟨hpi, hpf, -⟩ := initFields_mem hp
    have hmem := List.mem_of_find?_eq_some hf
    have hk : k = p.1.name := by
      have := List.find?_some hf
      simpa using this
    have hfi : fieldIndex info.fields (.str k) = some p.2 := by
      rw [hk]; exact fieldIndex_of_name hu hpf hpi
    obtain ⟨y, hy⟩ := hconv (k, v) hmem p.2 hfi
    have hlt : p.2 < info.fields.length := fieldIndex_lt hfi
    exact ⟨y, (convOf_value_iff hG hE hwf (by rw [hcl]; exact hlt) _ _).2 hy⟩


theorem structSpec_kw (fs : List (Val → Outcome Val)) (kw : List (String × Val)) :
    structSpec info fs (kwItems kw) = kw.filterMap fun kv =>
      match fieldIndex info.fields (.str kv.1) with
      | none => none
      | some i =>
        match info.fields[i]?, applyAt fs i kv.2 with
        | some f, .ok y => some (f.name, y)
        | _, _ => none := by
  unfold structSpec kwItems
  rw [List.filterMap_map]
  rfl

/-- both sides store the same attributes (as by-name lookups) and record the same set of names -/
theorem ctor_struct_same (hG : GuardsCover = true) (hE : ExtOk E) (hwf : wfList cs = true)
    (hcl : cs.length = info.fields.length)
    (hnd : nodupNames (info.fields.map (·.name)) = true)
    (hu : NamesUnambiguous info.fields)
    (hkeys : ∀ kv ∈ kw, ∃ f ∈ info.fields, f.init = true ∧ f.name = kv.1)
    (called : Bool)
    (hno : ∀ a p b, kwItems kw = a ++ p :: b → ¬ Offends info (tryCs E cs) a p)
    {trips : List (String × Val × Bool)} {all : List (String × Val)}
    (hm : mapE (initVal E called (convOf E cs) true kw) (initFields info) = .ok trips)
    (hfd : fillDefaults E called info.fields (structSpec info (tryCs E cs) (kwItems kw)) = some all) :
    (∀ n, (tripVals trips).find? (·.1 == n) = all.find? (·.1 == n)) ∧
    (∀ n, (tripSet trips).contains n = ((structSpec info (tryCs E cs) (kwItems kw)).map (·.1)).contains n) := by
  have hlen : (tryCs E cs).length = info.fields.length := by rw [tryCs_length]; exact hcl
  have hnl : NoLeak (tryCs E cs) := noLeak_of_good (C03.goods hG hE cs hwf)
  have hF3 : ∀ n, assocHas n (structSpec info (tryCs E cs) (kwItems kw)) = assocHas n kw := by
    intro n
    rcases structLoop_verdict info (tryCs E cs) hlen hnl (kwItems kw) with ⟨-, a, p, b, h2, h3⟩ | ⟨-, -, h3⟩
    · exact absurd h3 (hno a p b h2)
    · rw [h3, kwItems_any hu kw hkeys]
  obtain ⟨g1, g2, g3⟩ := fillDefaults_spec E called info.fields _ all hfd
  obtain ⟨hl, hall⟩ := mapE_ok_iff.1 hm
  obtain ⟨hnames, -⟩ := mapE_initVal_names hm
  have hkwname : ∀ n, assocHas n kw = true → ∃ f ∈ info.fields, f.init = true ∧ f.name = n := by
    intro n hn
    simp only [assocHas, List.any_eq_true, beq_iff_eq] at hn
    obtain ⟨kv, hkv, rfl⟩ := hn
    exact hkeys kv hkv
  constructor
  · intro n
    by_cases hex : ∃ f ∈ info.fields, f.init = true ∧ f.name = n
    · obtain ⟨f, hf, hi, rfl⟩ := hex
      obtain ⟨i0, hi0, rfl⟩ := List.getElem_of_mem hf
      have hget : info.fields[i0]? = some info.fields[i0] := List.getElem?_eq_getElem hi0
      have hp : (info.fields[i0], i0) ∈ initFields info := by
        unfold initFields
        rw [List.mem_filter]
        exact ⟨List.mem_zipIdx_iff_getElem?.2 hget, hi⟩
      obtain ⟨j, hj, hpj⟩ := List.getElem_of_mem hp
      have hj2 : j < trips.length := by rw [hl]; exact hj
      have hlook := tripVals_lookup hnd hm j hj hj2
      have hiv := hall j hj hj2
      rw [hpj] at hlook hiv
      simp only at hlook
      rw [hlook]
      obtain ⟨-, -, k3, k4⟩ := initVal_ok hiv
      simp only at k3 k4
      cases hfind : kw.find? (·.1 == info.fields[i0].name) with
      | some kv =>
        obtain ⟨k, x⟩ := kv
        have hkmem := List.mem_of_find?_eq_some hfind
        have hk : k = info.fields[i0].name := by
          have := List.find?_some hfind
          simpa using this
        subst hk
        have hconv := (k3 _ x hfind).1 trivial
        have hy := (convOf_value_iff hG hE hwf (by rw [hcl]; exact hi0) _ _).1 hconv
        have hassoc : assocHas info.fields[i0].name kw = true := by
          rw [← find?_isSome_assocHas, hfind]; rfl
        rw [g1 _ (by rw [hF3]; exact hassoc), structSpec_kw]
        have hfi : fieldIndex info.fields (.str info.fields[i0].name) = some i0 :=
          fieldIndex_of_name hu hget hi
        rw [find?_filterMap_keyed, hfind]
        · simp only [Option.bind_some, hfi, hget, hy]
        · intro kv' hkv'
          obtain ⟨f', hf', hi', hn'⟩ := hkeys kv' hkv'
          obtain ⟨i', hi'', rfl⟩ := List.getElem_of_mem hf'
          have hget' : info.fields[i']? = some info.fields[i'] := List.getElem?_eq_getElem hi''
          have hfi' : fieldIndex info.fields (.str kv'.1) = some i' := by
            rw [← hn']; exact fieldIndex_of_name hu hget' hi'
          cases hx : applyAt (tryCs E cs) i' kv'.2 with
          | ok y =>
            refine ⟨(info.fields[i'].name, y), ?_, hn'⟩
            simp only [hfi', hget', hx]
          | interrupt =>
            exfalso
            obtain ⟨a', b', hsplit⟩ := List.append_of_mem hkv'
            have : kwItems kw = kwItems a' ++ (Val.str kv'.1, kv'.2) :: kwItems b' := by
              rw [hsplit]; simp [kwItems]
            exact hno _ _ _ this (.inr ⟨i', _, hfi', hget', .inr hx⟩)
          | leak e => exact absurd hx (hnl i' kv'.2 e (by rw [hlen]; exact hi''))
      | none =>
        have hd := k4 hfind
        have hassoc : assocHas info.fields[i0].name kw = false := find?_none_assocHas.1 hfind
        obtain ⟨d, hd', hall'⟩ := g2 hnd _ hf hi (by rw [hF3]; exact hassoc)
        rw [hall']
        rw [hd] at hd'
        cases hd'; rfl
    · have h1 : (tripVals trips).find? (·.1 == n) = none := by
        rw [tripVals_find?]
        cases ht : trips.find? (·.1 == n) with
        | none => rfl
        | some t =>
          exfalso
          have hmem := List.mem_of_find?_eq_some ht
          have hn : t.1 = n := by simpa using List.find?_some ht
          have : n ∈ trips.map (·.1) := hn ▸ List.mem_map_of_mem hmem
          rw [hnames, List.mem_map] at this
          obtain ⟨p, hp, hpn⟩ := this
          obtain ⟨hpi, -, hpm⟩ := initFields_mem hp
          exact hex ⟨p.1, hpm, hpi, hpn⟩
      have h2 : all.find? (·.1 == n) = none := by
        rw [find?_none_assocHas]
        cases ha : assocHas n all with
        | false => rfl
        | true =>
          exfalso
          rcases g3 n ha with h | h
          · rw [hF3] at h; exact hex (hkwname n h)
          · exact hex h
      rw [h1, h2]
  · intro n
    rw [contains_map_fst, hF3, tripSet_eq hm]
    rw [Bool.eq_iff_iff]
    simp only [List.contains_iff_mem, List.mem_map, List.mem_filter, Bool.and_eq_true]
    constructor
    · rintro ⟨f, ⟨-, -, ha⟩, rfl⟩; exact ha
    · intro ha
      obtain ⟨f, hf, hi, rfl⟩ := hkwname n ha
      exact ⟨f, ⟨hf, hi, ha⟩, rfl⟩

/-- the hook sees the same attributes by name, so it does the same thing; the instances coincide -/
theorem runHook_congr (hhook : HookByName E) {l l' : List (String × Val)} {set set' : List String}
    (h1 : ∀ n, l.find? (·.1 == n) = l'.find? (·.1 == n)) (h2 : ∀ n, set.contains n = set'.contains n)
    {final : List (String × Val)} (h : runHook E info l set = .ok final) :
    ∃ final', runHook E info l' set' = .ok final' ∧ mkObj info final set = mkObj info final' set' := by
  unfold runHook at h ⊢
  cases hh : info.hook with
  | none =>
    rw [hh] at h
    simp only [Except.ok.injEq] at h
    subst h
    exact ⟨l', rfl, mkObj_congr info h1 h2⟩
  | some hk =>
    rw [hh] at h
    simp only at h ⊢
    rw [← canonSet_congr info h2, ← hhook hk l l' _ h1, h]
    exact ⟨final, rfl, mkObj_congr info (fun _ => rfl) h2⟩

/-- **Constructor = `from_data` on keyword data** (side conditions in the statement) -/
theorem ctor_eq_fromData (hG : GuardsCover = true) (hE : ExtOk E)
    (hF : Facts.structDefaultCalled = some true ∧ Facts.initDefaultCalled = some true)
    (hgate : Facts.paneTupleGateTry = some "data_is_sequence")
    (hwfp : (Conv.pane info cs).wf = true) (hfmt : info.inFormat.contains "struct" = true)
    (hu : NamesUnambiguous info.fields)
    (hkeys : ∀ kv ∈ kw, ∃ f ∈ info.fields, f.init = true ∧ f.name = kv.1)
    (hdist : (kw.map (·.1)).Nodup) (hhook : HookByName E) (o : Val) :
    constructM E info (convOf E cs) true [] kw = .value o ↔
      tryC E (.pane info cs) (.dict (kwItems kw)) = .ok o := by
  simp only [Conv.wf, Bool.and_eq_true, beq_iff_eq] at hwfp
  obtain ⟨⟨hwf, hcl⟩, hnd⟩ := hwfp
  have hlen : (tryCs E cs).length = info.fields.length := by rw [tryCs_length]; exact hcl
  have hnl : NoLeak (tryCs E cs) := noLeak_of_good (C03.goods hG hE cs hwf)
  have hs : (Facts.structDefaultCalled == some true) = true := by rw [hF.1]; rfl
  have hi : (Facts.initDefaultCalled == some true) = true := by rw [hF.2]; rfl
  have hgo : tryC E (.pane info cs) (.dict (kwItems kw)) =
      paneTryStruct E info (tryCs E cs) (.dict (kwItems kw)) := by
    simp only [tryC, hgate, paneSeqGate, Val.isSeq, Val.isMap, hfmt, Bool.false_eq_true, if_false, if_true,
      Bool.not_true]
  rw [hgo, constructM_value_iff, paneTryStruct_ok_iff E info _ hlen hnl, hs, hi]
  simp only [Val.mapItems]
  constructor
  · rintro ⟨bound, trips, final, hb, hm, hh, rfl⟩
    have hbk : bound = kw := by
      have := ((bindSig_ok_iff info [] kw bound).1 hb).2.2.2.2
      rw [byPos_nil] at this; simpa using this
    subst hbk
    have hok := (ctor_side hG hE hwf hcl hu hkeys hdist true).1 ⟨hb, trips, hm⟩
    obtain ⟨hno, all, hfd⟩ := (struct_side hlen hnl hnd hu hkeys hdist true).2 hok
    obtain ⟨e1, e2⟩ := ctor_struct_same hG hE hwf hcl hnd hu hkeys true hno hm hfd
    obtain ⟨final', hh', hobj⟩ := runHook_congr hhook e1 e2 hh
    exact ⟨hno, all, final', hfd, hh', hobj⟩
  · rintro ⟨hno, all, final, hfd, hh, rfl⟩
    have hok := (struct_side hlen hnl hnd hu hkeys hdist true).1 ⟨hno, all, hfd⟩
    obtain ⟨hb, trips, hm⟩ := (ctor_side hG hE hwf hcl hu hkeys hdist true).2 hok
    obtain ⟨e1, e2⟩ := ctor_struct_same hG hE hwf hcl hnd hu hkeys true hno hm hfd
    obtain ⟨final', hh', hobj⟩ := runHook_congr hhook (fun n => (e1 n).symm) (fun n => (e2 n).symm) hh
    exact ⟨kw, trips, final', hb, hm, hh', hobj⟩

end CtorEq

end PaneModel.PaneProofs
