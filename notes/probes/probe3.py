import typing as t, re, io, math
import pane
from pane import from_data, convert, into_data, ConvertError
from pane.convert import make_converter
from pane.annotations import Tagged, Condition, val_range, len_range
from pane.field import rename_field, _split_field_name

def tryit(label, f):
    try:
        r = f()
        print(f"{label}: OK -> {r!r} ({type(r).__name__})")
    except BaseException as e:
        print(f"{label}: RAISES {type(e).__name__}: {str(e)[:300]!r}")

# C20 rename
for name in ['ab_cd', 'a_b', 'ab', 'abc_de_fgh', 'a', 'ab_c']:
    for st in ['snake','scream','kebab','camel','pascal']:
        try:
            r = rename_field(name, st)
            back = rename_field(r, 'snake')
            again = rename_field(r, st)
            flag = '' if (back == name and again == r) else '  <-- MISMATCH'
            print(name, st, r, back, again, flag)
        except Exception as e:
            print(name, st, 'RAISES', e)
for bad in ['_ab', 'ab_', 'a__b', '', '-a']:
    tryit(f"rename {bad!r}", lambda: rename_field(bad, 'camel'))
# C13
tryit("val_range() empty", lambda: from_data(5, t.Annotated[int, val_range()]))
tryit("raising cond", lambda: from_data(5, t.Annotated[int, Condition(lambda v: 1/0, 'boom')]))
tryit("not", lambda: from_data(5, t.Annotated[int, ~pane.Positive]))
tryit("or", lambda: from_data(0, t.Annotated[int, pane.Positive | pane.Negative]))
tryit("Finite inf", lambda: from_data(math.inf, t.Annotated[float, pane.annotations.Finite]))
tryit("Finite str->?", lambda: from_data([1], t.Annotated[t.List[int], pane.annotations.Finite]))
tryit("two conds", lambda: from_data(5, t.Annotated[int, pane.Positive, val_range(max=4)]))
tryit("into_data cond", lambda: into_data(-5, t.Annotated[int, pane.Positive]))
# C03 / C04 dict unhashable keys
tryit("Dict[tuple] key list", lambda: from_data({'a': 1}, t.Dict[t.List[str], int]))
tryit("Set[List[int]]", lambda: from_data([[1]], t.Set[t.List[int]]))
tryit("Counter neg", lambda: from_data({'a': 's'}, t.Counter[str]))
tryit("Dict dup keys after conv", lambda: from_data({1: 'a', 1.0: 'b'}, t.Dict[float, str]))
tryit("Literal unhashable", lambda: from_data([1], t.Literal['a']))
tryit("struct non-str key", lambda: from_data({1: 2}, {'a': int}))
tryit("struct unhashable?", lambda: from_data({(1,): 2}, {'a': int}))
tryit("int huge float", lambda: from_data(10**400, float))
tryit("float<-huge int in list", lambda: from_data([10**400], t.List[float]))
tryit("complex<-huge", lambda: from_data(10**400, complex))
tryit("Decimal<-'x'", lambda: from_data('x', __import__('decimal').Decimal))
tryit("date<-'x'", lambda: from_data('x', __import__('datetime').date))
tryit("date<-5", lambda: from_data(5, __import__('datetime').date))
tryit("Path<-5", lambda: from_data(5, __import__('pathlib').PurePath))
tryit("Path<-'a\\0'", lambda: from_data('a\0', __import__('pathlib').Path))
# DictConverter collect_errors returns None implicitly - fine
# pane with raising post_init
class PI(pane.PaneBase, in_format=('tuple','struct')):
    a: int = 0
    def __post_init__(self):
        if self.a < 0: raise ValueError("neg")
tryit("PI struct", lambda: from_data({'a': -1}, PI))
tryit("PI tuple", lambda: from_data([-1], PI))
tryit("PI ctor", lambda: PI(-1))
# non-str key in pane struct
class S(pane.PaneBase):
    a: int = 0
tryit("S {1:2}", lambda: from_data({1: 2}, S))
tryit("S {[..]}", lambda: from_data({(1,2): 2}, S))
# C09 mutation: tagged
class V1(pane.PaneBase):
    tag: t.Literal['a'] = 'a'
    x: int = 0
TU = t.Annotated[t.Union[V1], Tagged('tag')]
tryit("Tagged single-member union", lambda: make_converter(TU))
# C08 str of errors
for ty, v in [
    ({'a': {'b': {'c': int}}}, {'a': {'b': {'c': 's'}}}),
    ({'a': {'b': {'c': int}}}, {'a': {'b': {'d': 's'}}}),
    (t.Union[int, t.Union[str, t.List[int]]], 5.0),
    (t.List[t.Union[int, t.Dict[str, int]]], [1, {'a': 's'}]),
    (t.Union[t.Dict[str,int], t.List[int]], {'a': 's'}),
]:
    try:
        from_data(v, ty)
    except ConvertError as e:
        print('----'); print(str(e))
