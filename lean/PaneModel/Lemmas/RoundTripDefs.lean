import PaneModel.Model.IntoData
/-!
# Round trip (C05 / C06): definitions

* `Val.eqv`      — equality of typed values up to the order of `set` / `frozenset` payloads;
* `Val.eqvData`  — equality of interchange data up to the order of lists (used for re-serialised sets);
* `Val.isData`   — interchange values that a Python program can actually build: `isInterchange` plus
                   every dict has hashable, pairwise distinct keys;
* `Val.depth`    — nesting depth (the fuel `intoDynF` needs);
* `RTSafe`       — the static, decidable fragment of converters for which the round trip is proved;
* `RTOk`         — the per-value side condition (only unions contribute something non-trivial);
* `HasType`, `DynId`, `ScalarRT` — hypotheses of the theorems.
-/
namespace PaneModel

namespace Val

/-! ## Equality up to set order -/

mutual
/-- equality up to the order of `set` / `frozenset` payloads; structural everywhere else -/
def eqv : Val → Val → Bool
  | .none, .none => true
  | .bool a, .bool b => a == b
  | .int a, .int b => a == b
  | .float a, .float b => a == b
  | .complex a b, .complex c d => a == c && b == d
  | .str a, .str b => a == b
  | .bytes a, .bytes b => a == b
  | .bytearray a, .bytearray b => a == b
  | .list a, .list b => eqvList a b
  | .tuple a, .tuple b => eqvList a b
  | .dict a, .dict b => eqvPairs a b
  | .set a, .set b => a.length == b.length && eqvSub a b
  | .frozenset a, .frozenset b => a.length == b.length && eqvSub a b
  | .deque a, .deque b => eqvList a b
  | .mapOf k a, .mapOf k' b => k == k' && eqvPairs a b
  | .opaque t r, .opaque t' r' => t == t' && r == r'
  | .enumMem e i, .enumMem e' i' => e == e' && i == i'
  | .sub c a, .sub c' b => c == c' && eqv a b
  | .obj c fs s, .obj c' fs' s' => c == c' && eqvFields fs fs' && s == s'
  | .wrap t a, .wrap t' b => t == t' && eqv a b
  | _, _ => false
def eqvList : List Val → List Val → Bool
  | [], [] => true
  | a :: as, b :: bs => eqv a b && eqvList as bs
  | _, _ => false
/-- every element of the first list has an `eqv` partner in the second (with equal lengths and
duplicate-free payloads, as sets have, this is "same elements in some order") -/
def eqvSub : List Val → List Val → Bool
  | [], _ => true
  | a :: as, bs => bs.any (eqv a) && eqvSub as bs
def eqvPairs : List (Val × Val) → List (Val × Val) → Bool
  | [], [] => true
  | (a, b) :: as, (c, d) :: bs => eqv a c && eqv b d && eqvPairs as bs
  | _, _ => false
def eqvFields : List (String × Val) → List (String × Val) → Bool
  | [], [] => true
  | (a, b) :: as, (c, d) :: bs => a == c && eqv b d && eqvFields as bs
  | _, _ => false
end

mutual
/-- equality of serialised data up to the order of lists (a serialised set is a list whose order is
the set's iteration order); structural on everything else -/
def eqvData : Val → Val → Bool
  | .none, .none => true
  | .bool a, .bool b => a == b
  | .int a, .int b => a == b
  | .float a, .float b => a == b
  | .complex a b, .complex c d => a == c && b == d
  | .str a, .str b => a == b
  | .bytes a, .bytes b => a == b
  | .bytearray a, .bytearray b => a == b
  | .list a, .list b => a.length == b.length && eqvDataSub a b
  | .tuple a, .tuple b => eqvDataList a b
  | .dict a, .dict b => eqvDataPairs a b
  | _, _ => false
def eqvDataList : List Val → List Val → Bool
  | [], [] => true
  | a :: as, b :: bs => eqvData a b && eqvDataList as bs
  | _, _ => false
def eqvDataSub : List Val → List Val → Bool
  | [], _ => true
  | a :: as, bs => bs.any (eqvData a) && eqvDataSub as bs
def eqvDataPairs : List (Val × Val) → List (Val × Val) → Bool
  | [], [] => true
  | (a, b) :: as, (c, d) :: bs => eqvData a c && eqvData b d && eqvDataPairs as bs
  | _, _ => false
end

/-! ## Constructible interchange data -/

/-- keys of a Python dict in insertion order: a later key is never `==` an earlier one -/
def keysDistinct : List Val → Bool
  | [] => true
  | k :: ks => ks.all (fun y => !pyEq y k) && keysDistinct ks

/-- payload of a Python set in iteration order: an earlier element is never `==` a later one -/
def itemsDistinct : List Val → Bool
  | [] => true
  | x :: xs => xs.all (fun y => !pyEq x y) && itemsDistinct xs

mutual
/-- Interchange data a Python program can build: scalars, lists, tuples, and dicts whose keys are
hashable and pairwise distinct. (`isInterchange` alone also admits `{[]: 0}` and `{1: 0, 1: 0}`.) -/
def isData : Val → Bool
  | .none | .bool _ | .int _ | .float _ | .complex _ _ | .str _ | .bytes _ | .bytearray _ => true
  | .list xs | .tuple xs => allData xs
  | .dict kvs => allDataKV kvs && (kvs.map (·.1)).all hashable && keysDistinct (kvs.map (·.1))
  | _ => false
def allData : List Val → Bool
  | [] => true
  | x :: xs => isData x && allData xs
def allDataKV : List (Val × Val) → Bool
  | [] => true
  | (k, v) :: r => isData k && isData v && allDataKV r
end

mutual
/-- nesting depth; `intoDynF (n+1)` handles every value of depth `≤ n` without running out of fuel -/
def depth : Val → Nat
  | .list xs | .tuple xs | .set xs | .frozenset xs | .deque xs => depthList xs + 1
  | .dict kvs | .mapOf _ kvs => depthKV kvs + 1
  | .sub _ b => depth b + 1
  | .obj _ fs _ => depthF fs + 1
  | .wrap _ a => depth a + 1
  | _ => 0
def depthList : List Val → Nat
  | [] => 0
  | x :: xs => max (depth x) (depthList xs)
def depthKV : List (Val × Val) → Nat
  | [] => 0
  | (k, v) :: r => max (max (depth k) (depth v)) (depthKV r)
def depthF : List (String × Val) → Nat
  | [] => 0
  | (_, v) :: r => max (depth v) (depthF r)
end

/-- elements of a sequence-like typed value (what `SequenceConverter.into_data` iterates) -/
def payload : Val → List Val
  | .list xs | .tuple xs | .deque xs | .set xs | .frozenset xs => xs
  | _ => []

end Val

/-! ## Hypotheses of the round-trip theorems -/

/-- `x` is a typed value of `c`: the result of parsing some constructible interchange value. -/
def HasType (E : Ext) (c : Conv) (x : Val) : Prop :=
  ∃ v, v.isData = true ∧ tryC E c v = .ok x

/-- the untyped serialiser leaves interchange data of depth `< N` alone (true of `intoDynF` with fuel
`N`, see `C05_dyn_interchange_id`) -/
def DynId (dyn : Val → Except Exc Val) (N : Nat) : Prop :=
  ∀ v, v.isData = true → v.depth < N → dyn v = .ok v

/-- names of the scalar types whose constructor the model computes itself (`builtinCtor`) -/
def builtinNames : List String := ["bool", "int", "float", "complex", "str", "bytes", "bytearray"]

/-- string-serialised scalar types: `Decimal`, `Fraction`, path classes -/
def strTy (ty : String) : Bool :=
  ty == "Decimal" || ty == "Fraction" || "Path:".toList.isPrefixOf ty.toList

/-- **Externals hypothesis for the built-in numeric rows.**  The only built-in constructor calls the
model delegates to `Ext` are `float(i)` / `complex(i)` for an `int` beyond 2^53 (they round); all the
round trip needs is that the result is a `float` / `complex`. -/
structure NumRT (E : Ext) : Prop where
  float_kind : ∀ v y, E.call "float" v = .ok y → ∃ f, y = .float f
  complex_kind : ∀ v y, E.call "complex" v = .ok y → ∃ re im, y = .complex re im
  /-- no custom handler intercepts the elements of undeclared type (`dynElem`) -/
  noElemHook : NoElemHook E

/-- **Externals hypothesis for string-serialised scalars.**  Everything the round trip needs from
the standard library, and nothing else:

* `call_opaque` — `Decimal(v)`, `Fraction(v)`, `Path(v)` return an instance of that very class;
* `call_str`    — parsing the string form of such an instance gives it back
                  (`Decimal(str(d)) == d`, `Fraction(str(f)) == f`, `Path(str(p)) == p`);
* `iso_opaque` / `iso_str` — the same two facts for `datetime` / `date` / `time` and
                  `fromisoformat` (`T.fromisoformat(x.isoformat()) == x`).

The brief's form `∀ ty r, E.call ty (.str r) = .ok (.opaque ty r)` implies `call_str`; the weaker form
below only speaks about strings that really are the text of a value (`Decimal("abc")` may raise). -/
structure ScalarRT (E : Ext) : Prop extends NumRT E where
  call_opaque : ∀ ty v y, strTy ty = true → E.call ty v = .ok y → ∃ r, y = .opaque ty r
  call_str : ∀ ty v r, strTy ty = true → E.call ty v = .ok (.opaque ty r) →
    E.call ty (.str r) = .ok (.opaque ty r)
  iso_opaque : ∀ ty v y, E.call ("fromiso:" ++ ty) v = .ok y → ∃ r, y = .opaque ty r
  iso_str : ∀ ty v r, E.call ("fromiso:" ++ ty) v = .ok (.opaque ty r) →
    E.call ("fromiso:" ++ ty) (.str r) = .ok (.opaque ty r)

/-! ## The static fragment -/

/-- the rows of `_BASIC_CONVERTERS` for bool / int / float / complex / str / bytes / bytearray (with
their identity-like serialisers): typed values of these are interchange scalars -/
def builtinRow (ty : String) (allowed : List ACls) (ser : Ser) : Bool :=
  ser != .str &&
  ((ty == "bool" && allowed == [.bool]) ||
   (ty == "int" && allowed == [.int]) ||
   (ty == "float" && allowed == [.int, .float]) ||
   (ty == "complex" && allowed == [.int, .float, .complex]) ||
   (ty == "str" && allowed == [.str]) ||
   (ty == "bytes" && allowed == [.bytes, .bytearray]) ||
   (ty == "bytearray" && allowed == [.bytes, .bytearray]))

/-- string-serialised scalar rows (`Decimal`, `Fraction`, paths): a `str` must be accepted on input -/
def strRow (ty : String) (allowed : List ACls) (ser : Ser) : Bool :=
  ser == .str && strTy ty && allowed.contains .str

def seqKinds : List String := ["list", "tuple", "deque", "set", "frozenset"]

mutual
/-- Converters whose typed values serialise to *themselves* (so the serialised form of a dict key is
as hashable and as distinct as the key): built-in scalar rows, `None`, literals, tuples and
conditions over those. -/
def IdSer : Conv → Bool
  | .noneC | .literal _ => true
  | .scalar ty allowed ser _ _ => builtinRow ty allowed ser
  | .tuple cs => IdSers cs
  | .cond inner _ _ => IdSer inner
  | _ => false
def IdSers : List Conv → Bool
  | [] => true
  | c :: cs => IdSer c && IdSers cs
end

/-- pairwise distinct strings -/
def distinctStrs : List String → Bool
  | [] => true
  | n :: ns => !ns.contains n && distinctStrs ns

/-- field `f` is selected by input key `s` (the test inside `fieldIndex`) -/
def FieldInfo.accepts (f : FieldInfo) (s : String) : Bool := f.init && (f.name == s || f.inNames.contains s)

/-- Static conditions on a dataclass description (struct output layout):
`out_format = "struct"` is enabled on input, no `__post_init__`, every field is an `init` field, field
names are pairwise distinct, the output names of the serialised (non-excluded) fields are pairwise
distinct, each of them is an input name of its own field and of no other field, and every excluded
field has a default. -/
def paneOk (info : PaneInfo) : Bool :=
  info.outFormat == "struct" && info.inFormat.contains "struct" && info.hook.isNone &&
  distinctStrs (info.fields.map (·.name)) &&
  distinctStrs ((info.fields.filter (!·.exclude)).map (·.outName)) &&
  info.fields.all (fun f =>
    f.init &&
    if f.exclude then f.hasDefault
    else f.accepts f.outName &&
      info.fields.all (fun g => g.name == f.name || !g.accepts f.outName))

/-- names of the serialised fields, in declaration order -/
def nonExclNames (info : PaneInfo) : List String := (info.fields.filter (!·.exclude)).map (·.name)

/-- **Canonical instance**: what parsing a complete serialised form builds — the set-record lists
exactly the serialised fields and every excluded field holds its default.  (A typed value with a
defaulted field, or with an excluded field that was supplied on input, is not a fixed point of the
round trip *literally*: `from_data(into_data(x))` has a larger set-record / the default in the excluded
field.  It is a fixed point up to those two things: see `C05_pane_general`.) -/
def paneCanon (E : Ext) (info : PaneInfo) (x : Val) : Prop :=
  (∀ c fs s, x = .obj c fs s → s = nonExclNames info) ∧
  ∀ f ∈ info.fields, f.exclude = true → ∀ y, getAttr f.name x = .ok y →
    fieldDefault E (Facts.structDefaultCalled == some true) f = some y

mutual
/-- **The static fragment.**  Decidable, by structural recursion on the converter. -/
def RTSafe : Conv → Bool
  | .any | .noneC | .literal _ => true
  | .scalar ty allowed ser _ _ => builtinRow ty allowed ser || strRow ty allowed ser
  | .datetime _ => true
  | .seq kind vc => seqKinds.contains kind && RTSafe vc
  | .tuple cs => RTSafes cs
  | .dict _ k v => IdSer k && RTSafe v
  | .cond inner _ _ => RTSafe inner
  | .union cs => RTSafes cs
  | .pane info cs => paneOk info && cs.length == info.fields.length && RTSafes cs
  | _ => false
def RTSafes : List Conv → Bool
  | [] => true
  | c :: cs => RTSafe c && RTSafes cs
end

/-! ## The per-value condition -/

mutual
/-- **Per-value side condition.**
* `union`: the member that serialises `x` (the first one whose fast pass accepts the typed value `x`)
  must be one `x` is a typed value of, and no earlier member may accept the serialised form.
* dataclass: the instance is canonical (`paneCanon`) and every serialised field holds a typed value of
  its converter (automatic for fields supplied on input; an assumption about declared defaults).
* containers pass the condition to their elements; it is `True` everywhere else. -/
def RTOk (E : Ext) (dyn : Val → Except Exc Val) : Conv → Val → Prop
  | .union cs, x => RTOkU E dyn cs x
  | .seq _ vc, x => ∀ y ∈ x.payload, RTOk E dyn vc y
  | .tuple cs, x => RTOkZ E dyn cs x.payload
  | .dict _ k v, x => ∀ p ∈ x.mapItems, RTOk E dyn k p.1 ∧ RTOk E dyn v p.2
  | .cond inner _ _, x => RTOk E dyn inner x
  | .pane info cs, x => paneCanon E info x ∧ RTOkF E dyn info.fields cs x
  | _, _ => True
def RTOkU (E : Ext) (dyn : Val → Except Exc Val) : List Conv → Val → Prop
  | [], _ => False
  | c :: cs, x =>
    match tryC E c x with
    | .ok _ => HasType E c x ∧ RTOk E dyn c x
    | .interrupt =>
      RTOkU E dyn cs x ∧
        ∀ d, unionInto dyn (tryCs E cs) (intoCs E dyn cs) x = .ok d → tryC E c d = .interrupt
    | .leak _ => False
def RTOkZ (E : Ext) (dyn : Val → Except Exc Val) : List Conv → List Val → Prop
  | c :: cs, x :: xs => RTOk E dyn c x ∧ RTOkZ E dyn cs xs
  | _, _ => True
def RTOkF (E : Ext) (dyn : Val → Except Exc Val) : List FieldInfo → List Conv → Val → Prop
  | f :: fs, c :: cs, x =>
    (f.exclude = false → ∀ y, getAttr f.name x = .ok y → HasType E c y ∧ RTOk E dyn c y) ∧
      RTOkF E dyn fs cs x
  | _, _, _ => True
end

end PaneModel
