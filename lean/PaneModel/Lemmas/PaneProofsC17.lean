import PaneModel.Model.Pane
/-!
# Lemmas for C17 — inheritance and generics (class processing, `specsUpdate`, `bodySpecs`, `substTy`,
`mergeParams`, `Opts.apply`, `posBounds`, `makeField`, `processClass`)

Core Lean only.  Every name is prefixed `c17_`.
-/
namespace PaneModel.PaneProofs

/-! ## `specsUpdate` -/

theorem c17_find_congr {α : Type} {p q : α → Bool} : ∀ (l : List α), (∀ a ∈ l, p a = q a) →
    l.find? p = l.find? q
  | [], _ => rfl
  | a :: l, h => by
    simp only [List.find?_cons, h a (List.mem_cons_self ..)]
    rw [c17_find_congr l (fun b hb => h b (List.mem_cons_of_mem _ hb))]

/-- the spec that replaces `s` in place: the (first) spec of `new` with the same name, else `s` -/
def c17_repl (new : List SpecM) (s : SpecM) : SpecM :=
  match new.find? (·.name == s.name) with | some n => n | none => s

theorem c17_specsUpdate_eq (old new : List SpecM) :
    specsUpdate old new = old.map (c17_repl new) ++ new.filter fun n => !(old.any (·.name == n.name)) := rfl

theorem c17_repl_name (new : List SpecM) (s : SpecM) : (c17_repl new s).name = s.name := by
  unfold c17_repl
  cases h : new.find? (·.name == s.name) with
  | none => rfl
  | some n => simpa using List.find?_some h

theorem c17_repl_of_find (new : List SpecM) (s n : SpecM) (h : new.find? (·.name == s.name) = some n) :
    c17_repl new s = n := by
  unfold c17_repl; rw [h]

theorem c17_repl_of_not_find (new : List SpecM) (s : SpecM) (h : new.find? (·.name == s.name) = none) :
    c17_repl new s = s := by
  unfold c17_repl; rw [h]

theorem c17_any_name (old : List SpecM) (n : String) :
    old.any (·.name == n) = (old.map (·.name)).contains n := by
  induction old with
  | nil => rfl
  | cons a l ih =>
    simp only [List.any_cons, List.map_cons, List.contains_cons, ih]
    rw [Bool.beq_comm]

theorem c17_specsUpdate_names (old new : List SpecM) :
    (specsUpdate old new).map (·.name) =
      old.map (·.name) ++ (new.map (·.name)).filter (fun n => !(old.map (·.name)).contains n) := by
  rw [c17_specsUpdate_eq, List.map_append, List.map_map]
  congr 1
  · apply List.map_congr_left
    intro s _
    exact c17_repl_name new s
  · rw [List.filter_map]
    congr 1
    apply List.filter_congr
    intro s _
    simp only [Function.comp, c17_any_name]

theorem c17_find_map_repl (old new : List SpecM) (n : String) :
    (old.map (c17_repl new)).find? (·.name == n) = (old.find? (·.name == n)).map (c17_repl new) := by
  rw [List.find?_map]
  congr 1
  apply c17_find_congr
  intro s _
  simp only [Function.comp, c17_repl_name]

theorem c17_find_none_of_not_mem (l : List SpecM) (n : String) (h : n ∉ l.map (·.name)) :
    l.find? (·.name == n) = none := by
  rw [List.find?_eq_none]
  intro s hs hc
  apply h
  have : s.name = n := by simpa using hc
  exact this ▸ List.mem_map_of_mem hs

theorem c17_find_some_of_mem (l : List SpecM) (n : String) (h : n ∈ l.map (·.name)) :
    ∃ s, l.find? (·.name == n) = some s ∧ s.name = n := by
  cases hf : l.find? (·.name == n) with
  | some s => exact ⟨s, rfl, by simpa using List.find?_some hf⟩
  | none =>
    exfalso
    rw [List.find?_eq_none] at hf
    obtain ⟨s, hs, rfl⟩ := List.mem_map.1 h
    exact hf s hs (by simp)

/-- `find?` in the merged specs -/
theorem c17_specsUpdate_find (old new : List SpecM) (n : String) :
    (specsUpdate old new).find? (·.name == n) =
      match old.find? (·.name == n) with
      | some s => some (c17_repl new s)
      | none => new.find? (·.name == n) := by
  rw [c17_specsUpdate_eq, List.find?_append, c17_find_map_repl]
  cases ho : old.find? (·.name == n) with
  | some s => rfl
  | none =>
    simp only [Option.map_none, Option.none_or]
    rw [List.find?_filter]
    apply c17_find_congr
    intro s _
    cases hs : (s.name == n) with
    | false => simp
    | true =>
      have hsn : s.name = n := by simpa using hs
      have : old.any (·.name == s.name) = false := by
        rw [hsn]
        rw [List.find?_eq_none] at ho
        rw [List.any_eq_false]
        intro x hx
        exact ho x hx
      simp [this]

theorem c17_specsUpdate_find_new (old new : List SpecM) (n : String) (h : n ∈ new.map (·.name)) :
    (specsUpdate old new).find? (·.name == n) = new.find? (·.name == n) := by
  rw [c17_specsUpdate_find]
  cases ho : old.find? (·.name == n) with
  | none => rfl
  | some s =>
    have hsn : s.name = n := by simpa using List.find?_some ho
    obtain ⟨s', hs', _⟩ := c17_find_some_of_mem new n h
    simp only []
    rw [hs']
    congr 1
    apply c17_repl_of_find
    rw [hsn]; exact hs'

theorem c17_specsUpdate_find_old (old new : List SpecM) (n : String) (h : n ∉ new.map (·.name)) :
    (specsUpdate old new).find? (·.name == n) = old.find? (·.name == n) := by
  rw [c17_specsUpdate_find]
  have hn := c17_find_none_of_not_mem new n h
  cases ho : old.find? (·.name == n) with
  | none => exact hn
  | some s =>
    have hsn : s.name = n := by simpa using List.find?_some ho
    simp only []
    congr 1
    apply c17_repl_of_not_find
    rw [hsn]; exact hn

theorem c17_specsUpdate_nodup (old new : List SpecM) (ho : (old.map (·.name)).Nodup)
    (hn : (new.map (·.name)).Nodup) : ((specsUpdate old new).map (·.name)).Nodup := by
  rw [c17_specsUpdate_names, List.nodup_append]
  refine ⟨ho, hn.filter _, ?_⟩
  intro a ha b hb hab
  subst hab
  rw [List.mem_filter] at hb
  have := hb.2
  simp [ha] at this

/-! ## `bodySpecs` -/

/-- the default an own field ends up with: an explicit default wins; a bare re-annotation picks up the
inherited class attribute; a `field(...)` without default stays mandatory -/
def c17_ownDefault (inh : String → Option Val) (s : SpecM) : DefaultKind :=
  match s.default, s.viaFieldSpec with
  | .missing, false => match inh s.name with | some v => DefaultKind.value v | none => .missing
  | d, _ => d

/-- the own spec made of a body field -/
def c17_ownSpec (kw : Bool) (inh : String → Option Val) (s : SpecM) : SpecM :=
  { s with kwOnly := s.kwOnly || kw, default := c17_ownDefault inh s }

theorem c17_bodySpecs_nil (kw : Bool) (inh : String → Option Val) : bodySpecs kw inh [] = [] := rfl

theorem c17_bodySpecs_marker (kw : Bool) (inh : String → Option Val) (rest : List BodyItem) :
    bodySpecs kw inh (.kwOnlyMarker :: rest) = bodySpecs true inh rest := rfl

theorem c17_bodySpecs_field (kw : Bool) (inh : String → Option Val) (s : SpecM) (rest : List BodyItem) :
    bodySpecs kw inh (.field s :: rest) = c17_ownSpec kw inh s :: bodySpecs kw inh rest := rfl

theorem c17_bodySpecs_fields (kw : Bool) (inh : String → Option Val) (fs : List SpecM) (rest : List BodyItem) :
    bodySpecs kw inh (fs.map .field ++ rest) = fs.map (c17_ownSpec kw inh) ++ bodySpecs kw inh rest := by
  induction fs with
  | nil => rfl
  | cons s fs ih => simp only [List.map_cons, List.cons_append, c17_bodySpecs_field, ih]

/-- the declared fields of a body, in order -/
def c17_bodyFields : List BodyItem → List SpecM
  | [] => []
  | .kwOnlyMarker :: rest => c17_bodyFields rest
  | .field s :: rest => s :: c17_bodyFields rest

theorem c17_bodyFields_mem (s : SpecM) : ∀ body : List BodyItem, s ∈ c17_bodyFields body ↔ .field s ∈ body
  | [] => by simp [c17_bodyFields]
  | .kwOnlyMarker :: rest => by simp [c17_bodyFields, c17_bodyFields_mem s rest]
  | .field s' :: rest => by simp [c17_bodyFields, c17_bodyFields_mem s rest]

theorem c17_bodySpecs_true (inh : String → Option Val) : ∀ body : List BodyItem,
    bodySpecs true inh body = (c17_bodyFields body).map (c17_ownSpec true inh)
  | [] => rfl
  | .kwOnlyMarker :: rest => by rw [c17_bodySpecs_marker, c17_bodyFields, c17_bodySpecs_true inh rest]
  | .field s :: rest => by rw [c17_bodySpecs_field, c17_bodyFields, List.map_cons, c17_bodySpecs_true inh rest]

/-- every own spec comes from exactly one body field, with some keyword-only flag in force -/
theorem c17_bodySpecs_shape (inh : String → Option Val) : ∀ (body : List BodyItem) (kw : Bool),
    ∃ ks : List Bool, ks.length = (c17_bodyFields body).length ∧
      bodySpecs kw inh body = ((c17_bodyFields body).zip ks).map fun p => c17_ownSpec p.2 inh p.1
  | [], _ => ⟨[], rfl, rfl⟩
  | .kwOnlyMarker :: rest, _ => by
    obtain ⟨ks, h1, h2⟩ := c17_bodySpecs_shape inh rest true
    exact ⟨ks, h1, by rw [c17_bodySpecs_marker, c17_bodyFields, h2]⟩
  | .field s :: rest, kw => by
    obtain ⟨ks, h1, h2⟩ := c17_bodySpecs_shape inh rest kw
    exact ⟨kw :: ks, by simp [c17_bodyFields, h1], by rw [c17_bodySpecs_field, c17_bodyFields, h2]; rfl⟩

theorem c17_bodySpecs_mem (inh : String → Option Val) (body : List BodyItem) (kw : Bool) (s' : SpecM)
    (h : s' ∈ bodySpecs kw inh body) : ∃ s k, .field s ∈ body ∧ s' = c17_ownSpec k inh s := by
  obtain ⟨ks, _, h2⟩ := c17_bodySpecs_shape inh body kw
  rw [h2, List.mem_map] at h
  obtain ⟨p, hp, rfl⟩ := h
  exact ⟨p.1, p.2, (c17_bodyFields_mem p.1 body).1 (List.of_mem_zip hp).1, rfl⟩

theorem c17_bodySpecs_names (inh : String → Option Val) : ∀ (body : List BodyItem) (kw : Bool),
    (bodySpecs kw inh body).map (·.name) = (c17_bodyFields body).map (·.name)
  | [], _ => rfl
  | .kwOnlyMarker :: rest, _ => by rw [c17_bodySpecs_marker, c17_bodyFields, c17_bodySpecs_names inh rest]
  | .field s :: rest, kw => by
    rw [c17_bodySpecs_field, c17_bodyFields, List.map_cons, List.map_cons, c17_bodySpecs_names inh rest]; rfl

theorem c17_bodySpecs_tys (inh : String → Option Val) : ∀ (body : List BodyItem) (kw : Bool),
    (bodySpecs kw inh body).map (·.ty) = (c17_bodyFields body).map (·.ty)
  | [], _ => rfl
  | .kwOnlyMarker :: rest, _ => by rw [c17_bodySpecs_marker, c17_bodyFields, c17_bodySpecs_tys inh rest]
  | .field s :: rest, kw => by
    rw [c17_bodySpecs_field, c17_bodyFields, List.map_cons, List.map_cons, c17_bodySpecs_tys inh rest]; rfl

theorem c17_ownDefault_bare (inh : String → Option Val) (s : SpecM) (hd : s.default = .missing)
    (hv : s.viaFieldSpec = false) :
    c17_ownDefault inh s = match inh s.name with | some v => .value v | none => .missing := by
  unfold c17_ownDefault; rw [hd, hv]

theorem c17_ownDefault_via (inh : String → Option Val) (s : SpecM) (hv : s.viaFieldSpec = true) :
    c17_ownDefault inh s = s.default := by
  unfold c17_ownDefault; rw [hv]
  cases s.default <;> rfl

theorem c17_ownDefault_own (inh : String → Option Val) (s : SpecM) (hd : s.default ≠ .missing) :
    c17_ownDefault inh s = s.default := by
  unfold c17_ownDefault
  cases h : s.default with
  | missing => exact absurd h hd
  | value v => rfl
  | factory f => rfl

/-! ## `substTy` -/

theorem c17_subst_typeVar (σ : List (String × Ty)) (n : String) (b : Option Ty) (cs : List Ty) :
    substTy σ (.typeVar n b cs) = (σ.lookup n).getD (.typeVar n b cs) := by
  simp only [substTy]; cases σ.lookup n <;> rfl
theorem c17_subst_seq (σ : List (String × Ty)) (o : String) (a : Ty) :
    substTy σ (.seq o (some a)) = .seq o (some (substTy σ a)) := by simp only [substTy]
theorem c17_subst_seq_none (σ : List (String × Ty)) (o : String) :
    substTy σ (.seq o none) = .seq o none := by simp only [substTy]
theorem c17_subst_vol (σ : List (String × Ty)) (a : Ty) :
    substTy σ (.valueOrList (some a)) = .valueOrList (some (substTy σ a)) := by simp only [substTy]
theorem c17_subst_vol_none (σ : List (String × Ty)) :
    substTy σ (.valueOrList none) = .valueOrList none := by simp only [substTy]
theorem c17_subst_tupleFixed (σ : List (String × Ty)) (ts : List Ty) :
    substTy σ (.tupleFixed ts) = .tupleFixed (substTys σ ts) := by simp only [substTy]
theorem c17_subst_mapping (σ : List (String × Ty)) (o : String) (ts : List Ty) :
    substTy σ (.mapping o ts) = .mapping o (substTys σ ts) := by simp only [substTy]
theorem c17_subst_annotated (σ : List (String × Ty)) (t : Ty) (anns : List Ann) :
    substTy σ (.annotated t anns) = .annotated (substTy σ t) anns := by simp only [substTy]
theorem c17_subst_tupleLit (σ : List (String × Ty)) (ts : List Ty) :
    substTy σ (.tupleLit ts) = .tupleLit (substTys σ ts) := by simp only [substTy]
theorem c17_subst_cls (σ : List (String × Ty)) (n : String) (ts : List Ty) :
    substTy σ (.cls n ts) = .cls n (substTys σ ts) := by simp only [substTy]
theorem c17_subst_structLit (σ : List (String × Ty)) (ns : List String) (ts : List Ty) :
    substTy σ (.structLit ns ts) = .structLit ns (substTys σ ts) := by simp only [substTy]

/-- one-level flattening of union members -/
def c17_flat (ts : List Ty) : List Ty := ts.flatMap fun t => match t with | .union us => us | t => [t]
/-- a single member is returned as itself -/
def c17_collapse : List Ty → Ty
  | [t] => t
  | ts => .union ts

theorem c17_subst_union (σ : List (String × Ty)) (ts : List Ty) :
    substTy σ (.union ts) = c17_collapse (dedupTy (c17_flat (substTys σ ts))) := by
  simp only [substTy, c17_flat]
  split
  · rename_i h; exact (congrArg c17_collapse h).symm
  · rename_i ts' h
    have key : ∀ l : List Ty, (∀ t, l = [t] → False) → Ty.union l = c17_collapse l := by
      intro l hl
      unfold c17_collapse
      split
      · exact absurd rfl (hl _)
      · rfl
    exact key _ h

theorem c17_substTys_eq_map (σ : List (String × Ty)) : ∀ ts : List Ty, substTys σ ts = ts.map (substTy σ)
  | [] => by simp only [substTys, List.map_nil]
  | t :: ts => by simp only [substTys, List.map_cons, c17_substTys_eq_map σ ts]

def c17_isUnion : Ty → Bool
  | .union _ => true
  | _ => false

/-- pairwise distinct w.r.t. the test `dedupTy` uses -/
def c17_distinct : List Ty → Bool
  | [] => true
  | t :: ts => ts.all (fun u => toString (repr u) != toString (repr t)) && c17_distinct ts

mutual
/-- "typing-normal form": every union has at least two members, none of them a union, pairwise distinct -/
def c17_normalTy : Ty → Bool
  | .seq _ (some a) => c17_normalTy a
  | .valueOrList (some a) => c17_normalTy a
  | .tupleFixed ts => c17_normalTys ts
  | .mapping _ as => c17_normalTys as
  | .union ts => c17_normalTys ts && decide (2 ≤ ts.length) && ts.all (fun t => !c17_isUnion t) && c17_distinct ts
  | .annotated t _ => c17_normalTy t
  | .tupleLit ts => c17_normalTys ts
  | .cls _ ts => c17_normalTys ts
  | .structLit _ ts => c17_normalTys ts
  | _ => true
def c17_normalTys : List Ty → Bool
  | [] => true
  | t :: ts => c17_normalTy t && c17_normalTys ts
end

mutual
/-- no type variable of `t` (in a position `substTy` descends into) is bound by `σ` -/
def c17_fresh (σ : List (String × Ty)) : Ty → Bool
  | .typeVar n _ _ => (σ.lookup n).isNone
  | .seq _ (some a) => c17_fresh σ a
  | .valueOrList (some a) => c17_fresh σ a
  | .tupleFixed ts => c17_freshs σ ts
  | .mapping _ as => c17_freshs σ as
  | .union ts => c17_freshs σ ts
  | .annotated t _ => c17_fresh σ t
  | .tupleLit ts => c17_freshs σ ts
  | .cls _ ts => c17_freshs σ ts
  | .structLit _ ts => c17_freshs σ ts
  | _ => true
def c17_freshs (σ : List (String × Ty)) : List Ty → Bool
  | [] => true
  | t :: ts => c17_fresh σ t && c17_freshs σ ts
end

mutual
/-- no type variable at all (in a position `substTy` descends into) -/
def c17_noVars : Ty → Bool
  | .typeVar _ _ _ => false
  | .seq _ (some a) => c17_noVars a
  | .valueOrList (some a) => c17_noVars a
  | .tupleFixed ts => c17_noVarss ts
  | .mapping _ as => c17_noVarss as
  | .union ts => c17_noVarss ts
  | .annotated t _ => c17_noVars t
  | .tupleLit ts => c17_noVarss ts
  | .cls _ ts => c17_noVarss ts
  | .structLit _ ts => c17_noVarss ts
  | _ => true
def c17_noVarss : List Ty → Bool
  | [] => true
  | t :: ts => c17_noVars t && c17_noVarss ts
end

mutual
def c17_unionFree : Ty → Bool
  | .union _ => false
  | .seq _ (some a) => c17_unionFree a
  | .valueOrList (some a) => c17_unionFree a
  | .tupleFixed ts => c17_unionFrees ts
  | .mapping _ as => c17_unionFrees as
  | .annotated t _ => c17_unionFree t
  | .tupleLit ts => c17_unionFrees ts
  | .cls _ ts => c17_unionFrees ts
  | .structLit _ ts => c17_unionFrees ts
  | _ => true
def c17_unionFrees : List Ty → Bool
  | [] => true
  | t :: ts => c17_unionFree t && c17_unionFrees ts
end

theorem c17_flat_of_noUnion : ∀ ts : List Ty, ts.all (fun t => !c17_isUnion t) = true → c17_flat ts = ts
  | [], _ => rfl
  | t :: ts, h => by
    simp only [List.all_cons, Bool.and_eq_true] at h
    have ih := c17_flat_of_noUnion ts h.2
    unfold c17_flat at ih ⊢
    rw [List.flatMap_cons, ih]
    cases t <;> first | rfl | (simp [c17_isUnion] at h)

theorem c17_dedup_of_distinct : ∀ ts : List Ty, c17_distinct ts = true → dedupTy ts = ts
  | [], _ => rfl
  | t :: ts, h => by
    simp only [c17_distinct, Bool.and_eq_true] at h
    simp only [dedupTy, c17_dedup_of_distinct ts h.2]
    congr 1
    rw [List.filter_eq_self]
    exact List.all_eq_true.1 h.1

theorem c17_collapse_of_two : ∀ ts : List Ty, 2 ≤ ts.length → c17_collapse ts = .union ts
  | [], h => by simp at h
  | [_], h => by simp at h
  | _ :: _ :: _, _ => rfl

mutual
theorem c17_subst_fresh (σ : List (String × Ty)) : ∀ t : Ty, c17_normalTy t = true → c17_fresh σ t = true →
    substTy σ t = t
  | .typeVar n b cs, _, hf => by
    simp only [c17_fresh, Option.isNone_iff_eq_none] at hf
    rw [c17_subst_typeVar, hf]; rfl
  | .seq o (some a), hn, hf => by
    simp only [c17_normalTy] at hn; simp only [c17_fresh] at hf
    rw [c17_subst_seq, c17_subst_fresh σ a hn hf]
  | .seq o none, _, _ => by simp only [substTy]
  | .valueOrList (some a), hn, hf => by
    simp only [c17_normalTy] at hn; simp only [c17_fresh] at hf
    rw [c17_subst_vol, c17_subst_fresh σ a hn hf]
  | .valueOrList none, _, _ => by simp only [substTy]
  | .tupleFixed ts, hn, hf => by
    simp only [c17_normalTy] at hn; simp only [c17_fresh] at hf
    rw [c17_subst_tupleFixed, c17_substs_fresh σ ts hn hf]
  | .mapping o ts, hn, hf => by
    simp only [c17_normalTy] at hn; simp only [c17_fresh] at hf
    rw [c17_subst_mapping, c17_substs_fresh σ ts hn hf]
  | .union ts, hn, hf => by
    simp only [c17_normalTy, Bool.and_eq_true, decide_eq_true_eq] at hn; simp only [c17_fresh] at hf
    obtain ⟨⟨⟨h1, h2⟩, h3⟩, h4⟩ := hn
    rw [c17_subst_union, c17_substs_fresh σ ts h1 hf, c17_flat_of_noUnion ts h3, c17_dedup_of_distinct ts h4,
      c17_collapse_of_two ts h2]
  | .annotated t anns, hn, hf => by
    simp only [c17_normalTy] at hn; simp only [c17_fresh] at hf
    rw [c17_subst_annotated, c17_subst_fresh σ t hn hf]
  | .tupleLit ts, hn, hf => by
    simp only [c17_normalTy] at hn; simp only [c17_fresh] at hf
    rw [c17_subst_tupleLit, c17_substs_fresh σ ts hn hf]
  | .any, _, _ => by simp only [substTy]
  | .scalar _, _, _ => by simp only [substTy]
  | .literal _, _, _ => by simp only [substTy]
  | .enum _, _, _ => by simp only [substTy]
  | .sub _ _, _, _ => by simp only [substTy]
  | .structLit ns ts, hn, hf => by
    simp only [c17_normalTy] at hn; simp only [c17_fresh] at hf
    rw [c17_subst_structLit, c17_substs_fresh σ ts hn hf]
  | .cls nm ts, hn, hf => by
    simp only [c17_normalTy] at hn; simp only [c17_fresh] at hf
    rw [c17_subst_cls, c17_substs_fresh σ ts hn hf]
  | .pattern _, _, _ => by simp only [substTy]
  | .ndarray, _, _ => by simp only [substTy]
  | .forwardRef _, _, _ => by simp only [substTy]
  | .unsupported _, _, _ => by simp only [substTy]
theorem c17_substs_fresh (σ : List (String × Ty)) : ∀ ts : List Ty, c17_normalTys ts = true →
    c17_freshs σ ts = true → substTys σ ts = ts
  | [], _, _ => by simp only [substTys]
  | t :: ts, hn, hf => by
    simp only [c17_normalTys, Bool.and_eq_true] at hn; simp only [c17_freshs, Bool.and_eq_true] at hf
    simp only [substTys, c17_subst_fresh σ t hn.1 hf.1, c17_substs_fresh σ ts hn.2 hf.2]
end

mutual
theorem c17_fresh_nil : ∀ t : Ty, c17_fresh [] t = true
  | .typeVar _ _ _ => by simp only [c17_fresh, List.lookup_nil, Option.isNone_none]
  | .seq _ (some a) => by simp only [c17_fresh, c17_fresh_nil a]
  | .seq _ none => by simp only [c17_fresh]
  | .valueOrList (some a) => by simp only [c17_fresh, c17_fresh_nil a]
  | .valueOrList none => by simp only [c17_fresh]
  | .tupleFixed ts => by simp only [c17_fresh, c17_freshs_nil ts]
  | .mapping _ ts => by simp only [c17_fresh, c17_freshs_nil ts]
  | .union ts => by simp only [c17_fresh, c17_freshs_nil ts]
  | .annotated t _ => by simp only [c17_fresh, c17_fresh_nil t]
  | .tupleLit ts => by simp only [c17_fresh, c17_freshs_nil ts]
  | .any => by simp only [c17_fresh]
  | .scalar _ => by simp only [c17_fresh]
  | .literal _ => by simp only [c17_fresh]
  | .enum _ => by simp only [c17_fresh]
  | .sub _ _ => by simp only [c17_fresh]
  | .structLit _ ts => by simp only [c17_fresh, c17_freshs_nil ts]
  | .cls nm ts => by simp only [c17_fresh, c17_freshs_nil ts]
  | .pattern _ => by simp only [c17_fresh]
  | .ndarray => by simp only [c17_fresh]
  | .forwardRef _ => by simp only [c17_fresh]
  | .unsupported _ => by simp only [c17_fresh]
theorem c17_freshs_nil : ∀ ts : List Ty, c17_freshs [] ts = true
  | [] => by simp only [c17_freshs]
  | t :: ts => by simp only [c17_freshs, c17_fresh_nil t, c17_freshs_nil ts, Bool.and_self]
end

mutual
theorem c17_fresh_of_noVars (σ : List (String × Ty)) : ∀ t : Ty, c17_noVars t = true → c17_fresh σ t = true
  | .typeVar _ _ _, h => by simp only [c17_noVars] at h; cases h
  | .seq _ (some a), h => by simp only [c17_noVars] at h; simp only [c17_fresh, c17_fresh_of_noVars σ a h]
  | .seq _ none, _ => by simp only [c17_fresh]
  | .valueOrList (some a), h => by simp only [c17_noVars] at h; simp only [c17_fresh, c17_fresh_of_noVars σ a h]
  | .valueOrList none, _ => by simp only [c17_fresh]
  | .tupleFixed ts, h => by simp only [c17_noVars] at h; simp only [c17_fresh, c17_freshs_of_noVars σ ts h]
  | .mapping _ ts, h => by simp only [c17_noVars] at h; simp only [c17_fresh, c17_freshs_of_noVars σ ts h]
  | .union ts, h => by simp only [c17_noVars] at h; simp only [c17_fresh, c17_freshs_of_noVars σ ts h]
  | .annotated t _, h => by simp only [c17_noVars] at h; simp only [c17_fresh, c17_fresh_of_noVars σ t h]
  | .tupleLit ts, h => by simp only [c17_noVars] at h; simp only [c17_fresh, c17_freshs_of_noVars σ ts h]
  | .any, _ => by simp only [c17_fresh]
  | .scalar _, _ => by simp only [c17_fresh]
  | .literal _, _ => by simp only [c17_fresh]
  | .enum _, _ => by simp only [c17_fresh]
  | .sub _ _, _ => by simp only [c17_fresh]
  | .structLit _ ts, h => by simp only [c17_noVars] at h; simp only [c17_fresh, c17_freshs_of_noVars σ ts h]
  | .cls nm ts, h => by simp only [c17_noVars] at h; simp only [c17_fresh, c17_freshs_of_noVars σ ts h]
  | .pattern _, _ => by simp only [c17_fresh]
  | .ndarray, _ => by simp only [c17_fresh]
  | .forwardRef _, _ => by simp only [c17_fresh]
  | .unsupported _, _ => by simp only [c17_fresh]
theorem c17_freshs_of_noVars (σ : List (String × Ty)) : ∀ ts : List Ty, c17_noVarss ts = true →
    c17_freshs σ ts = true
  | [], _ => by simp only [c17_freshs]
  | t :: ts, h => by
    simp only [c17_noVarss, Bool.and_eq_true] at h
    simp only [c17_freshs, c17_fresh_of_noVars σ t h.1, c17_freshs_of_noVars σ ts h.2, Bool.and_self]
end

mutual
/-- union-free types are in normal form -/
theorem c17_normal_of_unionFree : ∀ t : Ty, c17_unionFree t = true → c17_normalTy t = true
  | .union _, h => by simp only [c17_unionFree] at h; cases h
  | .typeVar _ _ _, _ => by simp only [c17_normalTy]
  | .seq _ (some a), h => by simp only [c17_unionFree] at h; simp only [c17_normalTy, c17_normal_of_unionFree a h]
  | .seq _ none, _ => by simp only [c17_normalTy]
  | .valueOrList (some a), h => by simp only [c17_unionFree] at h; simp only [c17_normalTy, c17_normal_of_unionFree a h]
  | .valueOrList none, _ => by simp only [c17_normalTy]
  | .tupleFixed ts, h => by simp only [c17_unionFree] at h; simp only [c17_normalTy, c17_normals_of_unionFree ts h]
  | .mapping _ ts, h => by simp only [c17_unionFree] at h; simp only [c17_normalTy, c17_normals_of_unionFree ts h]
  | .annotated t _, h => by simp only [c17_unionFree] at h; simp only [c17_normalTy, c17_normal_of_unionFree t h]
  | .tupleLit ts, h => by simp only [c17_unionFree] at h; simp only [c17_normalTy, c17_normals_of_unionFree ts h]
  | .any, _ => by simp only [c17_normalTy]
  | .scalar _, _ => by simp only [c17_normalTy]
  | .literal _, _ => by simp only [c17_normalTy]
  | .enum _, _ => by simp only [c17_normalTy]
  | .sub _ _, _ => by simp only [c17_normalTy]
  | .structLit _ ts, h => by simp only [c17_unionFree] at h; simp only [c17_normalTy, c17_normals_of_unionFree ts h]
  | .cls nm ts, h => by simp only [c17_unionFree] at h; simp only [c17_normalTy, c17_normals_of_unionFree ts h]
  | .pattern _, _ => by simp only [c17_normalTy]
  | .ndarray, _ => by simp only [c17_normalTy]
  | .forwardRef _, _ => by simp only [c17_normalTy]
  | .unsupported _, _ => by simp only [c17_normalTy]
theorem c17_normals_of_unionFree : ∀ ts : List Ty, c17_unionFrees ts = true → c17_normalTys ts = true
  | [], _ => by simp only [c17_normalTys]
  | t :: ts, h => by
    simp only [c17_unionFrees, Bool.and_eq_true] at h
    simp only [c17_normalTys, c17_normal_of_unionFree t h.1, c17_normals_of_unionFree ts h.2, Bool.and_self]
end

/-- the composed substitution: first `σ₁` (its images then substituted by `σ₂`), then `σ₂` -/
def c17_comp (σ₁ σ₂ : List (String × Ty)) : List (String × Ty) :=
  σ₁.map (fun (n, u) => (n, substTy σ₂ u)) ++ σ₂

theorem c17_lookup_map (f : Ty → Ty) (k : String) : ∀ σ : List (String × Ty),
    (σ.map (fun (n, u) => (n, f u))).lookup k = (σ.lookup k).map f
  | [] => rfl
  | (a, b) :: σ => by
    simp only [List.map_cons, List.lookup_cons, c17_lookup_map f k σ]
    cases k == a <;> rfl

theorem c17_lookup_comp (σ₁ σ₂ : List (String × Ty)) (k : String) :
    (c17_comp σ₁ σ₂).lookup k = ((σ₁.lookup k).map (substTy σ₂)).or (σ₂.lookup k) := by
  unfold c17_comp
  rw [List.lookup_append, c17_lookup_map]

mutual
theorem c17_subst_comp (σ₁ σ₂ : List (String × Ty)) : ∀ t : Ty, c17_unionFree t = true →
    substTy σ₂ (substTy σ₁ t) = substTy (c17_comp σ₁ σ₂) t
  | .union _, h => by simp only [c17_unionFree] at h; cases h
  | .typeVar n b cs, _ => by
    rw [c17_subst_typeVar σ₁, c17_subst_typeVar (c17_comp σ₁ σ₂), c17_lookup_comp]
    cases h1 : σ₁.lookup n with
    | some u => rfl
    | none =>
      simp only [Option.getD_none, Option.map_none, Option.none_or]
      rw [c17_subst_typeVar]
  | .seq o (some a), h => by
    simp only [c17_unionFree] at h
    rw [c17_subst_seq, c17_subst_seq, c17_subst_seq, c17_subst_comp σ₁ σ₂ a h]
  | .seq _ none, _ => by simp only [substTy]
  | .valueOrList (some a), h => by
    simp only [c17_unionFree] at h
    rw [c17_subst_vol, c17_subst_vol, c17_subst_vol, c17_subst_comp σ₁ σ₂ a h]
  | .valueOrList none, _ => by simp only [substTy]
  | .tupleFixed ts, h => by
    simp only [c17_unionFree] at h
    rw [c17_subst_tupleFixed, c17_subst_tupleFixed, c17_subst_tupleFixed, c17_substs_comp σ₁ σ₂ ts h]
  | .mapping o ts, h => by
    simp only [c17_unionFree] at h
    rw [c17_subst_mapping, c17_subst_mapping, c17_subst_mapping, c17_substs_comp σ₁ σ₂ ts h]
  | .annotated t anns, h => by
    simp only [c17_unionFree] at h
    rw [c17_subst_annotated, c17_subst_annotated, c17_subst_annotated, c17_subst_comp σ₁ σ₂ t h]
  | .tupleLit ts, h => by
    simp only [c17_unionFree] at h
    rw [c17_subst_tupleLit, c17_subst_tupleLit, c17_subst_tupleLit, c17_substs_comp σ₁ σ₂ ts h]
  | .any, _ => by simp only [substTy]
  | .scalar _, _ => by simp only [substTy]
  | .literal _, _ => by simp only [substTy]
  | .enum _, _ => by simp only [substTy]
  | .sub _ _, _ => by simp only [substTy]
  | .structLit ns ts, h => by
    simp only [c17_unionFree] at h
    rw [c17_subst_structLit, c17_subst_structLit, c17_subst_structLit, c17_substs_comp σ₁ σ₂ ts h]
  | .cls nm ts, h => by
    simp only [c17_unionFree] at h
    rw [c17_subst_cls, c17_subst_cls, c17_subst_cls, c17_substs_comp σ₁ σ₂ ts h]
  | .pattern _, _ => by simp only [substTy]
  | .ndarray, _ => by simp only [substTy]
  | .forwardRef _, _ => by simp only [substTy]
  | .unsupported _, _ => by simp only [substTy]
theorem c17_substs_comp (σ₁ σ₂ : List (String × Ty)) : ∀ ts : List Ty, c17_unionFrees ts = true →
    substTys σ₂ (substTys σ₁ ts) = substTys (c17_comp σ₁ σ₂) ts
  | [], _ => by simp only [substTys]
  | t :: ts, h => by
    simp only [c17_unionFrees, Bool.and_eq_true] at h
    simp only [substTys, c17_subst_comp σ₁ σ₂ t h.1, c17_substs_comp σ₁ σ₂ ts h.2]
end

/-! ## `List.mapM` in `Except` -/

/-- pointwise relation between two lists of the same length -/
inductive c17_All2 {α β : Type} (R : α → β → Prop) : List α → List β → Prop
  | nil : c17_All2 R [] []
  | cons {a : α} {b : β} {l : List α} {r : List β} : R a b → c17_All2 R l r → c17_All2 R (a :: l) (b :: r)

theorem c17_mapM_cons_eq {α β ε : Type} (f : α → Except ε β) (a : α) (l : List α) :
    (a :: l).mapM f = match f a with
      | .error e => .error e
      | .ok b => match l.mapM f with
        | .error e => .error e
        | .ok bs => .ok (b :: bs) := by
  rw [List.mapM_cons]
  cases f a with
  | error e => rfl
  | ok b =>
    cases l.mapM f with
    | error e => rfl
    | ok bs => rfl

theorem c17_mapM_ok {α β ε : Type} (f : α → Except ε β) : ∀ (l : List α) (r : List β),
    l.mapM f = .ok r → c17_All2 (fun a b => f a = .ok b) l r
  | [], r, h => by
    rw [List.mapM_nil] at h; cases h; exact .nil
  | a :: l, r, h => by
    rw [c17_mapM_cons_eq] at h
    cases ha : f a with
    | error e => rw [ha] at h; cases h
    | ok b =>
      rw [ha] at h
      cases hl : l.mapM f with
      | error e => rw [hl] at h; cases h
      | ok bs =>
        rw [hl] at h; cases h
        exact .cons ha (c17_mapM_ok f l bs hl)

theorem c17_mapM_error {α β ε : Type} (f : α → Except ε β) : ∀ (l : List α) (e : ε),
    l.mapM f = .error e → ∃ a ∈ l, f a = .error e
  | [], e, h => by rw [List.mapM_nil] at h; cases h
  | a :: l, e, h => by
    rw [c17_mapM_cons_eq] at h
    cases ha : f a with
    | error e' => rw [ha] at h; cases h; exact ⟨a, List.mem_cons_self .., ha⟩
    | ok b =>
      rw [ha] at h
      cases hl : l.mapM f with
      | error e' =>
        rw [hl] at h; cases h
        obtain ⟨x, hx, hfx⟩ := c17_mapM_error f l _ hl
        exact ⟨x, List.mem_cons_of_mem _ hx, hfx⟩
      | ok bs => rw [hl] at h; cases h

/-- one failing element makes the whole `mapM` fail (with the error of the first failing element) -/
theorem c17_mapM_fails {α β ε : Type} (f : α → Except ε β) : ∀ (l : List α) (a : α) (e : ε),
    a ∈ l → f a = .error e → ∃ e' a', a' ∈ l ∧ f a' = .error e' ∧ l.mapM f = .error e'
  | [], _, _, h, _ => by cases h
  | x :: l, a, e, h, ha => by
    rw [c17_mapM_cons_eq]
    cases hx : f x with
    | error e' => exact ⟨e', x, List.mem_cons_self .., hx, rfl⟩
    | ok b =>
      have hal : a ∈ l := by
        rcases List.mem_cons.1 h with rfl | h'
        · rw [ha] at hx; cases hx
        · exact h'
      obtain ⟨e', a', h1, h2, h3⟩ := c17_mapM_fails f l a e hal ha
      exact ⟨e', a', List.mem_cons_of_mem _ h1, h2, by simp only [h3]⟩

theorem c17_All2_length {α β : Type} {R : α → β → Prop} {l : List α} {r : List β} (h : c17_All2 R l r) :
    r.length = l.length := by
  induction h with
  | nil => rfl
  | cons _ _ ih => simp only [List.length_cons, ih]

theorem c17_All2_get {α β : Type} {R : α → β → Prop} {l : List α} {r : List β} (h : c17_All2 R l r) :
    ∀ (i : Nat) (h1 : i < l.length) (h2 : i < r.length), R l[i] r[i] := by
  induction h with
  | nil => intro i h1; cases h1
  | cons hab _ ih =>
    intro i h1 h2
    cases i with
    | zero => exact hab
    | succ i => exact ih i (Nat.lt_of_succ_lt_succ h1) (Nat.lt_of_succ_lt_succ h2)

theorem c17_All2_map {α β γ : Type} {R : α → β → Prop} {l : List α} {r : List β} (g : α → γ) (g' : β → γ)
    (hR : ∀ a b, R a b → g' b = g a) (h : c17_All2 R l r) : r.map g' = l.map g := by
  induction h with
  | nil => rfl
  | cons hab _ ih => simp only [List.map_cons, ih, hR _ _ hab]

theorem c17_All2_append {α β : Type} {R : α → β → Prop} {l1 l2 : List α} {r1 r2 : List β}
    (h1 : c17_All2 R l1 r1) (h2 : c17_All2 R l2 r2) : c17_All2 R (l1 ++ l2) (r1 ++ r2) := by
  induction h1 with
  | nil => exact h2
  | cons hab _ ih => exact .cons hab ih

theorem c17_All2_split {α β : Type} {R : α → β → Prop} : ∀ (l1 : List α) (a : α) (l2 : List α) (r : List β),
    c17_All2 R (l1 ++ a :: l2) r → ∃ r1 b r2, r = r1 ++ b :: r2 ∧ c17_All2 R l1 r1 ∧ R a b ∧ c17_All2 R l2 r2
  | [], a, l2, r, h => by
    cases h with
    | cons hab ht => exact ⟨[], _, _, rfl, .nil, hab, ht⟩
  | x :: l1, a, l2, r, h => by
    cases h with
    | cons hab ht =>
      obtain ⟨r1, b, r2, rfl, h1, h2, h3⟩ := c17_All2_split l1 a l2 _ ht
      exact ⟨_ :: r1, b, r2, rfl, .cons hab h1, h2, h3⟩

/-- stable partition of a list: the `kw`-false elements, then the `kw`-true ones -/
def c17_order {α : Type} (kw : α → Bool) (l : List α) : List α := l.filter (fun x => !kw x) ++ l.filter kw

theorem c17_order_length {α : Type} (kw : α → Bool) : ∀ l : List α, (c17_order kw l).length = l.length
  | [] => rfl
  | a :: l => by
    have ih := c17_order_length kw l
    unfold c17_order at ih ⊢
    rw [List.length_append] at ih ⊢
    cases h : kw a <;> simp [h] <;> omega

/-- filtering a zip on a flag the relation preserves -/
theorem c17_All2_filter_zip {α β : Type} {R : α → β → Prop} (ka : α → Bool) (kb : β → Bool)
    (hR : ∀ a b, R a b → kb b = ka a) {l : List α} {r : List β} (h : c17_All2 R l r) :
    ((r.zip l).filter (fun p => kb p.1)).map (·.2) = l.filter ka ∧
    c17_All2 R (l.filter ka) (((r.zip l).filter (fun p => kb p.1)).map (·.1)) := by
  induction h with
  | nil => exact ⟨rfl, .nil⟩
  | @cons a b l r hab _ ih =>
    have hk := hR _ _ hab
    cases hka : ka a with
    | false =>
      have : kb b = false := by rw [hk, hka]
      simp only [List.zip_cons_cons, List.filter_cons, this, hka, Bool.false_eq_true, if_false]
      exact ih
    | true =>
      have : kb b = true := by rw [hk, hka]
      simp only [List.zip_cons_cons, List.filter_cons, this, hka, if_true, List.map_cons]
      exact ⟨by rw [ih.1], .cons hab ih.2⟩

theorem c17_All2_order_zip {α β : Type} {R : α → β → Prop} (ka : α → Bool) (kb : β → Bool)
    (hR : ∀ a b, R a b → kb b = ka a) {l : List α} {r : List β} (h : c17_All2 R l r) :
    (c17_order (fun p => kb p.1) (r.zip l)).map (·.2) = c17_order ka l ∧
    c17_All2 R (c17_order ka l) ((c17_order (fun p => kb p.1) (r.zip l)).map (·.1)) := by
  have h1 := c17_All2_filter_zip (fun a => !ka a) (fun b => !kb b) (fun a b hab => by rw [hR a b hab]) h
  have h2 := c17_All2_filter_zip ka kb hR h
  unfold c17_order
  rw [List.map_append, List.map_append]
  exact ⟨by rw [h1.1, h2.1], c17_All2_append h1.2 h2.2⟩

/-! ## `makeField` -/

theorem c17_map_ok {α β ε : Type} {g : α → β} {X : Except ε α} {y : β} (h : X.map g = .ok y) :
    ∃ x, X = .ok x ∧ y = g x := by
  cases X with
  | error e => cases h
  | ok x => cases h; exact ⟨x, rfl, rfl⟩

theorem c17_map_error {α β ε : Type} {g : α → β} {X : Except ε α} {e : ε} (h : X.map g = .error e) :
    X = .error e := by
  cases X with
  | error e' => cases h; rfl
  | ok x => cases h

def c17_renameErr (name : String) : ClassErr :=
  .valueError ("Unable to interpret field '" ++ name ++ "' for automatic rename")

/-- the output name `make_field` chooses: `out_name`, else `rename`, else the class style, else the name -/
def c17_outName (s : SpecM) (outR : Option String) : Except ClassErr String :=
  match s.outName, s.rename, outR with
  | some o, _, _ => .ok o
  | none, some r, _ => .ok r
  | none, none, some st => match renameField s.name st with
    | some n => .ok n
    | none => .error (c17_renameErr s.name)
  | none, none, none => .ok s.name

def c17_nset (s : SpecM) : Nat :=
  (if s.rename.isSome then 1 else 0) + (if s.aliases.isSome then 1 else 0) + (if s.inNames.isSome then 1 else 0)

def c17_renamed (s : SpecM) (inR : Option (List String)) : Except ClassErr (List String) :=
  match inR with
  | none => .ok []
  | some styles => styles.mapM fun st => match renameField s.name st with
    | some n => .ok n
    | none => .error (c17_renameErr s.name)

def c17_inNames (s : SpecM) (inR : Option (List String)) (b : Bool) : Except ClassErr (List String) :=
  match s.rename, s.aliases, s.inNames with
  | some r, _, _ => .ok [r]
  | none, some al, _ =>
    if b then (c17_renamed s inR).map fun rn => dedupS (s.name :: rn ++ al)
    else .ok (s.name :: al.filter (· != s.name))
  | none, none, some ns => .ok ns
  | none, none, none => match inR with
    | some _ => c17_renamed s inR
    | none => .ok [s.name]

theorem c17_makeField_eq (s : SpecM) (inR : Option (List String)) (outR : Option String) (b : Bool) :
    makeField s inR outR b =
      match c17_outName s outR with
      | .error e => .error e
      | .ok o =>
        if c17_nset s > 1 then .error (.typeError "Can only specify one of 'rename', 'aliases', and 'in_names'")
        else (c17_inNames s inR b).map fun ins =>
          { name := s.name, inNames := ins, outName := o, init := s.init, exclude := s.exclude, kwOnly := s.kwOnly,
            default := s.default, compare := s.compare, hash := s.hash, repr := s.repr } := rfl

theorem c17_makeField_ok (s : SpecM) (inR : Option (List String)) (outR : Option String) (b : Bool)
    (f : FieldInfo) (h : makeField s inR outR b = .ok f) :
    f.name = s.name ∧ f.kwOnly = s.kwOnly ∧ f.init = s.init ∧ f.default = s.default ∧ f.exclude = s.exclude ∧
    f.compare = s.compare ∧ f.hash = s.hash ∧ f.repr = s.repr := by
  rw [c17_makeField_eq] at h
  cases ho : c17_outName s outR with
  | error e => rw [ho] at h; cases h
  | ok o =>
    rw [ho] at h
    simp only [] at h
    split at h
    · cases h
    · obtain ⟨ins, _, rfl⟩ := c17_map_ok h
      exact ⟨rfl, rfl, rfl, rfl, rfl, rfl, rfl, rfl⟩

theorem c17_makeField_outName (s : SpecM) (inR : Option (List String)) (outR : Option String) (b : Bool)
    (f : FieldInfo) (h : makeField s inR outR b = .ok f) : c17_outName s outR = .ok f.outName := by
  rw [c17_makeField_eq] at h
  cases ho : c17_outName s outR with
  | error e => rw [ho] at h; cases h
  | ok o =>
    rw [ho] at h
    simp only [] at h
    split at h
    · cases h
    · obtain ⟨ins, _, rfl⟩ := c17_map_ok h
      rfl

/-- an unsplittable name under a class-level output rename style: `ValueError` -/
theorem c17_makeField_rename_error (s : SpecM) (inR : Option (List String)) (st : String) (b : Bool)
    (h1 : s.outName = none) (h2 : s.rename = none) (h3 : renameField s.name st = none) :
    makeField s inR (some st) b = .error (c17_renameErr s.name) := by
  rw [c17_makeField_eq]
  have : c17_outName s (some st) = .error (c17_renameErr s.name) := by
    unfold c17_outName; rw [h1, h2]; simp only [h3]
  rw [this]

theorem c17_renamed_error (s : SpecM) (inR : Option (List String)) (e : ClassErr)
    (h : c17_renamed s inR = .error e) : e = c17_renameErr s.name := by
  unfold c17_renamed at h
  cases inR with
  | none => cases h
  | some styles =>
    simp only [] at h
    obtain ⟨st, _, hst⟩ := c17_mapM_error _ _ _ h
    split at hst
    · cases hst
    · cases hst; rfl

/-- the only errors of `make_field` -/
theorem c17_makeField_error (s : SpecM) (inR : Option (List String)) (outR : Option String) (b : Bool)
    (e : ClassErr) (h : makeField s inR outR b = .error e) :
    e = c17_renameErr s.name ∨ e = .typeError "Can only specify one of 'rename', 'aliases', and 'in_names'" := by
  rw [c17_makeField_eq] at h
  cases ho : c17_outName s outR with
  | error e' =>
    rw [ho] at h; cases h
    left
    unfold c17_outName at ho
    split at ho
    · cases ho
    · cases ho
    · split at ho
      · cases ho
      · cases ho; rfl
    · cases ho
  | ok o =>
    rw [ho] at h
    simp only [] at h
    split at h
    · cases h; right; rfl
    · left
      have h' := c17_map_error h
      unfold c17_inNames at h'
      split at h'
      · cases h'
      · split at h'
        · exact c17_renamed_error s inR e (c17_map_error h')
        · cases h'
      · cases h'
      · split at h'
        · exact c17_renamed_error s _ e h'
        · cases h'

/-! ## `posBounds` -/

theorem c17_posBounds_cons (inF : List String) (f : FieldInfo) (fs : List FieldInfo) (mn mx : Nat) (seen : Bool) :
    posBounds inF (f :: fs) mn mx seen =
      if !f.init then posBounds inF fs mn mx seen
      else if f.kwOnly then
        if !f.hasDefault && inF.contains "tuple" then
          .error (.typeError ("Field '" ++ f.name ++ "' is kw_only but mandatory. This is incompatible with the 'tuple' in_format."))
        else posBounds inF fs mn mx seen
      else if f.hasDefault then posBounds inF fs mn (mx + 1) true
      else if seen then .error (.typeError ("Mandatory field '" ++ f.name ++ "' follows optional field"))
      else posBounds inF fs (mx + 1) (mx + 1) seen := rfl

/-- one step of `posBounds`: an error, or the rest with updated counters -/
theorem c17_posBounds_step (inF : List String) (f : FieldInfo) (fs : List FieldInfo) (mn mx : Nat) (seen : Bool) :
    (∃ msg, posBounds inF (f :: fs) mn mx seen = .error (.typeError msg)) ∨
    ∃ mn' mx' seen', (seen = true → seen' = true) ∧
      posBounds inF (f :: fs) mn mx seen = posBounds inF fs mn' mx' seen' := by
  rw [c17_posBounds_cons]
  split
  · exact .inr ⟨mn, mx, seen, id, rfl⟩
  · split
    · split
      · exact .inl ⟨_, rfl⟩
      · exact .inr ⟨mn, mx, seen, id, rfl⟩
    · split
      · exact .inr ⟨mn, mx + 1, true, fun _ => rfl, rfl⟩
      · split
        · exact .inl ⟨_, rfl⟩
        · exact .inr ⟨mx + 1, mx + 1, seen, id, rfl⟩

/-- `posBounds` only ever fails with a `TypeError` -/
theorem c17_posBounds_error_kind (inF : List String) : ∀ (fs : List FieldInfo) (mn mx : Nat) (seen : Bool)
    (e : ClassErr), posBounds inF fs mn mx seen = .error e → ∃ msg, e = .typeError msg
  | [], _, _, _, _, h => by cases h
  | f :: fs, mn, mx, seen, e, h => by
    rcases c17_posBounds_step inF f fs mn mx seen with ⟨msg, hm⟩ | ⟨mn', mx', seen', _, hs⟩
    · rw [hm] at h; cases h; exact ⟨msg, rfl⟩
    · rw [hs] at h; exact c17_posBounds_error_kind inF fs mn' mx' seen' e h

/-- (a), once an optional positional field has been seen: a mandatory positional field is refused -/
theorem c17_posBounds_mandatory_seen (inF : List String) (f : FieldInfo) (post : List FieldInfo)
    (hi : f.init = true) (hk : f.kwOnly = false) (hd : f.hasDefault = false) :
    ∀ (pre : List FieldInfo) (mn mx : Nat),
      ∃ msg, posBounds inF (pre ++ f :: post) mn mx true = .error (.typeError msg)
  | [], mn, mx => by
    rw [List.nil_append, c17_posBounds_cons]
    simp only [hi, hk, hd, Bool.not_true, Bool.false_eq_true, if_false, if_true]
    exact ⟨_, rfl⟩
  | g :: pre, mn, mx => by
    rw [List.cons_append]
    rcases c17_posBounds_step inF g (pre ++ f :: post) mn mx true with hm | ⟨mn', mx', seen', hs', hs⟩
    · exact hm
    · rw [hs, hs' rfl]; exact c17_posBounds_mandatory_seen inF f post hi hk hd pre mn' mx'

/-- (a) a mandatory positional field after an optional positional one -/
theorem c17_posBounds_mandatory_after_optional (inF : List String) (g f : FieldInfo) (mid post : List FieldInfo)
    (gi : g.init = true) (gk : g.kwOnly = false) (gd : g.hasDefault = true)
    (hi : f.init = true) (hk : f.kwOnly = false) (hd : f.hasDefault = false) :
    ∀ (pre : List FieldInfo) (mn mx : Nat) (seen : Bool),
      ∃ msg, posBounds inF (pre ++ g :: (mid ++ f :: post)) mn mx seen = .error (.typeError msg)
  | [], mn, mx, seen => by
    rw [List.nil_append, c17_posBounds_cons]
    simp only [gi, gk, gd, Bool.not_true, Bool.false_eq_true, if_false, if_true]
    exact c17_posBounds_mandatory_seen inF f post hi hk hd mid mn (mx + 1)
  | h :: pre, mn, mx, seen => by
    rw [List.cons_append]
    rcases c17_posBounds_step inF h (pre ++ g :: (mid ++ f :: post)) mn mx seen with hm | ⟨mn', mx', seen', _, hs⟩
    · exact hm
    · rw [hs]; exact c17_posBounds_mandatory_after_optional inF g f mid post gi gk gd hi hk hd pre mn' mx' seen'

/-- (b) a mandatory keyword-only field with the `tuple` input format -/
theorem c17_posBounds_kwonly_tuple (inF : List String) (f : FieldInfo) (post : List FieldInfo)
    (ht : inF.contains "tuple" = true) (hi : f.init = true) (hk : f.kwOnly = true) (hd : f.hasDefault = false) :
    ∀ (pre : List FieldInfo) (mn mx : Nat) (seen : Bool),
      ∃ msg, posBounds inF (pre ++ f :: post) mn mx seen = .error (.typeError msg)
  | [], mn, mx, seen => by
    rw [List.nil_append, c17_posBounds_cons]
    simp only [hi, hk, hd, ht, Bool.not_true, Bool.not_false, Bool.and_self, Bool.false_eq_true, if_false, if_true]
    exact ⟨_, rfl⟩
  | h :: pre, mn, mx, seen => by
    rw [List.cons_append]
    rcases c17_posBounds_step inF h (pre ++ f :: post) mn mx seen with hm | ⟨mn', mx', seen', _, hs⟩
    · exact hm
    · rw [hs]; exact c17_posBounds_kwonly_tuple inF f post ht hi hk hd pre mn' mx' seen'

/-! ## `processClass` -/

def c17_baseOpts (parent : Option ClassM) : Opts :=
  match parent with | some p => p.opts | none => {}

/-- the effective options of the class being created -/
def c17_effOpts (d : ClassDeclM) (parent : Option ClassM) : Except ClassErr Opts :=
  (c17_baseOpts parent).apply d.opts (Facts.classHandlersInherit == some true)

/-- the parent's specs with the subscription of the base applied to their types -/
def c17_inherited (parent : Option ClassM) (bound : List (String × Ty)) : List SpecM :=
  match parent with
  | some p => p.specs.map fun s => { s with ty := substTy bound s.ty }
  | none => []

def c17_inhDefault (parent : Option ClassM) : String → Option Val :=
  fun n => match parent with
    | some p => p.attrs.lookup n
    | none => none

/-- the merged specs of the class being created -/
def c17_merged (d : ClassDeclM) (parent : Option ClassM) (bound : List (String × Ty)) (opts : Opts) : List SpecM :=
  specsUpdate (c17_inherited parent bound) (bodySpecs opts.kwOnly (c17_inhDefault parent) d.body)

def c17_mk (opts : Opts) (s : SpecM) : Except ClassErr FieldInfo :=
  makeField s opts.inRename opts.outRename (Facts.makeFieldAliasesIncludeRenamed == some true)

theorem c17_processClass_eq (d : ClassDeclM) (parent : Option ClassM) (bound : List (String × Ty))
    (pp : List String) :
    processClass d parent bound pp =
      match c17_effOpts d parent with
      | .error e => .error e
      | .ok opts =>
        match (c17_merged d parent bound opts).mapM (c17_mk opts) with
        | .error e => .error e
        | .ok fields0 =>
          let ordered := c17_order (fun p => p.1.kwOnly) (fields0.zip (c17_merged d parent bound opts))
          let fields := ordered.map (·.1)
          match posBounds opts.inFormat fields 0 0 false with
          | .error e => .error e
          | .ok (mn, mx) =>
            .ok { name := d.name, opts := opts, specs := c17_merged d parent bound opts, fields := fields
                  fieldTys := ordered.map (·.2.ty), fieldConv := ordered.map (·.2.converter)
                  minPos := mn, maxPos := mx
                  params := mergeParams Facts.paramMerge pp d.tvars
                  hook := match d.hook with | some h => some h | none => parent.bind (·.hook)
                  attrs :=
                    let own := fields.filterMap fun f => match f.default with | .value v => some (f.name, v) | _ => none
                    own ++ (match parent with | some p => p.attrs.filter (fun a => !own.any (·.1 == a.1)) | none => [])
                  own := bodySpecs opts.kwOnly (c17_inhDefault parent) d.body } := by
  cases parent <;> rfl

/-- what a successful `processClass` computed -/
theorem c17_processClass_ok (d : ClassDeclM) (parent : Option ClassM) (bound : List (String × Ty))
    (pp : List String) (c : ClassM) (h : processClass d parent bound pp = .ok c) :
    c17_effOpts d parent = .ok c.opts ∧
    c.specs = c17_merged d parent bound c.opts ∧
    c.name = d.name ∧
    c.params = mergeParams Facts.paramMerge pp d.tvars ∧
    posBounds c.opts.inFormat c.fields 0 0 false = .ok (c.minPos, c.maxPos) ∧
    ∃ fields0, c.specs.mapM (c17_mk c.opts) = .ok fields0 ∧
      c.fields = (c17_order (fun p => p.1.kwOnly) (fields0.zip c.specs)).map (·.1) ∧
      c.fieldTys = (c17_order (fun p => p.1.kwOnly) (fields0.zip c.specs)).map (·.2.ty) ∧
      c.fieldConv = (c17_order (fun p => p.1.kwOnly) (fields0.zip c.specs)).map (·.2.converter) := by
  rw [c17_processClass_eq] at h
  cases ho : c17_effOpts d parent with
  | error e => rw [ho] at h; cases h
  | ok opts =>
    rw [ho] at h
    simp only [] at h
    cases hm : (c17_merged d parent bound opts).mapM (c17_mk opts) with
    | error e => rw [hm] at h; cases h
    | ok fields0 =>
      rw [hm] at h
      simp only [] at h
      cases hp : posBounds opts.inFormat
          ((c17_order (fun p => p.1.kwOnly) (fields0.zip (c17_merged d parent bound opts))).map (·.1)) 0 0 false with
      | error e => rw [hp] at h; cases h
      | ok mm =>
        obtain ⟨mn, mx⟩ := mm
        rw [hp] at h
        simp only [] at h
        cases h
        exact ⟨rfl, rfl, rfl, rfl, hp, fields0, hm, rfl, rfl, rfl⟩

def c17_specHasDefault (s : SpecM) : Bool :=
  match s.default with
  | .missing => false
  | _ => true

theorem c17_mk_ok (opts : Opts) (s : SpecM) (f : FieldInfo) (h : c17_mk opts s = .ok f) :
    f.name = s.name ∧ f.kwOnly = s.kwOnly ∧ f.init = s.init ∧ f.default = s.default ∧ f.exclude = s.exclude ∧
    f.hasDefault = c17_specHasDefault s := by
  obtain ⟨h1, h2, h3, h4, h5, _⟩ := c17_makeField_ok s _ _ _ f h
  refine ⟨h1, h2, h3, h4, h5, ?_⟩
  unfold FieldInfo.hasDefault c17_specHasDefault
  rw [h4]
  cases s.default <;> rfl

theorem c17_All2_mem {α β : Type} {R : α → β → Prop} {l : List α} {r : List β} (h : c17_All2 R l r) :
    ∀ a ∈ l, ∃ b ∈ r, R a b := by
  induction h with
  | nil => intro a ha; cases ha
  | cons hab _ ih =>
    intro x hx
    rcases List.mem_cons.1 hx with rfl | hx
    · exact ⟨_, List.mem_cons_self .., hab⟩
    · obtain ⟨b, hb, hr⟩ := ih x hx
      exact ⟨b, List.mem_cons_of_mem _ hb, hr⟩

/-- **field order**: the fields of a processed class are made, one by one, of the merged specs in the
order "not keyword-only first, keyword-only after" (each group in spec order); the field types and the
field converters are listed in the same order -/
theorem c17_fields_order (d : ClassDeclM) (parent : Option ClassM) (bound : List (String × Ty))
    (pp : List String) (c : ClassM) (h : processClass d parent bound pp = .ok c) :
    c17_All2 (fun s f => c17_mk c.opts s = .ok f) (c17_order (·.kwOnly) c.specs) c.fields ∧
    c.fieldTys = (c17_order (·.kwOnly) c.specs).map (·.ty) ∧
    c.fieldConv = (c17_order (·.kwOnly) c.specs).map (·.converter) := by
  obtain ⟨_, _, _, _, _, fields0, hm, hf, ht, hc⟩ := c17_processClass_ok d parent bound pp c h
  have hall := c17_mapM_ok _ _ _ hm
  obtain ⟨h1, h2⟩ := c17_All2_order_zip (R := fun s f => c17_mk c.opts s = .ok f) (fun s : SpecM => s.kwOnly)
    (fun f : FieldInfo => f.kwOnly) (fun s f hsf => (c17_mk_ok c.opts s f hsf).2.1) hall
  refine ⟨?_, ?_, ?_⟩
  · rw [hf]; exact h2
  · rw [ht, ← h1, List.map_map]; rfl
  · rw [hc, ← h1, List.map_map]; rfl

/-- a class whose ordered specs can only give field lists that `posBounds` refuses is not created -/
theorem c17_processClass_refused (d : ClassDeclM) (parent : Option ClassM) (bound : List (String × Ty))
    (pp : List String) (opts : Opts) (ho : c17_effOpts d parent = .ok opts)
    (hbad : ∀ fields, c17_All2 (fun s f => c17_mk opts s = .ok f)
        (c17_order (·.kwOnly) (c17_merged d parent bound opts)) fields →
      ∃ msg, posBounds opts.inFormat fields 0 0 false = .error (.typeError msg)) :
    ∃ e, processClass d parent bound pp = .error e ∧
      ((c17_merged d parent bound opts).mapM (c17_mk opts) = .error e ∨ ∃ msg, e = .typeError msg) := by
  rw [c17_processClass_eq, ho]
  simp only []
  cases hm : (c17_merged d parent bound opts).mapM (c17_mk opts) with
  | error e => exact ⟨e, rfl, .inl rfl⟩
  | ok fields0 =>
    simp only []
    have hall := c17_mapM_ok _ _ _ hm
    obtain ⟨_, h2⟩ := c17_All2_order_zip (R := fun s f => c17_mk opts s = .ok f) (fun s : SpecM => s.kwOnly)
      (fun f : FieldInfo => f.kwOnly) (fun s f hsf => (c17_mk_ok opts s f hsf).2.1) hall
    obtain ⟨msg, hp⟩ := hbad _ h2
    rw [hp]
    exact ⟨_, rfl, .inr ⟨msg, rfl⟩⟩

/-- (a) lifted: a mandatory positional field after an optional positional one (in field order) -/
theorem c17_processClass_mandatory_after_optional (d : ClassDeclM) (parent : Option ClassM)
    (bound : List (String × Ty)) (pp : List String) (opts : Opts) (ho : c17_effOpts d parent = .ok opts)
    (pre mid post : List SpecM) (g f : SpecM)
    (hsp : c17_order (·.kwOnly) (c17_merged d parent bound opts) = pre ++ g :: (mid ++ f :: post))
    (gi : g.init = true) (gk : g.kwOnly = false) (gd : c17_specHasDefault g = true)
    (hi : f.init = true) (hk : f.kwOnly = false) (hd : c17_specHasDefault f = false) :
    ∃ e, processClass d parent bound pp = .error e ∧
      ((c17_merged d parent bound opts).mapM (c17_mk opts) = .error e ∨ ∃ msg, e = .typeError msg) := by
  apply c17_processClass_refused d parent bound pp opts ho
  intro fields hall
  rw [hsp] at hall
  obtain ⟨r1, g', r2, rfl, _, hg, h2⟩ := c17_All2_split _ _ _ _ hall
  obtain ⟨r3, f', r4, rfl, _, hf, _⟩ := c17_All2_split _ _ _ _ h2
  obtain ⟨_, g2, g3, _, _, g6⟩ := c17_mk_ok opts g g' hg
  obtain ⟨_, f2, f3, _, _, f6⟩ := c17_mk_ok opts f f' hf
  exact c17_posBounds_mandatory_after_optional opts.inFormat g' f' r3 r4 (g3.trans gi) (g2.trans gk) (g6.trans gd)
    (f3.trans hi) (f2.trans hk) (f6.trans hd) r1 0 0 false

/-- (b) lifted: a mandatory keyword-only field while `"tuple"` is an input format -/
theorem c17_processClass_kwonly_tuple (d : ClassDeclM) (parent : Option ClassM)
    (bound : List (String × Ty)) (pp : List String) (opts : Opts) (ho : c17_effOpts d parent = .ok opts)
    (ht : opts.inFormat.contains "tuple" = true) (f : SpecM) (hmem : f ∈ c17_merged d parent bound opts)
    (hi : f.init = true) (hk : f.kwOnly = true) (hd : c17_specHasDefault f = false) :
    ∃ e, processClass d parent bound pp = .error e ∧
      ((c17_merged d parent bound opts).mapM (c17_mk opts) = .error e ∨ ∃ msg, e = .typeError msg) := by
  apply c17_processClass_refused d parent bound pp opts ho
  intro fields hall
  have hmem' : f ∈ c17_order (·.kwOnly) (c17_merged d parent bound opts) := by
    unfold c17_order
    rw [List.mem_append, List.mem_filter, List.mem_filter]
    exact .inr ⟨hmem, hk⟩
  obtain ⟨pre, post, hsp⟩ := List.append_of_mem hmem'
  rw [hsp] at hall
  obtain ⟨r1, f', r2, rfl, _, hf, _⟩ := c17_All2_split _ _ _ _ hall
  obtain ⟨_, f2, f3, _, _, f6⟩ := c17_mk_ok opts f f' hf
  exact c17_posBounds_kwonly_tuple opts.inFormat f' r2 ht (f3.trans hi) (f2.trans hk) (f6.trans hd) r1 0 0 false

/-- (c) lifted: a field whose name cannot be split, under a class-level output rename style -/
theorem c17_processClass_rename_error (d : ClassDeclM) (parent : Option ClassM)
    (bound : List (String × Ty)) (pp : List String) (opts : Opts) (ho : c17_effOpts d parent = .ok opts)
    (st : String) (hst : opts.outRename = some st) (s : SpecM) (hmem : s ∈ c17_merged d parent bound opts)
    (h1 : s.outName = none) (h2 : s.rename = none) (h3 : renameField s.name st = none) :
    ∃ e, processClass d parent bound pp = .error e ∧
      ((∃ s' ∈ c17_merged d parent bound opts, e = c17_renameErr s'.name) ∨
        e = .typeError "Can only specify one of 'rename', 'aliases', and 'in_names'") := by
  have hs : c17_mk opts s = .error (c17_renameErr s.name) := by
    unfold c17_mk; rw [hst]; exact c17_makeField_rename_error s _ st _ h1 h2 h3
  obtain ⟨e', a', ha', hfa', hm⟩ := c17_mapM_fails (c17_mk opts) _ s _ hmem hs
  refine ⟨e', ?_, ?_⟩
  · rw [c17_processClass_eq, ho]; simp only []; rw [hm]
  · rcases c17_makeField_error a' _ _ _ e' hfa' with h | h
    · exact .inl ⟨a', ha', h⟩
    · exact .inr h

/-! ## `mergeParams`, `Opts.apply`, `subscriptBound` -/

theorem c17_mergeParams_dedup (old declared : List String) :
    mergeParams (some "dedupKeepDeclared") old declared =
      if old.all (declared.contains ·) then declared else old ++ declared.filter (!old.contains ·) := rfl

theorem c17_mergeParams_concat (old declared : List String) :
    mergeParams (some "concat") old declared = old ++ declared := rfl

theorem c17_mergeParams_nodup (old declared : List String) (ho : old.Nodup) (hd : declared.Nodup) :
    (mergeParams (some "dedupKeepDeclared") old declared).Nodup := by
  rw [c17_mergeParams_dedup]
  split
  · exact hd
  · rw [List.nodup_append]
    refine ⟨ho, hd.filter _, ?_⟩
    intro a ha b hb hab
    subst hab
    rw [List.mem_filter] at hb
    have := hb.2
    simp [ha] at this

theorem c17_apply_eq (o : Opts) (ov : OptsOverride) (inh : Bool) :
    o.apply ov inh =
      if ov.rename.isSome && (ov.inRename.isSome || ov.outRename.isSome) then
        .error (.valueError "'rename' cannot be specified with 'in_rename' or 'out_rename'")
      else
        .ok { outFormat := ov.outFormat.getD o.outFormat
              inFormat := ov.inFormat.getD o.inFormat
              eq := ov.eq.getD o.eq, order := ov.order.getD o.order, frozen := ov.frozen.getD o.frozen
              unsafeHash := ov.unsafeHash.getD o.unsafeHash
              kwOnly := ov.kwOnly.getD o.kwOnly, allowExtra := ov.allowExtra.getD o.allowExtra
              inRename := ((ov.rename.map fun r => [r]).or ov.inRename).or o.inRename
              outRename := (ov.rename.or ov.outRename).or o.outRename
              classHandlers := match ov.custom with
                | some hs => hs
                | none => if inh then o.classHandlers else [] } := by
  unfold Opts.apply
  split
  · rfl
  · cases ov.rename <;> cases ov.inRename <;> cases ov.outRename <;> rfl

/-! ## Example classes (for the non-vacuity examples of `Props/C17.lean`) -/

def c17_get (r : Except ClassErr ClassM) : ClassM :=
  match r with | .ok c => c | .error _ => default

def c17_err (r : Except ClassErr ClassM) : Option ClassErr :=
  match r with | .ok _ => none | .error e => some e

theorem c17_get_ok (r : Except ClassErr ClassM) (h : r.isOk = true) : r = .ok (c17_get r) := by
  cases r with
  | ok c => rfl
  | error e => cases h

def c17_T : Ty := .typeVar "T" none []
def c17_U : Ty := .typeVar "U" none []
def c17_int : Ty := .scalar "int"
def c17_str : Ty := .scalar "str"
def c17_list (t : Ty) : Ty := .seq "list" (some t)

/-- `class Base(PaneBase, Generic[T]): x: T; y: list[T] = field(default_factory=list); z: int = 3` -/
def c17_BaseDecl : ClassDeclM where
  name := "Base"
  tvars := ["T"]
  body := [.field { name := "x", ty := c17_T },
           .field { name := "y", ty := c17_list c17_T, default := .factory "list", viaFieldSpec := true },
           .field { name := "z", ty := c17_int, default := .value (.int 3) }]

def c17_Base : ClassM := c17_get (processClass c17_BaseDecl none [] [])

/-- the bindings of `Base[int]` -/
def c17_bInt : List (String × Ty) := [("T", c17_int)]

/-- `class Child(Base[int]): z: int; _: KW_ONLY; w: str; y: list[str] = field(default_factory=list)`:
`z` re-annotated bare (inherits the default 3), a marker, an added field, `y` redeclared after the marker -/
def c17_ChildDecl : ClassDeclM where
  name := "Child"
  base := some ("Base", [c17_int])
  body := [.field { name := "z", ty := c17_int },
           .kwOnlyMarker,
           .field { name := "w", ty := c17_str },
           .field { name := "y", ty := c17_list c17_str, default := .factory "list", viaFieldSpec := true }]

def c17_Child : ClassM := c17_get (processClass c17_ChildDecl (some c17_Base) c17_bInt [])

/-- like `Child`, but `z: int = field()` — declared through `field(...)`, so no inherited default -/
def c17_ChildViaDecl : ClassDeclM where
  name := "ChildVia"
  base := some ("Base", [c17_int])
  body := [.field { name := "z", ty := c17_int, viaFieldSpec := true }]

/-- `class Mid(Base[list[U]], Generic[U]): pass` — re-parameterisation -/
def c17_MidDecl : ClassDeclM where
  name := "Mid"
  base := some ("Base", [c17_list c17_U])
  tvars := ["U"]

def c17_bListU : List (String × Ty) := [("T", c17_list c17_U)]
def c17_Mid : ClassM := c17_get (processClass c17_MidDecl (some c17_Base) c17_bListU ["U"])

/-- `class Leaf(Mid[int]): v: bool = False` -/
def c17_LeafDecl : ClassDeclM where
  name := "Leaf"
  base := some ("Mid", [c17_int])
  body := [.field { name := "v", ty := .scalar "bool", default := .value (.bool false) }]

def c17_bUInt : List (String × Ty) := [("U", c17_int)]
def c17_Leaf : ClassM := c17_get (processClass c17_LeafDecl (some c17_Mid) c17_bUInt [])

/-- `class Kw(Child, kw_only=True, frozen=False, rename='camel'): some_field: int = 0` -/
def c17_KwDecl : ClassDeclM where
  name := "Kw"
  base := some ("Child", [])
  opts := { kwOnly := some true, frozen := some false, rename := some "camel" }
  body := [.field { name := "some_field", ty := c17_int, default := .value (.int 0) }]

def c17_Kw : ClassM := c17_get (processClass c17_KwDecl (some c17_Child) [] [])

/-- `class KwSub(Kw): other_one: int` — `kw_only` and the rename styles are inherited -/
def c17_KwSubDecl : ClassDeclM where
  name := "KwSub"
  base := some ("Kw", [])
  body := [.field { name := "other_one", ty := c17_int }]

def c17_KwSub : ClassM := c17_get (processClass c17_KwSubDecl (some c17_Kw) [] [])

/-- `class BadA(Base[int]): q: int` — mandatory `q` after the optional `y`, `z` -/
def c17_BadADecl : ClassDeclM where
  name := "BadA"
  base := some ("Base", [c17_int])
  body := [.field { name := "q", ty := c17_int }]

/-- `class BadB(Base[int], in_format=('tuple',)): _: KW_ONLY; k: int` -/
def c17_BadBDecl : ClassDeclM where
  name := "BadB"
  base := some ("Base", [c17_int])
  opts := { inFormat := some ["tuple"] }
  body := [.kwOnlyMarker, .field { name := "k", ty := c17_int }]

/-- `class BadC(Base[int], out_rename='camel'): __q__: int = 0` -/
def c17_BadCDecl : ClassDeclM where
  name := "BadC"
  base := some ("Base", [c17_int])
  opts := { outRename := some "camel" }
  body := [.field { name := "__q__", ty := c17_int, default := .value (.int 0) }]

/-! the example classes are created -/
theorem c17_BaseOk : processClass c17_BaseDecl none [] [] = .ok c17_Base := c17_get_ok _ (by decide)
theorem c17_ChildOk : processClass c17_ChildDecl (some c17_Base) c17_bInt [] = .ok c17_Child :=
  c17_get_ok _ (by decide)
theorem c17_MidOk : processClass c17_MidDecl (some c17_Base) c17_bListU ["U"] = .ok c17_Mid :=
  c17_get_ok _ (by decide)
theorem c17_LeafOk : processClass c17_LeafDecl (some c17_Mid) c17_bUInt [] = .ok c17_Leaf :=
  c17_get_ok _ (by decide)
theorem c17_KwOk : processClass c17_KwDecl (some c17_Child) [] [] = .ok c17_Kw := c17_get_ok _ (by decide)
theorem c17_KwSubOk : processClass c17_KwSubDecl (some c17_Kw) [] [] = .ok c17_KwSub := c17_get_ok _ (by decide)

end PaneModel.PaneProofs
