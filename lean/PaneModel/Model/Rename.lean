/-
  Model of `pane/field.py` : `_split_field_name`, `_CONVERT_FNS`, `rename_field`.

  Import-free (core Lean only).  Everything is total and computable.

  Characters are ABSTRACT LETTERS: `lo i` / `up i` are the 26 ASCII lower / upper case letters,
  `us` is '_', `dash` is '-', and `other n` stands for any *uncased, non-separator* character
  (digits, punctuation, ...).  Cased characters outside ASCII are outside the model.
-/

namespace PaneModel.Rename

inductive Ch
  | lo (i : Fin 26)
  | up (i : Fin 26)
  | us
  | dash
  | other (n : Nat)
  deriving DecidableEq, Repr

inductive Style
  | snake | scream | kebab | camel | pascal
  deriving DecidableEq, Repr

namespace Ch

/-- `str.lower()` on one character. -/
def lower : Ch → Ch
  | up i => lo i
  | c => c

/-- `str.upper()` on one character. -/
def upper : Ch → Ch
  | lo i => up i
  | c => c

def isLo : Ch → Bool
  | lo _ => true
  | _ => false

def isUp : Ch → Bool
  | up _ => true
  | _ => false

def isCased : Ch → Bool
  | lo _ => true
  | up _ => true
  | _ => false

/-- Matches the regular expression `[_-]`. -/
def isSep : Ch → Bool
  | us => true
  | dash => true
  | _ => false

end Ch

open Ch

/-- `s.lower()`. -/
def lowerAll (w : List Ch) : List Ch := w.map Ch.lower

/-- `s.upper()`. -/
def upperAll (w : List Ch) : List Ch := w.map Ch.upper

/-- Put `c` in front of the first part. (The `[]` case is never reached from `splitSep`.) -/
def consHead (c : Ch) : List (List Ch) → List (List Ch)
  | [] => [[c]]
  | p :: ps => (c :: p) :: ps

/-- `re.split(r'[_-]', s)`: `n` separators give `n+1` parts, possibly empty. -/
def splitSep : List Ch → List (List Ch)
  | [] => [[]]
  | c :: cs => if c.isSep then [] :: splitSep cs else consHead c (splitSep cs)

/-- `str.isupper()`: at least one cased character and no lowercase one. -/
def isupper (w : List Ch) : Bool := w.any Ch.isCased && w.all (fun c => !c.isLo)

/-- `str.islower()`: at least one cased character and no uppercase one. -/
def islower (w : List Ch) : Bool := w.any Ch.isCased && w.all (fun c => !c.isUp)

/-- The scan of `str.istitle()`; `prev` = "the previous character is cased". -/
def titleOk : Bool → List Ch → Bool
  | _, [] => true
  | prev, c :: cs =>
    if c.isUp then !prev && titleOk true cs
    else if c.isLo then prev && titleOk true cs
    else titleOk false cs

/-- `str.istitle()`: at least one cased character, an uppercase letter may only follow an uncased
character (or the start), a lowercase one may only follow a cased character. -/
def istitle (w : List Ch) : Bool := w.any Ch.isCased && titleOk false w

/-- The scan of `str.title()`; `prev` = "the previous character is cased". -/
def titleAux : Bool → List Ch → List Ch
  | _, [] => []
  | prev, c :: cs => (if prev then c.lower else c.upper) :: titleAux c.isCased cs

/-- `str.title()`: a cased character following an uncased one (or the start) is upper-cased, a cased
character following a cased one is lower-cased; uncased characters are unchanged. -/
def title (w : List Ch) : List Ch := titleAux false w

/-- `re.split(r'([A-Z])', s)` regrouped: returns `(pre, [C1 ++ seg1, C2 ++ seg2, …])` where `pre`
is the text before the first capital and every chunk starts at a capital and runs up to the next
one.  (`re.split` with one capture group returns `[pre, C1, seg1, C2, seg2, …]`, an odd number of
items, so `_pairwise(seps[1:])` never drops anything.) -/
def chunkR : List Ch → List Ch × List (List Ch)
  | [] => ([], [])
  | c :: cs =>
    if c.isUp then ([], (c :: (chunkR cs).1) :: (chunkR cs).2)
    else (c :: (chunkR cs).1, (chunkR cs).2)

/-- The inner generator `split_case`. -/
def splitCase (w : List Ch) : List (List Ch) :=
  if isupper w || islower w || istitle w then [w]
  else if (chunkR w).1 = [] then (chunkR w).2
  else (chunkR w).1 :: (chunkR w).2

/-- `_split_field_name`; `none` = `ValueError` (some part between separators is empty; this includes
the empty name, whose only part is `""`). -/
def splitFieldName (name : List Ch) : Option (List (List Ch)) :=
  if (splitSep name).any List.isEmpty then none
  else some ((splitSep name).map splitCase).flatten

/-- The `camel` entry of `_CONVERT_FNS`: first part lower-cased, the others title-cased. -/
def camelJoin : List (List Ch) → List Ch
  | [] => []
  | p :: ps => lowerAll p ++ (ps.map title).flatten

/-- `_CONVERT_FNS[style]`. -/
def joiner : Style → List (List Ch) → List Ch
  | .snake, ps => List.intercalate [Ch.us] (ps.map lowerAll)
  | .scream, ps => List.intercalate [Ch.us] (ps.map upperAll)
  | .kebab, ps => List.intercalate [Ch.dash] (ps.map lowerAll)
  | .camel, ps => camelJoin ps
  | .pascal, ps => (ps.map title).flatten

/-- `rename_field(name, style)` for `style` not `None`; `none` = `ValueError`. -/
def rename (s : Style) (name : List Ch) : Option (List Ch) :=
  (splitFieldName name).map (joiner s)

/-! ### Codec to concrete strings (for the driver; no theorems needed) -/

def Ch.ofChar (c : Char) : Ch :=
  if 'a' ≤ c ∧ c ≤ 'z' then .lo (Fin.ofNat 26 (c.toNat - 'a'.toNat))
  else if 'A' ≤ c ∧ c ≤ 'Z' then .up (Fin.ofNat 26 (c.toNat - 'A'.toNat))
  else if c = '_' then .us
  else if c = '-' then .dash
  else .other c.toNat

def Ch.toChar : Ch → Char
  | .lo i => Char.ofNat ('a'.toNat + i.val)
  | .up i => Char.ofNat ('A'.toNat + i.val)
  | .us => '_'
  | .dash => '-'
  | .other n => Char.ofNat n

def ofString (s : String) : List Ch := s.toList.map Ch.ofChar
def toString (w : List Ch) : String := String.ofList (w.map Ch.toChar)

def renameStr (s : Style) (name : String) : Option String :=
  (rename s (ofString name)).map toString

def splitStr (name : String) : Option (List String) :=
  (splitFieldName (ofString name)).map (fun ps => ps.map toString)

/-! ### Sanity tests (mirroring the library's own test-suite) -/

example : renameStr .snake "ToSnakeCase" = some "to_snake_case" := by decide
example : renameStr .scream "ToScream_Case" = some "TO_SCREAM_CASE" := by decide
example : renameStr .camel "To_CAMEL_case" = some "toCamelCase" := by decide
example : renameStr .kebab "To_kebab_Case" = some "to-kebab-case" := by decide
example : renameStr .pascal "toPascalCase" = some "ToPascalCase" := by decide
example : splitStr "test-KEBAB-Case" = some ["test", "KEBAB", "Case"] := by decide
example : splitStr "__test__" = none := by decide
example : splitStr "TEST_SCREAM_CASE" = some ["TEST", "SCREAM", "CASE"] := by decide
example : splitStr "testCamelCase" = some ["test", "Camel", "Case"] := by decide
example : splitStr "" = none := by decide
example : splitStr "ABc" = some ["A", "Bc"] := by decide
example : splitStr "a1B2" = some ["a1", "B2"] := by decide

#eval renameStr .snake "ToSnakeCase"
#eval renameStr .pascal "a_b"
#eval (renameStr .pascal "a_b").bind (renameStr .snake)
#eval splitStr "test-KEBAB-Case"

end PaneModel.Rename
