#!/usr/bin/env python3
"""Confirm a seeded change (patch + demo) in its scratch worktree, keep it under /verif/seeded/<id>/, run the
registered checks against it in /repo, undo it.  usage: seedtest.py <Cxx> <n> [extra check ids …]"""
import json, os, shutil, subprocess, sys, time
pid, n = sys.argv[1], sys.argv[2]
others = sys.argv[3:]
wt = f'/tmp/seed-{pid}' if int(n) <= 2 else (f'/tmp/seed2-{pid}' if int(n) <= 4 else (f'/tmp/seed3-{pid}' if int(n) <= 6 else (f'/tmp/seed4-{pid}' if int(n) <= 8 else f'/tmp/seed5-{pid}')))
if os.environ.get('SEED_WT'):
    wt = os.environ['SEED_WT']   # a later round's scratch worktree (e.g. /tmp/seed6-Cxx)
src = f'{wt}/out/{n}'
sid = f'{pid}-{n}'
dst = f'/verif/seeded/{sid}'
def sh(cmd, **kw):
    return subprocess.run(cmd, shell=True, capture_output=True, text=True, **kw)
meta = {'id': sid, 'breaks_property': pid, 'ran': []}
RERUN = (not os.path.isdir(wt) or os.environ.get('SEED_RERUN')) and os.path.exists(f'{dst}/meta.json')
if RERUN:
    # the scratch worktree is gone: the change was confirmed earlier, only re-run the checks against it
    meta = json.load(open(f'{dst}/meta.json'))
    meta['ran'] = []
if not RERUN:
  sh(f'git -C {wt} checkout -- pane')
  r = sh(f'cd {wt} && PYTHONPATH={wt} /venv/bin/python {src}/demo.py')
  meta['demo_clean'] = {'rc': r.returncode, 'tail': (r.stdout + r.stderr)[-300:]}
  r = sh(f'git -C {wt} apply {src}/patch.diff')
  assert r.returncode == 0, r.stderr
  t = sh(f'cd {wt} && /venv/bin/python -m pytest -q -p no:cacheprovider 2>&1 | tail -1')
  meta['tests_with_patch'] = t.stdout.strip()
  r = sh(f'cd {wt} && PYTHONPATH={wt} /venv/bin/python {src}/demo.py')
  meta['demo_patched'] = {'rc': r.returncode, 'tail': (r.stdout + r.stderr)[-400:]}
  sh(f'git -C {wt} checkout -- pane')
  ok = meta['demo_clean']['rc'] == 0 and meta['demo_patched']['rc'] != 0 and '218 passed' in meta['tests_with_patch']
  meta['confirmed'] = ok
  print('confirmed' if ok else 'NOT CONFIRMED', meta['tests_with_patch'], meta['demo_patched']['tail'][-150:].replace('\n', ' | '))
  if not ok:
      print(json.dumps(meta, indent=1)); sys.exit(1)
  os.makedirs(dst, exist_ok=True)
  for f in ('patch.diff', 'demo.py', 'README.md'):
      if os.path.exists(f'{src}/{f}'):
          shutil.copy(f'{src}/{f}', f'{dst}/{f}')
  meta['needs'] = open(f'{src}/README.md').read()[:1500] if os.path.exists(f'{src}/README.md') else ''
# 2. run the checks against it in /repo, then undo
assert sh('git -C /repo status --porcelain').stdout.strip() == '', 'repo not clean'
r = sh(f'git -C /repo apply {dst}/patch.diff')
assert r.returncode == 0, r.stderr
# the evidence files are records of the UNCHANGED tree: keep them out of the way while the change is applied
ev_backup = {c: open(f'/verif/evidence/{c}.json').read() for c in [pid] + others if os.path.exists(f'/verif/evidence/{c}.json')}
try:
    for c in [pid] + others:
        t0 = time.time()
        r = sh(f'cd /verif && ./check {c} --tier quick', timeout=1800)
        lines = [l for l in r.stdout.splitlines() if l.startswith(('VIOLATION', 'C')) and 'KNOWN' not in l]
        viol = [l for l in r.stdout.splitlines() if l.startswith('VIOLATION')]
        rep = None
        if viol and 'replay=' in viol[0]:
            rp = viol[0].split('replay=')[1].split()[0]
            try:
                d = json.load(open(f'/verif/{rp}'))
                fi = d.get('failing_input')
                rep = {'kind': fi.get('kind'), 'detail': str(fi.get('detail'))[:300], 'oracle': fi.get('oracle')} if fi else {'broken_theorems': d.get('broken_theorems'), 'n_dis': len(d.get('correspondence_disagreements', []))}
            except Exception as e:
                rep = str(e)
        meta['ran'].append({'check': c, 'rc': r.returncode, 'violation_line': viol[0] if viol else None, 'replay_summary': rep, 'wall_s': round(time.time() - t0, 1)})
        print(f'  check {c}: exit {r.returncode}', viol[0] if viol else '', json.dumps(rep)[:300] if rep else '')
finally:
    sh('git -C /repo checkout -- .')
    # the translator's output under the change is not the unchanged tree's: put the committed one back
    sh('git -C /verif checkout -- lean/PaneModel/Generated/Facts.lean')
    for c, text in ev_backup.items():
        open(f'/verif/evidence/{c}.json', 'w').write(text)
meta['caught_by'] = [x['check'] for x in meta['ran'] if x['rc'] == 1]
json.dump(meta, open(f'{dst}/meta.json', 'w'), indent=1)
