import PaneModel.Props.C11
import PaneModel.Lemmas.Strict
/-!
# C02 — Strictness: no coercion across value kinds

The documented rule is transcribed as the decidable table `Admits target kind` (`Spec/Admits.lean`).
This file proves that the fast pass (and, for the shape gates, the diagnostic pass) never accepts a
(kind, target) cell the table forbids:

* `C02_scalar_table` — cell by cell, the extracted `_BASIC_CONVERTERS` accepts exactly the kinds
  `Admits` lists (checked by `decide` against the current source);
* `C02_scalar_strict`, `C02_table_strict` — a scalar converter accepts only instances of its allowed
  classes; hence every forbidden cell of the table is a `ParseInterrupt`;
* `C02_widening_only` — the only value changes are the lossless widenings `bool → int → float →
  complex` (exact numeric value kept) and the `bytes`/`bytearray` copy;
* `C02_str_not_sequence`, `C02_mapping_vs_sequence`, `C02_none_only_where_allowed` — shape gates;
* `C02_every_context` — strictness is compositional: a container conversion succeeds only if every
  element conversion it performed succeeded on its own, so a forbidden cell is forbidden at any depth.

Values of user subclasses of scalars (`Val.sub`) are looked through (`Val.base`): `isinstance` does.
-/
namespace PaneModel

variable {E : Ext}

/-! ## The table itself says what the documentation says -/

/-- sanity of the transcription: the documented sentences, cell by cell -/
theorem C02_admits_spec :
    -- a str only by str / string-serialised / value-compared targets
    (∀ t ∈ ["int", "float", "complex", "bool", "bytes", "bytearray", "NoneType", "dataclass"] ++ seqTargets ++ mapTargets,
      Admits t .str = false) ∧
    (∀ t ∈ ["str"] ++ stringSerialised ++ valueTargets, Admits t .str = true) ∧
    -- a float never by int / bool; a complex never by int / bool / float; an int never by bool
    Admits "int" .float = false ∧ Admits "bool" .float = false ∧
    Admits "int" .complex = false ∧ Admits "bool" .complex = false ∧ Admits "float" .complex = false ∧
    Admits "bool" .int = false ∧
    -- bool is a sub-kind of int
    Admits "int" .bool = true ∧ Admits "float" .bool = true ∧ Admits "complex" .bool = true ∧
    (∀ t ∈ ["bool", "int", "float", "complex", "str", "bytes", "bytearray", "NoneType", "Decimal", "Fraction",
        "datetime", "date", "time"], Admits t .int = true → Admits t .bool = true) ∧
    -- str / bytes / bytearray never by a sequence-like target, a mapping-like target or a dataclass
    (∀ t ∈ seqTargets ++ mapTargets ++ ["dataclass"], ∀ k ∈ [Val.Kind.str, .bytes, .bytearray], Admits t k = false) ∧
    -- a mapping never by a sequence-like target, a sequence never by a mapping-like target
    (∀ t ∈ seqTargets, ∀ k ∈ tableKinds, Admits t k = [Val.Kind.list, .tuple, .deque].contains k) ∧
    (∀ t ∈ mapTargets, ∀ k ∈ tableKinds, Admits t k = [Val.Kind.dict, .mapOf].contains k) ∧
    (∀ k ∈ tableKinds, Admits "dataclass" k = [Val.Kind.list, .tuple, .deque, .dict, .mapOf].contains k) ∧
    -- None only by NoneType and the value-compared targets
    (∀ t ∈ ["int", "float", "complex", "bool", "str", "bytes", "bytearray", "Decimal", "Fraction", "datetime",
        "date", "time", "Path", "Pattern", "dataclass"] ++ seqTargets ++ mapTargets, Admits t .none = false) ∧
    (∀ t ∈ ["NoneType"] ++ valueTargets, Admits t .none = true) := by
  decide

/-! ## The scalar table -/

/-- **Cell by cell**: for every row of the extracted `_BASIC_CONVERTERS` and every kind of value, the
row's allowed classes (resp. the `None` / datetime converter) accept that kind **iff** `Admits` does.
In particular the forbidden cells are absent from the source. -/
theorem C02_scalar_table :
    (∀ r ∈ Facts.basicTable, ∀ k ∈ tableKinds, Admits r.1 k = r.2.admitsKind k) ∧
    ACls.str ∉ allowedOf "int" ∧ ACls.float ∉ allowedOf "int" ∧ ACls.complex ∉ allowedOf "int" ∧
    ACls.int ∉ allowedOf "bool" ∧ ACls.float ∉ allowedOf "bool" ∧ ACls.str ∉ allowedOf "bool" ∧
    ACls.complex ∉ allowedOf "float" ∧ ACls.str ∉ allowedOf "float" ∧ ACls.str ∉ allowedOf "complex" ∧
    ACls.int ∉ allowedOf "str" ∧ ACls.bytes ∉ allowedOf "str" ∧ ACls.str ∉ allowedOf "bytes" ∧
    ACls.complex ∉ allowedOf "Decimal" ∧ ACls.complex ∉ allowedOf "Fraction" ∧
    allowedOf "int" = [.int] ∧ allowedOf "bool" = [.bool] := by
  decide

/-- the `datetime` / `date` / `time` rows on typed input: the table lists exactly the cells of the
conversion table of `DatetimeConverter` (`dtCell`) that are not refusals — the three `id` cells,
`datetime → date`, `datetime → time`, `date → datetime`; never `time → date / datetime`, never
`date → time` -/
theorem C02_datetime_cells :
    (∀ ty ∈ ["datetime", "date", "time"], ∀ k ∈ ["datetime", "date", "time"],
      Admits ty (.opaque k) = (dtCell ty k != .refuse)) ∧
    Admits "date" (.opaque "datetime") = true ∧ Admits "time" (.opaque "datetime") = true ∧
    Admits "datetime" (.opaque "date") = true ∧
    Admits "date" (.opaque "time") = false ∧ Admits "datetime" (.opaque "time") = false ∧
    Admits "time" (.opaque "date") = false := by
  decide

/-- … and whatever the date/time converter accepts (a `str`, or a typed value — instances of user
subclasses looked through) is a cell its row lists -/
theorem C02_datetime_typed_strict {ty : String} {v x : Val}
    (h : tryC E (.datetime ty) v = .ok x) : (Conv.datetime ty).admitsKind v.base.kind = true := by
  cases hk : (Conv.datetime ty).admitsKind v.base.kind with
  | true => rfl
  | false => rw [leaf_strict _ _ hk] at h; cases h

/-- a scalar converter accepts only instances of its allowed classes (`isinstance(val, self.allowed)`
comes first, and nothing else can produce a value) -/
theorem C02_scalar_strict {ty allowed ser e ep} {v x : Val}
    (h : tryC E (.scalar ty allowed ser e ep) v = .ok x) : allowed.any (·.admits v) = true :=
  scalar_ok_admits h

/-- … and rejects everything else, in both passes, without calling the constructor -/
theorem C02_scalar_reject {ty allowed ser e ep} {v : Val} (h : allowed.any (·.admits v) = false) :
    tryC E (.scalar ty allowed ser e ep) v = .interrupt ∧
    colC E (.scalar ty allowed ser e ep) v =
      .ok (some (.wrongType (expected E (.scalar ty allowed ser e ep) false) v none none)) :=
  ⟨scalar_reject h, scalar_reject_col h⟩

/-- **Every forbidden cell of the scalar table is a `ParseInterrupt`.** -/
theorem C02_table_strict (r : String × Conv) (hr : r ∈ Facts.basicTable) (v : Val)
    (hk : v.base.kind ∈ tableKinds) (hA : Admits r.1 v.base.kind = false) : tryC E r.2 v = .interrupt := by
  apply leaf_strict
  rw [← C02_scalar_table.1 r hr _ hk]
  exact hA

/-- the instances named in the documentation (rows looked up in the extracted table) -/
theorem C02_scalar_strict_instances (s : String) (f re im : Flt) (i : Int) :
    tryC E (row "int") (.str s) = .interrupt ∧
    tryC E (row "int") (.float f) = .interrupt ∧
    tryC E (row "int") (.complex re im) = .interrupt ∧
    tryC E (row "bool") (.int i) = .interrupt ∧
    tryC E (row "bool") (.float f) = .interrupt ∧
    tryC E (row "bool") (.str s) = .interrupt ∧
    tryC E (row "float") (.complex re im) = .interrupt ∧
    tryC E (row "float") (.str s) = .interrupt ∧
    tryC E (row "complex") (.str s) = .interrupt ∧
    tryC E (row "str") (.int i) = .interrupt ∧
    tryC E (row "str") (.bytes s) = .interrupt ∧
    tryC E (row "bytes") (.str s) = .interrupt ∧
    tryC E (row "Decimal") (.complex re im) = .interrupt ∧
    tryC E (row "Decimal") (.bytes s) = .interrupt :=
  ⟨rfl, rfl, rfl, rfl, rfl, rfl, rfl, rfl, rfl, rfl, rfl, rfl, rfl, rfl⟩

/-! ## Widening only -/

/-- whatever a scalar converter returns is either the documented table's answer — and then the value
is unchanged, or its kind is widened with the exact numeric value kept, or it is a `bytes`/`bytearray`
copy — or, where the table has no row (`Decimal`, `Fraction`, paths, `float(int ≥ 2⁵³)`), the standard
library constructor's answer -/
theorem C02_value_change_is_widening {ty allowed ser e ep} {v x : Val}
    (h : tryC E (.scalar ty allowed ser e ep) v = .ok x) :
    (CtorYields ty v.base x ∧
      (x = v.base ∨ (∃ p, v.base.numParts = some p ∧ x.numParts = some p) ∨
       (∃ s, (v.base = .bytes s ∨ v.base = .bytearray s) ∧ (x = .bytes s ∨ x = .bytearray s)))) ∨
    ((¬ ∃ y, CtorYields ty v.base y) ∧ E.call ty v.base = .ok x) := by
  have ha := scalar_ok_admits h
  simp only [tryC, ha, if_true] at h
  rw [guardTry_eq_ok_iff, builtinCtor_ok_iff] at h
  rcases h with h | h
  · exact .inl ⟨h, h.lossless⟩
  · exact .inr h

/-- on the built-in numeric targets: the lossless widenings, and same-kind input unchanged -/
theorem C02_widening_only (i : Int) (hi : i.natAbs < exactFloatBound) (b : Bool) (f re im : Flt) (s : String) :
    tryC E (row "float") (.int i) = .ok (.float (.fin i 0)) ∧
    tryC E (row "complex") (.int i) = .ok (.complex (.fin i 0) (.fin 0 0)) ∧
    tryC E (row "complex") (.float f) = .ok (.complex f (.fin 0 0)) ∧
    tryC E (row "int") (.bool b) = .ok (.int (if b then 1 else 0)) ∧
    tryC E (row "float") (.bool b) = .ok (.float (.fin (if b then 1 else 0) 0)) ∧
    -- same kind: unchanged
    tryC E (row "bool") (.bool b) = .ok (.bool b) ∧
    tryC E (row "int") (.int i) = .ok (.int i) ∧
    tryC E (row "float") (.float f) = .ok (.float f) ∧
    tryC E (row "complex") (.complex re im) = .ok (.complex re im) ∧
    tryC E (row "str") (.str s) = .ok (.str s) ∧
    tryC E (row "bytes") (.bytes s) = .ok (.bytes s) ∧
    tryC E (row "bytearray") (.bytearray s) = .ok (.bytearray s) := by
  obtain ⟨_, _, _, hf⟩ : ∃ ser e ep, row "float" = .scalar "float" [.int, .float] ser e ep := ⟨_, _, _, rfl⟩
  obtain ⟨_, _, _, hc⟩ : ∃ ser e ep, row "complex" = .scalar "complex" [.int, .float, .complex] ser e ep :=
    ⟨_, _, _, rfl⟩
  refine ⟨?_, ?_, rfl, rfl, rfl, rfl, rfl, rfl, rfl, rfl, rfl, rfl⟩
  · rw [hf]; exact scalar_value rfl (.float_int i rfl hi)
  · rw [hc]; exact scalar_value rfl (.complex_int i rfl hi)

/-! ## str / bytes / bytearray are never sequences -/

/-- a `str`, `bytes` or `bytearray` is rejected by every sequence-like, mapping-like and dataclass
target — no character-wise traversal, no character-wise binding to a positional layout — and is
handed whole to the leaf converter of an n-d array.  `hgate`: the dataclass routes values to the
positional layout with `data_is_sequence` (closed by `decide` in `C02_str_not_sequence'`). -/
theorem C02_str_not_sequence (hgate : Facts.paneTupleGateTry = some "data_is_sequence")
    {v : Val} (hv : v.isStringy = true) :
    (∀ kind c, tryC E (.seq kind c) v = .interrupt) ∧
    (∀ cs, tryC E (.tuple cs) v = .interrupt) ∧
    (∀ kind k vc, tryC E (.dict kind k vc) v = .interrupt) ∧
    (∀ names cs, tryC E (.struct names cs) v = .interrupt) ∧
    (∀ cs tag tm layout, tryC E (.tagged cs tag tm layout) v = .interrupt) ∧
    (∀ info cs, tryC E (.pane info cs) v = .interrupt) ∧
    (∀ f : Val → Outcome Val, nestedTry f v = f v) := by
  obtain ⟨hs, hm⟩ := isStringy_not_seq hv
  exact ⟨fun _ _ => seq_reject hs, fun _ => tuple_reject hs, fun _ _ _ => dict_reject hm,
    fun _ _ => struct_reject hm, fun _ _ _ _ => tagged_reject hm, fun _ _ => pane_reject hgate hs hm,
    fun _ => nestedTry_leaf hs⟩

/-- the n-d array converter does not iterate a `str` / `bytes` either: if it accepts one at all, its
leaf converter accepted the whole string as one (0-d) element -/
theorem C02_nested_leaf {c : Conv} {v x : Val} (hv : v.isStringy = true) (h : tryC E (.nested c) v = .ok x) :
    ∃ r, tryC E c v = .ok r := by
  simp only [tryC] at h
  rw [bind_eq_ok_iff] at h
  obtain ⟨r, h1, _⟩ := h
  rw [nestedTry_leaf (isStringy_not_seq hv).1] at h1
  exact ⟨r, h1⟩

/-- the gate fact, discharged against the current source -/
theorem C02_str_not_sequence' {v : Val} (hv : v.isStringy = true) :
    (∀ kind c, tryC E (.seq kind c) v = .interrupt) ∧
    (∀ cs, tryC E (.tuple cs) v = .interrupt) ∧
    (∀ kind k vc, tryC E (.dict kind k vc) v = .interrupt) ∧
    (∀ names cs, tryC E (.struct names cs) v = .interrupt) ∧
    (∀ cs tag tm layout, tryC E (.tagged cs tag tm layout) v = .interrupt) ∧
    (∀ info cs, tryC E (.pane info cs) v = .interrupt) ∧
    (∀ f : Val → Outcome Val, nestedTry f v = f v) :=
  C02_str_not_sequence (by decide) hv

/-- the diagnostic pass reports the same rejections as one `wrongType` leaf about the whole value -/
theorem C02_str_not_sequence_diag (hgate : Facts.paneTupleGateCollect = some "data_is_sequence")
    {v : Val} (hv : v.isStringy = true) :
    (∀ kind c, colC E (.seq kind c) v = .ok (some (.wrongType (expected E (.seq kind c) false) v none none))) ∧
    (∀ cs, colC E (.tuple cs) v = .ok (some (.wrongType (expected E (.tuple cs) false) v none none))) ∧
    (∀ kind k vc, colC E (.dict kind k vc) v =
      .ok (some (.wrongType (expected E (.dict kind k vc) false) v none none))) ∧
    (∀ names cs, colC E (.struct names cs) v =
      .ok (some (.wrongType (expected E (.struct names cs) false) v none none))) ∧
    (∀ info cs, colC E (.pane info cs) v = .ok (some (.wrongType info.name v none none))) := by
  obtain ⟨hs, hm⟩ := isStringy_not_seq hv
  exact ⟨fun _ _ => seq_reject_col hs, fun _ => tuple_reject_col hs, fun _ _ _ => dict_reject_col hm,
    fun _ _ => struct_reject_col hm, fun _ _ => pane_reject_col hgate hs hm⟩

theorem C02_str_not_sequence_diag' {v : Val} (hv : v.isStringy = true) :
    (∀ kind c, colC E (.seq kind c) v = .ok (some (.wrongType (expected E (.seq kind c) false) v none none))) ∧
    (∀ cs, colC E (.tuple cs) v = .ok (some (.wrongType (expected E (.tuple cs) false) v none none))) ∧
    (∀ kind k vc, colC E (.dict kind k vc) v =
      .ok (some (.wrongType (expected E (.dict kind k vc) false) v none none))) ∧
    (∀ names cs, colC E (.struct names cs) v =
      .ok (some (.wrongType (expected E (.struct names cs) false) v none none))) ∧
    (∀ info cs, colC E (.pane info cs) v = .ok (some (.wrongType info.name v none none))) :=
  C02_str_not_sequence_diag (by decide) hv

/-! ## Mappings vs sequences -/

/-- a mapping is rejected by the sequence-like targets; a sequence by the mapping-like targets -/
theorem C02_mapping_vs_sequence {v : Val} :
    (v.isMap = true → (∀ kind c, tryC E (.seq kind c) v = .interrupt) ∧ (∀ cs, tryC E (.tuple cs) v = .interrupt)) ∧
    (v.isSeq = true → (∀ kind k vc, tryC E (.dict kind k vc) v = .interrupt) ∧
      (∀ names cs, tryC E (.struct names cs) v = .interrupt) ∧
      (∀ cs tag tm layout, tryC E (.tagged cs tag tm layout) v = .interrupt)) := by
  constructor
  · intro hm
    have hs : v.isSeq = false := by cases v <;> first | rfl | exact Bool.noConfusion hm
    exact ⟨fun _ _ => seq_reject hs, fun _ => tuple_reject hs⟩
  · intro hs
    have hm : v.isMap = false := by cases v <;> first | rfl | exact Bool.noConfusion hs
    exact ⟨fun _ _ _ => dict_reject hm, fun _ _ => struct_reject hm, fun _ _ _ _ => tagged_reject hm⟩

/-- conversely, what the container converters accept has the right shape -/
theorem C02_container_shape {v x : Val} :
    (∀ kind c, tryC E (.seq kind c) v = .ok x → v.isSeq = true) ∧
    (∀ cs, tryC E (.tuple cs) v = .ok x → v.isSeq = true) ∧
    (∀ kind k vc, tryC E (.dict kind k vc) v = .ok x → v.isMap = true) ∧
    (∀ names cs, tryC E (.struct names cs) v = .ok x → v.isMap = true) :=
  ⟨fun _ _ h => (seq_ok_items h).1, fun _ h => (tuple_ok_items h).1, fun _ _ _ h => (dict_ok_items h).1,
   fun _ _ h => (struct_ok_items h).1⟩

/-! ## `None` -/

/-- `None` is rejected by every row of the scalar table except `NoneType`, by the collection, struct,
datetime and dataclass converters, and by `Pattern` (whose inner converter is the `str`/`bytes` row) -/
theorem C02_none_only_where_allowed (hgate : Facts.paneTupleGateTry = some "data_is_sequence") :
    (∀ r ∈ Facts.basicTable, r.1 ≠ "NoneType" → tryC E r.2 .none = .interrupt) ∧
    (∀ kind c, tryC E (.seq kind c) .none = .interrupt) ∧
    (∀ cs, tryC E (.tuple cs) .none = .interrupt) ∧
    (∀ kind k vc, tryC E (.dict kind k vc) .none = .interrupt) ∧
    (∀ names cs, tryC E (.struct names cs) .none = .interrupt) ∧
    (∀ ty, tryC E (.datetime ty) .none = .interrupt) ∧
    (∀ b inner, tryC E inner .none = .interrupt → tryC E (.pattern b inner) .none = .interrupt) ∧
    (∀ b, tryC E (.pattern b (row "str")) .none = .interrupt ∧ tryC E (.pattern b (row "bytes")) .none = .interrupt) ∧
    (∀ info cs, tryC E (.pane info cs) .none = .interrupt) := by
  have hpat : ∀ b inner, tryC E inner .none = .interrupt → tryC E (.pattern b inner) .none = .interrupt := by
    intro b inner h
    rw [tryC_pattern]
    show (tryC E inner .none).bind _ = _
    rw [h]; rfl
  refine ⟨?_, fun _ _ => seq_reject rfl, fun _ => tuple_reject rfl, fun _ _ _ => dict_reject rfl,
    fun _ _ => struct_reject rfl, fun _ => rfl, hpat, fun b => ⟨hpat b _ rfl, hpat b _ rfl⟩,
    fun _ _ => pane_reject hgate rfl rfl⟩
  intro r hr hne
  refine C02_table_strict r hr .none (by decide) ?_
  have : ∀ r ∈ Facts.basicTable, r.1 ≠ "NoneType" → Admits r.1 .none = false := by decide
  exact this r hr hne

theorem C02_none_only_where_allowed' :
    (∀ r ∈ Facts.basicTable, r.1 ≠ "NoneType" → tryC E r.2 .none = .interrupt) ∧
    (∀ info cs, tryC E (.pane info cs) .none = .interrupt) :=
  ⟨(C02_none_only_where_allowed (by decide)).1, (C02_none_only_where_allowed (by decide)).2.2.2.2.2.2.2.2⟩

/-! ## Every context -/

/-- **Strictness is compositional.** If a container conversion succeeds, every element conversion it
performed succeeded on its own (there is no second, more lenient path for nested positions). -/
theorem C02_every_context {v x : Val} :
    -- homogeneous sequences: every item, by the item converter
    (∀ kind c, tryC E (.seq kind c) v = .ok x → ∀ e ∈ v.seqItems, ∃ y, tryC E c e = .ok y) ∧
    -- fixed tuples: slot by slot
    (∀ cs, tryC E (.tuple cs) v = .ok x → v.seqItems.length = cs.length ∧
      ∀ (i : Nat) (hc : i < cs.length) (hx : i < v.seqItems.length), ∃ y, tryC E cs[i] v.seqItems[i] = .ok y) ∧
    -- mappings: every key by the key converter and every value by the value converter
    (∀ kind k vc, tryC E (.dict kind k vc) v = .ok x →
      ∀ kv ∈ v.mapItems, (∃ k', tryC E k kv.1 = .ok k') ∧ ∃ v', tryC E vc kv.2 = .ok v') ∧
    -- struct literals: every entry by the converter declared for its (string) key
    (∀ names cs, tryC E (.struct names cs) v = .ok x →
      ∀ kv ∈ v.mapItems, ∃ s i, kv.1 = .str s ∧ names.idxOf? s = some i ∧
        ∃ (hi : i < cs.length) (y : Val), tryC E cs[i] kv.2 = .ok y) ∧
    -- unions: the value is the winning member's
    (∀ cs, tryC E (.union cs) v = .ok x → ∃ c ∈ cs, tryC E c v = .ok x) ∧
    -- conditions: the inner converter accepted
    (∀ inner c fmt, tryC E (.cond inner c fmt) v = .ok x → tryC E inner v = .ok x) := by
  refine ⟨?_, ?_, ?_, ?_, ?_, ?_⟩
  · intro kind c h e he
    obtain ⟨_, ys, hrel, _⟩ := seq_ok_items h
    exact hrel.forall_left e he
  · intro cs h
    obtain ⟨_, hl, ys, _, hyl, hget⟩ := tuple_ok_items h
    exact ⟨hl, fun i hc hx => ⟨ys[i]'(by rw [hyl]; exact hc), hget i hc hx _⟩⟩
  · intro kind k vc h kv hkv
    obtain ⟨_, kvs, hrel⟩ := dict_ok_items h
    obtain ⟨out, h1, h2⟩ := hrel.forall_left kv hkv
    exact ⟨⟨_, h1⟩, ⟨_, h2⟩⟩
  · intro names cs h kv hkv
    obtain ⟨_, kvs, _, hrel⟩ := struct_ok_items h
    obtain ⟨out, _, s, i, hs, hi, hlt, hy⟩ := hrel.forall_left kv hkv
    exact ⟨s, i, hs, hi, hlt, _, hy⟩
  · intro cs h
    obtain ⟨i, hi, h1, _⟩ := C11_result_is_leftmost h
    exact ⟨cs[i], List.getElem_mem hi, h1⟩
  · intro inner c fmt h
    simp only [tryC] at h
    rw [bind_eq_ok_iff] at h
    obtain ⟨y, h1, h2⟩ := h
    have : y = x := by
      cases hg : guardTry (Facts.catches .condTry) (evalCond E Facts.stockCond c y) with
      | ok b => rw [hg] at h2; cases b <;> first | (cases h2; rfl) | cases h2
      | interrupt => rw [hg] at h2; cases h2
      | leak e => rw [hg] at h2; cases h2
    rw [← this]; exact h1

/-- hence a forbidden cell is forbidden at any depth: every item of an accepted `list[T]` (`T` a row of
the scalar table) has a kind `Admits` lists for `T` — e.g. no `str` inside a `list[int]`, no `float`
inside a `set[int]`, no `int` inside a `tuple[bool, ...]` -/
theorem C02_forbidden_at_depth (r : String × Conv) (hr : r ∈ Facts.basicTable) {kind : String} {v x : Val}
    (h : tryC E (.seq kind r.2) v = .ok x) :
    ∀ e ∈ v.seqItems, e.base.kind ∈ tableKinds → Admits r.1 e.base.kind = true := by
  intro e he hk
  obtain ⟨y, hy⟩ := C02_every_context.1 kind r.2 h e he
  cases hA : Admits r.1 e.base.kind with
  | true => rfl
  | false => rw [C02_table_strict r hr e hk hA] at hy; cases hy

/-- two levels down: `dict[str, list[int]]` has no `str` among the inner items -/
theorem C02_forbidden_at_depth2 {k : Conv} (r : String × Conv) (hr : r ∈ Facts.basicTable) {kind dk : String}
    {v x : Val} (h : tryC E (.dict dk k (.seq kind r.2)) v = .ok x) :
    ∀ kv ∈ v.mapItems, ∀ e ∈ kv.2.seqItems, e.base.kind ∈ tableKinds → Admits r.1 e.base.kind = true := by
  intro kv hkv e he hk
  obtain ⟨_, v', hv'⟩ := C02_every_context.2.2.1 dk k _ h kv hkv
  exact C02_forbidden_at_depth r hr hv' e he hk

/-! ## Non-vacuity -/

example : tryC extRaising (.seq "list" (row "int")) (.list [.int 1, .bool true]) = .ok (.list [.int 1, .int 1]) := by rfl
example : tryC extRaising (.seq "list" (row "int")) (.list [.int 1, .str "2"]) = .interrupt := by rfl
example : tryC extRaising (.seq "list" (row "str")) (.str "abc") = .interrupt := by rfl
example : tryC extRaising (.pane exPoint [exInt, exInt]) (.str "ab") = .interrupt := by rfl
example : (Val.str "abc").isStringy = true := rfl
/-- `C02_table_strict` / `C02_forbidden_at_depth` apply to the looked-up rows -/
example : ("int", row "int") ∈ Facts.basicTable := lookup_mem rfl
example (s : String) : tryC extRaising (row "int") (.sub "MyStr" (.str s)) = .interrupt :=
  C02_table_strict ("int", row "int") (lookup_mem rfl) _
    (show Val.Kind.str ∈ tableKinds by decide) (show Admits "int" .str = false by decide)
/-- the string-serialised targets do read strings (the table is not simply "reject everything") -/
example : Admits "Decimal" .str = true ∧ (allowedOf "Decimal").contains .str = true := by decide

/-- **Observation** (not a defect of the model; to be checked against the intended rule): because `bool`
is a subclass of `int` and the `Decimal` / `Fraction` rows allow `int`, `True` is admitted by `Decimal`
and `Fraction` too (the result is whatever `Decimal(True)` is), not only by `int`/`float`/`complex`. -/
example : (allowedOf "Decimal").any (·.admits (.bool true)) = true ∧
    (allowedOf "Fraction").any (·.admits (.bool true)) = true := by decide

/-! ## Axioms -/

#print axioms C02_admits_spec
#print axioms C02_scalar_table
#print axioms C02_datetime_cells
#print axioms C02_datetime_typed_strict
#print axioms C02_scalar_strict
#print axioms C02_scalar_reject
#print axioms C02_table_strict
#print axioms C02_scalar_strict_instances
#print axioms C02_value_change_is_widening
#print axioms C02_widening_only
#print axioms C02_str_not_sequence
#print axioms C02_str_not_sequence'
#print axioms C02_nested_leaf
#print axioms C02_str_not_sequence_diag
#print axioms C02_str_not_sequence_diag'
#print axioms C02_mapping_vs_sequence
#print axioms C02_container_shape
#print axioms C02_none_only_where_allowed
#print axioms C02_none_only_where_allowed'
#print axioms C02_every_context
#print axioms C02_forbidden_at_depth
#print axioms C02_forbidden_at_depth2

end PaneModel
