import PaneModel.Model.Try
/-!
# State-passing view of a conversion pass (C09)

Lean values are immutable, so mutation is made explicit: `afterC copies c v` is the object graph of
the ARGUMENT after `c.try_convert(v)` / `c.collect_errors(v)` ran.  Every converter only reads its
argument except `TaggedUnionConverter` in the internal layout, which does
`val = val.copy(); tag = val.pop(self.tag)`: whether the copy happens is an extracted fact.  Effects
inside containers propagate outwards (a mutated element dict is the same object the outer list holds).
The function over-approximates which children are visited (all of them), which is the safe
direction for `afterC true c v = v`.
-/
namespace PaneModel

def mapSeqV (f : Val → Val) : Val → Val
  | .list xs => .list (xs.map f)
  | .tuple xs => .tuple (xs.map f)
  | .deque xs => .deque (xs.map f)
  | v => v

def zipApply : List (Val → Val) → List Val → List Val
  | f :: fs, x :: xs => f x :: zipApply fs xs
  | _, xs => xs

def zipSeqV (fs : List (Val → Val)) : Val → Val
  | .list xs => .list (zipApply fs xs)
  | .tuple xs => .tuple (zipApply fs xs)
  | .deque xs => .deque (zipApply fs xs)
  | v => v

def mapValsV (f : Val → Val → Val) : Val → Val
  | .dict kvs => .dict (kvs.map fun kv => (kv.1, f kv.1 kv.2))
  | .mapOf k kvs => .mapOf k (kvs.map fun kv => (kv.1, f kv.1 kv.2))
  | v => v

def foldApply : List (Val → Val) → Val → Val
  | [], v => v
  | f :: fs, v => foldApply fs (f v)

def applyIdx (fs : List (Val → Val)) (i : Option Nat) (v : Val) : Val :=
  match i with
  | some i => match fs[i]? with | some f => f v | none => v
  | none => v

/-- `val.pop(tag)` executed on the caller's own mapping (no copy first) -/
def popTag (tag : String) : Val → Val
  | .dict kvs => .dict (dictErase (.str tag) kvs)
  | .mapOf k kvs => .mapOf k (dictErase (.str tag) kvs)
  | v => v

mutual
def afterC (copies : Bool) : Conv → Val → Val
  | .tagged _ tag _ .internal, v => if copies then v else popTag tag v
  | .seq _ c, v => mapSeqV (afterC copies c) v
  | .nested c, v => mapSeqV (afterC copies c) v
  -- both members run on the same argument: `c` on the value, then `seq "list" c` on its items
  | .vol c, v => mapSeqV (afterC copies c) (afterC copies c v)
  | .tuple cs, v => zipSeqV (afterCs copies cs) v
  | .union cs, v => foldApply (afterCs copies cs) v
  | .dict _ _ vc, v => mapValsV (fun _ x => afterC copies vc x) v
  | .struct names cs, v =>
    mapValsV (fun k x => applyIdx (afterCs copies cs) (match k with | .str s => names.idxOf? s | _ => none) x) v
  | .pane info cs, v =>
    if v.isMap then mapValsV (fun k x => applyIdx (afterCs copies cs) (fieldIndex info.fields k) x) v
    else zipSeqV ((posFields info).map fun p => applyIdx (afterCs copies cs) (some p.2)) v
  | .cond inner _ _, v => afterC copies inner v
  | .enum _ _ inner, v => afterC copies inner v
  | .delegate _ inner, v => afterC copies inner v
  | .pattern _ inner, v => afterC copies inner v
  | _, v => v
def afterCs (copies : Bool) : List Conv → List (Val → Val)
  | [] => []
  | c :: cs => afterC copies c :: afterCs copies cs
end

end PaneModel
