import PaneModel.Model.Order

/-!
# C16: theorems about the generated `__eq__`, ordering, `__hash__` and `__repr__`

Everything is universally quantified over the field-value type `α`, its operations
(`eqv`, `gt`, `hsh`, `comb`, `showVal`), the field list `fs` and the instances.
Core Lean only; no `sorry`, no `native_decide`, no axioms beyond the three standard ones.
-/

namespace PaneModel.Order

variable {α : Type}

/-! ## Auxiliary notions used in the statements -/

/-! "Same class" for the generated methods means: same UN-SUBSCRIPTED class
(`a.origin = b.origin`).  Both `__eq__` and `_pane_ord` test `_unsubscripted(self.__class__) !=
_unsubscripted(other.__class__)`, so `G[int](1)` and `G[Any](2)` (equal `origin`, different `exact`)
are comparable; the `exact` class object plays no role in any of the generated methods. -/

/-- `eqv`/`gt` (Python `==`/`>` on the field values) form a strict total order on `α`:
`eqv` is an equivalence, exactly one of `gt x y`, `eqv x y`, `gt y x` holds, and `gt`
respects `eqv`. -/
structure StrictTotal (eqv gt : α → α → Bool) : Prop where
  refl : ∀ x, eqv x x = true
  symm : ∀ x y, eqv x y = true → eqv y x = true
  trans : ∀ x y z, eqv x y = true → eqv y z = true → eqv x z = true
  tri : ∀ x y,
    (gt x y = true ∧ eqv x y = false ∧ gt y x = false) ∨
    (gt x y = false ∧ eqv x y = true ∧ gt y x = false) ∨
    (gt x y = false ∧ eqv x y = false ∧ gt y x = true)
  gt_congr : ∀ x x' y y', eqv x x' = true → eqv y y' = true → gt x y = gt x' y'

/-- Exactly one of three propositions holds. -/
def ExactlyOne (p q r : Prop) : Prop :=
  (p ∧ ¬q ∧ ¬r) ∨ (¬p ∧ q ∧ ¬r) ∨ (¬p ∧ ¬q ∧ r)

/-- Lexicographic "first difference" on a list of pairs: the pairs are `eqv` up to some
position, where they are not `eqv` and `P` holds.  `P x y := gt x y = false` gives the
lexicographic `<` of the model (as in `_pane_ord`: *not equal and not greater*),
`P x y := gt x y = true` gives the lexicographic `>`. -/
def LexFirst (eqv : α → α → Bool) (P : α → α → Prop) : List (α × α) → Prop
  | [] => False
  | (x, y) :: rest => (eqv x y = false ∧ P x y) ∨ (eqv x y = true ∧ LexFirst eqv P rest)

/-- Lexicographic `<` on the compare-projections, as computed by `_pane_ord`. -/
def LexLt (eqv gt : α → α → Bool) (ps : List (α × α)) : Prop :=
  LexFirst eqv (fun x y => gt x y = false) ps

/-- Lexicographic `>` on the compare-projections, as computed by `_pane_ord`. -/
def LexGt (eqv gt : α → α → Bool) (ps : List (α × α)) : Prop :=
  LexFirst eqv (fun x y => gt x y = true) ps

/-- Index form of "first difference among the compare-fields" on the zipped triples. -/
def FirstDiff (eqv : α → α → Bool) (P : α → α → Prop) (zs : List (FieldFlags × α × α)) : Prop :=
  ∃ i, ∃ h : i < zs.length,
    zs[i].1.compare = true ∧
    (∀ j (hj : j < i), zs[j].1.compare = true → eqv zs[j].2.1 zs[j].2.2 = true) ∧
    eqv zs[i].2.1 zs[i].2.2 = false ∧ P zs[i].2.1 zs[i].2.2

/-- Index form of "first difference among the compare-fields" on fields and value lists. -/
def FirstDiffAt (eqv : α → α → Bool) (P : α → α → Prop) (fs : List FieldFlags)
    (as bs : List α) : Prop :=
  ∃ i, ∃ (h₁ : i < fs.length) (h₂ : i < as.length) (h₃ : i < bs.length),
    fs[i].compare = true ∧
    (∀ j (hj : j < i), fs[j].compare = true → eqv as[j] bs[j] = true) ∧
    eqv as[i] bs[i] = false ∧ P as[i] bs[i]

/-! ## Basic lemmas on the zipped lists -/

/-- The compare-projection of a list of triples. -/
def proj (zs : List (FieldFlags × α × α)) : List (α × α) :=
  (zs.filter (fun z => z.1.compare)).map (fun z => z.2)

theorem cmpPairs_eq_proj (fs : List FieldFlags) (as bs : List α) :
    cmpPairs fs as bs = proj (zip3 fs as bs) := rfl

theorem zip3_length (fs : List FieldFlags) (as bs : List α) :
    (zip3 fs as bs).length = min fs.length (min as.length bs.length) := by
  simp [zip3]

theorem firstDiff_nil (eqv : α → α → Bool) (P : α → α → Prop) : ¬ FirstDiff eqv P [] := by
  rintro ⟨i, h, _⟩
  exact absurd h (Nat.not_lt_zero _)

/-- A head that is skipped by the loop (`continue`) does not matter. -/
theorem firstDiff_cons_skip {eqv : α → α → Bool} {P : α → α → Prop} {f : FieldFlags} {x y : α}
    {rest : List (FieldFlags × α × α)} (hskip : f.compare = true → eqv x y = true) :
    FirstDiff eqv P ((f, x, y) :: rest) ↔ FirstDiff eqv P rest := by
  constructor
  · rintro ⟨i, h, hc, hall, he, hp⟩
    cases i with
    | zero =>
      simp only [List.getElem_cons_zero] at hc he
      rw [hskip hc] at he
      exact absurd he (by decide)
    | succ i =>
      refine ⟨i, Nat.lt_of_succ_lt_succ h, ?_, ?_, ?_, ?_⟩
      · simpa using hc
      · intro j hj hcj
        have := hall (j + 1) (Nat.succ_lt_succ hj)
        simp only [List.getElem_cons_succ] at this
        exact this hcj
      · simpa using he
      · simpa using hp
  · rintro ⟨i, h, hc, hall, he, hp⟩
    refine ⟨i + 1, Nat.succ_lt_succ h, ?_, ?_, ?_, ?_⟩
    · simpa using hc
    · intro j hj
      cases j with
      | zero => simpa using hskip
      | succ j =>
        simp only [List.getElem_cons_succ]
        exact hall j (Nat.lt_of_succ_lt_succ hj)
    · simpa using he
    · simpa using hp

/-- A compared, non-`eqv` head decides. -/
theorem firstDiff_cons_stop {eqv : α → α → Bool} {P : α → α → Prop} {f : FieldFlags} {x y : α}
    {rest : List (FieldFlags × α × α)} (hc : f.compare = true) (he : eqv x y = false) :
    FirstDiff eqv P ((f, x, y) :: rest) ↔ P x y := by
  constructor
  · rintro ⟨i, h, hci, hall, hei, hp⟩
    cases i with
    | zero => simpa using hp
    | succ i =>
      have := hall 0 (Nat.succ_pos _)
      simp only [List.getElem_cons_zero] at this
      rw [this hc] at he
      exact absurd he (by decide)
  · intro hp
    refine ⟨0, Nat.succ_pos _, ?_, ?_, ?_, ?_⟩
    · simpa using hc
    · intro j hj
      exact absurd hj (Nat.not_lt_zero _)
    · simpa using he
    · simpa using hp

theorem firstDiff_zip3 (eqv : α → α → Bool) (P : α → α → Prop) (fs : List FieldFlags)
    (as bs : List α) :
    FirstDiff eqv P (zip3 fs as bs) ↔ FirstDiffAt eqv P fs as bs := by
  have hl := zip3_length fs as bs
  constructor
  · rintro ⟨i, h, hc, hall, he, hp⟩
    have h₁ : i < fs.length := by omega
    have h₂ : i < as.length := by omega
    have h₃ : i < bs.length := by omega
    simp only [zip3, List.getElem_zip] at hc hall he hp
    exact ⟨i, h₁, h₂, h₃, hc, hall, he, hp⟩
  · rintro ⟨i, h₁, h₂, h₃, hc, hall, he, hp⟩
    have h : i < (zip3 fs as bs).length := by omega
    refine ⟨i, h, ?_⟩
    simp only [zip3, List.getElem_zip]
    exact ⟨hc, hall, he, hp⟩

/-- `LexFirst` on the compare-projection is the index form `FirstDiff`. -/
theorem lexFirst_proj_iff (eqv : α → α → Bool) (P : α → α → Prop)
    (zs : List (FieldFlags × α × α)) :
    LexFirst eqv P (proj zs) ↔ FirstDiff eqv P zs := by
  induction zs with
  | nil => simp [proj, LexFirst, firstDiff_nil]
  | cons z rest ih =>
    obtain ⟨f, x, y⟩ := z
    by_cases hc : f.compare = true
    · have hp : proj ((f, x, y) :: rest) = (x, y) :: proj rest := by simp [proj, hc]
      rw [hp]
      cases he : eqv x y with
      | true =>
        rw [firstDiff_cons_skip (fun _ => he), ← ih]
        simp [LexFirst, he]
      | false =>
        rw [firstDiff_cons_stop hc he]
        simp [LexFirst, he]
    · have hp : proj ((f, x, y) :: rest) = proj rest := by simp [proj, hc]
      rw [hp, firstDiff_cons_skip (fun h => absurd h hc), ih]

/-- Characterisation of `LexFirst` by indices, on any list of pairs. -/
theorem LexFirst_iff (eqv : α → α → Bool) (P : α → α → Prop) (ps : List (α × α)) :
    LexFirst eqv P ps ↔
      ∃ i, ∃ h : i < ps.length,
        (∀ j (hj : j < i), eqv ps[j].1 ps[j].2 = true) ∧
        eqv ps[i].1 ps[i].2 = false ∧ P ps[i].1 ps[i].2 := by
  -- view `ps` as triples whose fields are all compared
  let dummy : FieldFlags := { name := "" }
  have hproj : proj (ps.map (fun p => (dummy, p))) = ps := by
    induction ps with
    | nil => rfl
    | cons p ps ih =>
      simp only [proj] at ih
      simp [proj, dummy, ih]
  rw [← hproj, lexFirst_proj_iff, hproj]
  simp only [FirstDiff, List.length_map, List.getElem_map]
  constructor
  · rintro ⟨i, h, _, hall, he, hp⟩
    exact ⟨i, h, fun j hj => hall j hj rfl, he, hp⟩
  · rintro ⟨i, h, hall, he, hp⟩
    exact ⟨i, h, rfl, fun j hj _ => hall j hj, he, hp⟩

/-! ## The loop of `_pane_ord` -/

theorem ordLoop_range (eqv gt : α → α → Bool) (zs : List (FieldFlags × α × α)) :
    ordLoop eqv gt zs = -1 ∨ ordLoop eqv gt zs = 0 ∨ ordLoop eqv gt zs = 1 := by
  induction zs with
  | nil => simp [ordLoop]
  | cons z rest ih =>
    obtain ⟨f, x, y⟩ := z
    simp only [ordLoop]
    split
    · exact ih
    · split
      · exact ih
      · split <;> simp

theorem ordLoop_eq_zero_iff (eqv gt : α → α → Bool) (zs : List (FieldFlags × α × α)) :
    ordLoop eqv gt zs = 0 ↔ (proj zs).all (fun p => eqv p.1 p.2) = true := by
  induction zs with
  | nil => simp [ordLoop, proj]
  | cons z rest ih =>
    obtain ⟨f, x, y⟩ := z
    simp only [ordLoop]
    by_cases hc : f.compare = true
    · have hp : proj ((f, x, y) :: rest) = (x, y) :: proj rest := by simp [proj, hc]
      rw [hp]
      cases he : eqv x y with
      | true => simp [hc, he, ih]
      | false => cases hg : gt x y <;> simp [hc, he]
    · have hp : proj ((f, x, y) :: rest) = proj rest := by simp [proj, hc]
      rw [hp]
      simp [hc, ih]

/-- The loop returns `1` (resp. `-1`) iff at the first compared, non-`eqv` field
`gt` is true (resp. false). -/
theorem ordLoop_eq_iff (eqv gt : α → α → Bool) (r : Bool) (zs : List (FieldFlags × α × α)) :
    ordLoop eqv gt zs = (if r = true then 1 else -1) ↔
      FirstDiff eqv (fun x y => gt x y = r) zs := by
  induction zs with
  | nil =>
    have : ¬ FirstDiff eqv (fun x y => gt x y = r) [] := firstDiff_nil _ _
    cases r <;> simp [ordLoop, this]
  | cons z rest ih =>
    obtain ⟨f, x, y⟩ := z
    simp only [ordLoop]
    by_cases hc : f.compare = true
    · cases he : eqv x y with
      | true =>
        rw [firstDiff_cons_skip (fun _ => he), ← ih]
        simp [hc]
      | false =>
        rw [firstDiff_cons_stop hc he]
        cases hg : gt x y <;> cases r <;> simp [hc]
    · rw [firstDiff_cons_skip (fun h => absurd h hc), ← ih]
      simp [hc]

theorem ordLoop_eq_one_iff (eqv gt : α → α → Bool) (zs : List (FieldFlags × α × α)) :
    ordLoop eqv gt zs = 1 ↔ FirstDiff eqv (fun x y => gt x y = true) zs := by
  simpa using ordLoop_eq_iff eqv gt true zs

theorem ordLoop_eq_neg_one_iff (eqv gt : α → α → Bool) (zs : List (FieldFlags × α × α)) :
    ordLoop eqv gt zs = -1 ↔ FirstDiff eqv (fun x y => gt x y = false) zs := by
  simpa using ordLoop_eq_iff eqv gt false zs

theorem ordLoop_neg_iff (eqv gt : α → α → Bool) (zs : List (FieldFlags × α × α)) :
    ordLoop eqv gt zs < 0 ↔ ordLoop eqv gt zs = -1 := by
  rcases ordLoop_range eqv gt zs with h | h | h <;> omega

theorem ordLoop_pos_iff (eqv gt : α → α → Bool) (zs : List (FieldFlags × α × α)) :
    ordLoop eqv gt zs > 0 ↔ ordLoop eqv gt zs = 1 := by
  rcases ordLoop_range eqv gt zs with h | h | h <;> omega

/-- For the same un-subscripted class (whatever the exact classes) the result of `_pane_ord` is the
loop's result. -/
theorem paneOrd_same (fs : List FieldFlags) (eqv gt : α → α → Bool) {a b : Inst α}
    (h : a.origin = b.origin) :
    paneOrd fs eqv gt a b = some (ordLoop eqv gt (zip3 fs a.vals b.vals)) := by
  simp [paneOrd, h]

/-! ## C16: `__eq__` -/

/-- `__eq__` is: same class modulo generic parameters, and all compare-fields `==`. -/
theorem C16_eq_def (fs : List FieldFlags) (eqv : α → α → Bool) (a b : Inst α) :
    instEq fs eqv a b = true ↔
      a.origin = b.origin ∧
      ∀ i (h₁ : i < fs.length) (h₂ : i < a.vals.length) (h₃ : i < b.vals.length),
        fs[i].compare = true → eqv a.vals[i] b.vals[i] = true := by
  have hl := zip3_length fs a.vals b.vals
  have key : (cmpPairs fs a.vals b.vals).all (fun p => eqv p.1 p.2) = true ↔
      ∀ i (h₁ : i < fs.length) (h₂ : i < a.vals.length) (h₃ : i < b.vals.length),
        fs[i].compare = true → eqv a.vals[i] b.vals[i] = true := by
    simp only [cmpPairs, List.all_eq_true, List.mem_map, List.mem_filter]
    constructor
    · intro H i h₁ h₂ h₃ hc
      have h : i < (zip3 fs a.vals b.vals).length := by omega
      have hz : (zip3 fs a.vals b.vals)[i] = (fs[i], a.vals[i], b.vals[i]) := by
        simp [zip3, List.getElem_zip]
      have := H (a.vals[i], b.vals[i])
        ⟨(zip3 fs a.vals b.vals)[i], ⟨List.getElem_mem h, by rw [hz]; exact hc⟩, by rw [hz]⟩
      exact this
    · rintro H p ⟨z, ⟨hz, hc⟩, rfl⟩
      obtain ⟨i, h, rfl⟩ := List.mem_iff_getElem.mp hz
      have h₁ : i < fs.length := by omega
      have h₂ : i < a.vals.length := by omega
      have h₃ : i < b.vals.length := by omega
      have hz : (zip3 fs a.vals b.vals)[i] = (fs[i], a.vals[i], b.vals[i]) := by
        simp [zip3, List.getElem_zip]
      rw [hz] at hc ⊢
      exact H i h₁ h₂ h₃ hc
  unfold instEq
  by_cases ho : a.origin = b.origin
  · simp only [ho, bne_self_eq_false, Bool.false_eq_true, if_false, true_and]
    exact key
  · simp [ho]

/-- The same, stated with `∀ p ∈ cmpPairs …` (the zipped compare-projection). -/
theorem C16_eq_def_pairs (fs : List FieldFlags) (eqv : α → α → Bool) (a b : Inst α) :
    instEq fs eqv a b = true ↔
      a.origin = b.origin ∧ ∀ p ∈ cmpPairs fs a.vals b.vals, eqv p.1 p.2 = true := by
  unfold instEq
  by_cases ho : a.origin = b.origin <;> simp [ho, List.all_eq_true]

theorem C16_eq_refl (fs : List FieldFlags) (eqv : α → α → Bool)
    (hrefl : ∀ x, eqv x x = true) (a : Inst α) :
    instEq fs eqv a a = true := by
  rw [C16_eq_def]
  exact ⟨rfl, fun i _ _ _ _ => hrefl _⟩

theorem C16_eq_symm (fs : List FieldFlags) (eqv : α → α → Bool)
    (hsymm : ∀ x y, eqv x y = true → eqv y x = true) (a b : Inst α)
    (h : instEq fs eqv a b = true) :
    instEq fs eqv b a = true := by
  rw [C16_eq_def] at h ⊢
  exact ⟨h.1.symm, fun i h₁ h₂ h₃ hc => hsymm _ _ (h.2 i h₁ h₃ h₂ hc)⟩

/-- Transitivity needs the middle instance to be well-formed (`vals` as long as `fs`). -/
theorem C16_eq_trans (fs : List FieldFlags) (eqv : α → α → Bool)
    (htrans : ∀ x y z, eqv x y = true → eqv y z = true → eqv x z = true) (a b c : Inst α)
    (hb : b.vals.length = fs.length)
    (hab : instEq fs eqv a b = true) (hbc : instEq fs eqv b c = true) :
    instEq fs eqv a c = true := by
  rw [C16_eq_def] at hab hbc ⊢
  refine ⟨hab.1.trans hbc.1, fun i h₁ h₂ h₃ hc => ?_⟩
  have hb' : i < b.vals.length := by omega
  exact htrans _ _ _ (hab.2 i h₁ h₂ hb' hc) (hbc.2 i h₁ hb' h₃ hc)

/-! ## C16: `_pane_ord` and the rich comparisons -/

theorem C16_ord_same_class_only (fs : List FieldFlags) (eqv gt : α → α → Bool) (a b : Inst α) :
    (a.origin ≠ b.origin → paneOrd fs eqv gt a b = none) ∧
    (a.origin = b.origin →
      ∃ o : Int, (o = -1 ∨ o = 0 ∨ o = 1) ∧ paneOrd fs eqv gt a b = some o) := by
  constructor
  · intro h
    simp [paneOrd, h]
  · intro h
    exact ⟨_, ordLoop_range eqv gt _, paneOrd_same fs eqv gt h⟩

/-- All four rich comparisons return `NotImplemented` exactly when `_pane_ord` does, i.e.
exactly when the un-subscripted classes differ (the generic parameters are ignored). -/
theorem C16_notImplemented_iff (fs : List FieldFlags) (eqv gt : α → α → Bool) (a b : Inst α) :
    (paneOrd fs eqv gt a b = none ↔ a.origin ≠ b.origin) ∧
    (lt fs eqv gt a b = none ↔ a.origin ≠ b.origin) ∧
    (le fs eqv gt a b = none ↔ a.origin ≠ b.origin) ∧
    (gt' fs eqv gt a b = none ↔ a.origin ≠ b.origin) ∧
    (ge fs eqv gt a b = none ↔ a.origin ≠ b.origin) := by
  by_cases h : a.origin = b.origin <;> simp [lt, le, gt', ge, paneOrd, h]

/-- `lt` in terms of the loop. -/
theorem lt_iff_ordLoop (fs : List FieldFlags) (eqv gt : α → α → Bool) {a b : Inst α}
    (h : a.origin = b.origin) :
    lt fs eqv gt a b = some true ↔ ordLoop eqv gt (zip3 fs a.vals b.vals) = -1 := by
  simp [lt, paneOrd_same fs eqv gt h, ordLoop_neg_iff]

/-- `gt'` in terms of the loop. -/
theorem gt'_iff_ordLoop (fs : List FieldFlags) (eqv gt : α → α → Bool) {a b : Inst α}
    (h : a.origin = b.origin) :
    gt' fs eqv gt a b = some true ↔ ordLoop eqv gt (zip3 fs a.vals b.vals) = 1 := by
  have := ordLoop_pos_iff eqv gt (zip3 fs a.vals b.vals)
  simp only [gt_iff_lt] at this
  simp [gt', paneOrd_same fs eqv gt h, this]

/-- `__lt__` is the lexicographic order on the projection to compare-fields (index form):
there is a compare-field `i` with all earlier compare-fields `==`, and at `i` the values are
neither `==` nor `>`. -/
theorem C16_lt_lex (fs : List FieldFlags) (eqv gt : α → α → Bool) (a b : Inst α)
    (h : a.origin = b.origin) :
    lt fs eqv gt a b = some true ↔
      ∃ i, ∃ (h₁ : i < fs.length) (h₂ : i < a.vals.length) (h₃ : i < b.vals.length),
        fs[i].compare = true ∧
        (∀ j (hj : j < i), fs[j].compare = true → eqv a.vals[j] b.vals[j] = true) ∧
        eqv a.vals[i] b.vals[i] = false ∧ gt a.vals[i] b.vals[i] = false := by
  rw [lt_iff_ordLoop fs eqv gt h, ordLoop_eq_neg_one_iff, firstDiff_zip3]
  rfl

/-- `__lt__` is `LexLt` on the zipped compare-projections. -/
theorem C16_lt_lexLt (fs : List FieldFlags) (eqv gt : α → α → Bool) (a b : Inst α)
    (h : a.origin = b.origin) :
    lt fs eqv gt a b = some true ↔ LexLt eqv gt (cmpPairs fs a.vals b.vals) := by
  rw [lt_iff_ordLoop fs eqv gt h, ordLoop_eq_neg_one_iff, cmpPairs_eq_proj, LexLt,
    lexFirst_proj_iff]

/-- `__gt__` is `LexGt` on the zipped compare-projections, and in index form. -/
theorem C16_gt_lex (fs : List FieldFlags) (eqv gt : α → α → Bool) (a b : Inst α)
    (h : a.origin = b.origin) :
    (gt' fs eqv gt a b = some true ↔ LexGt eqv gt (cmpPairs fs a.vals b.vals)) ∧
    (gt' fs eqv gt a b = some true ↔
      ∃ i, ∃ (h₁ : i < fs.length) (h₂ : i < a.vals.length) (h₃ : i < b.vals.length),
        fs[i].compare = true ∧
        (∀ j (hj : j < i), fs[j].compare = true → eqv a.vals[j] b.vals[j] = true) ∧
        eqv a.vals[i] b.vals[i] = false ∧ gt a.vals[i] b.vals[i] = true) := by
  constructor
  · rw [gt'_iff_ordLoop fs eqv gt h, ordLoop_eq_one_iff, cmpPairs_eq_proj, LexGt,
      lexFirst_proj_iff]
  · rw [gt'_iff_ordLoop fs eqv gt h, ordLoop_eq_one_iff, firstDiff_zip3]
    rfl

/-- Characterisation of `LexLt` (on any list of pairs) by indices. -/
theorem C16_LexLt_iff (eqv gt : α → α → Bool) (ps : List (α × α)) :
    LexLt eqv gt ps ↔
      ∃ i, ∃ h : i < ps.length,
        (∀ j (hj : j < i), eqv ps[j].1 ps[j].2 = true) ∧
        eqv ps[i].1 ps[i].2 = false ∧ gt ps[i].1 ps[i].2 = false :=
  LexFirst_iff eqv _ ps

/-- `__le__`, `__gt__`, `__ge__` in terms of `__lt__` and `_pane_ord`. -/
theorem C16_le_gt_ge_derived (fs : List FieldFlags) (eqv gt : α → α → Bool) (a b : Inst α)
    (h : a.origin = b.origin) :
    (le fs eqv gt a b = some true ↔
      lt fs eqv gt a b = some true ∨ paneOrd fs eqv gt a b = some 0) ∧
    (gt' fs eqv gt a b = some true ↔ paneOrd fs eqv gt a b = some 1) ∧
    (ge fs eqv gt a b = (lt fs eqv gt a b).map (fun r => !r)) ∧
    (le fs eqv gt a b = (gt' fs eqv gt a b).map (fun r => !r)) := by
  have hr := ordLoop_range eqv gt (zip3 fs a.vals b.vals)
  simp only [le, lt, gt', ge, paneOrd_same fs eqv gt h, Option.map_some, Option.some.injEq,
    decide_eq_true_eq]
  refine ⟨by omega, by omega, ?_, ?_⟩
  · rcases hr with hr | hr | hr <;> simp [hr]
  · rcases hr with hr | hr | hr <;> simp [hr]

/-- `_pane_ord` returns `0` exactly when `__eq__` holds (same class). -/
theorem C16_order_eq_consistent (fs : List FieldFlags) (eqv gt : α → α → Bool) (a b : Inst α)
    (h : a.origin = b.origin) :
    paneOrd fs eqv gt a b = some 0 ↔ instEq fs eqv a b = true := by
  rw [paneOrd_same fs eqv gt h, Option.some.injEq, ordLoop_eq_zero_iff, ← cmpPairs_eq_proj]
  simp [instEq, h]

/-- Trichotomy of the generated methods: for instances of the same class exactly one of
`a < b`, `a == b`, `a > b` is `True`.  (This needs no hypothesis on `eqv`/`gt` at all: it holds
by construction of `_pane_ord`.  The order-theoretic content is in `C16_trichotomy_swap`.) -/
theorem C16_trichotomy (fs : List FieldFlags) (eqv gt : α → α → Bool) (a b : Inst α)
    (h : a.origin = b.origin) :
    ExactlyOne (lt fs eqv gt a b = some true) (instEq fs eqv a b = true)
      (gt' fs eqv gt a b = some true) := by
  rw [← C16_order_eq_consistent fs eqv gt a b h, lt_iff_ordLoop fs eqv gt h,
    gt'_iff_ordLoop fs eqv gt h, paneOrd_same fs eqv gt h, Option.some.injEq]
  unfold ExactlyOne
  rcases ordLoop_range eqv gt (zip3 fs a.vals b.vals) with hr | hr | hr <;> rw [hr] <;> decide

/-- Swapping the two instances. -/
def swap3 (z : FieldFlags × α × α) : FieldFlags × α × α := (z.1, z.2.2, z.2.1)

theorem zip3_swap (fs : List FieldFlags) (as bs : List α) :
    zip3 fs bs as = (zip3 fs as bs).map swap3 := by
  apply List.ext_getElem
  · simp [zip3_length, Nat.min_comm]
  · intro i h₁ h₂
    simp [zip3, swap3, List.getElem_zip]

/-- Under a strict total order on the field values, swapping the arguments negates
`_pane_ord`. -/
theorem ordLoop_swap {eqv gt : α → α → Bool} (st : StrictTotal eqv gt)
    (zs : List (FieldFlags × α × α)) :
    ordLoop eqv gt (zs.map swap3) = - ordLoop eqv gt zs := by
  induction zs with
  | nil => simp [ordLoop]
  | cons z rest ih =>
    obtain ⟨f, x, y⟩ := z
    simp only [List.map_cons, swap3, ordLoop, ih]
    cases hc : f.compare
    · simp
    · rcases st.tri x y with ⟨h1, h2, h3⟩ | ⟨h1, h2, h3⟩ | ⟨h1, h2, h3⟩
      · have h4 : eqv y x = false := by
          cases h : eqv y x
          · rfl
          · rw [st.symm _ _ h] at h2; exact absurd h2 (by decide)
        simp [h1, h2, h3, h4]
      · simp [h2, st.symm _ _ h2]
      · have h4 : eqv y x = false := by
          cases h : eqv y x
          · rfl
          · rw [st.symm _ _ h] at h2; exact absurd h2 (by decide)
        simp [h1, h2, h3, h4]

/-- Under a strict total order on the field values, `a > b` is `b < a` (and vice versa). -/
theorem C16_gt_iff_lt_swap (fs : List FieldFlags) {eqv gt : α → α → Bool}
    (st : StrictTotal eqv gt) (a b : Inst α) (h : a.origin = b.origin) :
    (gt' fs eqv gt a b = some true ↔ lt fs eqv gt b a = some true) ∧
    (lt fs eqv gt a b = some true ↔ gt' fs eqv gt b a = some true) := by
  rw [gt'_iff_ordLoop fs eqv gt h, lt_iff_ordLoop fs eqv gt h.symm,
    lt_iff_ordLoop fs eqv gt h, gt'_iff_ordLoop fs eqv gt h.symm,
    zip3_swap fs a.vals b.vals, ordLoop_swap st]
  constructor <;> omega

/-- Trichotomy as a law of the order `<` itself: for instances of the same class over
strictly totally ordered field values, exactly one of `a < b`, `a == b`, `b < a` is `True`. -/
theorem C16_trichotomy_swap (fs : List FieldFlags) {eqv gt : α → α → Bool}
    (st : StrictTotal eqv gt) (a b : Inst α) (h : a.origin = b.origin) :
    ExactlyOne (lt fs eqv gt a b = some true) (instEq fs eqv a b = true)
      (lt fs eqv gt b a = some true) := by
  rw [← (C16_gt_iff_lt_swap fs st a b h).1]
  exact C16_trichotomy fs eqv gt a b h

/-! ## C16: `__hash__` -/

theorem paneHashTable_total : ∀ u e f x, (hashLookup paneHashTable (u, e, f, x)).isSome = true := by
  decide

theorem stdlibHashTable_total :
    ∀ u e f x, (hashLookup stdlibHashTable (u, e, f, x)).isSome = true := by
  decide

/-- pane's `_hash_action` table is CPython's. -/
theorem C16_hash_table : ∀ u e f x, paneHashAction u e f x = stdlibHashAction u e f x := by
  decide

/-- The values hashed by `__hash__`. -/
def hashVals (fs : List FieldFlags) (as : List α) : List α :=
  ((fs.zip as).filter (fun p => p.1.hash)).map (fun p => p.2)

theorem hashVals_congr (eqv : α → α → Bool) (hsh : α → Int)
    (hh : ∀ x y, eqv x y = true → hsh x = hsh y) :
    ∀ (fs : List FieldFlags) (as bs : List α),
      (∀ f ∈ fs, f.hash = true → f.compare = true) →
      as.length = bs.length →
      (cmpPairs fs as bs).all (fun p => eqv p.1 p.2) = true →
      (hashVals fs as).map hsh = (hashVals fs bs).map hsh
  | [], _, _, _, _, _ => by simp [hashVals]
  | _ :: _, [], [], _, _, _ => by simp [hashVals]
  | _ :: _, [], _ :: _, _, hlen, _ => by simp at hlen
  | _ :: _, _ :: _, [], _, hlen, _ => by simp at hlen
  | f :: fs, x :: as, y :: bs, hfc, hlen, heq => by
    have hlen' : as.length = bs.length := by simpa using hlen
    have hfc' : ∀ f ∈ fs, f.hash = true → f.compare = true :=
      fun g hg => hfc g (List.mem_cons_of_mem _ hg)
    have hcons : cmpPairs (f :: fs) (x :: as) (y :: bs) =
        if f.compare then (x, y) :: cmpPairs fs as bs else cmpPairs fs as bs := by
      cases hc : f.compare <;> simp [cmpPairs, zip3, hc]
    rw [hcons] at heq
    have hva : hashVals (f :: fs) (x :: as) =
        if f.hash then x :: hashVals fs as else hashVals fs as := by
      cases hc : f.hash <;> simp [hashVals, hc]
    have hvb : hashVals (f :: fs) (y :: bs) =
        if f.hash then y :: hashVals fs bs else hashVals fs bs := by
      cases hc : f.hash <;> simp [hashVals, hc]
    rw [hva, hvb]
    cases hhash : f.hash with
    | false =>
      have heq' : (cmpPairs fs as bs).all (fun p => eqv p.1 p.2) = true := by
        cases hc : f.compare <;> simp [hc] at heq
        · exact List.all_eq_true.mpr (by simpa using heq)
        · exact List.all_eq_true.mpr (by simpa using heq.2)
      simpa using hashVals_congr eqv hsh hh fs as bs hfc' hlen' heq'
    | true =>
      have hc : f.compare = true := hfc f (List.mem_cons_self) hhash
      simp only [hc, if_true, List.all_cons, Bool.and_eq_true] at heq
      simp only [if_true, List.map_cons]
      rw [hh x y heq.1, hashVals_congr eqv hsh hh fs as bs hfc' hlen' heq.2]

/-- `a == b → hash(a) == hash(b)`, provided the field values' own hashes respect their `==`
and every hashed field is a compared field. -/
theorem C16_eq_hash (fs : List FieldFlags) (eqv : α → α → Bool) (hsh : α → Int)
    (comb : List Int → Int)
    (hh : ∀ x y, eqv x y = true → hsh x = hsh y)
    (hfc : ∀ f ∈ fs, f.hash = true → f.compare = true)
    (a b : Inst α) (hlen : a.vals.length = b.vals.length)
    (heq : instEq fs eqv a b = true) :
    instHash fs hsh comb a = instHash fs hsh comb b := by
  have heq' : (cmpPairs fs a.vals b.vals).all (fun p => eqv p.1 p.2) = true := by
    unfold instEq at heq
    by_cases ho : a.origin = b.origin
    · simpa [ho] using heq
    · simp [ho] at heq
  have := hashVals_congr eqv hsh hh fs a.vals b.vals hfc hlen heq'
  simp only [hashVals] at this
  simp only [instHash, this]

/-! ## C16: `__repr__` -/

/-- `__repr__` lists exactly the repr-fields, in field order, as `name=repr(value)`, joined by
`", "` and wrapped in `ClassName( … )`: the indices are the increasing enumeration
`List.finRange fs.length` filtered by the `repr` flag. -/
theorem C16_repr (clsName : String) (fs : List FieldFlags) (showVal : α → String) (a : Inst α)
    (hlen : a.vals.length = fs.length) :
    reprInst clsName fs showVal a =
      clsName ++ "(" ++
        String.intercalate ", "
          (((List.finRange fs.length).filter (fun i => fs[i].repr)).map
            (fun i => fs[i].name ++ "=" ++ showVal (a.vals[i.val]'(by rw [hlen]; exact i.isLt))))
        ++ ")" := by
  have hz : fs.zip a.vals =
      (List.finRange fs.length).map
        (fun i => (fs[i], a.vals[i.val]'(by rw [hlen]; exact i.isLt))) := by
    apply List.ext_getElem
    · simp [hlen]
    · intro i h₁ h₂
      simp [List.getElem_zip]
  unfold reprInst
  rw [hz, List.filter_map, List.map_map]
  rfl

/-! ## Non-vacuity: concrete instances over `Int` -/

namespace Examples

def ieq : Int → Int → Bool := fun x y => decide (x = y)
def igt : Int → Int → Bool := fun x y => decide (x > y)
def ihsh : Int → Int := fun x => x % 1000003
def icomb : List Int → Int := fun l => l.foldl (fun acc h => 31 * acc + h) 7
def ishow : Int → String := fun x => toString x

/-- fields `x`, `y`, `z`; `y` takes no part in comparison, hashing or repr -/
def fs : List FieldFlags :=
  [{ name := "x" }, { name := "y", compare := false, hash := false, repr := false }, { name := "z" }]

def p123 : Inst Int := ⟨0, 0, [1, 2, 3]⟩
def p193 : Inst Int := ⟨0, 0, [1, 9, 3]⟩
def p124 : Inst Int := ⟨0, 0, [1, 2, 4]⟩
def p203 : Inst Int := ⟨0, 0, [2, 0, 3]⟩
/-- an instance of `C[int]`: same origin as `p123`, different exact class -/
def g123 : Inst Int := ⟨0, 1, [1, 2, 3]⟩
/-- an instance of an unrelated class -/
def q123 : Inst Int := ⟨7, 7, [1, 2, 3]⟩

/-- The hypotheses on `eqv`/`gt` are satisfiable: `==`/`>` on `Int`. -/
theorem int_strictTotal : StrictTotal ieq igt where
  refl x := by simp [ieq]
  symm x y := by simp only [ieq, decide_eq_true_eq]; exact Eq.symm
  trans x y z := by simp only [ieq, decide_eq_true_eq]; exact Eq.trans
  tri x y := by simp only [ieq, igt, decide_eq_true_eq, decide_eq_false_iff_not]; omega
  gt_congr x x' y y' := by
    simp only [ieq, igt, decide_eq_true_eq]; rintro rfl rfl; rfl

theorem int_hash_respects : ∀ x y, ieq x y = true → ihsh x = ihsh y := by
  intro x y h
  simp only [ieq, decide_eq_true_eq] at h
  rw [h]

theorem fs_hash_sub_compare : ∀ f ∈ fs, f.hash = true → f.compare = true := by decide

example : p123.origin = p193.origin := rfl
example : p123.origin = p124.origin := rfl
-- same un-subscripted class, different exact class (`C` / `C[int]`)
example : p123.origin = g123.origin ∧ p123.exact ≠ g123.exact := by decide
example : p123.vals.length = fs.length ∧ p193.vals.length = fs.length := by decide

-- eq: holds although `y` differs; fails on a compared field; holds across `C` / `C[int]`;
-- fails across unrelated classes
example : instEq fs ieq p123 p193 = true := by decide
example : instEq fs ieq p123 p124 = false := by decide
example : instEq fs ieq p123 g123 = true := by decide
example : instEq fs ieq p123 q123 = false := by decide
-- instances of the general theorems
example : instEq fs ieq p123 p123 = true := C16_eq_refl fs ieq int_strictTotal.refl p123
example : instEq fs ieq p193 p123 = true :=
  C16_eq_symm fs ieq int_strictTotal.symm p123 p193 (by decide)
example : instEq fs ieq p123 g123 = true :=
  C16_eq_trans fs ieq int_strictTotal.trans p123 p193 g123 (by decide) (by decide) (by decide)

-- ord: defined across `C` / `C[int]` (as `==` is), NotImplemented across unrelated classes
example : paneOrd fs ieq igt p123 g123 = some 0 := by decide
example : ∃ o : Int, (o = -1 ∨ o = 0 ∨ o = 1) ∧ paneOrd fs ieq igt p123 g123 = some o :=
  (C16_ord_same_class_only fs ieq igt p123 g123).2 rfl
example : paneOrd fs ieq igt p123 q123 = none := by decide
example : paneOrd fs ieq igt p123 q123 = none :=
  (C16_ord_same_class_only fs ieq igt p123 q123).1 (by decide)
example : paneOrd fs ieq igt p123 p193 = some 0 := by decide
example : paneOrd fs ieq igt p123 p124 = some (-1) := by decide
example : paneOrd fs ieq igt p203 p124 = some 1 := by decide
example : lt fs ieq igt p123 p124 = some true := by decide
example : lt fs ieq igt p124 p203 = some true := by decide   -- first field decides
example : lt fs ieq igt p123 p193 = some false := by decide  -- `y` ignored
example : le fs ieq igt p123 p193 = some true := by decide
example : gt' fs ieq igt p203 p124 = some true := by decide
example : ge fs ieq igt p123 p124 = some false := by decide
example : lt fs ieq igt p123 q123 = none := by decide

-- the right-hand side of `C16_lt_lex` is inhabited (witness: index 2, field `z`)
example : lt fs ieq igt p123 p124 = some true :=
  (C16_lt_lex fs ieq igt p123 p124 rfl).2
    ⟨2, by decide, by decide, by decide, by decide, by decide, by decide, by decide⟩
example : LexLt ieq igt (cmpPairs fs p123.vals p124.vals) :=
  (C16_lt_lexLt fs ieq igt p123 p124 rfl).1 (by decide)
example : cmpPairs fs p123.vals p124.vals = [(1, 1), (3, 4)] := by decide

-- trichotomy: each of the three alternatives occurs
example : ExactlyOne (lt fs ieq igt p123 p124 = some true) (instEq fs ieq p123 p124 = true)
    (lt fs ieq igt p124 p123 = some true) :=
  C16_trichotomy_swap fs int_strictTotal p123 p124 rfl
example : lt fs ieq igt p123 p124 = some true ∧ instEq fs ieq p123 p193 = true ∧
    gt' fs ieq igt p124 p123 = some true := by decide

-- order/eq consistency
example : paneOrd fs ieq igt p123 p193 = some 0 :=
  (C16_order_eq_consistent fs ieq igt p123 p193 rfl).2 (by decide)

-- hash: equal instances (differing in the non-hashed `y`) hash equal
example : instHash fs ihsh icomb p123 = instHash fs ihsh icomb p193 :=
  C16_eq_hash fs ieq ihsh icomb int_hash_respects fs_hash_sub_compare p123 p193 rfl (by decide)
example : instHash fs ihsh icomb p123 = 6761 := by decide
example : instHash fs ihsh icomb p123 ≠ instHash fs ihsh icomb p124 := by decide
-- the side condition `hash-fields ⊆ compare-fields` is necessary
example : instEq [{ name := "x", compare := false, hash := true }] ieq ⟨0, 0, [1]⟩ ⟨0, 0, [2]⟩ = true ∧
    instHash [{ name := "x", compare := false, hash := true }] ihsh icomb ⟨0, 0, [1]⟩ ≠
    instHash [{ name := "x", compare := false, hash := true }] ihsh icomb ⟨0, 0, [2]⟩ := by decide

-- hash table rows
example : paneHashAction false true false false = .setNone := by decide
example : paneHashAction false true true false = .makeHash := by decide
example : paneHashAction true false false true = .exception := by decide
example : paneHashAction false false true true = .leave := by decide

end Examples

/-! ## Axiom audit -/

#print axioms C16_eq_def
#print axioms C16_eq_def_pairs
#print axioms C16_eq_refl
#print axioms C16_eq_symm
#print axioms C16_eq_trans
#print axioms C16_ord_same_class_only
#print axioms C16_notImplemented_iff
#print axioms C16_lt_lex
#print axioms C16_lt_lexLt
#print axioms C16_gt_lex
#print axioms C16_LexLt_iff
#print axioms C16_le_gt_ge_derived
#print axioms C16_order_eq_consistent
#print axioms C16_trichotomy
#print axioms C16_gt_iff_lt_swap
#print axioms C16_trichotomy_swap
#print axioms paneHashTable_total
#print axioms stdlibHashTable_total
#print axioms C16_hash_table
#print axioms C16_eq_hash
#print axioms C16_repr
#print axioms Examples.int_strictTotal

end PaneModel.Order
