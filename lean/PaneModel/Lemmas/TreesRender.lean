import PaneModel.Model.Render
import PaneModel.Lemmas.TreesCollect
/-!
# What `print_error` puts into the text (for C08)

Vocabulary (`PathTo`, `LeafIn`, `Mentions`, `flatText`, `InOrder`), unfolding lemmas for the mutually
recursive renderer, and the structural facts: every non-sum node reachable in a tree is rendered
somewhere inside the rendering of the tree (`rendered_of_path`), the key texts of a path occur in path
order (`inOrder_of_path`), and the footer of a sum is the `actual` of its last fully flattened member
that has one (`renderSum_snd`; `flatMembers` flattens nested sums at every depth, so none of its elements
is a sum: `flatMembers_not_sum`).
-/
namespace PaneModel

/-! ## Vocabulary -/

def Err.isSum : Err → Bool
  | .sum _ => true
  | _ => false

theorem Err.isSum_eq_true {e : Err} (h : e.isSum = true) : ∃ inner, e = .sum inner := by
  cases e <;> simp only [Err.isSum, Bool.false_eq_true] at h
  exact ⟨_, rfl⟩

def Err.isProduct : Err → Bool
  | .product _ _ _ _ _ _ => true
  | _ => false

/-- a leaf of an error tree: `WrongTypeError`, `WrongLenError`, `ConditionFailedError` -/
def Err.isLeaf : Err → Bool
  | .wrongType _ _ _ _ | .wrongLen _ _ _ _ _ | .condFailed _ _ _ _ => true
  | _ => false

/-- the expectation text of a leaf -/
def Err.expected? : Err → Option String
  | .wrongType e _ _ _ | .wrongLen e _ _ _ _ | .condFailed e _ _ _ => some e
  | _ => none

/-- the message of the underlying exception, when the failure was caused by one -/
def Err.cause? : Err → Option String
  | .wrongType _ _ c _ | .condFailed _ _ _ c => c
  | _ => none

/-- `PathTo t ks n`: node `n` is reached from the root `t` through product children keyed `ks` (in
nesting order) and any number of sum members (which carry no key). -/
inductive PathTo : Err → List Val → Err → Prop
  | here (t : Err) : PathTo t [] t
  | prod {exp : String} {keys : List Val} {errs : List Err} {act : Val} {ms xs : List Val}
      {k : Val} {e : Err} {ks : List Val} {n : Err} :
      (k, e) ∈ keys.zip errs → PathTo e ks n → PathTo (.product exp keys errs act ms xs) (k :: ks) n
  | sum {ch : List Err} {e : Err} {ks : List Val} {n : Err} :
      e ∈ ch → PathTo e ks n → PathTo (.sum ch) ks n

/-- `l` is a leaf occurring somewhere in `t` -/
def LeafIn (t l : Err) : Prop := l.isLeaf = true ∧ ∃ ks, PathTo t ks l

/-- `a` occurs in `b` as a contiguous piece of text -/
def StrInfix (a b : String) : Prop := ∃ p q, b = p ++ a ++ q

/-- some literal segment of the output contains the text `s` -/
def Mentions (s : String) (segs : List Seg) : Prop := ∃ l, Seg.lit l ∈ segs ∧ StrInfix s l

/-- the literal text of the output (value / type / traceback segments, which the harness expands, left out) -/
def flatText : List Seg → String
  | [] => ""
  | .lit s :: r => s ++ flatText r
  | _ :: r => flatText r

/-- the strings occur in `s` in this order, without overlapping -/
def InOrder : List String → String → Prop
  | [], _ => True
  | k :: ks, s => ∃ p q, s = p ++ k ++ q ∧ InOrder ks q

theorem StrInfix.refl (a : String) : StrInfix a a := ⟨"", "", by simp⟩

theorem StrInfix.pad {a b : String} (h : StrInfix a b) (p q : String) : StrInfix a (p ++ b ++ q) := by
  obtain ⟨p', q', rfl⟩ := h
  exact ⟨p ++ p', q' ++ q, by simp only [String.append_assoc]⟩

theorem flatText_append (a b : List Seg) : flatText (a ++ b) = flatText a ++ flatText b := by
  induction a with
  | nil => simp [flatText]
  | cons s a ih =>
    cases s <;> simp only [List.cons_append, flatText, ih, String.append_assoc]

theorem InOrder.pad_left {ks : List String} {s : String} (h : InOrder ks s) (p : String) : InOrder ks (p ++ s) := by
  cases ks with
  | nil => trivial
  | cons k ks =>
    obtain ⟨p', q', rfl, hq⟩ := h
    exact ⟨p ++ p', q', by simp only [String.append_assoc], hq⟩

theorem InOrder.pad_right {ks : List String} {s : String} (h : InOrder ks s) (q : String) : InOrder ks (s ++ q) := by
  induction ks generalizing s with
  | nil => trivial
  | cons k ks ih =>
    obtain ⟨p', q', rfl, hq⟩ := h
    exact ⟨p', q' ++ q, by simp only [String.append_assoc], ih hq⟩

theorem InOrder.pad {ks : List String} {s : String} (h : InOrder ks s) (p q : String) : InOrder ks (p ++ s ++ q) :=
  (h.pad_left p).pad_right q

/-- each of the strings occurs in the text -/
theorem InOrder.infix {ks : List String} {s : String} (h : InOrder ks s) : ∀ k ∈ ks, StrInfix k s := by
  induction ks generalizing s with
  | nil => intro k hk; cases hk
  | cons k0 ks ih =>
    obtain ⟨p, q, rfl, hq⟩ := h
    intro k hk
    rcases List.mem_cons.1 hk with rfl | hk
    · exact ⟨p, q, rfl⟩
    · have := (ih hq k hk).pad (p ++ k0) ""
      simpa only [String.append_empty] using this

/-! ## Unfolding the renderer -/

variable (E : Ext)

theorem render_product (exp keys errs act ms xs indent inSum) :
    render E (.product exp keys errs act ms xs) indent inSum =
      renderProd E exp "" keys errs (ms.map fun m => "" ++ keyText E m) (xs.map fun x => "" ++ keyText E x)
        indent inSum := by
  rw [render]
  simp only [String.empty_append]

theorem render_sum (ch indent inSum) :
    render E (.sum ch) indent inSum =
      [Seg.lit "Expected one of:\n"] ++ (renderSum E ch indent Val.none).1 ++
        [.lit (indent ++ "Instead got `"), .val (renderSum E ch indent Val.none).2, .lit "` of type `",
          .typ (renderSum E ch indent Val.none).2, .lit "`\n"] := by
  rw [render]

/-- the `actual` threaded to the next member -/
def nextAct (c : Err) (act : Val) : Val := (c.actual?).getD act

theorem renderSum_cons_sum (inner rest indent act) :
    renderSum E (.sum inner :: rest) indent act =
      ((renderSum E inner indent act).1 ++ (renderSum E rest indent (renderSum E inner indent act).2).1,
       (renderSum E rest indent (renderSum E inner indent act).2).2) := by
  rw [renderSum]

theorem renderSum_cons_nonsum {c : Err} (hc : c.isSum = false) (rest indent act) :
    renderSum E (c :: rest) indent act =
      ([Seg.lit (indent ++ "- ")] ++ render E c (indent ++ "  ") true ++
          (renderSum E rest indent (nextAct c act)).1,
       (renderSum E rest indent (nextAct c act)).2) := by
  cases c with
  | sum inner => cases hc
  | dupKey k al => rw [renderSum.eq_7] <;> first | rfl | (intros; contradiction)
  | _ => rw [renderSum]; rfl

/-- induction over the members of a sum, descending into nested sums -/
theorem sumList_induction {P : List Err → Prop} (nil : P [])
    (consSum : ∀ inner rest, P inner → P rest → P (.sum inner :: rest))
    (consNon : ∀ c rest, c.isSum = false → P rest → P (c :: rest)) : ∀ ch, P ch
  | [] => nil
  | .sum inner :: rest =>
    consSum inner rest (sumList_induction nil consSum consNon inner) (sumList_induction nil consSum consNon rest)
  | .wrongType _ _ _ _ :: rest => consNon _ rest rfl (sumList_induction nil consSum consNon rest)
  | .wrongLen _ _ _ _ _ :: rest => consNon _ rest rfl (sumList_induction nil consSum consNon rest)
  | .condFailed _ _ _ _ :: rest => consNon _ rest rfl (sumList_induction nil consSum consNon rest)
  | .dupKey _ _ :: rest => consNon _ rest rfl (sumList_induction nil consSum consNon rest)
  | .product _ _ _ _ _ _ :: rest => consNon _ rest rfl (sumList_induction nil consSum consNon rest)
termination_by ch => sizeOf ch

/-- is this the situation in which `renderProd` fuses the single child into the path prefix? -/
def Fused (keys : List Val) (errs : List Err) (missing extra : List String) : Prop :=
  ∃ k exp ks es act ms xs, keys = [k] ∧ errs = [Err.product exp ks es act ms xs] ∧ missing = [] ∧ extra = []

theorem renderProd_fused (exp pre k exp' ks es act ms xs indent inSum) :
    renderProd E exp pre [k] [Err.product exp' ks es act ms xs] [] [] indent inSum =
      renderProd E exp (pre ++ keyText E k ++ ".") ks es
        (ms.map fun m => pre ++ keyText E k ++ "." ++ keyText E m)
        (xs.map fun x => pre ++ keyText E k ++ "." ++ keyText E x) indent inSum := by
  rw [renderProd]

theorem renderProd_unfused {keys errs missing extra} (h : ¬ Fused keys errs missing extra)
    (exp pre indent inSum) :
    renderProd E exp pre keys errs missing extra indent inSum =
      [Seg.lit ((if inSum then "" else "Expected ") ++ exp ++ "\n")] ++ renderChildren E pre keys errs indent ++
        missing.map (fun f => Seg.lit (indent ++ "  Missing required field '" ++ f ++ "'\n")) ++
        extra.map (fun f => Seg.lit (indent ++ "  Unexpected field '" ++ f ++ "'\n")) := by
  rw [renderProd.eq_2]
  intro k exp' ks es act ms xs h1 h2 h3 h4
  exact h ⟨k, exp', ks, es, act, ms, xs, h1, h2, h3, h4⟩

theorem renderChildren_cons (pre k ks e es indent) :
    renderChildren E pre (k :: ks) (e :: es) indent =
      [Seg.lit (indent ++ "While parsing field '" ++ pre ++ keyText E k ++ "':\n" ++ indent ++ "  ")]
        ++ render E e (indent ++ "  ") false ++ renderChildren E pre ks es indent := by
  rw [renderChildren]

/-! ## Where a child / member is rendered inside its parent -/

variable {E}

theorem sub_of_split {X A M B : List Seg} (h : X = A ++ M ++ B) : M ⊆ X := by
  intro s hs; rw [h]; simp [hs]

/-- the text of a `While parsing field` line -/
def whileText (E : Ext) (indent pre : String) (k : Val) : String :=
  indent ++ "While parsing field '" ++ pre ++ keyText E k ++ "':\n" ++ indent ++ "  "

theorem renderChildren_split {pre indent : String} {k : Val} {e : Err} :
    ∀ {keys : List Val} {errs : List Err}, (k, e) ∈ keys.zip errs →
    ∃ A B, renderChildren E pre keys errs indent =
      A ++ ([Seg.lit (whileText E indent pre k)] ++ render E e (indent ++ "  ") false) ++ B
  | [], _, h => by simp at h
  | _ :: _, [], h => by simp at h
  | k0 :: ks, e0 :: es, h => by
    rw [List.zip_cons_cons, List.mem_cons] at h
    rw [renderChildren_cons]
    rcases h with h | h
    · cases h
      exact ⟨[], renderChildren E pre ks es indent, by simp [whileText]⟩
    · obtain ⟨A, B, hAB⟩ := renderChildren_split (pre := pre) (indent := indent) h
      exact ⟨[Seg.lit (whileText E indent pre k0)] ++ render E e0 (indent ++ "  ") false ++ A, B,
        by rw [hAB]; simp [whileText]⟩

theorem renderSum_cons_fst_sub (c : Err) (rest : List Err) (indent : String) (act : Val) :
    ∃ A a, (renderSum E (c :: rest) indent act).1 = A ++ (renderSum E rest indent a).1 := by
  cases hc : c.isSum with
  | false => rw [renderSum_cons_nonsum E hc]; exact ⟨_, _, rfl⟩
  | true =>
    cases c <;> simp only [Err.isSum, Bool.false_eq_true] at hc
    rw [renderSum_cons_sum]; exact ⟨_, _, rfl⟩

theorem renderSum_split_nonsum {e : Err} (he : e.isSum = false) (indent : String) :
    ∀ {ch : List Err}, e ∈ ch → ∀ act, ∃ A B, (renderSum E ch indent act).1 =
      A ++ ([Seg.lit (indent ++ "- ")] ++ render E e (indent ++ "  ") true) ++ B
  | [], h, _ => by cases h
  | c :: rest, h, act => by
    rcases List.mem_cons.1 h with rfl | h
    · rw [renderSum_cons_nonsum E he]; exact ⟨[], (renderSum E rest indent (nextAct e act)).1, by simp⟩
    · obtain ⟨A0, a, h0⟩ := renderSum_cons_fst_sub (E := E) c rest indent act
      obtain ⟨A, B, hAB⟩ := renderSum_split_nonsum he indent h a
      exact ⟨A0 ++ A, B, by rw [h0, hAB]; simp⟩

theorem renderSum_split_sum {inner : List Err} (indent : String) :
    ∀ {ch : List Err}, Err.sum inner ∈ ch → ∀ act, ∃ A B a, (renderSum E ch indent act).1 =
      A ++ (renderSum E inner indent a).1 ++ B
  | [], h, _ => by cases h
  | c :: rest, h, act => by
    rcases List.mem_cons.1 h with rfl | h
    · rw [renderSum_cons_sum]
      exact ⟨[], (renderSum E rest indent (renderSum E inner indent act).2).1, act, by simp⟩
    · obtain ⟨A0, a, h0⟩ := renderSum_cons_fst_sub (E := E) c rest indent act
      obtain ⟨A, B, a', hAB⟩ := renderSum_split_sum indent h a
      exact ⟨A0 ++ A, B, a', by rw [h0, hAB]; simp⟩

/-! ## Every non-sum node on a path is rendered -/

/-- `n` is rendered inside `segs`: by a `render` call, or (a product node at the end of a fused chain)
by a `renderProd` call carrying the fused path prefix -/
def RenderedIn (E : Ext) (n : Err) (segs : List Seg) : Prop :=
  (∃ ind b, render E n ind b ⊆ segs) ∨
  (∃ exp keys errs act ms xs exp' pre ind b, n = .product exp keys errs act ms xs ∧
    renderProd E exp' pre keys errs (ms.map fun m => pre ++ keyText E m) (xs.map fun x => pre ++ keyText E x)
      ind b ⊆ segs)

theorem RenderedIn.mono {n : Err} {s1 s2 : List Seg} (h : RenderedIn E n s1) (hs : s1 ⊆ s2) :
    RenderedIn E n s2 := by
  rcases h with ⟨ind, b, h⟩ | ⟨exp, keys, errs, act, ms, xs, exp', pre, ind, b, hn, h⟩
  · exact .inl ⟨ind, b, fun x hx => hs (h hx)⟩
  · exact .inr ⟨exp, keys, errs, act, ms, xs, exp', pre, ind, b, hn, fun x hx => hs (h hx)⟩

/-- a node that is not a product is rendered by a `render` call -/
theorem RenderedIn.atom {n : Err} {segs : List Seg} (h : RenderedIn E n segs) (hn : n.isProduct = false) :
    ∃ ind b, render E n ind b ⊆ segs := by
  rcases h with h | ⟨exp, keys, errs, act, ms, xs, exp', pre, ind, b, rfl, h⟩
  · exact h
  · cases hn

/-- a product node is rendered by a `renderProd` call on its own children, `missing` and `extra` -/
theorem RenderedIn.product {exp keys errs act ms xs} {segs : List Seg}
    (h : RenderedIn E (.product exp keys errs act ms xs) segs) :
    ∃ exp' pre ind b, renderProd E exp' pre keys errs (ms.map fun m => pre ++ keyText E m)
      (xs.map fun x => pre ++ keyText E x) ind b ⊆ segs := by
  rcases h with ⟨ind, b, h⟩ | ⟨exp1, keys1, errs1, act1, ms1, xs1, exp', pre, ind, b, heq, h⟩
  · rw [render_product] at h
    exact ⟨exp, "", ind, b, h⟩
  · cases heq
    exact ⟨exp', pre, ind, b, h⟩

theorem zip_singleton_mem {k k0 : Val} {e e0 : Err} (h : (k, e) ∈ [k0].zip [e0]) : k = k0 ∧ e = e0 := by
  simp at h; exact h

theorem rendered_of_path {t n : Err} {ks : List Val} (hp : PathTo t ks n) (hn : n.isSum = false) :
    (∀ indent inSum, RenderedIn E n (render E t indent inSum)) ∧
    (∀ exp keys errs act ms xs, t = .product exp keys errs act ms xs → ∀ exp' pre ind b,
      RenderedIn E n (renderProd E exp' pre keys errs (ms.map fun m => pre ++ keyText E m)
        (xs.map fun x => pre ++ keyText E x) ind b)) ∧
    (∀ inner, t = .sum inner → ∀ indent act, RenderedIn E n (renderSum E inner indent act).1) := by
  induction hp with
  | here t =>
    refine ⟨fun indent inSum => .inl ⟨indent, inSum, fun _ h => h⟩, ?_, ?_⟩
    · intro exp keys errs act ms xs heq exp' pre ind b
      exact .inr ⟨exp, keys, errs, act, ms, xs, exp', pre, ind, b, heq, fun _ h => h⟩
    · intro inner heq; rw [heq] at hn; cases hn
  | @prod exp keys errs act ms xs k e ks' n hmem hp' ih =>
    have ih := ih hn
    have hQ2 : ∀ exp' pre ind b,
        RenderedIn E n (renderProd E exp' pre keys errs (ms.map fun m => pre ++ keyText E m)
          (xs.map fun x => pre ++ keyText E x) ind b) := by
      intro exp' pre ind b
      by_cases hf : Fused keys errs (ms.map fun m => pre ++ keyText E m) (xs.map fun x => pre ++ keyText E x)
      · obtain ⟨k0, e', ks1, es1, a1, ms1, xs1, hk, he, hm, hx⟩ := hf
        rw [hk, he] at hmem
        obtain ⟨rfl, rfl⟩ := zip_singleton_mem hmem
        rw [hk, he, hm, hx, renderProd_fused]
        exact ih.2.1 _ _ _ _ _ _ rfl exp' (pre ++ keyText E k ++ ".") ind b
      · rw [renderProd_unfused E hf]
        obtain ⟨A, B, hAB⟩ := renderChildren_split (E := E) (pre := pre) (indent := ind) hmem
        refine (ih.1 (ind ++ "  ") false).mono ?_
        intro s hs
        have : s ∈ renderChildren E pre keys errs ind := by rw [hAB]; simp [hs]
        simp [this]
    refine ⟨?_, ?_, ?_⟩
    · intro indent inSum
      rw [render_product]
      exact hQ2 exp "" indent inSum
    · intro exp0 keys0 errs0 act0 ms0 xs0 heq
      cases heq
      exact hQ2
    · intro inner heq; cases heq
  | @sum ch e ks' n hmem hp' ih =>
    have ih := ih hn
    -- the member is printed (itself, or -- a nested sum -- through its own flattened members) among the members
    have hQ3 : ∀ indent act, RenderedIn E n (renderSum E ch indent act).1 := by
      intro indent act
      cases he : e.isSum with
      | false =>
        obtain ⟨A, B, hAB⟩ := renderSum_split_nonsum (E := E) he indent hmem act
        refine (ih.1 (indent ++ "  ") true).mono ?_
        intro s hs
        rw [hAB]; simp [hs]
      | true =>
        obtain ⟨inner, rfl⟩ := Err.isSum_eq_true he
        obtain ⟨A, B, a, hAB⟩ := renderSum_split_sum (E := E) indent hmem act
        refine (ih.2.2 inner rfl indent a).mono ?_
        intro s hs
        rw [hAB]; simp [hs]
    refine ⟨?_, ?_, ?_⟩
    · intro indent inSum
      rw [render_sum]
      refine (hQ3 indent Val.none).mono ?_
      intro s hs
      simp [hs]
    · intro exp0 keys0 errs0 act0 ms0 xs0 heq; cases heq
    · intro inner heq indent act
      cases heq
      exact hQ3 indent act

/-- **Every non-sum node on a path from the root is rendered inside the rendering of the root.** -/
theorem rendered_in_root {t n : Err} {ks : List Val} (hp : PathTo t ks n) (hn : n.isSum = false)
    (indent : String) (inSum : Bool) : RenderedIn E n (render E t indent inSum) :=
  (rendered_of_path hp hn).1 indent inSum

/-! ## What a leaf / a product node shows of itself -/

theorem render_wrongType (exp act cause info indent inSum) :
    render E (.wrongType exp act cause info) indent inSum =
      (if inSum then [Seg.lit (exp ++ "\n")]
       else [.lit ("Expected " ++ exp ++ ", instead got `"), .val act, .lit "` of type `", .typ act, .lit "`\n"])
      ++ (match info with | some i => [Seg.lit (indent ++ i ++ "\n")] | none => [])
      ++ (match cause with
          | some m => [Seg.lit ("Caused by exception:\n" ++ indent), .cause indent m, .lit "\n"]
          | none => []) := by
  cases cause <;> cases info <;> rw [render] <;> simp

theorem render_condFailed (exp act name cause indent inSum) :
    render E (.condFailed exp act name cause) indent inSum =
      (if inSum then [Seg.lit exp] else [.lit ("Expected " ++ exp ++ ", instead got `"), .val act, .lit "`"])
      ++ (match cause with
          | some m => [Seg.lit ("\nFailed to call condition '" ++ name ++ "':\n" ++ indent), .cause indent m, .lit "\n"]
          | none => [Seg.lit (" (failed condition '" ++ name ++ "')\n")]) := by
  cases cause <;> rw [render]

theorem render_wrongLen (exp lo hi act n indent inSum) :
    render E (.wrongLen exp lo hi act n) indent inSum =
      if inSum then [.lit (exp ++ " (length " ++ lenRangeText lo hi ++ ")\n")]
      else [.lit ("Expected " ++ exp ++ " of length " ++ lenRangeText lo hi ++ ", instead got `"), .val act,
            .lit ("` of length " ++ toString n ++ "\n")] := by
  rw [render]

theorem render_dupKey (key aliases indent inSum) :
    render E (.dupKey key aliases) indent inSum =
      [.lit ("Duplicate key " ++ keyText E key ++ " (same as " ++ "/".intercalate aliases ++ ")\n")] := by
  rw [render]

/-- a leaf's own rendering contains its expectation text -/
theorem leaf_mentions_expected {l : Err} {e : String} (he : l.expected? = some e) (indent : String) (b : Bool) :
    Mentions e (render E l indent b) := by
  cases l with
  | wrongType exp act cause info =>
    cases he
    rw [render_wrongType]
    cases b
    · exact ⟨"Expected " ++ e ++ ", instead got `", by simp, ⟨"Expected ", ", instead got `", rfl⟩⟩
    · exact ⟨e ++ "\n", by simp, ⟨"", "\n", by simp⟩⟩
  | wrongLen exp lo hi act n =>
    cases he
    rw [render_wrongLen]
    cases b
    · exact ⟨"Expected " ++ e ++ " of length " ++ lenRangeText lo hi ++ ", instead got `", by simp,
        ⟨"Expected ", " of length " ++ lenRangeText lo hi ++ ", instead got `", by simp only [String.append_assoc]⟩⟩
    · exact ⟨e ++ " (length " ++ lenRangeText lo hi ++ ")\n", by simp,
        ⟨"", " (length " ++ lenRangeText lo hi ++ ")\n", by simp [String.append_assoc]⟩⟩
  | condFailed exp act name cause =>
    cases he
    rw [render_condFailed]
    cases b
    · exact ⟨"Expected " ++ e ++ ", instead got `", by simp, ⟨"Expected ", ", instead got `", rfl⟩⟩
    · exact ⟨e, by simp, StrInfix.refl _⟩
  | dupKey _ _ => cases he
  | product _ _ _ _ _ _ => cases he
  | sum _ => cases he

/-- a leaf caused by an exception renders that exception's formatted message -/
theorem leaf_shows_cause {l : Err} {m : String} (hc : l.cause? = some m) (indent : String) (b : Bool) :
    Seg.cause indent m ∈ render E l indent b := by
  cases l with
  | wrongType exp act cause info =>
    simp only [Err.cause?] at hc; subst hc
    rw [render_wrongType]; simp
  | condFailed exp act name cause =>
    simp only [Err.cause?] at hc; subst hc
    rw [render_condFailed]; simp
  | wrongLen _ _ _ _ _ => cases hc
  | dupKey _ _ => cases hc
  | product _ _ _ _ _ _ => cases hc
  | sum _ => cases hc

/-- outside a sum, a leaf's own rendering shows the offending value -/
theorem leaf_shows_value {l : Err} {a : Val} (hl : l.isLeaf = true) (ha : l.actual? = some a) (indent : String) :
    Seg.val a ∈ render E l indent false := by
  cases l with
  | wrongType exp act cause info => cases ha; rw [render_wrongType]; simp
  | wrongLen exp lo hi act n => cases ha; rw [render_wrongLen]; simp
  | condFailed exp act name cause => cases ha; rw [render_condFailed]; simp
  | dupKey _ _ => cases ha
  | product _ _ _ _ _ _ => cases hl
  | sum _ => cases ha

theorem renderProd_shows_missing {exp pre keys errs missing extra indent b} {m : String} (hm : m ∈ missing) :
    Seg.lit (indent ++ "  Missing required field '" ++ m ++ "'\n") ∈
      renderProd E exp pre keys errs missing extra indent b := by
  by_cases hf : Fused keys errs missing extra
  · obtain ⟨_, _, _, _, _, _, _, _, _, h, _⟩ := hf
    rw [h] at hm; cases hm
  · rw [renderProd_unfused E hf]
    simp only [List.mem_append, List.mem_map]
    exact .inl (.inr ⟨m, hm, rfl⟩)

theorem renderProd_shows_extra {exp pre keys errs missing extra indent b} {x : String} (hx : x ∈ extra) :
    Seg.lit (indent ++ "  Unexpected field '" ++ x ++ "'\n") ∈
      renderProd E exp pre keys errs missing extra indent b := by
  by_cases hf : Fused keys errs missing extra
  · obtain ⟨_, _, _, _, _, _, _, _, _, _, h⟩ := hf
    rw [h] at hx; cases hx
  · rw [renderProd_unfused E hf]
    simp only [List.mem_append, List.mem_map]
    exact .inr ⟨x, hx, rfl⟩

/-! ## The footer of a sum -/

mutual
/-- what `_flatten_sum` yields for one child: the child itself, or -- a nested sum -- its members,
flattened in turn -/
def Err.flat : Err → List Err
  | .sum inner => flatMembers inner
  | e => [e]
/-- the members of a sum as printed: nested sums flattened recursively, at every depth
(`flatMembers (.sum inner :: rest) = flatMembers inner ++ flatMembers rest`) -/
def flatMembers : List Err → List Err
  | [] => []
  | c :: rest => c.flat ++ flatMembers rest
end

theorem Err.flat_sum (inner : List Err) : (Err.sum inner).flat = flatMembers inner := by
  rw [Err.flat]

theorem Err.flat_nonsum {c : Err} (hc : c.isSum = false) : c.flat = [c] := by
  cases c <;> first | rfl | cases hc

theorem flatMembers_nil : flatMembers [] = [] := by rw [flatMembers]

theorem flatMembers_cons (c : Err) (rest : List Err) : flatMembers (c :: rest) = c.flat ++ flatMembers rest := by
  rw [flatMembers]

theorem flatMembers_cons_sum (inner rest : List Err) :
    flatMembers (.sum inner :: rest) = flatMembers inner ++ flatMembers rest := by
  rw [flatMembers_cons, Err.flat_sum]

theorem flatMembers_cons_nonsum {c : Err} (hc : c.isSum = false) (rest : List Err) :
    flatMembers (c :: rest) = c :: flatMembers rest := by
  rw [flatMembers_cons, Err.flat_nonsum hc]; rfl

theorem flatMembers_singleton (c : Err) : flatMembers [c] = c.flat := by
  rw [flatMembers_cons, flatMembers_nil, List.append_nil]

theorem flatMembers_append (a b : List Err) : flatMembers (a ++ b) = flatMembers a ++ flatMembers b := by
  induction a with
  | nil => rw [flatMembers_nil]; rfl
  | cons c a ih => rw [List.cons_append, flatMembers_cons, flatMembers_cons, ih, List.append_assoc]

/-- **no printed member is itself a sum**, at any nesting depth -/
theorem flatMembers_not_sum : ∀ (ch : List Err), ∀ m ∈ flatMembers ch, m.isSum = false := by
  refine sumList_induction ?_ ?_ ?_
  · intro m hm; rw [flatMembers_nil] at hm; cases hm
  · intro inner rest ih1 ih2 m hm
    rw [flatMembers_cons_sum, List.mem_append] at hm
    exact hm.elim (ih1 m) (ih2 m)
  · intro c rest hc ih m hm
    rw [flatMembers_cons_nonsum hc] at hm
    rcases List.mem_cons.1 hm with rfl | hm
    · exact hc
    · exact ih m hm

theorem Err.flat_not_sum (e : Err) : ∀ m ∈ e.flat, m.isSum = false := by
  rw [← flatMembers_singleton]; exact flatMembers_not_sum [e]

/-- flattening is idempotent: the printed members contain no sum any more -/
theorem flatMembers_of_no_sum : ∀ {ch : List Err}, (∀ m ∈ ch, m.isSum = false) → flatMembers ch = ch
  | [], _ => flatMembers_nil
  | c :: rest, h => by
    rw [flatMembers_cons_nonsum (h c (List.mem_cons_self ..)),
      flatMembers_of_no_sum fun m hm => h m (List.mem_cons_of_mem _ hm)]

theorem flatMembers_idem (ch : List Err) : flatMembers (flatMembers ch) = flatMembers ch :=
  flatMembers_of_no_sum (flatMembers_not_sum ch)

/-- the value shown in the footer of a sum: thread the `actual` through the fully flattened members -/
theorem renderSum_snd (indent : String) : ∀ (ch : List Err) (act : Val),
    (renderSum E ch indent act).2 = (flatMembers ch).foldl (fun a c => nextAct c a) act := by
  refine sumList_induction ?_ ?_ ?_
  · intro act; rw [renderSum, flatMembers_nil]; rfl
  · intro inner rest ih1 ih2 act
    rw [renderSum_cons_sum, flatMembers_cons_sum, List.foldl_append]
    show (renderSum E rest indent (renderSum E inner indent act).2).2 = _
    rw [ih2, ih1]
  · intro c rest hc ih act
    rw [renderSum_cons_nonsum E hc, flatMembers_cons_nonsum hc, List.foldl_cons]
    exact ih _

/-- the printed members are printed one after the other, each as `- ` + its own rendering inside a sum:
the text of the members is exactly that of the flattened list -/
theorem renderSum_flat (indent : String) : ∀ (ch : List Err) (act : Val),
    renderSum E ch indent act = renderSum E (flatMembers ch) indent act := by
  refine sumList_induction ?_ ?_ ?_
  · intro act; rw [flatMembers_nil]
  · intro inner rest ih1 ih2 act
    rw [flatMembers_cons_sum, renderSum_cons_sum, ih1, ih2]
    generalize flatMembers inner = l
    generalize flatMembers rest = r
    induction l generalizing act with
    | nil => rw [renderSum]; rfl
    | cons d l ihl =>
      cases hd : d.isSum with
      | false =>
        rw [List.cons_append, renderSum_cons_nonsum E hd, renderSum_cons_nonsum E hd, ← ihl]
        simp only [List.append_assoc]
      | true =>
        obtain ⟨inner', rfl⟩ := Err.isSum_eq_true hd
        rw [List.cons_append, renderSum_cons_sum, renderSum_cons_sum, ← ihl]
        simp only [List.append_assoc]
  · intro c rest hc ih act
    rw [flatMembers_cons_nonsum hc, renderSum_cons_nonsum E hc, renderSum_cons_nonsum E hc, ih]

/-- threading = "the last one that has an `actual`" -/
theorem foldl_nextAct (l : List Err) (act : Val) :
    l.foldl (fun a c => nextAct c a) act = ((l.filterMap Err.actual?).getLast?).getD act := by
  induction l generalizing act with
  | nil => rfl
  | cons c l ih =>
    rw [List.foldl_cons, ih, List.filterMap_cons]
    unfold nextAct
    cases c.actual? with
    | none => rfl
    | some a => simp [List.getLast?_cons]

/-! ## The key texts of a path occur in path order -/

theorem InOrder.of_split {ks : List String} {X A M B : List Seg} (h : X = A ++ M ++ B)
    (hM : InOrder ks (flatText M)) : InOrder ks (flatText X) := by
  rw [h, flatText_append, flatText_append]; exact hM.pad _ _

theorem InOrder.append_left {ks : List String} {M : List Seg} (A : List Seg) (hM : InOrder ks (flatText M)) :
    InOrder ks (flatText (A ++ M)) := by
  rw [flatText_append]; exact hM.pad_left _

theorem InOrder.append_right {ks : List String} {M : List Seg} (B : List Seg) (hM : InOrder ks (flatText M)) :
    InOrder ks (flatText (M ++ B)) := by
  rw [flatText_append]; exact hM.pad_right _

theorem PathTo.product_nil {exp keys errs act ms xs} {n : Err}
    (h : PathTo (.product exp keys errs act ms xs) [] n) : n = .product exp keys errs act ms xs := by
  cases h; rfl

theorem inOrder_of_path {t n : Err} {ks : List Val} (hp : PathTo t ks n) (hn : n.isProduct = false) :
    (∀ indent inSum, InOrder (ks.map (keyText E)) (flatText (render E t indent inSum))) ∧
    (∀ exp keys errs act ms xs, t = .product exp keys errs act ms xs → ∀ k ks', ks = k :: ks' →
      ∀ exp' pre ms' xs' ind b, ∃ p q,
        flatText (renderProd E exp' pre keys errs ms' xs' ind b) = p ++ (pre ++ keyText E k) ++ q ∧
        InOrder (ks'.map (keyText E)) q) ∧
    (∀ inner, t = .sum inner → ∀ indent act,
      InOrder (ks.map (keyText E)) (flatText (renderSum E inner indent act).1)) := by
  induction hp with
  | here t =>
    refine ⟨fun _ _ => trivial, ?_, fun _ _ _ _ => trivial⟩
    intro _ _ _ _ _ _ _ k ks' hks; cases hks
  | @prod exp keys errs act ms xs k e ks' n hmem hp' ih =>
    have ih := ih hn
    have hQ2 : ∀ exp' pre ms' xs' ind b, ∃ p q,
        flatText (renderProd E exp' pre keys errs ms' xs' ind b) = p ++ (pre ++ keyText E k) ++ q ∧
        InOrder (ks'.map (keyText E)) q := by
      intro exp' pre ms' xs' ind b
      by_cases hf : Fused keys errs ms' xs'
      · obtain ⟨k0, e', ks1, es1, a1, ms1, xs1, hk, he, hm, hx⟩ := hf
        rw [hk, he] at hmem
        obtain ⟨rfl, rfl⟩ := zip_singleton_mem hmem
        cases ks' with
        | nil => rw [PathTo.product_nil hp'] at hn; cases hn
        | cons k2 ks'' =>
          obtain ⟨p, q, hpq, hq⟩ := ih.2.1 _ _ _ _ _ _ rfl k2 ks'' rfl exp' (pre ++ keyText E k ++ ".")
            (ms1.map fun m => pre ++ keyText E k ++ "." ++ keyText E m)
            (xs1.map fun x => pre ++ keyText E k ++ "." ++ keyText E x) ind b
          rw [hk, he, hm, hx, renderProd_fused, hpq]
          exact ⟨p, "." ++ keyText E k2 ++ q, by simp only [String.append_assoc], ⟨".", q, rfl, hq⟩⟩
      · rw [renderProd_unfused E hf]
        obtain ⟨A, B, hAB⟩ := renderChildren_split (E := E) (pre := pre) (indent := ind) hmem
        rw [hAB]
        refine ⟨flatText [Seg.lit ((if b then "" else "Expected ") ++ exp' ++ "\n")] ++ flatText A ++ ind
            ++ "While parsing field '",
          ("':\n" ++ ind ++ "  ") ++ flatText (render E e (ind ++ "  ") false) ++
            (flatText B ++ flatText (ms'.map fun f => Seg.lit (ind ++ "  Missing required field '" ++ f ++ "'\n"))
              ++ flatText (xs'.map fun f => Seg.lit (ind ++ "  Unexpected field '" ++ f ++ "'\n"))),
          ?_, (ih.1 (ind ++ "  ") false).pad _ _⟩
        simp only [flatText_append, flatText, whileText, String.append_assoc, String.append_empty]
    refine ⟨?_, ?_, ?_⟩
    · intro indent inSum
      obtain ⟨p, q, hpq, hq⟩ := hQ2 exp "" (ms.map fun m => "" ++ keyText E m)
        (xs.map fun x => "" ++ keyText E x) indent inSum
      rw [render_product, hpq]
      exact ⟨p, q, by rw [String.empty_append], hq⟩
    · intro exp0 keys0 errs0 act0 ms0 xs0 heq k1 ks1 hks
      cases heq; cases hks
      exact hQ2
    · intro inner heq; cases heq
  | @sum ch e ks' n hmem hp' ih =>
    have ih := ih hn
    have hQ3 : ∀ indent act, InOrder (ks'.map (keyText E)) (flatText (renderSum E ch indent act).1) := by
      intro indent act
      cases he : e.isSum with
      | false =>
        obtain ⟨A, B, hAB⟩ := renderSum_split_nonsum (E := E) he indent hmem act
        exact InOrder.of_split hAB (InOrder.append_left _ (ih.1 (indent ++ "  ") true))
      | true =>
        obtain ⟨inner, rfl⟩ := Err.isSum_eq_true he
        obtain ⟨A, B, a, hAB⟩ := renderSum_split_sum (E := E) indent hmem act
        exact InOrder.of_split hAB (ih.2.2 inner rfl indent a)
    refine ⟨?_, ?_, ?_⟩
    · intro indent inSum
      rw [render_sum]
      apply InOrder.append_right
      apply InOrder.append_left
      exact hQ3 indent Val.none
    · intro exp0 keys0 errs0 act0 ms0 xs0 heq; cases heq
    · intro inner heq indent act
      cases heq
      exact hQ3 indent act

/-! ## Values shown below a product root -/

/-- `n` is reached from `t` through product children only -/
inductive ProdPathTo : Err → Err → Prop
  | here (t : Err) : ProdPathTo t t
  | prod {exp : String} {keys : List Val} {errs : List Err} {act : Val} {ms xs : List Val}
      {k : Val} {e : Err} {n : Err} :
      (k, e) ∈ keys.zip errs → ProdPathTo e n → ProdPathTo (.product exp keys errs act ms xs) n

theorem ProdPathTo.toPath {t n : Err} (h : ProdPathTo t n) : ∃ ks, PathTo t ks n := by
  induction h with
  | here t => exact ⟨[], .here t⟩
  | prod hmem _ ih => obtain ⟨ks, hks⟩ := ih; exact ⟨_ :: ks, .prod hmem hks⟩

theorem value_of_prodPath {t l : Err} {a : Val} (hp : ProdPathTo t l) (hl : l.isLeaf = true)
    (ha : l.actual? = some a) :
    (∀ indent b, (t.isProduct = true ∨ b = false) → Seg.val a ∈ render E t indent b) ∧
    (∀ exp keys errs act ms xs, t = .product exp keys errs act ms xs → ∀ exp' pre ms' xs' ind b,
      Seg.val a ∈ renderProd E exp' pre keys errs ms' xs' ind b) := by
  induction hp with
  | here t =>
    refine ⟨?_, ?_⟩
    · intro indent b hb
      rcases hb with hb | rfl
      · cases t <;> simp [Err.isProduct, Err.isLeaf] at hb hl
      · exact leaf_shows_value hl ha indent
    · intro _ _ _ _ _ _ heq; rw [heq] at hl; cases hl
  | @prod exp keys errs act ms xs k e n hmem hp' ih =>
    have ih := ih hl ha
    have hQ2 : ∀ exp' pre ms' xs' ind b, Seg.val a ∈ renderProd E exp' pre keys errs ms' xs' ind b := by
      intro exp' pre ms' xs' ind b
      by_cases hf : Fused keys errs ms' xs'
      · obtain ⟨k0, e', ks1, es1, a1, ms1, xs1, hk, he, hm, hx⟩ := hf
        rw [hk, he] at hmem
        obtain ⟨rfl, rfl⟩ := zip_singleton_mem hmem
        rw [hk, he, hm, hx, renderProd_fused]
        exact ih.2 _ _ _ _ _ _ rfl _ _ _ _ _ _
      · rw [renderProd_unfused E hf]
        obtain ⟨A, B, hAB⟩ := renderChildren_split (E := E) (pre := pre) (indent := ind) hmem
        have h1 := ih.1 (ind ++ "  ") false (.inr rfl)
        have : Seg.val a ∈ renderChildren E pre keys errs ind := by rw [hAB]; simp [h1]
        simp [this]
    refine ⟨?_, ?_⟩
    · intro indent b _
      rw [render_product]
      exact hQ2 _ _ _ _ _ _
    · intro exp0 keys0 errs0 act0 ms0 xs0 heq
      cases heq
      exact hQ2

/-- a printed member is a non-sum member, or a printed member of a nested sum member -/
theorem mem_flatMembers {m : Err} : ∀ {ch : List Err}, m ∈ flatMembers ch →
    (m ∈ ch ∧ m.isSum = false) ∨ ∃ inner, Err.sum inner ∈ ch ∧ m ∈ flatMembers inner
  | [], h => by rw [flatMembers_nil] at h; cases h
  | c :: rest, h => by
    cases hc : c.isSum with
    | false =>
      rw [flatMembers_cons_nonsum hc] at h
      rcases List.mem_cons.1 h with rfl | h
      · exact .inl ⟨List.mem_cons_self .., hc⟩
      · rcases mem_flatMembers h with ⟨h1, h2⟩ | ⟨inner, h1, h2⟩
        · exact .inl ⟨List.mem_cons_of_mem _ h1, h2⟩
        · exact .inr ⟨inner, List.mem_cons_of_mem _ h1, h2⟩
    | true =>
      obtain ⟨inner, rfl⟩ := Err.isSum_eq_true hc
      rw [flatMembers_cons_sum, List.mem_append] at h
      rcases h with h | h
      · exact .inr ⟨inner, List.mem_cons_self .., h⟩
      · rcases mem_flatMembers h with ⟨h1, h2⟩ | ⟨inner', h1, h2⟩
        · exact .inl ⟨List.mem_cons_of_mem _ h1, h2⟩
        · exact .inr ⟨inner', List.mem_cons_of_mem _ h1, h2⟩

/-- … and conversely -/
theorem mem_flatMembers_of_mem {m c : Err} : ∀ {ch : List Err}, c ∈ ch → m ∈ c.flat → m ∈ flatMembers ch
  | [], h, _ => by cases h
  | d :: rest, h, hm => by
    rw [flatMembers_cons, List.mem_append]
    rcases List.mem_cons.1 h with rfl | h
    · exact .inl hm
    · exact .inr (mem_flatMembers_of_mem h hm)

theorem mem_flatMembers_iff {m : Err} {ch : List Err} :
    m ∈ flatMembers ch ↔ (m ∈ ch ∧ m.isSum = false) ∨ ∃ inner, Err.sum inner ∈ ch ∧ m ∈ flatMembers inner := by
  refine ⟨mem_flatMembers, ?_⟩
  rintro (⟨h1, h2⟩ | ⟨inner, h1, h2⟩)
  · exact mem_flatMembers_of_mem h1 (by rw [Err.flat_nonsum h2]; exact List.mem_singleton.2 rfl)
  · exact mem_flatMembers_of_mem h1 (by rw [Err.flat_sum]; exact h2)

/-- every printed member is a node of the tree (reached through sum members only) -/
theorem exists_pathTo_of_mem_flatMembers {m : Err} :
    ∀ (ch : List Err), m ∈ flatMembers ch → ∃ e ∈ ch, PathTo e [] m := by
  refine sumList_induction ?_ ?_ ?_
  · intro h; rw [flatMembers_nil] at h; cases h
  · intro inner rest ih1 ih2 h
    rw [flatMembers_cons_sum, List.mem_append] at h
    rcases h with h | h
    · obtain ⟨e, he, hp⟩ := ih1 h
      exact ⟨_, List.mem_cons_self .., .sum he hp⟩
    · obtain ⟨e, he, hp⟩ := ih2 h
      exact ⟨e, List.mem_cons_of_mem _ he, hp⟩
  · intro c rest hc ih h
    rw [flatMembers_cons_nonsum hc] at h
    rcases List.mem_cons.1 h with rfl | h
    · exact ⟨_, List.mem_cons_self .., .here _⟩
    · obtain ⟨e, he, hp⟩ := ih h
      exact ⟨e, List.mem_cons_of_mem _ he, hp⟩

theorem pathTo_of_mem_flatMembers {m : Err} {ch : List Err} (h : m ∈ flatMembers ch) : PathTo (.sum ch) [] m := by
  obtain ⟨e, he, hp⟩ := exists_pathTo_of_mem_flatMembers ch h
  exact .sum he hp

theorem flatMembers_ne_nil_of_flat {ch : List Err} {c : Err} (hc : c ∈ ch) (hf : c.flat ≠ []) :
    flatMembers ch ≠ [] := by
  cases hl : c.flat with
  | nil => exact absurd hl hf
  | cons m l =>
    intro h
    have : m ∈ flatMembers ch := mem_flatMembers_of_mem hc (by rw [hl]; exact List.mem_cons_self ..)
    rw [h] at this; cases this

theorem flatMembers_ne_nil_of_nonsum {ch : List Err} {c : Err} (hc : c ∈ ch) (hs : c.isSum = false) :
    flatMembers ch ≠ [] :=
  flatMembers_ne_nil_of_flat hc (by rw [Err.flat_nonsum hs]; simp)

theorem flatMembers_ne_nil_of_sum {ch inner : List Err} (hc : Err.sum inner ∈ ch) (hi : flatMembers inner ≠ []) :
    flatMembers ch ≠ [] :=
  flatMembers_ne_nil_of_flat hc (by rw [Err.flat_sum]; exact hi)

/-- the value the footer `Instead got …` of a sum with members `ch` shows -/
def footerVal (ch : List Err) : Val := (((flatMembers ch).filterMap Err.actual?).getLast?).getD Val.none

/-- if every printed member records the same value, the footer shows it -/
theorem foldl_nextAct_const {l : List Err} {v : Val} (hne : l ≠ []) (h : ∀ m ∈ l, m.actual? = some v) (act : Val) :
    l.foldl (fun a c => nextAct c a) act = v := by
  induction l generalizing act with
  | nil => exact absurd rfl hne
  | cons c l ih =>
    rw [List.foldl_cons]
    have hc : nextAct c act = v := by simp [nextAct, h c (List.mem_cons_self ..)]
    rw [hc]
    cases l with
    | nil => rfl
    | cons d l' => exact ih (by simp) (fun m hm => h m (List.mem_cons_of_mem _ hm)) v

/-! ## Converters under which the footer of a sum shows the input -/

mutual
/-- `c` records the input itself (`Conv.recordsInput`), or is a non-empty union -- nested to any depth --
of such converters, or a `ValueOrList` of such a converter (its two members are the element converter and
the list converter, which records the input itself) -/
def Conv.recordsInputDeep : Conv → Bool
  | .union ds => !ds.isEmpty && recordsInputDeepList ds
  | .vol d => d.recordsInputDeep
  | c => c.recordsInput
def recordsInputDeepList : List Conv → Bool
  | [] => true
  | c :: cs => c.recordsInputDeep && recordsInputDeepList cs
end

theorem recordsInputDeepList_iff {cs : List Conv} :
    recordsInputDeepList cs = true ↔ ∀ c ∈ cs, c.recordsInputDeep = true := by
  induction cs with
  | nil => simp [recordsInputDeepList]
  | cons c cs ih => simp [recordsInputDeepList, ih]

theorem Conv.recordsInputDeep_union {ds : List Conv} :
    (Conv.union ds).recordsInputDeep = true ↔ ds ≠ [] ∧ ∀ d ∈ ds, d.recordsInputDeep = true := by
  rw [Conv.recordsInputDeep, Bool.and_eq_true, recordsInputDeepList_iff]
  cases ds <;> simp

theorem Conv.recordsInputDeep_of_recordsInput {c : Conv} (h : c.recordsInput = true) :
    c.recordsInputDeep = true := by
  cases c <;> first | exact h | cases h

theorem Conv.recordsInputDeep_vol {d : Conv} : (Conv.vol d).recordsInputDeep = d.recordsInputDeep := by
  rw [Conv.recordsInputDeep]

/-- the characterisation: `recordsInput`, or a non-empty union of `recordsInputDeep` converters, or a
`ValueOrList` of a `recordsInputDeep` converter -/
theorem Conv.recordsInputDeep_iff {c : Conv} :
    c.recordsInputDeep = true ↔
      c.recordsInput = true ∨ (∃ ds, c = .union ds ∧ ds ≠ [] ∧ ∀ d ∈ ds, d.recordsInputDeep = true) ∨
        ∃ d, c = .vol d ∧ d.recordsInputDeep = true := by
  constructor
  · intro h
    cases c
    case union ds => exact .inr (.inl ⟨ds, rfl, Conv.recordsInputDeep_union.1 h⟩)
    case vol d => exact .inr (.inr ⟨d, rfl, by rwa [Conv.recordsInputDeep_vol] at h⟩)
    all_goals exact .inl h
  · rintro (h | ⟨ds, rfl, h⟩ | ⟨d, rfl, h⟩)
    · exact Conv.recordsInputDeep_of_recordsInput h
    · exact Conv.recordsInputDeep_union.2 h
    · rwa [Conv.recordsInputDeep_vol]

/-! ## Every key of a path sits in a `While parsing field '…'` line -/

/-- some `While parsing field '…'` line names key `k` (possibly inside a fused dotted path `a.k.b`) -/
def WhileSeg (E : Ext) (k : Val) (segs : List Seg) : Prop :=
  ∃ ind a b, Seg.lit (ind ++ "While parsing field '" ++ a ++ keyText E k ++ b ++ "':\n" ++ ind ++ "  ") ∈ segs

theorem WhileSeg.mono {k : Val} {s1 s2 : List Seg} (h : WhileSeg E k s1) (hs : s1 ⊆ s2) : WhileSeg E k s2 := by
  obtain ⟨ind, a, b, hm⟩ := h
  exact ⟨ind, a, b, hs hm⟩

theorem whileSeg_of_path {t n : Err} {ks : List Val} (hp : PathTo t ks n) (hn : n.isProduct = false) :
    (∀ indent inSum, ∀ k ∈ ks, WhileSeg E k (render E t indent inSum)) ∧
    (∀ exp keys errs act ms xs, t = .product exp keys errs act ms xs → ∀ k ks', ks = k :: ks' →
      ∀ exp' pre ms' xs' ind b,
        (∃ ind' sfx, Seg.lit (ind' ++ "While parsing field '" ++ pre ++ keyText E k ++ sfx ++ "':\n" ++ ind' ++ "  ")
          ∈ renderProd E exp' pre keys errs ms' xs' ind b) ∧
        ∀ k' ∈ ks', WhileSeg E k' (renderProd E exp' pre keys errs ms' xs' ind b)) ∧
    (∀ inner, t = .sum inner → ∀ indent act, ∀ k ∈ ks, WhileSeg E k (renderSum E inner indent act).1) := by
  induction hp with
  | here t =>
    refine ⟨?_, ?_, ?_⟩
    · intro _ _ k hk; cases hk
    · intro _ _ _ _ _ _ _ k ks' hks; cases hks
    · intro _ _ _ _ k hk; cases hk
  | @prod exp keys errs act ms xs k e ks' n hmem hp' ih =>
    have ih := ih hn
    have hQ2 : ∀ exp' pre ms' xs' ind b,
        (∃ ind' sfx, Seg.lit (ind' ++ "While parsing field '" ++ pre ++ keyText E k ++ sfx ++ "':\n" ++ ind' ++ "  ")
          ∈ renderProd E exp' pre keys errs ms' xs' ind b) ∧
        ∀ k' ∈ ks', WhileSeg E k' (renderProd E exp' pre keys errs ms' xs' ind b) := by
      intro exp' pre ms' xs' ind b
      by_cases hf : Fused keys errs ms' xs'
      · obtain ⟨k0, e', ks1, es1, a1, ms1, xs1, hk, he, hm, hx⟩ := hf
        rw [hk, he] at hmem
        obtain ⟨rfl, rfl⟩ := zip_singleton_mem hmem
        cases ks' with
        | nil => rw [PathTo.product_nil hp'] at hn; cases hn
        | cons k2 ks'' =>
          obtain ⟨⟨ind', sfx, hin⟩, hrest⟩ := ih.2.1 _ _ _ _ _ _ rfl k2 ks'' rfl exp' (pre ++ keyText E k ++ ".")
            (ms1.map fun m => pre ++ keyText E k ++ "." ++ keyText E m)
            (xs1.map fun x => pre ++ keyText E k ++ "." ++ keyText E x) ind b
          rw [hk, he, hm, hx, renderProd_fused]
          refine ⟨⟨ind', "." ++ keyText E k2 ++ sfx, ?_⟩, ?_⟩
          · have : ind' ++ "While parsing field '" ++ pre ++ keyText E k ++ ("." ++ keyText E k2 ++ sfx) ++ "':\n"
                ++ ind' ++ "  " =
              ind' ++ "While parsing field '" ++ (pre ++ keyText E k ++ ".") ++ keyText E k2 ++ sfx ++ "':\n"
                ++ ind' ++ "  " := by simp only [String.append_assoc]
            rw [this]; exact hin
          · intro k' hk'
            rcases List.mem_cons.1 hk' with rfl | hk'
            · exact ⟨ind', pre ++ keyText E k ++ ".", sfx, hin⟩
            · exact hrest k' hk'
      · rw [renderProd_unfused E hf]
        obtain ⟨A, B, hAB⟩ := renderChildren_split (E := E) (pre := pre) (indent := ind) hmem
        have hsub : ∀ s, s ∈ [Seg.lit (whileText E ind pre k)] ++ render E e (ind ++ "  ") false →
            s ∈ [Seg.lit ((if b then "" else "Expected ") ++ exp' ++ "\n")] ++ renderChildren E pre keys errs ind ++
              ms'.map (fun f => Seg.lit (ind ++ "  Missing required field '" ++ f ++ "'\n")) ++
              xs'.map (fun f => Seg.lit (ind ++ "  Unexpected field '" ++ f ++ "'\n")) := by
          intro s hs
          have : s ∈ renderChildren E pre keys errs ind := by
            rw [hAB]; exact List.mem_append_left _ (List.mem_append_right _ hs)
          exact List.mem_append_left _ (List.mem_append_left _ (List.mem_append_right _ this))
        refine ⟨⟨ind, "", ?_⟩, ?_⟩
        · apply hsub
          apply List.mem_append_left
          have : ind ++ "While parsing field '" ++ pre ++ keyText E k ++ "" ++ "':\n" ++ ind ++ "  " =
              whileText E ind pre k := by simp only [whileText, String.append_empty]
          rw [this]; exact List.mem_singleton.2 rfl
        · intro k' hk'
          exact (ih.1 (ind ++ "  ") false k' hk').mono fun s hs => hsub s (List.mem_append_right _ hs)
    refine ⟨?_, ?_, ?_⟩
    · intro indent inSum k' hk'
      rw [render_product]
      obtain ⟨⟨ind', sfx, hin⟩, hrest⟩ := hQ2 exp "" (ms.map fun m => "" ++ keyText E m)
        (xs.map fun x => "" ++ keyText E x) indent inSum
      rcases List.mem_cons.1 hk' with rfl | hk'
      · exact ⟨ind', "", sfx, hin⟩
      · exact hrest k' hk'
    · intro exp0 keys0 errs0 act0 ms0 xs0 heq k1 ks1 hks
      cases heq; cases hks
      exact hQ2
    · intro inner heq; cases heq
  | @sum ch e ks' n hmem hp' ih =>
    have ih := ih hn
    have hQ3 : ∀ indent act, ∀ k ∈ ks', WhileSeg E k (renderSum E ch indent act).1 := by
      intro indent act k hk
      cases he : e.isSum with
      | false =>
        obtain ⟨A, B, hAB⟩ := renderSum_split_nonsum (E := E) he indent hmem act
        refine (ih.1 (indent ++ "  ") true k hk).mono fun s hs => ?_
        rw [hAB]; exact List.mem_append_left _ (List.mem_append_right _ (List.mem_append_right _ hs))
      | true =>
        obtain ⟨inner, rfl⟩ := Err.isSum_eq_true he
        obtain ⟨A, B, a, hAB⟩ := renderSum_split_sum (E := E) indent hmem act
        refine (ih.2.2 inner rfl indent a k hk).mono fun s hs => ?_
        rw [hAB]; exact List.mem_append_left _ (List.mem_append_right _ hs)
    refine ⟨?_, ?_, ?_⟩
    · intro indent inSum k hk
      rw [render_sum]
      exact (hQ3 indent Val.none k hk).mono fun s hs =>
        List.mem_append_left _ (List.mem_append_right _ hs)
    · intro exp0 keys0 errs0 act0 ms0 xs0 heq; cases heq
    · intro inner heq indent act k hk
      cases heq
      exact hQ3 indent act k hk

/-! ## Building paths in concrete trees -/

theorem PathTo.child0 {exp k keys e errs act ms xs ks n} (h : PathTo e ks n) :
    PathTo (.product exp (k :: keys) (e :: errs) act ms xs) (k :: ks) n :=
  .prod (by simp) h

theorem PathTo.child1 {exp k0 k keys e0 e errs act ms xs ks n} (h : PathTo e ks n) :
    PathTo (.product exp (k0 :: k :: keys) (e0 :: e :: errs) act ms xs) (k :: ks) n :=
  .prod (by simp) h

theorem PathTo.member0 {e ch ks n} (h : PathTo e ks n) : PathTo (.sum (e :: ch)) ks n :=
  .sum (by simp) h

theorem PathTo.member1 {e0 e ch ks n} (h : PathTo e ks n) : PathTo (.sum (e0 :: e :: ch)) ks n :=
  .sum (by simp) h

theorem ProdPathTo.child0 {exp k keys e errs act ms xs n} (h : ProdPathTo e n) :
    ProdPathTo (.product exp (k :: keys) (e :: errs) act ms xs) n :=
  .prod (k := k) (by simp) h

end PaneModel
