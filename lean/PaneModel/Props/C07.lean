import PaneModel.Lemmas.TreesCollect
/-!
# C07 — error trees localise failures compositionally

When a conversion fails, the error tree mirrors the structure of the type: a product node's children
are keyed by exactly those positions / keys whose element is rejected on its own, `missing` is exactly
the absent required fields and `extra` exactly the unknown keys, and a union's node has one child per
member in declaration order.  Each child equals the tree that the element's own type reports for that
sub-value alone, and every leaf records the offending sub-value itself.

Shape of the statements.  For each product-building converter the children `(keys, errs)` of its node
are characterised *exactly* (content and order) by one equation

    keys.length = errs.length ∧ keys.zip errs = kidsOf [(key of element, own report of element), …]

where the list on the right runs over the data in data order, and the "own report" of an element is
`colC E c x` for the element's converter `c` and the element `x` alone (`kidsOf` keeps the rejected
ones).  The pointwise readings ("each child IS the own tree", "each rejected element HAS its child",
"an accepted element has none") follow from `kids_child`, `kids_rejected`, `kids_accepted`, and are
spelled out for tuples, struct literals and dataclasses.

Restricted statements (never weakened silently):
* `C07_dict_children_partial` needs pairwise distinct `str(k)` of the data keys; without it the
  statement is false (`C07_dict_children_full_fails`, finding N7);
* "every leaf records the offending value itself" (`C07_leaf_actual`, `C07_cond_actual`,
  `C07_delegate_actual`, `C07_enum_actual`) has two documented exceptions, each stated as a theorem:
  patterns record the unwrapped pattern text
  (`C07_pattern_actual_is_unwrapped`), and the unknown-tag leaf of a tagged union records the tag value
  (`C07_tagged_tag_unknown`).
Most statements need none of the C03 hypotheses (the loops involved never call the fast pass); those
that go through `convert()` of an element (`seq`, dataclasses) take `GuardsCover`, `ExtOk` and `wf`.
-/
namespace PaneModel

variable {E : Ext}

/-! ## Tuples -/

/-- **C07 (tuple).**  A product node reported by a tuple converter records the input itself, has no
`missing` / `extra`, and its children are exactly the rejected positions, in increasing order, each
child being the tree the positional converter reports for that element alone.
(Needs no hypothesis at all: the tuple loop never calls the fast pass.) -/
theorem C07_tuple_children (cs : List Conv) (v : Val) {exp keys errs act missing extra}
    (h : colC E (.tuple cs) v = .ok (some (.product exp keys errs act missing extra))) :
    act = v ∧ missing = [] ∧ extra = [] ∧ exp = expected E (.tuple cs) false ∧
    v.isSeq = true ∧ v.seqItems.length = cs.length ∧
    keys.length = errs.length ∧
    keys.zip errs = kidsOf (posReports (List.zipWith (colC E) cs v.seqItems)) ∧
    keys = (((List.zipWith (colC E) cs v.seqItems).zipIdx).filter fun p => isRejected p.1).map
      fun p => Val.int p.2 := by
  simp only [colC] at h
  split at h
  · cases h
  · rename_i hshape
    cases hz : zipCol (colCs E cs) v.seqItems 0 with
    | interrupt => rw [hz] at h; cases h
    | leak e => rw [hz] at h; cases h
    | ok ch =>
      rw [hz] at h
      simp only at h
      split at h
      · cases h
      · simp only [Outcome.ok.injEq, Option.some.injEq, Err.product.injEq] at h
        obtain ⟨rfl, rfl, rfl, rfl, rfl, rfl⟩ := h
        obtain ⟨h1, h2, -⟩ := zipCol_kids _ _ _ _ hz
        rw [zipWith_colCs] at h2
        have hs : v.isSeq = true ∧ v.seqItems.length = cs.length := by
          simpa using hshape
        refine ⟨rfl, rfl, rfl, rfl, hs.1, hs.2, h1, h2, ?_⟩
        rw [← kidsOf_posReports_keys, ← h2, List.map_fst_zip (by omega)]

/-- the shape leaf of a tuple converter records the input itself -/
theorem C07_tuple_shape_leaf (cs : List Conv) (v : Val)
    (hshape : v.isSeq = false ∨ v.seqItems.length ≠ cs.length) :
    colC E (.tuple cs) v = .ok (some (.wrongType (expected E (.tuple cs) false) v none none)) := by
  simp only [colC]
  rw [if_pos]
  rcases hshape with h | h
  · simp [h]
  · simp [h]

section TuplePointwise
variable {cs : List Conv} {v : Val} {exp : String} {keys : List Val} {errs : List Err} {act : Val}
  {missing extra : List Val}

/-- each child of a tuple node is keyed by a position and IS the tree the converter of that position
reports for the element at that position, alone -/
theorem C07_tuple_child_is_own_tree
    (h : colC E (.tuple cs) v = .ok (some (.product exp keys errs act missing extra)))
    {j : Nat} {k : Val} {t : Err} (hk : keys[j]? = some k) (ht : errs[j]? = some t) :
    ∃ (i : Nat) (c : Conv) (x : Val), k = .int i ∧ cs[i]? = some c ∧ v.seqItems[i]? = some x ∧
      colC E c x = .ok (some t) := by
  obtain ⟨-, -, -, -, -, -, -, hz, -⟩ := C07_tuple_children cs v h
  obtain ⟨i, hki, hri⟩ := mem_posReports.1 (kids_child hz hk ht)
  obtain ⟨c, x, hc, hx, hr⟩ := zipWith_colC_getElem?.1 hri
  exact ⟨i, c, x, by simpa using hki, hc, hx, hr.symm⟩

/-- conversely each position whose element is rejected on its own has its child, which is that tree -/
theorem C07_tuple_rejected_has_child
    (h : colC E (.tuple cs) v = .ok (some (.product exp keys errs act missing extra)))
    {i : Nat} {c : Conv} {x : Val} {t : Err} (hc : cs[i]? = some c) (hx : v.seqItems[i]? = some x)
    (hr : colC E c x = .ok (some t)) :
    ∃ j : Nat, keys[j]? = some (.int i) ∧ errs[j]? = some t := by
  obtain ⟨-, -, -, -, -, -, -, hz, -⟩ := C07_tuple_children cs v h
  apply kids_rejected hz
  rw [mem_posReports]
  exact ⟨i, by simp, zipWith_colC_getElem?.2 ⟨c, x, hc, hx, hr.symm⟩⟩

/-- a position whose element is accepted on its own has no child -/
theorem C07_tuple_accepted_no_child
    (h : colC E (.tuple cs) v = .ok (some (.product exp keys errs act missing extra)))
    {i : Nat} {c : Conv} {x : Val} (hc : cs[i]? = some c) (hx : v.seqItems[i]? = some x)
    (hr : colC E c x = .ok none) : Val.int i ∉ keys := by
  obtain ⟨-, -, -, -, -, -, hlen, hz, -⟩ := C07_tuple_children cs v h
  apply kids_accepted hlen hz
  intro r hm
  obtain ⟨j, hj, hrj⟩ := mem_posReports.1 hm
  have : i = j := by
    have : (i : Int) = ((0 + j : Nat) : Int) := by injection hj
    omega
  subst this
  obtain ⟨c', x', hc', hx', hr'⟩ := zipWith_colC_getElem?.1 hrj
  rw [hc] at hc'; rw [hx] at hx'
  cases hc'; cases hx'
  rw [hr', hr]

end TuplePointwise

/-! ## Homogeneous sequences -/

/-- **C07 (sequence).**  A product node reported by a sequence converter records the input itself, has
no `missing` / `extra`, and its children are exactly the rejected positions, in increasing order, each
child being the tree the element converter reports for that element alone. -/
theorem C07_seq_children (hG : GuardsCover = true) (hE : ExtOk E) (kind : String) (c : Conv)
    (hwf : c.wf = true) (v : Val) {exp keys errs act missing extra}
    (h : colC E (.seq kind c) v = .ok (some (.product exp keys errs act missing extra))) :
    act = v ∧ missing = [] ∧ extra = [] ∧ exp = expected E (.seq kind c) false ∧
    v.isSeq = true ∧ keys ≠ [] ∧
    keys.length = errs.length ∧
    keys.zip errs = kidsOf (posReports (v.seqItems.map (colC E c))) ∧
    keys = (((v.seqItems.map (colC E c)).zipIdx).filter fun p => isRejected p.1).map
      fun p => Val.int p.2 := by
  simp only [colC, seqColWith] at h
  split at h
  · cases h
  · rename_i hseq
    cases hce : convertEach (tryC E c) (colC E c) v.seqItems 0 with
    | error e => rw [hce] at h; cases h
    | ok p =>
      obtain ⟨vals, ch⟩ := p
      rw [hce] at h
      simp only at h
      split at h
      · rename_i hne
        simp only [Outcome.ok.injEq, Option.some.injEq, Err.product.injEq] at h
        obtain ⟨rfl, rfl, rfl, rfl, rfl, rfl⟩ := h
        obtain ⟨h1, h2, -⟩ := convertEach_kids (C03.good hG hE c hwf) _ _ _ _ hce
        refine ⟨rfl, rfl, rfl, rfl, by simpa using hseq, ?_, h1, h2, ?_⟩
        · intro h0; rw [h0] at hne; simp at hne
        · rw [← kidsOf_posReports_keys, ← h2, List.map_fst_zip (by omega)]
      · split at h <;> cases h

/-- **C07 (sequence, shape of the node).**  Whatever a sequence converter reports is either a product
node with at least one child, or — when there is no child — a leaf recording the input itself: the
not-a-sequence leaf (no cause) or the constructor-failure leaf (cause = the constructor's exception). -/
theorem C07_seq_node_or_leaf (kind : String) (c : Conv) (v : Val) {t : Err}
    (h : colC E (.seq kind c) v = .ok (some t)) :
    (∃ keys errs, keys ≠ [] ∧ t = .product (expected E (.seq kind c) false) keys errs v [] []) ∨
    (∃ cause, t = .wrongType (expected E (.seq kind c) false) v cause none) := by
  simp only [colC, seqColWith] at h
  split at h
  · cases h; exact .inr ⟨none, rfl⟩
  · cases hce : convertEach (tryC E c) (colC E c) v.seqItems 0 with
    | error e => rw [hce] at h; cases h
    | ok p =>
      obtain ⟨vals, ch⟩ := p
      rw [hce] at h
      simp only at h
      split at h
      · rename_i hne
        cases h
        exact .inl ⟨ch.1, ch.2, by intro h0; rw [h0] at hne; simp at hne, rfl⟩
      · split at h
        · cases h
        · cases h; exact .inr ⟨_, rfl⟩
        · cases h
        · cases h

/-! ## Struct literals -/

/-- **C07 (struct literal).**  The node records the input itself; its children are keyed by exactly
the data keys that are declared names and whose value is rejected by that field's converter (data
order), each child being that converter's own tree for that value; `extra` is exactly the data keys
that are not declared names (data order); `missing` is exactly the declared names absent from the data. -/
theorem C07_struct_children (names : List String) (cs : List Conv) (v : Val)
    {exp keys errs act missing extra}
    (h : colC E (.struct names cs) v = .ok (some (.product exp keys errs act missing extra))) :
    act = v ∧ exp = expected E (.struct names cs) false ∧ v.isMap = true ∧
    keys.length = errs.length ∧
    keys.zip errs = kidsOf (v.mapItems.map fun kv => (kv.1, structReport names (colCs E cs) kv)) ∧
    extra = (v.mapItems.filter fun kv => (structKnown names kv.1).isNone).map (·.1) ∧
    missing = (names.filter fun n => !(v.mapItems.any fun kv => Val.pyEq kv.1 (.str n))).map Val.str := by
  simp only [colC] at h
  split at h
  · cases h
  · rename_i hmap
    cases hsc : structCol names (colCs E cs) v.mapItems with
    | interrupt => rw [hsc] at h; cases h
    | leak e => rw [hsc] at h; cases h
    | ok p =>
      obtain ⟨ch, extra'⟩ := p
      rw [hsc] at h
      simp only at h
      split at h
      · simp only [Outcome.ok.injEq, Option.some.injEq, Err.product.injEq] at h
        obtain ⟨rfl, rfl, rfl, rfl, rfl, rfl⟩ := h
        obtain ⟨h1, h2, h3, -⟩ := structCol_kids _ _ _ _ _ hsc
        exact ⟨rfl, rfl, by simpa using hmap, h1, h2, h3, rfl⟩
      · cases h

/-- each child of a struct node is keyed by a declared name present in the data and IS the tree that
field's converter reports for that entry's value alone -/
theorem C07_struct_child_is_own_tree {names : List String} {cs : List Conv} {v : Val}
    {exp keys errs act missing extra}
    (h : colC E (.struct names cs) v = .ok (some (.product exp keys errs act missing extra)))
    {j : Nat} {k : Val} {t : Err} (hk : keys[j]? = some k) (ht : errs[j]? = some t) :
    ∃ (s : String) (i : Nat) (c : Conv) (x : Val), k = .str s ∧ names.idxOf? s = some i ∧
      cs[i]? = some c ∧ (k, x) ∈ v.mapItems ∧ colC E c x = .ok (some t) := by
  obtain ⟨-, -, -, -, hz, -, -⟩ := C07_struct_children names cs v h
  have hm := kids_child hz hk ht
  rw [List.mem_map] at hm
  obtain ⟨⟨k', x⟩, hmem, heq⟩ := hm
  simp only [Prod.mk.injEq] at heq
  obtain ⟨rfl, hrep⟩ := heq
  unfold structReport at hrep
  cases hkn : structKnown names k' with
  | none => rw [hkn] at hrep; cases hrep
  | some i =>
    rw [hkn] at hrep
    simp only at hrep
    cases k' <;> simp only [structKnown] at hkn <;> try cases hkn
    rename_i s
    cases hc : cs[i]? with
    | none => simp [applyAt, colCs_getElemT?, hc] at hrep
    | some c =>
      rw [applyAt_colCs_T hc] at hrep
      exact ⟨s, i, c, x, rfl, hkn, hc, hmem, hrep⟩

/-- conversely every entry under a declared name whose value is rejected by that field's converter has
its child, which is that converter's tree -/
theorem C07_struct_rejected_has_child {names : List String} {cs : List Conv} {v : Val}
    {exp keys errs act missing extra}
    (h : colC E (.struct names cs) v = .ok (some (.product exp keys errs act missing extra)))
    {s : String} {i : Nat} {c : Conv} {x : Val} {t : Err}
    (hi : names.idxOf? s = some i) (hc : cs[i]? = some c) (hmem : (Val.str s, x) ∈ v.mapItems)
    (hr : colC E c x = .ok (some t)) :
    ∃ j : Nat, keys[j]? = some (.str s) ∧ errs[j]? = some t := by
  obtain ⟨-, -, -, -, hz, -, -⟩ := C07_struct_children names cs v h
  apply kids_rejected hz
  rw [List.mem_map]
  exact ⟨(.str s, x), hmem, by rw [structReport_colCs (by exact hi) hc, hr]⟩

/-! ## Dataclasses -/

/-- **C07 (dataclass, mapping layout).**  The node records the input; `extra` = the unknown keys in
data order (none if `allow_extra`); `missing` = the init fields without default that no key named;
children (data order): a key naming a field for the first time keys the field converter's own tree for
its value if that is rejected; a later key for the same field keys `DuplicateKeyError(k, aliases)`. -/
theorem C07_pane_struct (hG : GuardsCover = true) (hE : ExtOk E) (info : PaneInfo) (cs : List Conv)
    (hwf : (Conv.pane info cs).wf = true) (v : Val) (hmap : v.isMap = true)
    {exp keys errs act missing extra}
    (h : colC E (.pane info cs) v = .ok (some (.product exp keys errs act missing extra))) :
    act = v ∧ exp = "struct " ++ info.name ∧
    keys.length = errs.length ∧
    keys.zip errs = kidsOf ((splits [] v.mapItems).map fun s =>
      (s.2.1, paneReport info (colCs E cs) s.1 s.2)) ∧
    extra = (if info.allowExtra then []
      else (v.mapItems.filter fun kv => (fieldIndex info.fields kv.1).isNone).map (·.1)) ∧
    missing = (info.fields.filter fun f =>
      f.init && !(v.mapItems.any fun p => namesField info p.1 f.name) && !f.hasDefault).map
        fun f => Val.str f.name := by
  simp only [Conv.wf, Bool.and_eq_true, beq_iff_eq] at hwf
  have hgs := C03.goods hG hE cs hwf.1.1
  have hlen : (tryCs E cs).length = info.fields.length := by rw [tryCs_length]; exact hwf.1.2
  simp only [colC, paneGate_eq, isSeq_of_isMap hmap, hmap, Bool.false_eq_true, if_false, if_true] at h
  split at h
  · cases h
  · unfold paneColStruct at h
    cases hl : paneColStructLoop info (tryCs E cs) (colCs E cs) v.mapItems [] with
    | error e => rw [hl] at h; cases h
    | ok p =>
      obtain ⟨vals, ch, extra', seen'⟩ := p
      rw [hl] at h
      simp only at h
      split at h
      · simp only [Outcome.ok.injEq, Option.some.injEq, Err.product.injEq] at h
        obtain ⟨rfl, rfl, rfl, rfl, rfl, rfl⟩ := h
        obtain ⟨h1, h2, h3, h4⟩ := paneLoop_kids info hgs hlen v.mapItems [] [] vals ch extra' seen'
          (fun n => by simp) hl
        refine ⟨rfl, rfl, h1, h2, h3, ?_⟩
        simp only [h4, List.nil_append]
      · split at h <;> cases h

section PaneStructPointwise
variable {info : PaneInfo} {cs : List Conv} {v : Val} {exp : String} {keys : List Val} {errs : List Err}
  {act : Val} {missing extra : List Val}

/-- a key naming a field for the first time, whose value that field's converter rejects: the child
under that key is the field converter's own tree for that value -/
theorem C07_pane_struct_first_key (hG : GuardsCover = true) (hE : ExtOk E)
    (hwf : (Conv.pane info cs).wf = true) (hmap : v.isMap = true)
    (h : colC E (.pane info cs) v = .ok (some (.product exp keys errs act missing extra)))
    {pre post : List (Val × Val)} {k x : Val} {i : Nat} {f : FieldInfo} {c : Conv} {t : Err}
    (hsplit : v.mapItems = pre ++ (k, x) :: post)
    (hfi : fieldIndex info.fields k = some i) (hf : info.fields[i]? = some f) (hc : cs[i]? = some c)
    (hfirst : pre.any (fun p => namesField info p.1 f.name) = false)
    (hr : colC E c x = .ok (some t)) :
    ∃ j : Nat, keys[j]? = some k ∧ errs[j]? = some t := by
  obtain ⟨-, -, -, hz, -, -⟩ := C07_pane_struct hG hE info cs hwf v hmap h
  apply kids_rejected hz
  rw [List.mem_map]
  refine ⟨(pre, (k, x)), mem_splits.2 ⟨pre, post, hsplit, by simp⟩, ?_⟩
  simp only [paneReport, hfi, hf, hfirst, Bool.false_eq_true, if_false, applyAt_colCs_T hc, hr]

/-- a later key for a field already named by an earlier key: the child is `DuplicateKeyError` -/
theorem C07_pane_struct_dup_key (hG : GuardsCover = true) (hE : ExtOk E)
    (hwf : (Conv.pane info cs).wf = true) (hmap : v.isMap = true)
    (h : colC E (.pane info cs) v = .ok (some (.product exp keys errs act missing extra)))
    {pre post : List (Val × Val)} {k x : Val} {i : Nat} {f : FieldInfo}
    (hsplit : v.mapItems = pre ++ (k, x) :: post)
    (hfi : fieldIndex info.fields k = some i) (hf : info.fields[i]? = some f)
    (hsecond : pre.any (fun p => namesField info p.1 f.name) = true) :
    ∃ j : Nat, keys[j]? = some k ∧ errs[j]? = some (.dupKey k f.inNames) := by
  obtain ⟨-, -, -, hz, -, -⟩ := C07_pane_struct hG hE info cs hwf v hmap h
  apply kids_rejected hz
  rw [List.mem_map]
  refine ⟨(pre, (k, x)), mem_splits.2 ⟨pre, post, hsplit, by simp⟩, ?_⟩
  simp only [paneReport, hfi, hf, hsecond, if_true]

/-- every child of the node arises in one of these two ways -/
theorem C07_pane_struct_child (hG : GuardsCover = true) (hE : ExtOk E)
    (hwf : (Conv.pane info cs).wf = true) (hmap : v.isMap = true)
    (h : colC E (.pane info cs) v = .ok (some (.product exp keys errs act missing extra)))
    {j : Nat} {k : Val} {t : Err} (hk : keys[j]? = some k) (ht : errs[j]? = some t) :
    ∃ (pre post : List (Val × Val)) (x : Val) (i : Nat) (f : FieldInfo),
      v.mapItems = pre ++ (k, x) :: post ∧ fieldIndex info.fields k = some i ∧ info.fields[i]? = some f ∧
      ((pre.any (fun p => namesField info p.1 f.name) = true ∧ t = .dupKey k f.inNames) ∨
       (pre.any (fun p => namesField info p.1 f.name) = false ∧
         ∃ c, cs[i]? = some c ∧ colC E c x = .ok (some t))) := by
  obtain ⟨-, -, -, hz, -, -⟩ := C07_pane_struct hG hE info cs hwf v hmap h
  have hm := kids_child hz hk ht
  rw [List.mem_map] at hm
  obtain ⟨⟨pre, k', x⟩, hmem, heq⟩ := hm
  simp only [Prod.mk.injEq] at heq
  obtain ⟨rfl, hrep⟩ := heq
  obtain ⟨a, post, hsplit, hpre⟩ := mem_splits.1 hmem
  simp only [List.nil_append] at hpre
  subst hpre
  unfold paneReport at hrep
  cases hfi : fieldIndex info.fields k' with
  | none => rw [hfi] at hrep; cases hrep
  | some i =>
    rw [hfi] at hrep
    simp only at hrep
    cases hf : info.fields[i]? with
    | none => rw [hf] at hrep; cases hrep
    | some f =>
      rw [hf] at hrep
      simp only at hrep
      refine ⟨pre, post, x, i, f, hsplit, rfl, hf, ?_⟩
      cases hany : pre.any (fun p => namesField info p.1 f.name) with
      | true =>
        rw [hany] at hrep
        simp only [if_true, Outcome.ok.injEq, Option.some.injEq] at hrep
        exact .inl ⟨rfl, hrep.symm⟩
      | false =>
        rw [hany] at hrep
        simp only [Bool.false_eq_true, if_false] at hrep
        cases hc : cs[i]? with
        | none => simp [applyAt, colCs_getElemT?, hc] at hrep
        | some c =>
          rw [applyAt_colCs_T hc] at hrep
          exact .inr ⟨rfl, c, rfl, hrep⟩

end PaneStructPointwise

/-- **C07 (dataclass, positional layout, wrong length).**  The leaf records the permitted range, the
input itself and its length. -/
theorem C07_pane_tuple_wrong_len (info : PaneInfo) (cs : List Conv) (v : Val) (hseq : v.isSeq = true)
    (hfmt : info.inFormat.contains "tuple" = true)
    (hlen : ¬ (info.minPos ≤ v.seqItems.length ∧ v.seqItems.length ≤ info.maxPos)) :
    colC E (.pane info cs) v =
      .ok (some (.wrongLen ("tuple " ++ info.name) info.minPos info.maxPos v v.seqItems.length)) := by
  simp only [colC, paneGate_eq, hseq, hfmt, if_true, Bool.not_true, Bool.false_eq_true, if_false]
  unfold paneColTuple
  simp only []
  rw [if_pos]
  simp only [Bool.not_eq_eq_eq_not, Bool.not_true, Bool.and_eq_false_imp, decide_eq_true_eq, decide_eq_false_iff_not]
  omega

/-- **C07 (dataclass, positional layout).**  Otherwise the node records the input, has no `missing` /
`extra`, and its children are exactly the rejected positions (increasing), each child being the tree
the converter of the positional field at that position reports for that element alone. -/
theorem C07_pane_tuple (hG : GuardsCover = true) (hE : ExtOk E) (info : PaneInfo) (cs : List Conv)
    (hwf : (Conv.pane info cs).wf = true) (v : Val) (hseq : v.isSeq = true)
    {exp keys errs act missing extra}
    (h : colC E (.pane info cs) v = .ok (some (.product exp keys errs act missing extra))) :
    act = v ∧ exp = "tuple " ++ info.name ∧ missing = [] ∧ extra = [] ∧
    (info.minPos ≤ v.seqItems.length ∧ v.seqItems.length ≤ info.maxPos) ∧
    keys.length = errs.length ∧
    keys.zip errs = kidsOf (posReports
      (List.zipWith (fun p x => applyAt (colCs E cs) p.2 x) (posFields info) v.seqItems)) := by
  simp only [Conv.wf, Bool.and_eq_true, beq_iff_eq] at hwf
  have hgs := C03.goods hG hE cs hwf.1.1
  have hlen : (tryCs E cs).length = info.fields.length := by rw [tryCs_length]; exact hwf.1.2
  simp only [colC, paneGate_eq, hseq, if_true] at h
  split at h
  · cases h
  · unfold paneColTuple at h
    simp only [] at h
    split at h
    · cases h
    · rename_i hrange
      have hgs' := applyAt_map_good hgs (posFields info)
        (fun p hp => by rw [hlen]; exact posFields_lt info p hp)
      cases hcz : convertZip ((posFields info).map fun (_, i) => fun x => applyAt (tryCs E cs) i x)
          ((posFields info).map fun (_, i) => fun x => applyAt (colCs E cs) i x) v.seqItems 0 with
      | error e => rw [hcz] at h; cases h
      | ok p =>
        obtain ⟨vals, ch⟩ := p
        rw [hcz] at h
        simp only at h
        split at h
        · simp only [Outcome.ok.injEq, Option.some.injEq, Err.product.injEq] at h
          obtain ⟨rfl, rfl, rfl, rfl, rfl, rfl⟩ := h
          obtain ⟨h1, h2, -⟩ := convertZip_kids hgs' _ _ _ _ hcz
          rw [List.zipWith_map_left] at h2
          exact ⟨rfl, rfl, rfl, rfl, by simpa using hrange, h1, h2⟩
        · split at h <;> cases h

/-- each child of a positional dataclass node IS the tree the positional field's converter reports for
the element at that position alone -/
theorem C07_pane_tuple_child_is_own_tree (hG : GuardsCover = true) (hE : ExtOk E) {info : PaneInfo}
    {cs : List Conv} (hwf : (Conv.pane info cs).wf = true) {v : Val} (hseq : v.isSeq = true)
    {exp keys errs act missing extra}
    (h : colC E (.pane info cs) v = .ok (some (.product exp keys errs act missing extra)))
    {j : Nat} {k : Val} {t : Err} (hk : keys[j]? = some k) (ht : errs[j]? = some t) :
    ∃ (p : Nat) (f : FieldInfo) (i : Nat) (c : Conv) (x : Val), k = .int p ∧
      (posFields info)[p]? = some (f, i) ∧ cs[i]? = some c ∧ v.seqItems[p]? = some x ∧
      colC E c x = .ok (some t) := by
  obtain ⟨-, -, -, -, -, -, hz⟩ := C07_pane_tuple hG hE info cs hwf v hseq h
  obtain ⟨p, hkp, hrp⟩ := mem_posReports.1 (kids_child hz hk ht)
  rw [List.getElem?_zipWith] at hrp
  cases hpf : (posFields info)[p]? with
  | none => simp [hpf] at hrp
  | some fi =>
    obtain ⟨f, i⟩ := fi
    cases hx : v.seqItems[p]? with
    | none => simp [hpf, hx] at hrp
    | some x =>
      simp only [hpf, hx, Option.some.injEq] at hrp
      cases hc : cs[i]? with
      | none => simp [applyAt, colCs_getElemT?, hc] at hrp
      | some c =>
        rw [applyAt_colCs_T hc] at hrp
        exact ⟨p, f, i, c, x, by simpa using hkp, hpf, hc, hx, hrp⟩

/-! ## Unions -/

/-- **C07 (union).**  A union's node is a sum node with one child per member, in declaration order,
each child being that member's own report on the SAME value (and that member's fast pass fails). -/
theorem C07_sum_children (cs : List Conv) (v : Val) {ts : List Err}
    (h : colC E (.union cs) v = .ok (some (.sum ts))) :
    ts.length = cs.length ∧
    ∀ (i : Nat) (h1 : i < cs.length) (h2 : i < ts.length),
      colC E cs[i] v = .ok (some ts[i]) ∧ tryC E cs[i] v = .interrupt := by
  simp only [colC] at h
  cases hs : sumCol (tryCs E cs) (colCs E cs) v with
  | interrupt => rw [hs] at h; cases h
  | leak e => rw [hs] at h; cases h
  | ok o =>
    rw [hs] at h
    cases o with
    | none => cases h
    | some l =>
      simp only [Outcome.ok.injEq, Option.some.injEq, Err.sum.injEq] at h
      subst h
      obtain ⟨h1, h2⟩ := sumCol_members _ _ _ _ hs
      rw [tryCs_length, colCs_length_T, Nat.min_self] at h1
      refine ⟨h1, ?_⟩
      intro i hi1 hi2
      obtain ⟨f, c, hf, hc, hfv, hcv⟩ := h2 i l[i] (List.getElem?_eq_getElem hi2)
      rw [tryCs_getElemT?, List.getElem?_eq_getElem hi1] at hf
      rw [colCs_getElemT?, List.getElem?_eq_getElem hi1] at hc
      simp only [Option.map_some, Option.some.injEq] at hf hc
      subst hf; subst hc
      exact ⟨hcv, hfv⟩

/-- the diagnostic pass of the list member of `ValueOrList[T]` is that of the list converter `List[T]` -/
theorem colC_seq_list_eq (c : Conv) :
    seqColWith (expected E (.seq "list" c) false) (tryC E c) (colC E c) "list" = colC E (.seq "list" c) := by
  funext v; simp only [colC]

/-- the fast pass of the list member of `ValueOrList[T]` is that of the list converter `List[T]` -/
theorem tryC_seq_list_eq (c : Conv) :
    seqTryWith (tryC E c) "list" = tryC E (.seq "list" c) := by
  funext v; simp only [tryC]

/-- **C07 (`ValueOrList[T]`).**  The node is a sum node with exactly two children, in this order: the own
report of the element converter `T` and the own report of the list converter `List[T]`, both on the SAME
value (and both fast passes fail). -/
theorem C07_vol_tree (c : Conv) (v : Val) {t : Err} (h : colC E (.vol c) v = .ok (some t)) :
    ∃ t1 t2, t = .sum [t1, t2] ∧
      colC E c v = .ok (some t1) ∧ colC E (.seq "list" c) v = .ok (some t2) ∧
      tryC E c v = .interrupt ∧ tryC E (.seq "list" c) v = .interrupt := by
  simp only [colC] at h
  rw [colC_seq_list_eq, tryC_seq_list_eq] at h
  cases hs : sumCol [tryC E c, tryC E (.seq "list" c)] [colC E c, colC E (.seq "list" c)] v with
  | interrupt => rw [hs] at h; cases h
  | leak e => rw [hs] at h; cases h
  | ok o =>
    rw [hs] at h
    cases o with
    | none => cases h
    | some l =>
      simp only [Outcome.ok.injEq, Option.some.injEq] at h
      subst h
      obtain ⟨h1, h2⟩ := sumCol_members _ _ _ _ hs
      simp only [List.length_cons, List.length_nil, Nat.min_self] at h1
      match l, h1 with
      | [t1, t2], _ =>
        obtain ⟨f, g, hf, hg, hfv, hgv⟩ := h2 0 t1 rfl
        obtain ⟨f', g', hf', hg', hfv', hgv'⟩ := h2 1 t2 rfl
        simp only [List.getElem?_cons_zero, List.getElem?_cons_succ, Option.some.injEq] at hf hg hf' hg'
        subst hf; subst hg; subst hf'; subst hg'
        exact ⟨t1, t2, rfl, hgv, hgv', hfv, hfv'⟩

/-- whatever a union converter reports is a sum node -/
theorem C07_union_is_sum (cs : List Conv) (v : Val) {t : Err} (h : colC E (.union cs) v = .ok (some t)) :
    ∃ ts, t = .sum ts := by
  simp only [colC] at h
  split at h
  · cases h
  · cases h; exact ⟨_, rfl⟩
  · cases h
  · cases h

/-! ## Tagged unions -/

/-- **C07 (tagged union).**  When the tag is present and known, the tree of a tagged union is the tree
of the chosen variant on the body, and nothing else (no node of its own, no sibling variants); the fast
pass likewise is the chosen variant's fast pass. -/
theorem C07_tagged_body_only (cs : List Conv) (tag : String) (tagMap : List (Val × Nat)) (layout : Layout)
    (hwf : (Conv.tagged cs tag tagMap layout).wf = true) (v : Val) {t body : Val} {i : Nat}
    (hx : extractTag layout tag v = some (.ok (t, body))) (hl : pyLookup t tagMap = .ok i) :
    ∃ c, cs[i]? = some c ∧
      colC E (.tagged cs tag tagMap layout) v = colC E c body ∧
      tryC E (.tagged cs tag tagMap layout) v = tryC E c body := by
  have hm := extractTag_ok_isMap hx
  simp only [Conv.wf, Bool.and_eq_true] at hwf
  obtain ⟨k', hmem⟩ := pyLookup_ok_mem hl
  have hi : i < cs.length := by simpa using List.all_eq_true.1 hwf.2 _ hmem
  have hc : cs[i]? = some cs[i] := List.getElem?_eq_getElem hi
  refine ⟨cs[i], hc, ?_, ?_⟩
  · simp only [colC, hm, hx, hl, guardCol_ok, Bool.not_true, Bool.false_eq_true, if_false]
    exact applyAt_colCs_T hc body
  · simp only [tryC, hm, hx, hl, guardTry_ok, Bool.not_true, Bool.false_eq_true, if_false]
    exact applyAt_tryCs_T hc body

/-- **C07 (tagged union, tag key absent).**  The node is a leaf recording the input, whose `expected`
text names the tag key (`tag`; for the adjacent layout the tag key `t` and the content key `c`). -/
theorem C07_tagged_tag_absent (hG : GuardsCover = true) (cs : List Conv) (tag : String)
    (tagMap : List (Val × Nat)) (layout : Layout) (v : Val) (hm : v.isMap = true) {e : Exc}
    (hx : extractTag layout tag v = some (.error e)) :
    colC E (.tagged cs tag tagMap layout) v =
      .ok (some (.wrongType (tagAbsentText E tag tagMap layout) v none none)) := by
  have hk := extractTag_error hx
  simp only [colC, hm, hx, Bool.not_true, Bool.false_eq_true, if_false]
  rw [guardCol_error (by rw [hk]; exact guards_key hG (by decide))]
  cases layout <;> rfl

/-- **C07 (tagged union, unknown or unhashable tag).**  The node is a leaf whose `expected` text names
the tag key and lists the known tags; its `actual` is the offending TAG value (not the whole input). -/
theorem C07_tagged_tag_unknown (hG : GuardsCover = true) (cs : List Conv) (tag : String)
    (tagMap : List (Val × Nat)) (layout : Layout) (v : Val) {t body : Val} {e : Exc}
    (hx : extractTag layout tag v = some (.ok (t, body))) (hl : pyLookup t tagMap = .error e) :
    colC E (.tagged cs tag tagMap layout) v =
      .ok (some (.wrongType ("tag '" ++ tag ++ "' one of " ++ listPhrase (tagMap.map fun p => pyRepr E p.1))
        t none none)) := by
  have hm := extractTag_ok_isMap hx
  have hcl := pyLookup_error hl
  simp only [colC, hm, hx, hl, guardCol_ok, Bool.not_true, Bool.false_eq_true, if_false]
  rw [guardCol_error (hcl.elim (fun h => by rw [h]; exact guards_type hG (by decide))
    (fun h => by rw [h]; exact guards_key hG (by decide)))]

/-- in both cases the `expected` text contains the tag key (internal / external layout) -/
theorem C07_tagged_leaf_names_tag (tag : String) (tagMap : List (Val × Nat)) :
    (∃ p q, tagAbsentText E tag tagMap .internal = p ++ tag ++ q) ∧
    (∃ p q, tagAbsentText E tag tagMap .external = p ++ tag ++ q) ∧
    (∃ p q, "tag '" ++ tag ++ "' one of " ++ listPhrase (tagMap.map fun p => pyRepr E p.1) = p ++ tag ++ q) :=
  ⟨⟨"mapping with key '", "' => " ++ listPhrase (tagMap.map fun p => pyRepr E p.1), String.append_assoc⟩,
   ⟨"mapping with key '", "' => " ++ listPhrase (tagMap.map fun p => pyRepr E p.1), String.append_assoc⟩,
   ⟨"tag '", "' one of " ++ listPhrase (tagMap.map fun p => pyRepr E p.1), String.append_assoc⟩⟩

/-! ## Leaves record the offending value -/

/-- **C07 (leaf `actual`).**  For the converters that inspect the input themselves — `None`, scalars,
literals, datetimes, tuples, sequences, dicts, struct literals, dataclasses — the node they report for
`v` (a leaf: wrong type / wrong shape / gate / constructor or hook failure; or their product node)
records `v` itself. -/
theorem C07_leaf_actual (c : Conv) (hc : c.recordsInput = true) (v : Val) {t : Err}
    (h : colC E c v = .ok (some t)) : t.actual? = some v := by
  cases c <;> simp only [Conv.recordsInput, Bool.false_eq_true] at hc
  case noneC =>
    simp only [colC] at h
    split at h <;> cases h; rfl
  case scalar ty allowed ser e ep =>
    simp only [colC] at h
    split at h
    · split at h <;> cases h; rfl
    · cases h; rfl
  case literal vals =>
    simp only [colC] at h
    split at h <;> cases h; rfl
  case datetime ty =>
    simp only [colC] at h
    split at h
    · split at h <;> cases h; rfl
    · split at h <;> cases h; rfl
  case tuple cs =>
    simp only [colC] at h
    split at h
    · cases h; rfl
    · split at h
      · split at h <;> cases h; rfl
      · cases h
      · cases h
  case seq kind vc =>
    rcases C07_seq_node_or_leaf kind vc v h with ⟨_, _, _, rfl⟩ | ⟨_, rfl⟩ <;> rfl
  case dict kind k vc =>
    rw [colC_dict] at h
    split at h
    · cases h; rfl
    · split at h
      · split at h
        · cases h; rfl
        · split at h
          · split at h <;> cases h; rfl
          · cases h
          · cases h
      · cases h
      · cases h
  case struct names cs =>
    simp only [colC] at h
    split at h
    · cases h; rfl
    · split at h
      · split at h <;> cases h; rfl
      · cases h
      · cases h
  case pane info cs =>
    simp only [colC, paneGate_eq] at h
    split at h
    · rename_i hseq
      split at h
      · cases h; rfl
      · unfold paneColTuple at h
        simp only [] at h
        split at h
        · cases h; rfl
        · split at h
          · cases h
          · split at h
            · cases h; rfl
            · split at h <;> cases h; rfl
    · split at h
      · split at h
        · cases h; rfl
        · unfold paneColStruct at h
          split at h
          · cases h
          · simp only [] at h
            split at h
            · cases h; rfl
            · split at h <;> cases h; rfl
      · cases h; rfl

/-- **C07 (conditions).**  When the inner conversion succeeds (with whatever converted value `x`) and the
condition fails or raises, the `ConditionFailed` leaf records the ORIGINAL input `v`. -/
theorem C07_cond_actual (inner : Conv) (c : CondExpr) (fmt : ExpFmt) (v x : Val) {t : Err}
    (hx : tryC E inner v = .ok x) (h : colC E (.cond inner c fmt) v = .ok (some t)) :
    ∃ cause, t = .condFailed (expected E (.cond inner c fmt) false) v c.name cause := by
  simp only [colC, hx] at h
  split at h
  · cases h
  · cases h; exact ⟨_, rfl⟩
  · split at h <;> cases h; exact ⟨_, rfl⟩

/-- … and when the inner conversion fails, the tree is the inner converter's tree, unchanged -/
theorem C07_cond_inner (inner : Conv) (c : CondExpr) (fmt : ExpFmt) (v : Val)
    (hx : tryC E inner v = .interrupt) : colC E (.cond inner c fmt) v = colC E inner v := by
  simp only [colC, hx]

/-- **C07 (delegates / user subclasses).**  The constructor-failure leaf records the original input. -/
theorem C07_delegate_actual (sub : String) (inner : Conv) (v x : Val) {t : Err}
    (hx : tryC E inner v = .ok x) (h : colC E (.delegate sub inner) v = .ok (some t)) :
    ∃ cause, t = .wrongType (expected E (.delegate sub inner) false) v cause none := by
  simp only [colC, hx] at h
  split at h <;> cases h; exact ⟨_, rfl⟩

theorem C07_delegate_inner (sub : String) (inner : Conv) (v : Val)
    (hx : tryC E inner v = .interrupt) : colC E (.delegate sub inner) v = colC E inner v := by
  simp only [colC, hx]

/-- **Enums.**  The not-a-member leaf records the INPUT `v`, not the value `x` after the conversion to the
members' type.  (Before the repair D29 it recorded `x`: `from_data(2, E)` for an enum with float members
said "instead got `2.0` of type `float`"; this theorem then was the documented exception
`C07_enum_actual_is_converted`.) -/
theorem C07_enum_actual (name : String) (members : List Val) (inner : Conv) (v x : Val) {t : Err}
    (hx : tryC E inner v = .ok x) (h : colC E (.enum name members inner) v = .ok (some t)) :
    t = .wrongType (expected E (.enum name members inner) false) v none none := by
  simp only [colC, hx] at h
  split at h <;> cases h; rfl

/-- **Documented exception 2 (patterns).**  The leaf records the unwrapped pattern text (`val.pattern`
for an `re.Pattern` input), not the input. -/
theorem C07_pattern_actual_is_unwrapped (b : Bool) (inner : Conv) (v : Val) {t : Err}
    (h : colC E (.pattern b inner) v = .ok (some t)) :
    ∃ cause, t = .wrongType (expected E (.pattern b inner) false) (patV v) cause none := by
  rw [colC_pattern] at h
  split at h
  · cases h; exact ⟨_, rfl⟩
  · cases h
  · split at h <;> cases h; exact ⟨_, rfl⟩

/-! ## Dicts -/

/-- **C07 (dict, partial: distinct `str(k)`).**  If the `str` of the data keys are pairwise distinct,
the node records the input and its children are keyed by `str(k)` for exactly the entries whose key OR
value is rejected (data order); the child is the VALUE's tree if the value is rejected, otherwise the
key's tree (`dictReport`).  Without the distinctness hypothesis the statement is false: see
`C07_dict_children_full_fails` (finding N7). -/
theorem C07_dict_children_partial (kind : String) (k vc : Conv) (v : Val)
    (hnd : (v.mapItems.map fun p => pyStr E p.1).Nodup)
    {exp keys errs act missing extra}
    (h : colC E (.dict kind k vc) v = .ok (some (.product exp keys errs act missing extra))) :
    act = v ∧ missing = [] ∧ extra = [] ∧ exp = expected E (.dict kind k vc) false ∧
    keys.length = errs.length ∧
    keys.zip errs = kidsOf (v.mapItems.map fun p =>
      (Val.str (pyStr E p.1), dictReport (colC E k p.1) (colC E vc p.2))) := by
  rw [colC_dict] at h
  split at h
  · cases h
  · cases hd : dictCol E (colC E k) (colC E vc) v.mapItems ([], []) with
    | interrupt => rw [hd] at h; cases h
    | leak e => rw [hd] at h; cases h
    | ok ch =>
      rw [hd] at h
      simp only at h
      split at h
      · simp only [Outcome.ok.injEq, Option.some.injEq, Err.product.injEq] at h
        obtain ⟨rfl, rfl, rfl, rfl, rfl, rfl⟩ := h
        obtain ⟨h1, h2, -⟩ := dictCol_kids E _ _ _ _ _ hd rfl hnd (fun _ _ => by simp)
        exact ⟨rfl, rfl, rfl, rfl, h1, by simpa using h2⟩
      · split at h
        · split at h <;> cases h
        · cases h
        · cases h

/-- the data of finding N7: `{1: "a", "1": "b"}` (two keys with the same `str`) -/
def n7Data : Val := .dict [(.int 1, .str "a"), (.str "1", .str "b")]

/-- what `Dict[int, int]` reports on it: ONE child, keyed `"1"` -/
theorem n7_tree : colC extRaising (.dict "dict" exInt exInt) n7Data =
    .ok (some (.product "mapping of ints => ints" [.str "1"] [.wrongType "an int" (.str "b") none none]
      n7Data [] [])) := by
  with_unfolding_all rfl

/-- **Negation witness of the unrestricted dict statement (known finding N7).**  For `Dict[int, int]`
on `{1: "a", "1": "b"}` both entries are rejected on their own (the list of own reports has two
rejected elements), yet the node has a single child: children are keyed by `str(k)`, and the second
entry overwrites the first. -/
theorem C07_dict_children_full_fails :
    ∃ exp keys errs act missing extra,
      colC extRaising (.dict "dict" exInt exInt) n7Data =
        .ok (some (.product exp keys errs act missing extra)) ∧
      keys.length = 1 ∧
      (kidsOf (n7Data.mapItems.map fun p => (Val.str (pyStr extRaising p.1),
        dictReport (colC extRaising exInt p.1) (colC extRaising exInt p.2)))).length = 2 :=
  ⟨_, _, _, _, _, _, n7_tree, rfl, by with_unfolding_all rfl⟩

/-! ## Non-vacuity -/

def exStr : Conv := .scalar "str" [.str] .viaCtor "a string" "strings"
def exFloat : Conv := .scalar "float" [.int, .float] .viaCtor "a float" "floats"

/-- tuple `(int, int, int)` on `[1, "a", "b"]`: children at positions 1 and 2 -/
theorem exTuple_tree : colC extRaising (.tuple [exInt, exInt, exInt]) (.list [.int 1, .str "a", .str "b"]) =
    .ok (some (.product "tuple of length 3" [.int 1, .int 2]
      [.wrongType "an int" (.str "a") none none, .wrongType "an int" (.str "b") none none]
      (.list [.int 1, .str "a", .str "b"]) [] [])) := by
  with_unfolding_all rfl

example := C07_tuple_children _ _ exTuple_tree
example : ∃ (i : Nat) (c : Conv) (x : Val), Val.int 2 = .int i ∧ [exInt, exInt, exInt][i]? = some c ∧
    (Val.list [.int 1, .str "a", .str "b"]).seqItems[i]? = some x ∧
    colC extRaising c x = .ok (some (.wrongType "an int" (.str "b") none none)) :=
  C07_tuple_child_is_own_tree exTuple_tree (j := 1) rfl rfl
example : Val.int (0 : Nat) ∉ [Val.int 1, Val.int 2] :=
  C07_tuple_accepted_no_child exTuple_tree (i := 0) (c := exInt) (x := .int 1) rfl rfl (by rfl)
example : colC extRaising (.tuple [exInt, exInt]) (.str "ab") =
    .ok (some (.wrongType "tuple of length 2" (.str "ab") none none)) :=
  C07_tuple_shape_leaf _ _ (.inl rfl)

/-- `list[int]` on `[1, "a"]` -/
theorem exSeq_tree : colC extRaising (.seq "list" exInt) (.list [.int 1, .str "a"]) =
    .ok (some (.product "sequence of ints" [.int 1] [.wrongType "an int" (.str "a") none none]
      (.list [.int 1, .str "a"]) [] [])) := by
  with_unfolding_all rfl

example := C07_seq_children C03_guards extRaising_ok "list" exInt (by decide) _ exSeq_tree
/-- `set[list[int]]` on `[[1]]`: no child, the constructor-failure leaf (unhashable element) -/
example : colC extRaising (.seq "set" (.seq "list" exInt)) (.list [.list [.int 1]]) =
    .ok (some (.wrongType "sequence of sequences of ints" (.list [.list [.int 1]])
      (some "TypeError: unhashable type: 'list'") none)) := by
  with_unfolding_all rfl

/-- struct literal `{a: int, b: int}` on `{"a": "x", "c": 1}`: child `a`, extra `c`, missing `b` -/
theorem exStruct_tree : colC extRaising (.struct ["a", "b"] [exInt, exInt])
      (.dict [(.str "a", .str "x"), (.str "c", .int 1)]) =
    .ok (some (.product "struct" [.str "a"] [.wrongType "an int" (.str "x") none none]
      (.dict [(.str "a", .str "x"), (.str "c", .int 1)]) [.str "b"] [.str "c"])) := by
  with_unfolding_all rfl

example := C07_struct_children _ _ _ exStruct_tree
example := C07_struct_child_is_own_tree exStruct_tree (j := 0) rfl rfl

/-- `@dataclass class P: x: int (aliases x, X); y: int` -/
def exP : PaneInfo where
  name := "P"
  fields := [{ name := "x", inNames := ["x", "X"], outName := "x" },
             { name := "y", inNames := ["y"], outName := "y" }]
  inFormat := ["struct", "tuple"]
  outFormat := "struct"
  minPos := 2
  maxPos := 2

/-- on `{"x": "no", "X": 2, "z": 3}`: own tree under `x`, duplicate under `X`, extra `z`, missing `y` -/
theorem exPane_tree : colC extRaising (.pane exP [exInt, exInt])
      (.dict [(.str "x", .str "no"), (.str "X", .int 2), (.str "z", .int 3)]) =
    .ok (some (.product "struct P" [.str "x", .str "X"]
      [.wrongType "an int" (.str "no") none none, .dupKey (.str "X") ["x", "X"]]
      (.dict [(.str "x", .str "no"), (.str "X", .int 2), (.str "z", .int 3)]) [.str "y"] [.str "z"])) := by
  with_unfolding_all rfl

example := C07_pane_struct C03_guards extRaising_ok exP [exInt, exInt] (by decide) _ rfl exPane_tree
example : ∃ j : Nat, [Val.str "x", Val.str "X"][j]? = some (.str "X") ∧
    [Err.wrongType "an int" (.str "no") none none, .dupKey (.str "X") ["x", "X"]][j]? =
      some (.dupKey (.str "X") ["x", "X"]) :=
  C07_pane_struct_dup_key C03_guards extRaising_ok (by decide) rfl exPane_tree
    (pre := [(.str "x", .str "no")]) (post := [(.str "z", .int 3)]) (i := 0)
    (f := { name := "x", inNames := ["x", "X"], outName := "x" }) rfl (by decide) rfl (by decide)

/-- positional layout: `["a", 2]` and the wrong-length leaf on `[1]` -/
theorem exPaneTuple_tree : colC extRaising (.pane exP [exInt, exInt]) (.list [.str "a", .int 2]) =
    .ok (some (.product "tuple P" [.int 0] [.wrongType "an int" (.str "a") none none]
      (.list [.str "a", .int 2]) [] [])) := by
  with_unfolding_all rfl

example := C07_pane_tuple C03_guards extRaising_ok exP [exInt, exInt] (by decide) _ rfl exPaneTuple_tree
example : colC extRaising (.pane exP [exInt, exInt]) (.list [.int 1]) =
    .ok (some (.wrongLen "tuple P" 2 2 (.list [.int 1]) 1)) :=
  C07_pane_tuple_wrong_len exP _ _ rfl (by decide) (by decide)

/-- union `list[int] | Point` on `{"x": "no"}`: two members, declaration order -/
theorem exUnion_tree : colC extRaising exConv (.dict [(.str "x", .str "no")]) =
    .ok (some (.sum [.wrongType "sequence of ints" (.dict [(.str "x", .str "no")]) none none,
      .product "struct Point" [.str "x"] [.wrongType "an int" (.str "no") none none]
        (.dict [(.str "x", .str "no")]) [] []])) := by
  with_unfolding_all rfl

example := C07_sum_children _ _ exUnion_tree

/-- externally tagged union `{"i": int} | {"s": str}` -/
def exTagged_T : Conv := .tagged [exInt, exStr] "kind" [(.str "i", 0), (.str "s", 1)] .external

example : ∃ c, [exInt, exStr][0]? = some c ∧
    colC extRaising exTagged_T (.dict [(.str "i", .str "no")]) = colC extRaising c (.str "no") ∧
    tryC extRaising exTagged_T (.dict [(.str "i", .str "no")]) = tryC extRaising c (.str "no") :=
  C07_tagged_body_only _ _ _ _ (by decide) _ (t := .str "i") (body := .str "no") rfl (by with_unfolding_all rfl)

example : colC extRaising exTagged_T (.dict [(.str "q", .str "no")]) =
    .ok (some (.wrongType ("tag 'kind' one of " ++ listPhrase ["'i'", "'s'"]) (.str "q") none none)) :=
  C07_tagged_tag_unknown C03_guards _ _ _ _ _ (t := .str "q") (body := .str "no")
    (e := { cls := .keyError, msg := "KeyError" }) rfl (by with_unfolding_all rfl)

example : colC extRaising (.tagged [exInt, exStr] "kind" [(.str "i", 0), (.str "s", 1)] .internal)
      (.dict [(.str "x", .int 1)]) =
    .ok (some (.wrongType ("mapping with key 'kind' => " ++ listPhrase ["'i'", "'s'"])
      (.dict [(.str "x", .int 1)]) none none)) :=
  C07_tagged_tag_absent C03_guards _ _ _ _ _ rfl (e := { cls := .keyError, msg := "KeyError: 'kind'" })
    (by with_unfolding_all rfl)

/-- leaves of the self-inspecting converters record the input -/
example : (Err.wrongType "an int" (.str "b") none none).actual? = some (.str "b") :=
  C07_leaf_actual (E := extRaising) exInt rfl (.str "b") (by rfl)

/-- a condition that raises: the leaf records the original input -/
example : ∃ cause, (Err.condFailed "an int satisfying p" (.int 1) "p" (some "ZeroDivisionError")) =
    .condFailed (expected extRaising (.cond exInt (.leaf (.user "p" 0) "p") .satisfying) false) (.int 1)
      (CondExpr.leaf (.user "p" 0) "p").name cause :=
  C07_cond_actual (E := extRaising) exInt (.leaf (.user "p" 0) "p") .satisfying (.int 1) (.int 1) rfl (by rfl)

/-- `Enum` over floats on the int `2` records the input `2` (before D29: `2.0`) -/
example : colC extRaising (.enum "Color" [.float (.fin 1 0)] exFloat) (.int 2) =
    .ok (some (.wrongType "member of enum 'Color' (?)" (.int 2) none none)) := by
  with_unfolding_all rfl

/-- exception 2 is real: a compiled pattern input is recorded as its pattern text -/
example : colC extRaising (.pattern false exStr) (.opaque "Pattern" "a+") =
    .ok (some (.wrongType "a string regex pattern" (.str "a+") (some "ValueError") none)) := by
  with_unfolding_all rfl

/-- dict with distinct `str` keys: the key's tree under `"x"`, the value's tree under `"1"` -/
theorem exDict_tree : colC extRaising (.dict "dict" exInt exInt)
      (.dict [(.int 1, .str "a"), (.int 2, .int 3), (.str "x", .int 4)]) =
    .ok (some (.product "mapping of ints => ints" [.str "1", .str "x"]
      [.wrongType "an int" (.str "a") none none, .wrongType "an int" (.str "x") none none]
      (.dict [(.int 1, .str "a"), (.int 2, .int 3), (.str "x", .int 4)]) [] [])) := by
  with_unfolding_all rfl

example := C07_dict_children_partial "dict" exInt exInt _ (by decide) exDict_tree

/-- the remaining pointwise readings, on the same trees -/
example : ∃ j : Nat, [Val.int 1, Val.int 2][j]? = some (.int (1 : Nat)) ∧
    [Err.wrongType "an int" (.str "a") none none, .wrongType "an int" (.str "b") none none][j]? =
      some (.wrongType "an int" (.str "a") none none) :=
  C07_tuple_rejected_has_child exTuple_tree (i := 1) (c := exInt) (x := .str "a") rfl rfl (by rfl)
example := C07_seq_node_or_leaf "list" exInt _ exSeq_tree
example : ∃ j : Nat, [Val.str "a"][j]? = some (.str "a") ∧
    [Err.wrongType "an int" (.str "x") none none][j]? = some (.wrongType "an int" (.str "x") none none) :=
  C07_struct_rejected_has_child exStruct_tree (s := "a") (i := 0) (c := exInt) (x := .str "x")
    (by decide) rfl (by simp [Val.mapItems]) (by rfl)
example : ∃ j : Nat, [Val.str "x", Val.str "X"][j]? = some (.str "x") ∧
    [Err.wrongType "an int" (.str "no") none none, .dupKey (.str "X") ["x", "X"]][j]? =
      some (.wrongType "an int" (.str "no") none none) :=
  C07_pane_struct_first_key C03_guards extRaising_ok (by decide) rfl exPane_tree
    (pre := []) (post := [(.str "X", .int 2), (.str "z", .int 3)]) (i := 0)
    (f := { name := "x", inNames := ["x", "X"], outName := "x" }) (c := exInt) rfl (by decide) rfl rfl rfl
    (by rfl)
example := C07_pane_struct_child C03_guards extRaising_ok (by decide) rfl exPane_tree (j := 1) rfl rfl
example := C07_pane_tuple_child_is_own_tree C03_guards extRaising_ok (info := exP) (cs := [exInt, exInt])
  (by decide) rfl exPaneTuple_tree (j := 0) rfl rfl
example := C07_union_is_sum _ _ exUnion_tree
example := C07_tagged_leaf_names_tag (E := extRaising) "kind" [(.str "i", 0), (.str "s", 1)]

/-- a condition over a failing inner converter passes the inner tree through -/
example : colC extRaising (.cond exInt (.leaf (.user "p" 0) "p") .satisfying) (.str "a") =
    colC extRaising exInt (.str "a") :=
  C07_cond_inner _ _ _ _ (by rfl)
/-- a user subclass whose constructor raises: the leaf records the input -/
example : ∃ cause, Err.wrongType "an int" (.int 1) (some "ValueError") none =
    .wrongType (expected extRaising (.delegate "MyInt" exInt) false) (.int 1) cause none :=
  C07_delegate_actual (E := extRaising) "MyInt" exInt (.int 1) (.int 1) rfl (by rfl)
example : colC extRaising (.delegate "MyInt" exInt) (.str "a") = colC extRaising exInt (.str "a") :=
  C07_delegate_inner _ _ _ (by rfl)
example : Err.wrongType "member of enum 'Color' (?)" (.int 2) none none =
    .wrongType (expected extRaising (.enum "Color" [.float (.fin 1 0)] exFloat) false) (.int 2) none none :=
  C07_enum_actual (E := extRaising) "Color" [.float (.fin 1 0)] exFloat (.int 2) (.float (.fin 2 0))
    (by rfl) (by with_unfolding_all rfl)
example : ∃ cause, Err.wrongType "a string regex pattern" (.str "a+") (some "ValueError") none =
    .wrongType (expected extRaising (.pattern false exStr) false) (patV (.opaque "Pattern" "a+")) cause none :=
  C07_pattern_actual_is_unwrapped (E := extRaising) false exStr (.opaque "Pattern" "a+") (by with_unfolding_all rfl)

/-! ## Axioms -/

#print axioms C07_tuple_children
#print axioms C07_tuple_shape_leaf
#print axioms C07_tuple_child_is_own_tree
#print axioms C07_tuple_rejected_has_child
#print axioms C07_tuple_accepted_no_child
#print axioms C07_seq_children
#print axioms C07_seq_node_or_leaf
#print axioms C07_vol_tree
#print axioms C07_struct_children
#print axioms C07_struct_child_is_own_tree
#print axioms C07_struct_rejected_has_child
#print axioms C07_pane_struct
#print axioms C07_pane_struct_first_key
#print axioms C07_pane_struct_dup_key
#print axioms C07_pane_struct_child
#print axioms C07_pane_tuple_wrong_len
#print axioms C07_pane_tuple
#print axioms C07_pane_tuple_child_is_own_tree
#print axioms C07_sum_children
#print axioms C07_union_is_sum
#print axioms C07_tagged_body_only
#print axioms C07_tagged_tag_absent
#print axioms C07_tagged_tag_unknown
#print axioms C07_tagged_leaf_names_tag
#print axioms C07_leaf_actual
#print axioms C07_cond_actual
#print axioms C07_cond_inner
#print axioms C07_delegate_actual
#print axioms C07_delegate_inner
#print axioms C07_enum_actual
#print axioms C07_pattern_actual_is_unwrapped
#print axioms C07_dict_children_partial
#print axioms C07_dict_children_full_fails

end PaneModel
