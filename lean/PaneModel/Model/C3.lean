/-!
# C3 linearisation (Python's `type.mro()`), as total functions

Classes are `String` names.  `merge` is CPython's `pmerge`: repeatedly take the first head (scanning the sequences left
to right) that occurs in the tail of no sequence, remove it from the front of every sequence that starts with it, and
continue until every sequence is exhausted; when no head qualifies the hierarchy is inconsistent (`none`; Python raises
`TypeError: Cannot create a consistent method resolution order (MRO)`).

This file is import-free.
-/

namespace PaneModel.C3

/-- `h` is a good candidate for `seqs`: it occurs in the TAIL of no sequence -/
def goodHead (h : String) (seqs : List (List String)) : Bool :=
  seqs.all fun s => !(s.tail.contains h)

/-- scan `rest` left to right, return the first head that is a good candidate with respect to `all` -/
def pickFrom (all : List (List String)) : List (List String) → Option String
  | [] => none
  | [] :: rest => pickFrom all rest
  | (h :: _) :: rest => if goodHead h all then some h else pickFrom all rest

/-- one round of the C3 merge: the first head (scanning the sequences left to right) that occurs in the TAIL of no
sequence -/
def pickHead (seqs : List (List String)) : Option String :=
  pickFrom seqs seqs

/-- remove `h` from the front of `s` when `s` starts with it -/
def dropOne (h : String) : List String → List String
  | [] => []
  | x :: t => if x = h then t else x :: t

/-- remove `h` from the front of every sequence that starts with it, drop sequences that became empty -/
def dropHead (h : String) (seqs : List (List String)) : List (List String) :=
  (seqs.map (dropOne h)).filter (· ≠ [])

/-- `merge` with fuel: `none` = inconsistent hierarchy (Python raises TypeError "Cannot create a consistent method
resolution order") — or fuel exhausted, which `c3_mergeFuel_complete` in `Lemmas/C3Proofs.lean` excludes for the fuel
`merge` uses (every round removes at least one element) -/
def mergeFuel : Nat → List (List String) → Option (List String)
  | 0, seqs => if seqs.isEmpty then some [] else none
  | n + 1, seqs =>
    if seqs.isEmpty then some []
    else
      match pickHead seqs with
      | none => none
      | some h => (mergeFuel n (dropHead h seqs)).map (h :: ·)

def merge (seqs : List (List String)) : Option (List String) :=
  mergeFuel ((seqs.map List.length).sum + 1) (seqs.filter (· ≠ []))

/-- the linearisation of a class `c` with direct bases `bases` whose own linearisations are `lins` (in the same order):
`c :: merge (lins ++ [bases])` — exactly CPython's `mro_implementation` -/
def linearize (c : String) (bases : List String) (lins : List (List String)) : Option (List String) :=
  (merge (lins ++ [bases])).map (c :: ·)

/-! ## sanity checks -/

-- single inheritance chain  C(B), B(A), A(object)
#eval linearize "A" ["object"] [["object"]]
#eval linearize "B" ["A"] [["A", "object"]]
#eval linearize "C" ["B"] [["B", "A", "object"]]
example : linearize "C" ["B"] [["B", "A", "object"]] = some ["C", "B", "A", "object"] := by decide

-- no bases at all (only `object` itself)
example : linearize "object" [] [] = some ["object"] := by decide

-- the diamond  D(B, C), B(A), C(A)
#eval linearize "D" ["B", "C"] [["B", "A", "object"], ["C", "A", "object"]]
example : linearize "D" ["B", "C"] [["B", "A", "object"], ["C", "A", "object"]]
    = some ["D", "B", "C", "A", "object"] := by decide

-- the classic inconsistent case  X(A, B), Y(B, A), Z(X, Y)
#eval linearize "X" ["A", "B"] [["A", "object"], ["B", "object"]]
#eval linearize "Y" ["B", "A"] [["B", "object"], ["A", "object"]]
#eval linearize "Z" ["X", "Y"] [["X", "A", "B", "object"], ["Y", "B", "A", "object"]]
example : linearize "X" ["A", "B"] [["A", "object"], ["B", "object"]] = some ["X", "A", "B", "object"] := by decide
example : linearize "Y" ["B", "A"] [["B", "object"], ["A", "object"]] = some ["Y", "B", "A", "object"] := by decide
example : linearize "Z" ["X", "Y"] [["X", "A", "B", "object"], ["Y", "B", "A", "object"]] = none := by decide

-- a base listed before its own subclass is inconsistent as well:  class E(A, B) with B(A)
example : linearize "E" ["A", "B"] [["A", "object"], ["B", "A", "object"]] = none := by decide

-- a mixin case  K(M1, P, M2), P(Q), Q(object), M1(object), M2(object)
#eval linearize "K" ["M1", "P", "M2"] [["M1", "object"], ["P", "Q", "object"], ["M2", "object"]]
example : linearize "K" ["M1", "P", "M2"] [["M1", "object"], ["P", "Q", "object"], ["M2", "object"]]
    = some ["K", "M1", "P", "Q", "M2", "object"] := by decide

-- the example from the Python 2.3 MRO paper:  A(B, C), B(D, E), C(D, F), D(O), E(O), F(O)
example : linearize "A" ["B", "C"] [["B", "D", "E", "O"], ["C", "D", "F", "O"]]
    = some ["A", "B", "C", "D", "E", "F", "O"] := by decide

end PaneModel.C3
